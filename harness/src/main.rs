mod codec;
mod rng;
use std::io::Write;

fn arg(name: &str, default: &str) -> String {
    let a: Vec<String> = std::env::args().collect();
    a.iter().position(|x| x == name).and_then(|i| a.get(i + 1).cloned()).unwrap_or_else(|| default.to_string())
}
fn write_lines(path: &str, lines: &[String]) {
    let mut f = std::io::BufWriter::new(std::fs::File::create(path).unwrap());
    for l in lines { writeln!(f, "{}", l).unwrap(); }
}
fn json_str(s: &str) -> String {
    let mut o = String::from("\"");
    for c in s.chars() { match c { '"' => o.push_str("\\\""), '\\' => o.push_str("\\\\"), '\n' => o.push_str("\\n"), c if (c as u32) < 32 => o.push_str(&format!("\\u{:04x}", c as u32)), c => o.push(c) } }
    o.push('"'); o
}

fn main() {
    let cmd = std::env::args().nth(1).unwrap_or_default();
    let seed: u64 = arg("--seed", "1").parse().unwrap();
    let n: usize = arg("--n", "100").parse().unwrap();
    let out = arg("--out", "/verif/work");
    std::fs::create_dir_all(&out).unwrap();
    if std::env::var("HCV_PANICS").is_err() { std::panic::set_hook(Box::new(|_| {})); }
    match cmd.as_str() {
        "codec" => {
            let (ops, outs, st) = codec::run(seed, n);
            write_lines(&format!("{out}/ops.txt"), &ops);
            write_lines(&format!("{out}/impl.out"), &outs);
            let fails: Vec<String> = st.oracle_failures.iter().take(40).map(|(k, d, l)| format!("{{\"key\":{},\"detail\":{},\"line\":{}}}", json_str(k), json_str(d), l)).collect();
            let by: Vec<String> = st.by_type.iter().map(|(k, v)| format!("{}:{}", json_str(k), v)).collect();
            let stats = format!("{{\"cases\":{},\"distinct\":{},\"prefixes\":{},\"oracle_failures\":{},\"failures\":[{}],\"by_type\":{{{}}}}}",
                st.cases, st.distinct, st.prefixes, st.oracle_failures.len(), fails.join(","), by.join(","));
            std::fs::write(format!("{out}/stats.json"), stats).unwrap();
        }
        _ => { eprintln!("unknown command"); std::process::exit(2); }
    }
}
