mod backend;
mod codec;
mod gen;
mod reftree;
mod jslayout;
mod rng;
mod sched;
mod sim;
mod watchdog;
use std::io::Write;

fn arg(name: &str, default: &str) -> String {
    let a: Vec<String> = std::env::args().collect();
    a.iter().position(|x| x == name).and_then(|i| a.get(i + 1).cloned()).unwrap_or_else(|| default.to_string())
}
fn write_lines(path: &str, lines: &[String]) {
    let mut f = std::io::BufWriter::new(std::fs::File::create(path).unwrap());
    for l in lines { writeln!(f, "{}", l).unwrap(); }
}
fn json_str(s: &str) -> String {
    let mut o = String::from("\"");
    for c in s.chars() { match c { '"' => o.push_str("\\\""), '\\' => o.push_str("\\\\"), '\n' => o.push_str("\\n"), c if (c as u32) < 32 => o.push_str(&format!("\\u{:04x}", c as u32)), c => o.push(c) } }
    o.push('"'); o
}

fn finish(out: &str, o: gen::RunOut) {
    write_lines(&format!("{out}/ops.txt"), &o.ops);
    write_lines(&format!("{out}/impl.out"), &o.outs);
    let fails: Vec<String> = o.failures.iter().take(60).map(|f| format!("{{\"key\":{},\"detail\":{},\"line\":{}}}", json_str(&f.key), json_str(&f.detail), f.line)).collect();
    let st: Vec<String> = o.stats.iter().map(|(k, v)| format!("{}:{}", json_str(k), v)).collect();
    let samples: Vec<String> = o.samples.iter().map(|s| json_str(s)).collect();
    let stats = format!("{{{},\"n_failures\":{},\"failures\":[{}],\"samples\":[{}]}}", st.join(","), o.failures.len(), fails.join(","), samples.join(","));
    std::fs::write(format!("{out}/stats.json"), stats).unwrap();
}

fn main() {
    let cmd = std::env::args().nth(1).unwrap_or_default();
    let seed: u64 = arg("--seed", "1").parse().unwrap();
    let n: usize = arg("--n", "100").parse().unwrap();
    let out = arg("--out", "/verif/work");
    std::fs::create_dir_all(&out).unwrap();
    // the disk backend (random-access-disk with the tokio feature) needs a runtime context
    let rt = tokio::runtime::Builder::new_multi_thread().worker_threads(2).enable_all().build().unwrap();
    let _guard = rt.enter();
    watchdog::start(out.clone(), arg("--hang-ms", "60000").parse().unwrap());
    if std::env::var("HCV_PANICS").is_err() { std::panic::set_hook(Box::new(|_| {})); }
    match cmd.as_str() {
        "codec" => {
            let (ops, outs, st) = codec::run(seed, n);
            write_lines(&format!("{out}/ops.txt"), &ops);
            write_lines(&format!("{out}/impl.out"), &outs);
            let fails: Vec<String> = st.oracle_failures.iter().take(40).map(|(k, d, l)| format!("{{\"key\":{},\"detail\":{},\"line\":{}}}", json_str(k), json_str(d), l)).collect();
            let by: Vec<String> = st.by_type.iter().map(|(k, v)| format!("{}:{}", json_str(k), v)).collect();
            let stats = format!("{{\"cases\":{},\"distinct\":{},\"prefixes\":{},\"oracle_failures\":{},\"failures\":[{}],\"by_type\":{{{}}}}}",
                st.cases, st.distinct, st.prefixes, st.oracle_failures.len(), fails.join(","), by.join(","));
            std::fs::write(format!("{out}/stats.json"), stats).unwrap();
        }
        "log" | "crash" | "torn" => {
            let mode = match cmd.as_str() { "log" => gen::Mode::Log, "crash" => gen::Mode::Crash, _ => gen::Mode::Torn };
            let kind = arg("--kind", "random");
            let maxops: u64 = arg("--maxops", "30").parse().unwrap();
            let depth: usize = arg("--depth", "3").parse().unwrap();
            let big = arg("--big", "0") == "1";
            let o = if kind == "double" { gen::double_crash_histories(seed, n) } else if kind == "bits" { gen::bit_batch_histories(seed, n, mode) } else if kind == "empties" { gen::empties_histories(seed, n) } else if kind == "words" { gen::word_histories(seed, n) } else if kind == "large" { gen::large_histories(seed, n, mode == gen::Mode::Crash) } else if kind == "random" { gen::random_histories(seed, n, maxops, mode, big) } else { gen::exhaustive_histories(depth, mode, n, seed) };
            finish(&out, o);
        }
        "adv" => {
            let maxlen: u64 = arg("--maxlen", "12").parse().unwrap();
            finish(&out, gen::adversarial_histories(seed, n, maxlen, arg("--kind", "alter") == "requests"));
        }
        "configs" => { finish(&out, gen::config_histories(seed, n, arg("--maxops", "25").parse().unwrap())); }
        "events" => { finish(&out, gen::event_histories(seed, n, arg("--maxops", "25").parse().unwrap())); }
        "readonly" => { finish(&out, gen::readonly_histories(seed, n, arg("--maxops", "8").parse().unwrap(), arg("--crash", "0") == "1")); }
        "backends" => { finish(&out, gen::backend_sequences(seed, n)); }
        "faults" => {
            let kind = arg("--kind", "writer");
            if kind == "replica" || kind == "replica-events" { finish(&out, gen::fault_replica_histories(seed, n, kind == "replica-events")); }
            else { finish(&out, gen::fault_histories(seed, n, arg("--maxops", "8").parse().unwrap(), kind == "events")); }
        }
        "tree" => { finish(&out, gen::tree_histories(seed, n, arg("--maxlen", "70").parse().unwrap())); }
        "layout" => { finish(&out, gen::layout_histories(seed, n, arg("--maxops", "14").parse().unwrap())); }
        "script" => { finish(&out, gen::script(&arg("--file", "/dev/stdin"))); }
        "sched" => { finish(&out, sched::schedules(seed, n)); }
        "repl" => {
            let maxlen: u64 = arg("--maxlen", "20").parse().unwrap();
            let mode = match arg("--mode", "log").as_str() { "crash" => gen::Mode::Crash, "torn" => gen::Mode::Torn, _ => gen::Mode::Log };
            if arg("--kind", "random") == "page" { finish(&out, gen::page_replica_histories(seed, n)); } else { finish(&out, gen::replication_histories(seed, n, maxlen, mode)); }
        }
        _ => { eprintln!("unknown command"); std::process::exit(2); }
    }
}
