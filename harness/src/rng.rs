//! One PRNG state; every random choice in the harness derives from it (splitmix64).
#[derive(Clone, Debug)]
pub struct Rng(pub u64);
impl Rng {
    pub fn new(seed: u64) -> Self { Rng(seed ^ 0x9E37_79B9_7F4A_7C15) }
    pub fn next(&mut self) -> u64 {
        self.0 = self.0.wrapping_add(0x9E37_79B9_7F4A_7C15);
        let mut z = self.0;
        z = (z ^ (z >> 30)).wrapping_mul(0xBF58_476D_1CE4_E5B9);
        z = (z ^ (z >> 27)).wrapping_mul(0x94D0_49BB_1331_11EB);
        z ^ (z >> 31)
    }
    pub fn below(&mut self, n: u64) -> u64 { if n == 0 { 0 } else { self.next() % n } }
    pub fn range(&mut self, lo: u64, hi: u64) -> u64 { lo + self.below(hi - lo + 1) }
    pub fn chance(&mut self, num: u64, den: u64) -> bool { self.below(den) < num }
    pub fn pick<'a, T>(&mut self, xs: &'a [T]) -> &'a T { &xs[self.below(xs.len() as u64) as usize] }
    pub fn bytes(&mut self, n: usize) -> Vec<u8> { (0..n).map(|_| self.next() as u8).collect() }
    pub fn fork(&mut self) -> Rng { Rng::new(self.next()) }
}
pub fn hex(b: &[u8]) -> String {
    if b.is_empty() { return "-".into(); }
    let mut s = String::with_capacity(b.len() * 2);
    for x in b { s.push_str(&format!("{:02x}", x)); }
    s
}
pub fn unhex(s: &str) -> Vec<u8> {
    if s == "-" { return vec![]; }
    (0..s.len() / 2).map(|i| u8::from_str_radix(&s[2 * i..2 * i + 2], 16).unwrap()).collect()
}
/// FNV-1a 64 — used to count distinct cases
pub fn fnv(s: &str) -> u64 {
    let mut h: u64 = 0xcbf29ce484222325;
    for b in s.as_bytes() { h ^= *b as u64; h = h.wrapping_mul(0x100000001b3); }
    h
}
