//! Instrumented in-memory RandomAccess backend: a flat byte file per store, a journal of every
//! mutating operation, single-operation fault injection, and optional suspension (Pending once) at
//! every storage operation for the deterministic scheduler.
use futures::future::FutureExt;
use hypercore::{Storage, StorageTraits, Store};
use random_access_storage::{RandomAccess, RandomAccessError};
use std::future::Future;
use std::pin::Pin;
use std::sync::{Arc, Mutex};
use std::task::{Context, Poll};

pub const TREE: usize = 0;
pub const DATA: usize = 1;
pub const BITFIELD: usize = 2;
pub const OPLOG: usize = 3;
pub const STORE_CH: [char; 4] = ['T', 'D', 'B', 'O'];

#[derive(Debug, Clone, PartialEq)]
pub enum Op {
    Write(usize, u64, Vec<u8>),
    Del(usize, u64, u64),
    Trunc(usize, u64),
}

pub type Files = [Vec<u8>; 4];

pub fn apply(files: &mut Files, op: &Op) {
    match op {
        Op::Write(s, off, d) => {
            let v = &mut files[*s];
            let end = *off as usize + d.len();
            if v.len() < end { v.resize(end, 0); }
            v[*off as usize..end].copy_from_slice(d);
        }
        Op::Del(s, off, len) => {
            let v = &mut files[*s];
            let l = v.len() as u64;
            if *len == 0 || *off > l { return; }
            if off + len >= l { v.truncate(*off as usize); } else { for b in &mut v[*off as usize..(*off + *len) as usize] { *b = 0; } }
        }
        Op::Trunc(s, len) => { files[*s].resize(*len as usize, 0); }
    }
}

#[derive(Debug, Default)]
pub struct World {
    pub files: Files,
    pub journal: Vec<Op>,
    /// count of all storage operations (reads and length queries included)
    pub nops: u64,
    /// fail the operation with this ordinal (0-based, counted from the last reset)
    pub fail_at: Option<u64>,
    pub failed: bool,
    /// suspend once at every storage operation
    pub yielding: bool,
    /// log of all operations incl. reads: for fault enumeration
    pub kinds: Vec<char>,
    /// node cache configuration for cores opened on this storage (None = no cache)
    pub cache: Option<u64>,
    /// which backend the four stores live on (default: the instrumented flat files above)
    pub kind: Kind,
    /// pass `overwrite = true` to the next `Storage::open` / `Storage::new_disk`
    pub overwrite: bool,
}
pub type Shared = Arc<Mutex<World>>;

/// alternative backends for the configuration-independence check (C14)
#[derive(Debug, Clone, Default)]
pub enum Kind {
    #[default]
    Inst,
    Mem(Arc<[Arc<futures::lock::Mutex<random_access_memory::RandomAccessMemory>>; 4]>),
    Disk(Arc<tempfile::TempDir>),
}

#[derive(Debug)]
pub struct SharedRA<T>(pub Arc<futures::lock::Mutex<T>>);
#[async_trait::async_trait]
impl<T: RandomAccess + Send + std::fmt::Debug> RandomAccess for SharedRA<T> {
    async fn write(&mut self, offset: u64, data: &[u8]) -> Result<(), RandomAccessError> { self.0.lock().await.write(offset, data).await }
    async fn read(&mut self, offset: u64, length: u64) -> Result<Vec<u8>, RandomAccessError> { self.0.lock().await.read(offset, length).await }
    async fn del(&mut self, offset: u64, length: u64) -> Result<(), RandomAccessError> { self.0.lock().await.del(offset, length).await }
    async fn truncate(&mut self, length: u64) -> Result<(), RandomAccessError> { self.0.lock().await.truncate(length).await }
    async fn len(&mut self) -> Result<u64, RandomAccessError> { self.0.lock().await.len().await }
    async fn is_empty(&mut self) -> Result<bool, RandomAccessError> { self.0.lock().await.is_empty().await }
    async fn sync_all(&mut self) -> Result<(), RandomAccessError> { self.0.lock().await.sync_all().await }
}
pub const STORE_NAMES: [&str; 4] = ["tree", "data", "bitfield", "oplog"];

/// raw bytes of the four stores under any backend
pub fn dump_files(w: &Shared) -> Files {
    let kind = w.lock().unwrap().kind.clone();
    match kind {
        Kind::Inst => w.lock().unwrap().files.clone(),
        Kind::Mem(m) => {
            let mut out: Files = Default::default();
            for i in 0..4 { out[i] = block_on(async { let mut g = m[i].lock().await; let l = g.len().await.unwrap(); g.read(0, l).await.unwrap() }); }
            out
        }
        Kind::Disk(d) => {
            let mut out: Files = Default::default();
            for i in 0..4 { out[i] = std::fs::read(d.path().join(STORE_NAMES[i])).unwrap_or_default(); }
            out
        }
    }
}

pub fn new_world(files: Files) -> Shared { Arc::new(Mutex::new(World { files, ..Default::default() })) }

pub struct YieldOnce(bool);
impl Future for YieldOnce {
    type Output = ();
    fn poll(mut self: Pin<&mut Self>, _cx: &mut Context<'_>) -> Poll<()> {
        if self.0 { Poll::Ready(()) } else { self.0 = true; Poll::Pending }
    }
}

#[derive(Debug)]
pub struct Mem { w: Shared, s: usize }
impl Mem {
    /// bookkeeping common to every operation; Err = injected fault
    fn enter(&self, kind: char) -> Result<bool, RandomAccessError> {
        let mut w = self.w.lock().unwrap();
        let n = w.nops;
        w.nops += 1;
        w.kinds.push(kind);
        if w.fail_at == Some(n) {
            w.failed = true;
            return Err(RandomAccessError::IO { return_code: Some(5), context: Some(format!("injected fault at storage operation {n}")), source: std::io::Error::new(std::io::ErrorKind::Other, "injected") });
        }
        Ok(w.yielding)
    }
}
#[async_trait::async_trait]
impl RandomAccess for Mem {
    async fn write(&mut self, offset: u64, data: &[u8]) -> Result<(), RandomAccessError> {
        if self.enter('w')? { YieldOnce(false).await }
        let mut w = self.w.lock().unwrap();
        let op = Op::Write(self.s, offset, data.to_vec());
        apply(&mut w.files, &op);
        w.journal.push(op);
        Ok(())
    }
    async fn read(&mut self, offset: u64, length: u64) -> Result<Vec<u8>, RandomAccessError> {
        if self.enter('r')? { YieldOnce(false).await }
        let w = self.w.lock().unwrap();
        let v = &w.files[self.s];
        if offset + length > v.len() as u64 {
            return Err(RandomAccessError::OutOfBounds { offset, end: Some(offset + length), length: v.len() as u64 });
        }
        Ok(v[offset as usize..(offset + length) as usize].to_vec())
    }
    async fn del(&mut self, offset: u64, length: u64) -> Result<(), RandomAccessError> {
        if self.enter('d')? { YieldOnce(false).await }
        let mut w = self.w.lock().unwrap();
        let l = w.files[self.s].len() as u64;
        if offset > l { return Err(RandomAccessError::OutOfBounds { offset, end: None, length: l }); }
        let op = Op::Del(self.s, offset, length);
        apply(&mut w.files, &op);
        w.journal.push(op);
        Ok(())
    }
    async fn truncate(&mut self, length: u64) -> Result<(), RandomAccessError> {
        if self.enter('t')? { YieldOnce(false).await }
        let mut w = self.w.lock().unwrap();
        let op = Op::Trunc(self.s, length);
        apply(&mut w.files, &op);
        w.journal.push(op);
        Ok(())
    }
    async fn len(&mut self) -> Result<u64, RandomAccessError> {
        if self.enter('l')? { YieldOnce(false).await }
        Ok(self.w.lock().unwrap().files[self.s].len() as u64)
    }
    async fn is_empty(&mut self) -> Result<bool, RandomAccessError> { Ok(self.w.lock().unwrap().files[self.s].is_empty()) }
    async fn sync_all(&mut self) -> Result<(), RandomAccessError> { Ok(()) }
}

pub fn store_idx(store: &Store) -> usize {
    match store { Store::Tree => TREE, Store::Data => DATA, Store::Bitfield => BITFIELD, Store::Oplog => OPLOG }
}

pub async fn storage(w: &Shared) -> Result<Storage, hypercore::HypercoreError> {
    let kind = w.lock().unwrap().kind.clone();
    let overwrite = std::mem::take(&mut w.lock().unwrap().overwrite);
    match kind {
        Kind::Inst => {}
        Kind::Mem(m) => {
            return Storage::open(move |store: Store| {
                let inner = m[store_idx(&store)].clone();
                async move { Ok(Box::new(SharedRA(inner)) as Box<dyn StorageTraits + Send>) }.boxed()
            }, overwrite).await;
        }
        Kind::Disk(d) => { return Storage::new_disk(&d.path().to_path_buf(), overwrite).await; }
    }
    let w = w.clone();
    Storage::open(
        move |store: Store| {
            let s = store_idx(&store);
            let w = w.clone();
            async move { Ok(Box::new(Mem { w, s }) as Box<dyn StorageTraits + Send>) }.boxed()
        },
        overwrite,
    )
    .await
}

/// Drive a future to completion on this thread; every storage operation of the instrumented
/// backend is ready immediately unless `yielding` is set (then it is simply polled again).
pub fn block_on<F: Future>(f: F) -> F::Output {
    let mut f = Box::pin(f);
    let w = futures::task::noop_waker();
    let mut cx = Context::from_waker(&w);
    loop {
        if let Poll::Ready(v) = f.as_mut().poll(&mut cx) { return v; }
    }
}
