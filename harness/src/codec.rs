//! C11: run the crate's CompactEncoding impls on generated values; print one op line (for the Lean
//! driver) and one observation line per case.
use crate::rng::{hex, Rng};
use compact_encoding::CompactEncoding;
use hypercore::{DataBlock, DataHash, DataSeek, DataUpgrade, Node, RequestBlock, RequestSeek, RequestUpgrade};
use merkle_tree_stream::Node as NodeTrait;
use std::fmt::Write as _;
use std::panic::{catch_unwind, AssertUnwindSafe};

pub const BOUNDARY: [u64; 16] = [
    0, 1, 252, 253, 254, 65535, 65536, 65537, 0xffff_fffe, 0xffff_ffff, 0x1_0000_0000, 0x1_0000_0001,
    (1 << 40) - 1, 1 << 40, u64::MAX - 1, u64::MAX,
];
pub fn gen_u64(r: &mut Rng) -> u64 {
    match r.below(10) {
        0..=5 => *r.pick(&BOUNDARY),
        6 => r.below(300),
        7 => r.below(70000),
        8 => r.next() >> r.below(64),
        _ => r.next(),
    }
}
fn gen_node(r: &mut Rng) -> Node {
    let h = if r.chance(1, 8) { vec![0u8; 32] } else { r.bytes(32) };
    let (i, l) = (gen_u64(r), gen_u64(r));
    match catch_unwind(AssertUnwindSafe(|| Node::new(i, h.clone(), l))) {
        Ok(n) => n,
        Err(_) => { NODE_NEW_PANICS.with(|c| c.borrow_mut().push(i)); Node::new(i & !(7 << 61), h, l) }
    }
}
thread_local! { pub static HAND_MISMATCH: std::cell::RefCell<Option<String>> = std::cell::RefCell::new(None); }
thread_local! { pub static NODE_NEW_PANICS: std::cell::RefCell<Vec<u64>> = std::cell::RefCell::new(vec![]); }
fn gen_nodes(r: &mut Rng) -> Vec<Node> {
    let n = match r.below(6) { 0 => 0, 1 => 1, 2 => 8, _ => r.below(9) };
    (0..n).map(|_| gen_node(r)).collect()
}
fn gen_bytes(r: &mut Rng) -> Vec<u8> {
    let n = match r.below(8) { 0 => 0, 1 => 252, 2 => 253, 3 => 300, 4 => 64, _ => r.below(301) };
    r.bytes(n as usize)
}
pub fn node_txt(n: &Node) -> String { format!("{}:{}:{}", n.index(), n.len(), hex(n.hash())) }
pub fn nodes_txt(ns: &[Node]) -> String {
    if ns.is_empty() { "-".into() } else { ns.iter().map(node_txt).collect::<Vec<_>>().join(",") }
}

// ---- independent encoder: compact-encoding written out by hand, fields in protocol order
fn v_uint(o: &mut Vec<u8>, n: u64) {
    if n < 253 { o.push(n as u8) } else if n <= 0xffff { o.push(0xfd); o.extend_from_slice(&(n as u16).to_le_bytes()) }
    else if n <= 0xffff_ffff { o.push(0xfe); o.extend_from_slice(&(n as u32).to_le_bytes()) } else { o.push(0xff); o.extend_from_slice(&n.to_le_bytes()) }
}
fn v_buf(o: &mut Vec<u8>, b: &[u8]) { v_uint(o, b.len() as u64); o.extend_from_slice(b); }
fn v_node(o: &mut Vec<u8>, n: &Node) { v_uint(o, n.index()); v_uint(o, n.len()); o.extend_from_slice(n.hash()); }
fn v_nodes(o: &mut Vec<u8>, ns: &[Node]) { v_uint(o, ns.len() as u64); for n in ns { v_node(o, n); } }
pub trait HandEnc { fn hand(&self) -> Vec<u8>; }
impl HandEnc for Node { fn hand(&self) -> Vec<u8> { let mut o = vec![]; v_node(&mut o, self); o } }
impl HandEnc for RequestBlock { fn hand(&self) -> Vec<u8> { let mut o = vec![]; v_uint(&mut o, self.index); v_uint(&mut o, self.nodes); o } }
impl HandEnc for RequestSeek { fn hand(&self) -> Vec<u8> { let mut o = vec![]; v_uint(&mut o, self.bytes); o } }
impl HandEnc for RequestUpgrade { fn hand(&self) -> Vec<u8> { let mut o = vec![]; v_uint(&mut o, self.start); v_uint(&mut o, self.length); o } }
impl HandEnc for DataBlock { fn hand(&self) -> Vec<u8> { let mut o = vec![]; v_uint(&mut o, self.index); v_buf(&mut o, &self.value); v_nodes(&mut o, &self.nodes); o } }
impl HandEnc for DataHash { fn hand(&self) -> Vec<u8> { let mut o = vec![]; v_uint(&mut o, self.index); v_nodes(&mut o, &self.nodes); o } }
impl HandEnc for DataSeek { fn hand(&self) -> Vec<u8> { let mut o = vec![]; v_uint(&mut o, self.bytes); v_nodes(&mut o, &self.nodes); o } }
impl HandEnc for DataUpgrade { fn hand(&self) -> Vec<u8> { let mut o = vec![]; v_uint(&mut o, self.start); v_uint(&mut o, self.length); v_nodes(&mut o, &self.nodes); v_nodes(&mut o, &self.additional_nodes); v_buf(&mut o, &self.signature); o } }

/// Evaluate one value: encoded_size, encode, decode(enc), decode(enc ++ tail), every strict prefix.
fn eval<T: CompactEncoding + PartialEq + std::fmt::Debug + HandEnc>(v: &T, txt: impl Fn(&T) -> String) -> (String, usize, usize) {
    let r = catch_unwind(AssertUnwindSafe(|| {
        let size = v.encoded_size().map_err(|e| format!("{e}"))?;
        let mut buf = vec![0u8; size];
        let rest_len = v.encode(&mut buf).map_err(|e| format!("{e}"))?.len();
        let written = size - rest_len;
        let mut out = format!("size={} written={} enc={}", size, written, hex(&buf));
        if v.hand() != buf { HAND_MISMATCH.with(|c| *c.borrow_mut() = Some(hex(&v.hand()))); }
        match T::decode(&buf) {
            Ok((d, rest)) => { let _ = write!(out, " dec=ok:{} rest={} same={}", txt(&d), rest.len(), &d == v); }
            Err(_) => out.push_str(" dec=err"),
        }
        let mut tail = buf.clone(); tail.extend_from_slice(&[0xaa, 0xbb, 0xcc]);
        match T::decode(&tail) {
            Ok((d, rest)) => { let _ = write!(out, " tail=ok:{}:{}", &d == v, hex(rest)); }
            Err(_) => out.push_str(" tail=err"),
        }
        let mut errs = 0usize;
        let mut bad: Vec<usize> = vec![];
        for k in 0..buf.len() {
            match catch_unwind(AssertUnwindSafe(|| T::decode(&buf[..k]).is_err())) {
                Ok(true) => errs += 1,
                Ok(false) => bad.push(k),
                Err(_) => { bad.push(k); out.push_str(&format!(" PANIC@{k}")); }
            }
        }
        let _ = write!(out, " prefixes={} prefix_errs={} prefix_ok_at={:?}", buf.len(), errs, bad);
        Ok::<_, String>((out, buf.len(), bad.len()))
    }));
    match r {
        Ok(Ok(x)) => x,
        Ok(Err(e)) => (format!("encode-error {}", e.chars().take(40).collect::<String>()), 0, 0),
        Err(_) => ("PANIC".into(), 0, 1),
    }
}

pub struct CodecStats { pub cases: usize, pub prefixes: usize, pub distinct: usize, pub oracle_failures: Vec<(String, String, usize)>, pub by_type: std::collections::BTreeMap<&'static str, usize> }

/// Generates `n` cases; returns (ops lines, impl observation lines, stats). The oracle on the
/// implementation itself: written == size, decode(enc) == value with nothing left, tail preserved,
/// every strict prefix an error and never a panic.
pub fn run(seed: u64, n: usize) -> (Vec<String>, Vec<String>, CodecStats) {
    let mut r = Rng::new(seed);
    let mut ops = vec![]; let mut outs = vec![];
    let mut st = CodecStats { cases: 0, prefixes: 0, distinct: 0, oracle_failures: vec![], by_type: Default::default() };
    let mut seen = std::collections::HashSet::new();
    for i in 0..n {
        let kind = i % 8;
        let (op, (out, plen, bad), name): (String, (String, usize, usize), &'static str) = match kind {
            0 => { let v = gen_node(&mut r); (format!("codec Node {}", node_txt(&v)), eval(&v, node_txt), "Node") }
            1 => { let v = RequestBlock { index: gen_u64(&mut r), nodes: gen_u64(&mut r) };
                   (format!("codec RequestBlock {} {}", v.index, v.nodes), eval(&v, |d| format!("{} {}", d.index, d.nodes)), "RequestBlock") }
            2 => { let v = RequestSeek { bytes: gen_u64(&mut r) };
                   (format!("codec RequestSeek {}", v.bytes), eval(&v, |d| format!("{}", d.bytes)), "RequestSeek") }
            3 => { let v = RequestUpgrade { start: gen_u64(&mut r), length: gen_u64(&mut r) };
                   (format!("codec RequestUpgrade {} {}", v.start, v.length), eval(&v, |d| format!("{} {}", d.start, d.length)), "RequestUpgrade") }
            4 => { let v = DataBlock { index: gen_u64(&mut r), value: gen_bytes(&mut r), nodes: gen_nodes(&mut r) };
                   let t = |d: &DataBlock| format!("{} {} {}", d.index, hex(&d.value), nodes_txt(&d.nodes));
                   (format!("codec DataBlock {}", t(&v)), eval(&v, t), "DataBlock") }
            5 => { let v = DataHash { index: gen_u64(&mut r), nodes: gen_nodes(&mut r) };
                   let t = |d: &DataHash| format!("{} {}", d.index, nodes_txt(&d.nodes));
                   (format!("codec DataHash {}", t(&v)), eval(&v, t), "DataHash") }
            6 => { let v = DataSeek { bytes: gen_u64(&mut r), nodes: gen_nodes(&mut r) };
                   let t = |d: &DataSeek| format!("{} {}", d.bytes, nodes_txt(&d.nodes));
                   (format!("codec DataSeek {}", t(&v)), eval(&v, t), "DataSeek") }
            _ => { let v = DataUpgrade { start: gen_u64(&mut r), length: gen_u64(&mut r), nodes: gen_nodes(&mut r), additional_nodes: gen_nodes(&mut r), signature: gen_bytes(&mut r) };
                   let t = |d: &DataUpgrade| format!("{} {} {} {} {}", d.start, d.length, nodes_txt(&d.nodes), nodes_txt(&d.additional_nodes), hex(&d.signature));
                   (format!("codec DataUpgrade {}", t(&v)), eval(&v, t), "DataUpgrade") }
        };
        st.cases += 1; st.prefixes += plen; *st.by_type.entry(name).or_insert(0) += 1;
        let ok = bad == 0 && out.contains(" same=true") && out.contains(" rest=0 ") && out.contains(" tail=ok:true:aabbcc") && {
            // written == size
            let sz = out.split(' ').find(|s| s.starts_with("size=")).map(|s| s[5..].to_string());
            let wr = out.split(' ').find(|s| s.starts_with("written=")).map(|s| s[8..].to_string());
            sz.is_some() && sz == wr
        };
        if plen > 1 && seen.insert(crate::rng::fnv(&out)) { st.distinct += 1; }
        if !ok { st.oracle_failures.push((format!("codec-oracle:{name}"), format!("{op} => {out}"), ops.len())); }
        if let Some(h) = HAND_MISMATCH.with(|c| c.borrow_mut().take()) {
            st.oracle_failures.push((format!("codec-bytes:{name}"), format!("{op} => the crate wrote {} but the compact-encoding of the fields in protocol order is {h}", out.split(' ').find(|s| s.starts_with("enc=")).unwrap_or("")), ops.len()));
        }
        let panics: Vec<u64> = NODE_NEW_PANICS.with(|c| c.borrow_mut().drain(..).collect());
        for i in panics {
            st.oracle_failures.push((format!("node-new-panic:index={i}"), format!("Node::new(index={i}, ..) panicked (arithmetic overflow) while building a {name}; the value cannot even be constructed, so its encoding cannot round-trip"), ops.len()));
        }
        ops.push(op); outs.push(out);
    }
    // directed: valid encodings of nodes whose index sits at the top of the u64 range
    for idx in [u64::MAX, (1u64 << 63) - 1, (1u64 << 62) - 1, u64::MAX - 1, 1u64 << 63] {
        let mut b = vec![0xffu8]; b.extend_from_slice(&idx.to_le_bytes()); b.push(7); b.extend_from_slice(&[0x11; 32]);
        let out = decode_any("Node", &b);
        if out == "PANIC" { st.oracle_failures.push((format!("node-decode-panic:index={idx}"), format!("Node::decode panics on the valid encoding {} (index {idx})", hex(&b)), ops.len())); }
        ops.push(format!("decode Node {}", hex(&b))); outs.push(out);
    }
    // malformed stream: arbitrary short byte strings decoded as each type (compared with the model only)
    for i in 0..n / 4 {
        let ty = ["Node", "RequestBlock", "RequestSeek", "RequestUpgrade", "DataBlock", "DataHash", "DataSeek", "DataUpgrade"][i % 8];
        let len = r.below(60) as usize;
        let mut b = r.bytes(len);
        // keep list counts small (allocation of a huge Vec is the dependency's business, not C11's)
        // (multi-byte varints therefore only appear in the first field, which is never a count)
        for x in b.iter_mut() { if *x >= 0xfd { *x = r.below(4) as u8; } }
        if r.chance(1, 3) && !b.is_empty() { b[0] = *r.pick(&[0xfdu8, 0xfe, 0xff, 0, 1, 252]); }
        if b.len() > 9 && b[0] >= 0xfd { for x in b[1..9].iter_mut() { if r.chance(1, 2) { *x = (r.next() as u8) % 0xfd; } } }
        let out = decode_any(ty, &b);
        ops.push(format!("decode {} {}", ty, hex(&b))); outs.push(out);
    }
    (ops, outs, st)
}

pub fn decode_any(ty: &str, b: &[u8]) -> String {
    fn fin<T>(r: Result<(T, &[u8]), compact_encoding::EncodingError>, t: impl Fn(&T) -> String) -> String {
        match r { Ok((d, rest)) => format!("ok:{} rest={}", t(&d), rest.len()), Err(_) => "err".into() }
    }
    let r = catch_unwind(AssertUnwindSafe(|| match ty {
        "Node" => fin(Node::decode(b), node_txt),
        "RequestBlock" => fin(RequestBlock::decode(b), |d| format!("{} {}", d.index, d.nodes)),
        "RequestSeek" => fin(RequestSeek::decode(b), |d| format!("{}", d.bytes)),
        "RequestUpgrade" => fin(RequestUpgrade::decode(b), |d| format!("{} {}", d.start, d.length)),
        "DataBlock" => fin(DataBlock::decode(b), |d| format!("{} {} {}", d.index, hex(&d.value), nodes_txt(&d.nodes))),
        "DataHash" => fin(DataHash::decode(b), |d| format!("{} {}", d.index, nodes_txt(&d.nodes))),
        "DataSeek" => fin(DataSeek::decode(b), |d| format!("{} {}", d.bytes, nodes_txt(&d.nodes))),
        _ => fin(DataUpgrade::decode(b), |d| format!("{} {} {} {} {}", d.start, d.length, nodes_txt(&d.nodes), nodes_txt(&d.additional_nodes), hex(&d.signature))),
    }));
    r.unwrap_or_else(|_| "PANIC".into())
}
