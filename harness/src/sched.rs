//! C15: the real `SharedCore` driven by a deterministic single-threaded scheduler (manual `poll`
//! with a no-op waker) over a backend that returns `Pending` once at every storage operation, so
//! that every storage operation and every lock acquisition is a preemption point.
use crate::backend::{self, block_on, Op};
use crate::gen::{RunOut, SEED_HEX};
use crate::rng::{hex, Rng};
use crate::sim::{jfmt, proof_full_txt, proof_txt, show, Failure, Sim};
use hypercore::replication::{CoreInfo, CoreMethods, ReplicationMethods, SharedCore};
use hypercore::{RequestBlock, RequestUpgrade};
use std::collections::{BTreeMap, HashSet};
use std::future::Future;
use std::pin::Pin;
use std::task::{Context, Poll};

const XSEED: &str = "9d61b19deffd5a60ba844af492ec2cc44449c5697b326919703bac031cae7f60";

#[derive(Clone, Debug)]
struct Done { task: usize, line: String, result: String, started: u64, finished: u64 }

async fn run_call(core: SharedCore, line: String) -> String {
    let ws: Vec<&str> = line.split(' ').collect();
    match ws[0] {
        "append" => match core.append(&crate::rng::unhex(ws[2])).await { Ok(o) => format!("ok len={} bl={}", o.length, o.byte_length), Err(_) => "err".into() },
        "batch" => { let bs: Vec<Vec<u8>> = ws[2].split(',').map(crate::rng::unhex).collect(); match core.append_batch(bs).await { Ok(o) => format!("ok len={} bl={}", o.length, o.byte_length), Err(_) => "err".into() } }
        "get" => match core.get(ws[2].parse().unwrap()).await { Ok(Some(v)) => format!("ok some:{}", show(&v)), Ok(None) => "ok none".into(), Err(_) => "err".into() },
        "has" => format!("ok {}", core.has(ws[2].parse().unwrap()).await),
        "info" => { let i = core.info().await; format!("ok len={} bl={} cl={} fork={} w={}", i.length, i.byte_length, i.contiguous_length, i.fork, i.writeable) }
        "missing" => match core.missing_nodes(ws[2].parse().unwrap()).await { Ok(n) => format!("ok {n}"), Err(_) => "err".into() },
        "prove" => {
            let pair = |s: &str| -> Option<(u64, u64)> { if s == "-" { None } else { let mut it = s.split(':'); Some((it.next()?.parse().ok()?, it.next()?.parse().ok()?)) } };
            let r = core.create_proof(pair(ws[2]).map(|(index, nodes)| RequestBlock { index, nodes }), None, None, pair(ws[5]).map(|(start, length)| RequestUpgrade { start, length })).await;
            match r { Ok(Some(p)) => format!("ok {}", proof_txt(&p)), Ok(None) => "ok none".into(), Err(_) => "err".into() }
        }
        "applyp" => { let p = crate::sim::parse_proof(&ws[2..]).unwrap(); match core.verify_and_apply_proof(&p).await { Ok(b) => format!("ok {b}"), Err(_) => "err".into() } }
        _ => "bad-op".into(),
    }
}
fn mutating(line: &str) -> bool { line.starts_with("append") || line.starts_with("batch") || line.starts_with("applyp") }

/// the sequential reference: the same lines on fresh cores through the ordinary executor
fn sequential(setup: &[String], order: &[String]) -> Vec<String> {
    let mut sim = Sim::new();
    sim.check_oracle = false;
    for l in setup { sim.exec(l); }
    order.iter().map(|l| sim.exec(l)).collect()
}

pub fn schedules(seed: u64, n: usize) -> RunOut {
    let mut r = Rng::new(seed);
    let mut out = RunOut { ops: vec![], outs: vec![], stats: BTreeMap::new(), failures: vec![], samples: vec![] };
    let mut seen = HashSet::new();
    for case in 0..n {
        // ---- sequential set-up, through the ordinary executor (so the model starts from the same state)
        let mut sim = Sim::new();
        sim.check_oracle = false;
        let mut setup: Vec<String> = vec![format!("new W {SEED_HEX}"), format!("new X {XSEED}"), "newr R X".into()];
        for _ in 0..r.below(4) { let bl = r.range(1, 6) as usize; setup.push(format!("append W {}", hex(&r.bytes(bl)))); }
        for i in 0..6u8 { setup.push(format!("append X {}", hex(&[0x40 + i, i]))); }
        for l in &setup { sim.exec(l); }
        // "replica race" cases start from a replica that is already synced to length 4 and holds block 1, so that the
        // verification of the racing proofs reads stored nodes (a task can be suspended while it holds the lock, others
        // queue up behind it and the lock is handed over between two acquisitions of one call)
        let race = case % 4 == 1;
        if race {
            let mut step = |sim: &mut Sim, setup: &mut Vec<String>, l: String| -> String { let o = sim.exec(&l); setup.push(l); o };
            let o = step(&mut sim, &mut setup, "prove X - - - 0:6".into());
            if o.starts_with("ok fork") { let t = proof_full_txt(sim.proof.as_ref().unwrap()); step(&mut sim, &mut setup, format!("applyp R {t}")); }
            let o = step(&mut sim, &mut setup, "missing R 1".into());
            let nn: u64 = o.strip_prefix("ok ").and_then(|x| x.parse().ok()).unwrap_or(0);
            let o = step(&mut sim, &mut setup, format!("prove X 1:{nn} - - -"));
            if o.starts_with("ok fork") { let t = proof_full_txt(sim.proof.as_ref().unwrap()); step(&mut sim, &mut setup, format!("applyp R {t}")); }
            // the writer grows: the racing proofs all carry the upgrade 6 -> 8
            step(&mut sim, &mut setup, "append X 4606".into());
            step(&mut sim, &mut setup, "append X 470707".into());
        }
        // proofs for the replica, prepared on a scratch replica
        let mut proofs: Vec<String> = vec![];
        if race {
            let mut s2 = Sim::new(); s2.check_oracle = false;
            for l in &setup { s2.exec(l); }
            for (blk, up) in [("6", "6:2"), ("7", "6:2"), ("-", "6:2")] {
                let b = if blk == "-" { "-".to_string() } else { let o = s2.exec(&format!("missing R {blk}")); format!("{blk}:{}", o.strip_prefix("ok ").and_then(|x| x.parse::<u64>().ok()).unwrap_or(0)) };
                let o = s2.exec(&format!("prove X {b} - - {up}")); if o.starts_with("ok fork") { proofs.push(proof_full_txt(s2.proof.as_ref().unwrap())); }
            }
        } else {
            let mut s2 = Sim::new(); s2.check_oracle = false;
            for l in &setup { s2.exec(l); }
            for (blk, up) in [("0:0", "0:6"), ("3:0", "0:6"), ("-", "0:4")] { let o = s2.exec(&format!("prove X {blk} - - {up}")); if o.starts_with("ok fork") { proofs.push(proof_full_txt(s2.proof.as_ref().unwrap())); } }
            let t = proofs[0].clone(); s2.exec(&format!("applyp R {t}"));
            for i in [1u64, 5] { let o = s2.exec(&format!("missing R {i}")); let nn: u64 = o.strip_prefix("ok ").and_then(|x| x.parse().ok()).unwrap_or(0); let o = s2.exec(&format!("prove X {i}:{nn} - - -")); if o.starts_with("ok fork") { proofs.push(proof_full_txt(s2.proof.as_ref().unwrap())); } }
        }
        // ---- tasks
        let ntasks = r.range(2, 4) as usize;
        let mut progs: Vec<Vec<String>> = vec![];
        // "replica race" cases: every task works on the replica and applies a different proof for the same upgrade
        // (block 0 + upgrade, block 3 + upgrade, upgrade only) after 0-3 reads, under fair lock hand-over — two
        // applications that were both verified against the old tree must still behave like one after the other
        let race = race && proofs.len() >= 3;
        if race { *out.stats.entry("replica_race_cases".into()).or_insert(0) += 1; }
        for t in 0..ntasks {
            if race {
                let mut p = vec![];
                // reads of the held block keep the core busy (storage reads under the lock), so that the other tasks
                // queue up and async-lock switches to fair hand-over before this task's proof application starts
                let busy = [2usize, 0, 3, 1][(t + case / 8) % 4];
                for _ in 0..busy { p.push("get R 1".to_string()); }
                if r.chance(1, 3) { p.push(match r.below(2) { 0 => format!("has R {}", r.below(7)), _ => "info R".to_string() }); }
                p.push(format!("applyp R {}", proofs[(t + case / 4) % 3]));
                if r.chance(1, 2) { p.push(format!("get R {}", [6u64, 7, 1][(t + case / 4) % 3])); }
                progs.push(p);
                continue;
            }
            let ncalls = r.range(1, 4);
            let on_replica = r.chance(1, 3);
            let mut p = vec![];
            for c in 0..ncalls {
                let wl0 = sim.h["W"].oracle.len;
                let line = if on_replica {
                    match r.below(6) { 0..=2 => format!("applyp R {}", r.pick(&proofs)), 3 => format!("get R {}", r.below(7)), 4 => format!("has R {}", r.below(7)), _ => "info R".to_string() }
                } else {
                    match r.below(10) {
                        0..=3 => format!("append W {}", hex(&[t as u8 + 1, c as u8, r.next() as u8])),
                        4 => format!("batch W {},{}", hex(&[t as u8 + 1, 0xb0 + c as u8]), hex(&[t as u8 + 1, 0xc0 + c as u8, 7])),
                        5 => format!("get W {}", r.below(wl0 + 4)),
                        6 => format!("has W {}", r.below(wl0 + 4)),
                        7 => "info W".to_string(),
                        8 => format!("missing W {}", r.below(wl0 + 3)),
                        _ => { let l = r.range(1, wl0 + 2); format!("prove W - - - 0:{l}") }
                    }
                };
                p.push(line);
            }
            progs.push(p);
        }
        // ---- concurrent execution on the real SharedCore
        let wworld = sim.h["W"].world.clone();
        let rworld = sim.h["R"].world.clone();
        let wcore = SharedCore::from(sim.h.get_mut("W").unwrap().core.take().unwrap());
        let rcore = SharedCore::from(sim.h.get_mut("R").unwrap().core.take().unwrap());
        wworld.lock().unwrap().journal.clear(); rworld.lock().unwrap().journal.clear();
        wworld.lock().unwrap().yielding = true; rworld.lock().unwrap().yielding = true;
        let done: std::sync::Arc<std::sync::Mutex<Vec<Done>>> = Default::default();
        let clock = std::sync::Arc::new(std::sync::atomic::AtomicU64::new(0));
        let mut tasks: Vec<Option<Pin<Box<dyn Future<Output = ()>>>>> = vec![];
        for (t, prog) in progs.iter().enumerate() {
            let (prog, w, rc, done, clock) = (prog.clone(), wcore.clone(), rcore.clone(), done.clone(), clock.clone());
            tasks.push(Some(Box::pin(async move {
                for line in prog {
                    let core = if line.split(' ').nth(1) == Some("R") { rc.clone() } else { w.clone() };
                    let started = clock.load(std::sync::atomic::Ordering::SeqCst);
                    let result = run_call(core, line.clone()).await;
                    let finished = clock.load(std::sync::atomic::Ordering::SeqCst);
                    done.lock().unwrap().push(Done { task: t, line, result, started, finished });
                }
            })));
        }
        let waker = futures::task::noop_waker();
        let mut cx = Context::from_waker(&waker);
        let mut schedule: Vec<usize> = vec![];
        let mut jmarks: Vec<(usize, usize)> = vec![]; // journal lengths (W, R) at each completion
        let mut steps = 0u64;
        let mut preempt_mid_call = 0u64;
        // "fair" cases: a pause after every poll lets a task that waits for the lock age past
        // async-lock's anti-starvation threshold (0.5 ms), after which the lock is handed to waiters
        // in FIFO order instead of being re-taken by the task that just released it — so a waiter can
        // run between two lock acquisitions of one call, as it would on a multi-threaded executor.
        let fair = case % 3 == 2 || race;
        if fair { *out.stats.entry("fair_handover_cases".into()).or_insert(0) += 1; }
        while tasks.iter().any(|t| t.is_some()) {
            let live: Vec<usize> = (0..tasks.len()).filter(|i| tasks[*i].is_some()).collect();
            // mostly random; sometimes stick with one task for a burst
            // (every other race case: strict round robin, the schedule with the most hand-overs)
            let rr = race && (case / 4) % 2 == 0;
            let pick = if rr { live[steps as usize % live.len()] } else { live[r.below(live.len() as u64) as usize] };
            let burst = if rr { 1 } else if r.chance(1, 4) { r.range(1, 6) } else { 1 };
            for _ in 0..burst {
                if tasks[pick].is_none() { break; }
                schedule.push(pick); steps += 1;
                clock.store(steps, std::sync::atomic::Ordering::SeqCst);
                let before = done.lock().unwrap().len();
                if let Poll::Ready(()) = tasks[pick].as_mut().unwrap().as_mut().poll(&mut cx) { tasks[pick] = None; }
                let after = done.lock().unwrap().len();
                for _ in before..after { jmarks.push((wworld.lock().unwrap().journal.len(), rworld.lock().unwrap().journal.len())); }
                if after == before { preempt_mid_call += 1; }
                if fair { std::thread::sleep(std::time::Duration::from_micros(800)); }
                if steps > 200_000 { break; }
            }
            if steps > 200_000 { break; }
        }
        let hung = tasks.iter().any(|t| t.is_some());
        wworld.lock().unwrap().yielding = false; rworld.lock().unwrap().yielding = false;
        let done: Vec<Done> = done.lock().unwrap().clone();
        let wj: Vec<Op> = wworld.lock().unwrap().journal.clone();
        let rj: Vec<Op> = rworld.lock().unwrap().journal.clone();
        // observed results in completion order, each with the slice of the journal since the previous completion
        let mut observed: Vec<String> = vec![];
        let (mut pw, mut pr) = (0usize, 0usize);
        for (k, d) in done.iter().enumerate() {
            let (mw, mr) = jmarks.get(k).cloned().unwrap_or((wj.len(), rj.len()));
            let on_r = d.line.split(' ').nth(1) == Some("R");
            let slice: Vec<Op> = if on_r { rj[pr..mr].to_vec() } else { wj[pw..mw].to_vec() };
            if on_r { pr = mr; } else { pw = mw; }
            observed.push(if mutating(&d.line) { format!("{} j={}", d.result, jfmt(&slice)) } else { d.result.clone() });
        }
        let order: Vec<String> = done.iter().map(|d| d.line.clone()).collect();
        let ctx = || format!("tasks {:?} || schedule (task polled at each step) {:?}", progs.iter().map(|p| p.iter().map(|l| l.chars().take(60).collect::<String>()).collect::<Vec<_>>()).collect::<Vec<_>>(), schedule.iter().take(400).collect::<Vec<_>>());
        let lineno = out.ops.len();
        if race && std::env::var("HCVERIF_DEBUG_SCHED").is_ok() { eprintln!("RACE {} :: observed {:?}", ctx().chars().take(700).collect::<String>(), observed.iter().map(|o| o.chars().take(40).collect::<String>()).collect::<Vec<_>>()); }
        if hung { out.failures.push(Failure { key: "shared-core-hang".into(), detail: format!("tasks did not finish within 200000 scheduling steps: {}", ctx()), line: lineno }); }
        // (a) the completion order is the lock order: a sequential run in that order must give the same results
        let seq = sequential(&setup, &order);
        let mut ok = seq == observed;
        if !ok {
            // (b) Wing–Gong search: any order consistent with program order and real-time order
            let ncalls = done.len();
            let results_only = |v: &Vec<String>| v.iter().map(|s| s.split(" j=").next().unwrap().to_string()).collect::<Vec<_>>();
            let obs_r = results_only(&observed);
            let mut perm: Vec<usize> = vec![]; let mut used = vec![false; ncalls];
            fn search(done: &[Done], setup: &[String], obs: &[String], perm: &mut Vec<usize>, used: &mut Vec<bool>, budget: &mut u64) -> bool {
                if *budget == 0 { return false; }
                if perm.len() == done.len() {
                    *budget -= 1;
                    let order: Vec<String> = perm.iter().map(|i| done[*i].line.clone()).collect();
                    let seq = sequential(setup, &order);
                    return perm.iter().enumerate().all(|(pos, i)| seq[pos].split(" j=").next().unwrap() == obs[*i]);
                }
                for i in 0..done.len() {
                    if used[i] { continue; }
                    // program order and real-time order: nothing unplaced may have finished before i started
                    if (0..done.len()).any(|j| !used[j] && j != i && (done[j].finished < done[i].started || (done[j].task == done[i].task && j < i))) { continue; }
                    used[i] = true; perm.push(i);
                    if search(done, setup, obs, perm, used, budget) { return true; }
                    perm.pop(); used[i] = false;
                }
                false
            }
            let mut budget = 3000u64;
            ok = ncalls <= 9 && search(&done, &setup, &obs_r, &mut perm, &mut used, &mut budget);
            *out.stats.entry("completion_order_not_sequential".into()).or_insert(0) += 1;
            if !ok {
                let first = (0..observed.len()).find(|i| seq.get(*i) != observed.get(*i)).unwrap_or(0);
                out.failures.push(Failure { key: "not-linearizable".into(), detail: format!("no sequential order of the calls explains the results; in completion order call {} `{}` returned [{}] but the sequential run gives [{}]: {}", first, crate::sim::trunc(&order[first]).chars().take(100).collect::<String>(), crate::sim::trunc(&observed[first]), crate::sim::trunc(seq.get(first).map(|s| s.as_str()).unwrap_or("")), ctx()), line: lineno });
            }
        }
        // (c) append outcomes: gap-free increasing lengths
        let mut lens: Vec<u64> = done.iter().filter(|d| d.line.starts_with("append W") && d.result.starts_with("ok")).filter_map(|d| d.result.split("len=").nth(1)?.split(' ').next()?.parse().ok()).collect();
        lens.sort();
        if lens.windows(2).any(|w| w[0] == w[1]) { out.failures.push(Failure { key: "append-outcomes-collide".into(), detail: format!("two appends reported the same length: {:?}: {}", lens, ctx()), line: lineno }); }
        // ---- lines for the model: set-up, then the calls in completion order with the observed results
        for l in &setup { let o = { let mut s3 = Sim::new(); s3.check_oracle = false; let _ = &mut s3; String::new() }; let _ = o; out.ops.push(l.clone()); }
        let setup_out = { let mut s3 = Sim::new(); s3.check_oracle = false; setup.iter().map(|l| s3.exec(l)).collect::<Vec<_>>() };
        out.outs.extend(setup_out);
        for (l, o) in order.iter().zip(observed.iter()) { out.ops.push(l.clone()); out.outs.push(o.clone()); }
        out.ops.push("reset".into()); out.outs.push("bad-op".into());
        *out.stats.entry("cases".into()).or_insert(0) += 1;
        *out.stats.entry("calls".into()).or_insert(0) += done.len() as u64;
        *out.stats.entry("scheduling_steps".into()).or_insert(0) += steps;
        *out.stats.entry("preemptions_inside_a_call".into()).or_insert(0) += preempt_mid_call;
        *out.stats.entry(format!("tasks_{ntasks}")).or_insert(0) += 1;
        if seen.insert(crate::rng::fnv(&format!("{:?}{:?}", progs, schedule))) { *out.stats.entry("distinct".into()).or_insert(0) += 1; }
        if out.samples.len() < 2 { out.samples.push(format!("tasks {:?} schedule {:?}", progs.iter().map(|p| p.iter().map(|l| l.chars().take(40).collect::<String>()).collect::<Vec<_>>()).collect::<Vec<_>>(), schedule.iter().take(60).collect::<Vec<_>>())); }
        let _ = (case, block_on(async {}), backend::TREE);
    }
    out
}
