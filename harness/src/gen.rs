//! History generators (one PRNG state) and the driver loop that interleaves generation with
//! execution (crash/torn points depend on the journal the real crate just produced).
use crate::backend::Op;
use crate::rng::{fnv, hex, Rng};
use crate::sim::{Failure, Sim};
use std::collections::{BTreeMap, HashSet};

pub struct RunOut { pub ops: Vec<String>, pub outs: Vec<String>, pub stats: BTreeMap<String, u64>, pub failures: Vec<Failure>, pub samples: Vec<String> }

pub const SEED_HEX: &str = "27e67425c1ffd1d9ee625c962b5713c3510b711415f331f6fa9ef2bf235f2ffe";

fn gen_block(r: &mut Rng, big: bool) -> Vec<u8> {
    let n = match r.below(20) {
        0 => 0, 1 => 1, 2..=9 => r.range(1, 8), 10..=15 => r.range(9, 80), 16 => 253, 17 => r.range(200, 700),
        _ => if big { *r.pick(&[4096usize as u64, 4097, 12288, 12300, 70000]) } else { r.range(81, 200) },
    } as usize;
    r.bytes(n)
}
fn gen_index(r: &mut Rng, len: u64) -> u64 {
    match r.below(10) {
        0..=5 => r.below(len.max(1)),
        6 => len, 7 => len + 1,
        8 => *r.pick(&[(1u64 << 40) - 1, u64::MAX, 32768, 8192, 65536, 40960]),
        _ => r.below(2 * len + 3),
    }
}

#[derive(Clone, Copy, PartialEq)]
pub enum Mode { Log, Crash, Torn }

struct Ctx { sim: Sim, out: RunOut, seen: HashSet<u64>, hist_digest: String }
impl Ctx {
    fn run(&mut self, line: String) -> String {
        let o = self.sim.exec(&line);
        self.hist_digest.push_str(&o);
        self.out.ops.push(line);
        self.out.outs.push(o.clone());
        o
    }
    fn end_history(&mut self) {
        *self.out.stats.entry("cases".into()).or_insert(0) += 1;
        let nontrivial = self.sim.history.len() >= 3;
        if nontrivial && self.seen.insert(fnv(&self.hist_digest)) { *self.out.stats.entry("distinct".into()).or_insert(0) += 1; }
        if self.out.samples.len() < 3 { self.out.samples.push(self.sim.history.join(" ; ").chars().take(600).collect()); }
        self.hist_digest.clear();
        self.out.failures.extend(self.sim.failures.drain(..));
        for (k, v) in std::mem::take(&mut self.sim.stats) { *self.out.stats.entry(k).or_insert(0) += v; }
        let line = self.sim.line;
        self.sim = Sim::new();
        self.sim.line = line;
        self.run("reset".to_string());
    }
    /// all crash (and torn) points of the operation that just ran on `name`
    fn crash_points(&mut self, name: &str, mode: Mode, r: &mut Rng, go_prob: u64) {
        let j: Vec<Op> = self.sim.h[name].last_journal.clone();
        let class = |op: &Op| match op { Op::Write(s, o, _) => format!("cp_{}w{}", crate::backend::STORE_CH[*s], if *s == 3 && *o < 8192 { "hdr" } else { "" }), Op::Del(s, ..) => format!("cp_{}d", crate::backend::STORE_CH[*s]), Op::Trunc(s, _) => format!("cp_{}t", crate::backend::STORE_CH[*s]) };
        for k in 0..=j.len() {
            if let Some(op) = j.get(k) { *self.out.stats.entry(format!("{}_next", class(op))).or_insert(0) += 1; }
            self.run(format!("crash {name} {k} 0"));
            if mode == Mode::Torn {
                if let Some(Op::Write(_, _, d)) = j.get(k) {
                    let mut cuts: Vec<usize> = if d.len() <= 64 { (1..d.len()).collect() } else {
                        let mut c = vec![1, 3, 4, 5, 7, 8, 9, 12, d.len() / 2, d.len() - 1];
                        let mut s = 512; while s < d.len() { c.push(s); s += 512; }
                        for _ in 0..4 { c.push(r.range(1, d.len() as u64 - 1) as usize); }
                        c
                    };
                    cuts.sort(); cuts.dedup();
                    for t in cuts { if t > 0 && t < d.len() { self.run(format!("crash {name} {k} {t}")); } }
                }
            }
        }
        if !j.is_empty() && r.chance(go_prob, 100) {
            let k = r.below(j.len() as u64 + 1);
            self.run(format!("crashgo {name} {k} 0"));
            self.run(format!("probe {name}"));
            *self.out.stats.entry("crash_continued".into()).or_insert(0) += 1;
        }
    }
}

fn random_log_op(r: &mut Rng, len: u64, big: bool, allow_ro: bool) -> String {
    match r.below(100) {
        0..=34 => format!("append W {}", hex(&gen_block(r, big))),
        35..=46 => { let n = r.below(6); if n == 0 { "batch W ~".into() } else { format!("batch W {}", (0..n).map(|_| hex(&gen_block(r, false))).collect::<Vec<_>>().join(",")) } }
        47..=60 if len > 0 => { let s = r.below(len); let e = match r.below(4) { 0 => s + 1, 1 => len + r.below(4), _ => r.range(s + 1, len) }; format!("clear W {s} {e}") }
        61..=68 => format!("get W {}", gen_index(r, len)),
        69..=72 => format!("has W {}", gen_index(r, len)),
        73..=75 => "info W".into(),
        76..=90 => "reopen W".into(),
        91 if allow_ro => "ro W".into(),
        _ => "probe W".into(),
    }
}

/// Random histories on one writer (C01 / C02 / C07 depending on `mode`).
pub fn random_histories(seed: u64, n: usize, max_ops: u64, mode: Mode, big: bool) -> RunOut {
    let mut r = Rng::new(seed);
    let mut c = Ctx { sim: Sim::new(), out: RunOut { ops: vec![], outs: vec![], stats: BTreeMap::new(), failures: vec![], samples: vec![] }, seen: HashSet::new(), hist_digest: String::new() };
    for _ in 0..n {
        c.run(format!("new W {SEED_HEX}"));
        if mode != Mode::Log { c.crash_points("W", mode, &mut r, 0); }
        let nops = r.range(3, max_ops);
        for _ in 0..nops {
            let len = c.sim.h["W"].oracle.len;
            let line = random_log_op(&mut r, len, big, mode != Mode::Log);
            let mutating = line.starts_with("append") || line.starts_with("batch") || line.starts_with("clear") || line.starts_with("ro ");
            c.run(line);
            if mutating && mode != Mode::Log { c.crash_points("W", mode, &mut r, 12); }
        }
        c.run("probe W".into());
        c.run("reopen W".into());
        c.run("probe W".into());
        c.end_history();
    }
    c.out
}

/// Repeated crashes (C02 "the recovered core stays fully usable"): a history, a crash inside a mutating
/// call (preferring the windows inside a flush: before the header write, between header write and
/// truncate), recovery, then a further call — make_read_only, append, batch or clear — with every one of
/// *its* crash points reopened, and possibly a third round.
pub fn double_crash_histories(seed: u64, n: usize) -> RunOut {
    let mut r = Rng::new(seed);
    let mut c = Ctx { sim: Sim::new(), out: RunOut { ops: vec![], outs: vec![], stats: BTreeMap::new(), failures: vec![], samples: vec![] }, seen: HashSet::new(), hist_digest: String::new() };
    for _ in 0..n {
        c.run(format!("new W {SEED_HEX}"));
        let pre = r.below(9);
        for _ in 0..pre {
            let len = c.sim.h["W"].oracle.len;
            let line = random_log_op(&mut r, len, false, false);
            c.run(line);
        }
        let rounds = r.range(1, 3);
        for round in 0..rounds {
            // a mutating call and a crash inside it
            let len = c.sim.h["W"].oracle.len;
            let line = match r.below(10) { 0..=5 => format!("append W {}", hex(&gen_block(&mut r, false))), 6..=7 if len > 0 => { let s = r.below(len); format!("clear W {s} {}", r.range(s + 1, len + 1)) }, _ => "batch W 61,6263,~".replace("~", "") };
            c.run(line);
            let j: Vec<Op> = c.sim.h["W"].last_journal.clone();
            if j.is_empty() { continue; }
            let hdr = j.iter().position(|op| matches!(op, Op::Write(3, o, _) if *o < 8192));
            let k = match (hdr, r.below(10)) {
                (Some(h), 0..=4) => h + 1,            // header written, entries not yet truncated
                (Some(h), 5..=6) => h,                // side stores flushed, header not yet written
                _ => r.below(j.len() as u64 + 1) as usize,
            };
            *c.out.stats.entry(if hdr.map(|h| h + 1) == Some(k) { "crash2_after_header".to_string() } else if hdr == Some(k) { "crash2_before_header".into() } else { "crash2_elsewhere".into() }).or_insert(0) += 1;
            c.run(format!("crashgo W {k} 0"));
            c.run("probe W".into());
            // the next call on the recovered core, with all of its crash points
            let len = c.sim.h["W"].oracle.len;
            let ro = round + 1 == rounds && r.chance(1, 2);
            let line = if ro { "ro W".to_string() } else { match r.below(10) { 0..=4 => format!("append W {}", hex(&gen_block(&mut r, false))), 5..=7 if len > 0 => { let s = r.below(len); format!("clear W {s} {}", r.range(s + 1, len + 1)) }, _ => "batch W 7a,7a7a".to_string() } };
            *c.out.stats.entry(if ro { "crash2_then_ro".to_string() } else { "crash2_then_write".into() }).or_insert(0) += 1;
            c.run(line);
            c.crash_points("W", Mode::Crash, &mut r, 0);
            c.run("probe W".into());
            if ro { break; }
        }
        c.run("reopen W".into());
        c.run("probe W".into());
        c.end_history();
    }
    c.out
}

/// Batches whose bit range straddles byte boundaries of a bitfield page, logged and still unflushed when
/// the page is rewritten (C07: the page is new up to the cut and old behind it; replay must set all bits
/// of every logged entry again). Every storage operation of every mutating call gets its torn points.
pub fn bit_batch_histories(seed: u64, n: usize, mode: Mode) -> RunOut {
    let mut r = Rng::new(seed);
    let mut c = Ctx { sim: Sim::new(), out: RunOut { ops: vec![], outs: vec![], stats: BTreeMap::new(), failures: vec![], samples: vec![] }, seen: HashSet::new(), hist_digest: String::new() };
    for _ in 0..n {
        c.run(format!("new W {SEED_HEX}"));
        // a first call that flushes, leaving a page with a few bits
        let pre = r.range(1, 7);
        c.run(format!("batch W {}", (0..pre).map(|_| hex(&gen_block(&mut r, false))).collect::<Vec<_>>().join(",")));
        let calls = r.range(3, 7);
        for _ in 0..calls {
            let len = c.sim.h["W"].oracle.len;
            let line = match r.below(10) {
                0..=5 => { let k = r.range(3, 14); format!("batch W {}", (0..k).map(|_| hex(&[r.below(256) as u8])).collect::<Vec<_>>().join(",")) }
                6..=7 => format!("append W {}", hex(&gen_block(&mut r, false))),
                _ => { let s = r.below(len); format!("clear W {s} {}", r.range(s + 1, (s + 12).min(len))) }
            };
            c.run(line);
            let j: Vec<Op> = c.sim.h["W"].last_journal.clone();
            if j.iter().any(|op| matches!(op, Op::Write(2, ..))) { *c.out.stats.entry("bitbatch_page_writes".into()).or_insert(0) += 1; }
            c.crash_points("W", mode, &mut r, 10);
        }
        c.run("probe W".into());
        c.run("reopen W".into());
        c.run("probe W".into());
        c.end_history();
    }
    c.out
}

const ALPHABET: [&str; 10] = ["append W -", "append W 61", "append W 626364", "batch W ~", "batch W 78,797a", "clear W 0 1", "clear W LAST LAST3", "clear W MID MID1", "reopen W", "get W LEN"];

/// Bounded-exhaustive: every sequence of `depth` symbols of the alphabet, full probe after each step.
pub fn exhaustive_histories(depth: usize, mode: Mode, limit: usize, seed: u64) -> RunOut {
    let mut r = Rng::new(seed);
    let mut c = Ctx { sim: Sim::new(), out: RunOut { ops: vec![], outs: vec![], stats: BTreeMap::new(), failures: vec![], samples: vec![] }, seen: HashSet::new(), hist_digest: String::new() };
    let a = ALPHABET.len();
    let total = a.pow(depth as u32);
    let step = if total > limit { total / limit + 1 } else { 1 };
    let mut code = 0usize;
    while code < total {
        c.run(format!("new W {SEED_HEX}"));
        let mut x = code;
        for _ in 0..depth {
            let sym = ALPHABET[x % a]; x /= a;
            let len = c.sim.h["W"].oracle.len;
            if sym.starts_with("clear") && len == 0 { continue; }
            let line = sym.replace("LAST3", &(len + 3).to_string()).replace("LAST", &len.saturating_sub(1).to_string())
                .replace("MID1", &(len / 2 + 1).to_string()).replace("MID", &(len / 2).to_string()).replace("LEN", &len.to_string());
            let mutating = line.starts_with("append") || line.starts_with("batch") || line.starts_with("clear");
            c.run(line);
            if mutating && mode != Mode::Log { c.crash_points("W", mode, &mut r, 0); }
            c.run("probe W".into());
        }
        c.end_history();
        code += step;
    }
    *c.out.stats.entry("exhaustive_depth".into()).or_insert(0) = depth as u64;
    c.out
}

/// Large cores: indices crossing 8192, 32768 and 65536; clears straddling page edges; reopen and
/// crash recovery in between (C08, and C01's "longer than one bitfield page").
pub fn large_histories(seed: u64, n: usize, with_crash: bool) -> RunOut {
    let mut r = Rng::new(seed);
    let mut c = Ctx { sim: Sim::new(), out: RunOut { ops: vec![], outs: vec![], stats: BTreeMap::new(), failures: vec![], samples: vec![] }, seen: HashSet::new(), hist_digest: String::new() };
    for hi in 0..n {
        c.run(format!("new W {SEED_HEX}"));
        let targets: Vec<u64> = match hi % 4 { 0 => vec![9000], 1 => vec![8190, 8200, 32760, 32790], 2 => vec![33000, 66000], _ => vec![r.range(8000, 9000), r.range(32000, 34000), r.range(65000, 70000)] };
        for t in targets {
            let len = c.sim.h["W"].oracle.len;
            if t > len { c.run(format!("fill W {} {}", t - len, r.below(200))); }
            if with_crash { let j = c.sim.h["W"].last_journal.len(); for k in [0, 1, 2, j / 2, j.saturating_sub(2), j.saturating_sub(1), j] { if k <= j { c.run(format!("crash W {k} 0")); } } }
            c.run("scan W".into());
            c.run("probe W".into());
            c.run("reopen W".into());
            c.run("scan W".into());
            c.run("probe W".into());
            let len = c.sim.h["W"].oracle.len;
            for _ in 0..r.range(1, 4) {
                let edge = *r.pick(&[8192u64, 32768, 65536, 16384, 40960, 32, 1024]);
                if edge + 2 < len {
                    let s = edge - r.below(6).min(edge); let e = edge + r.range(1, 9);
                    c.run(format!("clear W {s} {e}"));
                } else if len > 10 { let s = r.below(len - 5); c.run(format!("clear W {s} {}", s + r.range(1, 5))); }
                if with_crash { let j = c.sim.h["W"].last_journal.len(); for k in 0..=j { c.run(format!("crash W {k} 0")); } }
                if r.chance(1, 2) { c.run("reopen W".into()); }
                c.run("scan W".into());
            }
            // clears that start exactly at a page boundary, and a second one a little further right: the search for the
            // held neighbour on the left crosses into the previous page; the blocks on both sides must keep their bytes
            let len = c.sim.h["W"].oracle.len;
            for pb in [32768u64, 65536] {
                if pb + 12 < len {
                    c.run(format!("clear W {pb} {}", pb + 2));
                    c.run("get W 1".into()); c.run(format!("get W {}", pb - 1)); c.run(format!("get W {}", pb + 2));
                    c.run(format!("clear W {} {}", pb + 4, pb + 6));
                    c.run(format!("get W {}", pb + 3)); c.run(format!("get W {}", pb - 1)); c.run(format!("get W {}", pb / 2));
                    *c.out.stats.entry("page_boundary_clears".into()).or_insert(0) += 1;
                }
            }
            c.run(format!("append W {}", hex(&gen_block(&mut r, false))));
            c.run("scan W".into());
            c.run("reopen W".into());
            c.run("scan W".into());
            c.run("probe W".into());
        }
        c.end_history();
    }
    c.out
}

/// Short logs in which about half of the blocks are empty (C01): clears of ranges that contain no
/// bytes, or that end where an earlier clear truncated the data store, repeated clears, reopen.
pub fn empties_histories(seed: u64, n: usize) -> RunOut {
    let mut r = Rng::new(seed);
    let mut c = Ctx { sim: Sim::new(), out: RunOut { ops: vec![], outs: vec![], stats: BTreeMap::new(), failures: vec![], samples: vec![] }, seen: HashSet::new(), hist_digest: String::new() };
    let blk = |r: &mut Rng| -> String { if r.chance(1, 2) { "-".to_string() } else { let k = r.range(1, 6) as usize; hex(&r.bytes(k)) } };
    for _ in 0..n {
        c.run(format!("new W {SEED_HEX}"));
        let nops = r.range(4, 12);
        for _ in 0..nops {
            let len = c.sim.h["W"].oracle.len;
            match r.below(10) {
                0..=3 => { c.run(format!("append W {}", blk(&mut r))); }
                4 => { let k = r.range(1, 3); c.run(format!("batch W {}", (0..k).map(|_| blk(&mut r)).collect::<Vec<_>>().join(","))); }
                5..=8 if len > 0 => {
                    let s = r.below(len);
                    let e = match r.below(3) { 0 => len, 1 => s + 1, _ => r.range(s + 1, len + 1) };
                    *c.out.stats.entry("op_clear_small".into()).or_insert(0) += 1;
                    c.run(format!("clear W {s} {e}"));
                    // often clear again inside or after the range just cleared
                    if r.chance(1, 2) { c.run("probe W".into()); let s2 = r.range(s, len - 1); let e2 = r.range(s2 + 1, len); c.run(format!("clear W {s2} {e2}")); }
                }
                9 => { c.run("reopen W".into()); }
                _ => { c.run(format!("append W {}", blk(&mut r))); }
            }
            c.run("probe W".into());
        }
        c.run("reopen W".into());
        c.run("probe W".into());
        c.end_history();
    }
    c.out
}

/// Execute the operation lines of a file (one per line) through the executor with its oracle:
/// used for replays and hand-written scenarios.
pub fn script(path: &str) -> RunOut {
    let mut c = Ctx { sim: Sim::new(), out: RunOut { ops: vec![], outs: vec![], stats: BTreeMap::new(), failures: vec![], samples: vec![] }, seen: HashSet::new(), hist_digest: String::new() };
    let text = std::fs::read_to_string(path).expect("script file");
    for line in text.lines() { let l = line.trim(); if l.is_empty() || l.starts_with('#') { continue; } let o = c.run(l.to_string()); println!("{l}\n   -> {}", crate::sim::trunc(&o)); }
    c.end_history();
    c.out
}

/// Medium-sized cores with range operations at every word alignment (C08/C01): batch appends and
/// clears whose ends fall on, just before and just after 32-bit word edges, has() scanned on every
/// index after each operation.
pub fn word_histories(seed: u64, n: usize) -> RunOut {
    let mut r = Rng::new(seed);
    let mut c = Ctx { sim: Sim::new(), out: RunOut { ops: vec![], outs: vec![], stats: BTreeMap::new(), failures: vec![], samples: vec![] }, seen: HashSet::new(), hist_digest: String::new() };
    let near_edge = |r: &mut Rng, lo: u64, hi: u64| -> u64 {
        // a value in [lo, hi] whose residue mod 32 is 31, 0 or 1 when one exists, else any
        let cands: Vec<u64> = (lo..=hi).filter(|x| matches!(x % 32, 31 | 0 | 1)).collect();
        if cands.is_empty() || r.chance(1, 4) { r.range(lo, hi) } else { *r.pick(&cands) }
    };
    for _ in 0..n {
        c.run(format!("new W {SEED_HEX}"));
        let nops = r.range(5, 14);
        for _ in 0..nops {
            let len = c.sim.h["W"].oracle.len;
            match r.below(10) {
                0..=3 => { let e = near_edge(&mut r, len + 1, len + 100); *c.out.stats.entry(format!("fill_end_mod32_{}", e % 32)).or_insert(0) += 1; c.run(format!("fill W {} {}", e - len, r.below(200))); }
                4..=7 if len > 1 => {
                    let s = if r.chance(1, 2) { near_edge(&mut r, 0, len - 1) } else { r.below(len) };
                    let e = near_edge(&mut r, s + 1, len + 2);
                    *c.out.stats.entry(format!("clear_end_mod32_{}", e % 32)).or_insert(0) += 1;
                    if e - s >= 31 { *c.out.stats.entry("clear_31_or_more".into()).or_insert(0) += 1; }
                    c.run(format!("clear W {s} {e}"));
                }
                8 => { c.run("reopen W".into()); }
                _ => { c.run(format!("append W {}", hex(&gen_block(&mut r, false)))); }
            }
            c.run("scan W".into());
            if r.chance(1, 3) { c.run("probe W".into()); }
        }
        c.run("reopen W".into());
        c.run("scan W".into());
        c.run("probe W".into());
        c.end_history();
    }
    c.out
}

/// A replica that fills a whole bitfield page out of order (C08): blocks 0..k in order, then the rest of
/// page 0 from its last index downwards, and the block at the hint last — so that the hint has to travel
/// over a run that ends exactly at the end of the highest allocated page.
pub fn page_replica_histories(seed: u64, n: usize) -> RunOut {
    let mut r = Rng::new(seed);
    let mut c = Ctx { sim: Sim::new(), out: RunOut { ops: vec![], outs: vec![], stats: BTreeMap::new(), failures: vec![], samples: vec![] }, seen: HashSet::new(), hist_digest: String::new() };
    const PAGE: u64 = 32768;
    c.sim.light = true;
    for _ in 0..n {
        c.run(format!("new W {SEED_HEX}"));
        let extra = r.below(3);
        c.run(format!("fill W {} {}", PAGE / 2, r.below(200)));
        c.run(format!("fill W {} {}", PAGE / 2 + extra, r.below(200)));
        c.run("newr R W".into());
        let wl = PAGE + extra;
        let k = r.range(2, 120);
        let mut fetch = |c: &mut Ctx, i: u64, first: bool| {
            let o = c.run(format!("missing R {i}"));
            let nn: u64 = o.strip_prefix("ok ").and_then(|x| x.parse().ok()).unwrap_or(0);
            let ups = if first { format!("0:{wl}") } else { "-".to_string() };
            let o = c.run(format!("prove W {i}:{nn} - - {ups}"));
            if o.starts_with("ok fork") { let t = crate::sim::proof_full_txt(c.sim.proof.as_ref().unwrap()); c.run(format!("applyp R {t}")); }
        };
        for i in 0..k { fetch(&mut c, i, i == 0); }
        c.run("info R".into());
        for i in ((k + 1)..PAGE).rev() { fetch(&mut c, i, false); }
        c.run("info R".into());
        fetch(&mut c, k, false);
        c.run("info R".into());
        c.run("probe R".into());
        c.run("reopen R".into());
        c.run("info R".into());
        *c.out.stats.entry("page_filled_out_of_order".into()).or_insert(0) += 1;
        c.end_history();
    }
    c.out
}

/// Honest replication (C03): a writer W with appends/clears, one or two replicas fetching in random
/// request orders; every request is well-formed (nodes from missing_nodes, upgrade from the
/// replica's own length whenever it is behind).
pub fn replication_histories(seed: u64, n: usize, max_len: u64, with_crash: Mode) -> RunOut {
    let mut r = Rng::new(seed);
    let mut c = Ctx { sim: Sim::new(), out: RunOut { ops: vec![], outs: vec![], stats: BTreeMap::new(), failures: vec![], samples: vec![] }, seen: HashSet::new(), hist_digest: String::new() };
    for _ in 0..n {
        c.run(format!("new W {SEED_HEX}"));
        c.run("newr R W".into());
        let rounds = r.range(1, 4);
        for _ in 0..rounds {
            // writer grows
            let grow = r.range(1, max_len / rounds + 1);
            let mut left = grow;
            while left > 0 {
                if r.chance(1, 3) { let k = r.range(1, left.min(6)); c.run(format!("batch W {}", (0..k).map(|_| hex(&gen_block(&mut r, false))).collect::<Vec<_>>().join(","))); left -= k; }
                else { c.run(format!("append W {}", hex(&gen_block(&mut r, false)))); left -= 1; }
            }
            if r.chance(1, 5) { let wl = c.sim.h["W"].oracle.len; let s = r.below(wl); c.run(format!("clear W {s} {}", s + 1)); }
            if r.chance(1, 6) { c.run("reopen W".into()); }
            let nreq = r.range(1, 10);
            for _ in 0..nreq {
                let wl = c.sim.h["W"].oracle.len;
                let rl = c.sim.h["R"].oracle.len;
                let behind = rl < wl;
                // upgrade target: any length in (rl, wl]
                let up = if behind && (rl == 0 || r.chance(2, 3)) { let to = r.range(rl + 1, wl); Some((rl, to - rl)) } else { None };
                let horizon = up.map(|(s, l)| s + l).unwrap_or(rl);
                if horizon == 0 { continue; }
                let kind = r.below(10);
                let mut blk = "-".to_string(); let mut hsh = "-".to_string(); let mut sk = "-".to_string();
                if kind < 6 {
                    let i = r.below(horizon);
                    let o = c.run(format!("missing R {i}"));
                    let nn: u64 = o.strip_prefix("ok ").and_then(|x| x.parse().ok()).unwrap_or(0);
                    blk = format!("{i}:{nn}");
                } else if kind < 8 {
                    // hash of a tree node whose span lies within the horizon
                    let leaf = r.below(horizon);
                    let mut ti = 2 * leaf; let mut span = 1u64; let mut lo = leaf;
                    // the node's span lies entirely below the replica's length or entirely at/above it
                    for _ in 0..r.below(4) { let nspan = span * 2; let nlo = lo - (lo % nspan); if nlo + nspan > horizon || (nlo < rl && nlo + nspan > rl) { break; } ti = nlo * 2 + nspan - 1; span = nspan; lo = nlo; }
                    let o = c.run(format!("missingt R {ti}"));
                    let nn: u64 = o.strip_prefix("ok ").and_then(|x| x.parse().ok()).unwrap_or(0);
                    hsh = format!("{ti}:{nn}");
                } else if kind == 8 {
                    let total: u64 = c.sim.h["W"].oracle.blocks.iter().take(horizon as usize).map(|b| b.len() as u64).sum();
                    if total > 0 { sk = format!("{}", r.below(total)); }
                }
                // a block or hash request may carry a seek as well: any byte below the horizon, i.e. inside the
                // requested subtree, on its climb path, or in a sibling subtree (then the proof has its own seek nodes)
                if kind < 8 && r.chance(1, 3) {
                    let total: u64 = c.sim.h["W"].oracle.blocks.iter().take(horizon as usize).map(|b| b.len() as u64).sum();
                    if total > 0 { sk = format!("{}", r.below(total)); *c.out.stats.entry(if kind < 6 { "block_with_seek" } else { "hash_with_seek" }.into()).or_insert(0) += 1; }
                }
                let ups = up.map(|(s, l)| format!("{s}:{l}")).unwrap_or("-".into());
                if blk == "-" && hsh == "-" && sk == "-" && ups == "-" { continue; }
                let o = c.run(format!("prove W {blk} {hsh} {sk} {ups}"));
                if o.starts_with("ok fork") {
                    let t = crate::sim::proof_full_txt(c.sim.proof.as_ref().unwrap());
                    c.run(format!("applyp R {t}"));
                    if with_crash != Mode::Log { c.crash_points("R", with_crash, &mut r, 10); }
                    if r.chance(1, 4) { c.run("probe R".into()); }
                    if r.chance(1, 8) { c.run("reopen R".into()); c.run("probe R".into()); }
                }
            }
        }
        // hash sweep: ask for the hash of every inner node below the replica's length, in a random
        // order, with the node count the replica's own missing-node query reports
        if with_crash == Mode::Log && c.sim.h["R"].oracle.len >= 2 && c.sim.h["R"].oracle.len <= 48 && r.chance(1, 3) {
            let rl = c.sim.h["R"].oracle.len;
            let mut nodes: Vec<u64> = vec![];
            let mut span = 2u64;
            while span <= rl { let mut lo = 0; while lo + span <= rl { nodes.push(lo * 2 + span - 1); lo += span; } span *= 2; }
            for i in (1..nodes.len()).rev() { let j = r.below(i as u64 + 1) as usize; nodes.swap(i, j); }
            nodes.truncate(12);
            *c.out.stats.entry("hash_sweep_histories".into()).or_insert(0) += 1;
            for ti in nodes {
                let o = c.run(format!("missingt R {ti}"));
                let nn: u64 = o.strip_prefix("ok ").and_then(|x| x.parse().ok()).unwrap_or(0);
                let o = c.run(format!("prove W - {ti}:{nn} - -"));
                if o.starts_with("ok fork") {
                    let t = crate::sim::proof_full_txt(c.sim.proof.as_ref().unwrap());
                    c.run(format!("applyp R {t}"));
                }
            }
            c.run("probe R".into());
        }
        // hash, then a block below that node, then close and reopen before the periodic flush: the nodes of a
        // hash-only proof must have been journalled, or the block that was verified against them is held but
        // unreadable after the restart
        if with_crash == Mode::Log && c.sim.h["R"].oracle.len >= 4 && r.chance(1, 2) {
            *c.out.stats.entry("hash_then_block_reopen_histories".into()).or_insert(0) += 1;
            for _ in 0..3 {
                let rl = c.sim.h["R"].oracle.len;
                let leaf = r.below(rl);
                if c.sim.h["R"].oracle.held[leaf as usize] || !c.sim.h["W"].oracle.held[leaf as usize] { continue; }
                let span = if r.chance(1, 2) { 2u64 } else { 4u64 };
                let lo = leaf - leaf % span;
                if lo + span > rl { continue; }
                let ti = lo * 2 + span - 1;
                let o = c.run(format!("missingt R {ti}"));
                let nn: u64 = o.strip_prefix("ok ").and_then(|x| x.parse().ok()).unwrap_or(0);
                let o = c.run(format!("prove W - {ti}:{nn} - -"));
                if !o.starts_with("ok fork") { continue; }
                let t = crate::sim::proof_full_txt(c.sim.proof.as_ref().unwrap());
                c.run(format!("applyp R {t}"));
                let o = c.run(format!("missing R {leaf}"));
                let nn: u64 = o.strip_prefix("ok ").and_then(|x| x.parse().ok()).unwrap_or(0);
                let o = c.run(format!("prove W {leaf}:{nn} - - -"));
                if !o.starts_with("ok fork") { continue; }
                let t = crate::sim::proof_full_txt(c.sim.proof.as_ref().unwrap());
                c.run(format!("applyp R {t}"));
                c.run("reopen R".into());
                c.run(format!("get R {leaf}"));
                c.run("probe R".into());
            }
        }
        // dense phase: bring the replica up to date and fetch every block it lacks in a random
        // order, so that gaps are filled next to runs of blocks that arrived earlier
        if with_crash == Mode::Log && c.sim.h["W"].oracle.len <= 48 && r.chance(1, 2) {
            let wl = c.sim.h["W"].oracle.len;
            let mut want: Vec<u64> = (0..wl).filter(|i| c.sim.h["W"].oracle.held[*i as usize] && !(c.sim.h["R"].oracle.len > *i && c.sim.h["R"].oracle.held[*i as usize])).collect();
            for i in (1..want.len()).rev() { let j = r.below(i as u64 + 1) as usize; want.swap(i, j); }
            *c.out.stats.entry("dense_fetch_histories".into()).or_insert(0) += 1;
            for i in want {
                let rl = c.sim.h["R"].oracle.len;
                let ups = if rl < wl { format!("{rl}:{}", wl - rl) } else { "-".to_string() };
                let o = c.run(format!("missing R {i}"));
                let nn: u64 = o.strip_prefix("ok ").and_then(|x| x.parse().ok()).unwrap_or(0);
                let o = c.run(format!("prove W {i}:{nn} - - {ups}"));
                if o.starts_with("ok fork") {
                    let t = crate::sim::proof_full_txt(c.sim.proof.as_ref().unwrap());
                    c.run(format!("applyp R {t}"));
                    c.run("probe R".into());
                }
            }
        }
        c.run("probe R".into());
        c.run("reopen R".into());
        c.run("probe R".into());
        c.end_history();
    }
    c.out
}

// ---------------------------------------------------------------------------------------------
// adversarial peers (C04, C09)

use hypercore::{Node, Proof};
use merkle_tree_stream::Node as NodeTrait;

fn flip(v: &mut Vec<u8>, r: &mut Rng) -> bool { if v.is_empty() { return false; } let bit = r.below(v.len() as u64 * 8); v[(bit / 8) as usize] ^= 1 << (bit % 8); true }
fn bump(x: &mut u64, r: &mut Rng) -> bool { if r.chance(1, 2) { *x += 1; true } else if *x > 0 { *x -= 1; true } else { *x += 1; true } }
fn alter_nodes(ns: &mut Vec<Node>, r: &mut Rng, protect_len_below: usize) -> Option<&'static str> {
    let k = if ns.is_empty() { 0 } else { r.below(ns.len() as u64) as usize };
    match r.below(10) {
        0 if !ns.is_empty() => { let mut h = ns[k].hash().to_vec(); flip(&mut h, r); ns[k] = Node::new(ns[k].index(), h, ns[k].len()); Some("node-hash-flip") }
        1 if !ns.is_empty() => { let mut i = ns[k].index(); bump(&mut i, r); ns[k] = Node::new(i, ns[k].hash().to_vec(), ns[k].len()); Some("node-index") }
        2 if !ns.is_empty() && k >= protect_len_below => { let mut l = ns[k].len(); bump(&mut l, r); ns[k] = Node::new(ns[k].index(), ns[k].hash().to_vec(), l); Some("node-length") }
        3 if !ns.is_empty() => { ns.remove(k); Some("node-drop") }
        4 if !ns.is_empty() => { let n = ns[k].clone(); ns.insert(k, n); Some("node-dup") }
        5 if ns.len() >= 2 => { let k = k.min(ns.len() - 2); ns.swap(k, k + 1); Some("node-swap") }
        6 => { let idx = if ns.is_empty() { r.below(40) } else { ns[k].index() + 2 }; ns.insert(k.min(ns.len()), Node::new(idx, r.bytes(32), r.below(20))); Some("node-insert") }
        7 if !ns.is_empty() => { ns[k] = Node::new(ns[k].index(), vec![0u8; 32], ns[k].len()); Some("node-hash-zero") }
        // hashes of another length than 32 bytes (the API accepts them; `Hash::parent` concatenates the two child
        // hashes without length prefixes, so two siblings re-cut at 31/33 bytes still hash to the real parent)
        8 if ns.len() >= 2 => {
            let k = k.min(ns.len() - 2);
            let mut a = ns[k].hash().to_vec(); let mut b = ns[k + 1].hash().to_vec();
            if r.chance(1, 2) { if let Some(x) = a.pop() { b.insert(0, x); } } else if !b.is_empty() { a.push(b.remove(0)); }
            ns[k] = Node::new(ns[k].index(), a, ns[k].len()); ns[k + 1] = Node::new(ns[k + 1].index(), b, ns[k + 1].len());
            Some("node-hash-recut")
        }
        9 if !ns.is_empty() => { let mut h = ns[k].hash().to_vec(); if r.chance(1, 2) { h.pop(); } else { h.push(r.below(256) as u8); } ns[k] = Node::new(ns[k].index(), h, ns[k].len()); Some("node-hash-length") }
        _ => None,
    }
}
/// one single-field alteration of a proof; returns its kind
pub fn alter(p: &Proof, other: Option<&Proof>, r: &mut Rng) -> Option<(Proof, &'static str)> {
    let mut q = p.clone();
    let kind: Option<&'static str> = match r.below(19) {
        0 => q.block.as_mut().and_then(|b| if flip(&mut b.value, r) { Some("value-flip") } else { b.value.push(7); Some("value-extend") }),
        1 => q.block.as_mut().map(|b| { if b.value.is_empty() { b.value.push(0) } else { b.value.pop(); } "value-length" }),
        2 => q.block.as_mut().map(|b| { bump(&mut b.index, r); "block-index" }),
        3 => q.block.as_mut().and_then(|b| alter_nodes(&mut b.nodes, r, 0)),
        4 => q.hash.as_mut().map(|b| { bump(&mut b.index, r); "hash-index" }),
        5 => q.hash.as_mut().and_then(|b| alter_nodes(&mut b.nodes, r, 2)),
        6 => q.seek.as_mut().and_then(|b| alter_nodes(&mut b.nodes, r, 2)),
        7 => q.upgrade.as_mut().map(|u| { bump(&mut u.start, r); "upgrade-start" }),
        8 => q.upgrade.as_mut().map(|u| { bump(&mut u.length, r); "upgrade-length" }),
        9 => q.upgrade.as_mut().and_then(|u| alter_nodes(&mut u.nodes, r, 0)),
        10 => q.upgrade.as_mut().and_then(|u| {
            // half of the time: one more additional node exactly where the next root would be (the leaf of block
            // start+length, or the parent over the next two blocks when that is aligned) — a structurally valid
            // extension of the signed tree that the signature does not cover
            if r.chance(1, 2) {
                let l = u.start + u.length;
                let last = u.additional_nodes.last().map(|n| n.index());
                let idx = if l % 2 == 0 && r.chance(1, 2) { 2 * l + 1 } else { 2 * l };
                if last.map(|x| x < idx).unwrap_or(true) { u.additional_nodes.push(Node::new(idx, r.bytes(32), r.below(1 << 20))); Some("additional-next-root") } else { alter_nodes(&mut u.additional_nodes, r, 0) }
            } else { alter_nodes(&mut u.additional_nodes, r, 0) }
        }),
        11 => q.upgrade.as_mut().map(|u| { if r.chance(1, 6) { u.signature.pop(); "signature-short" } else { flip(&mut u.signature, r); "signature-flip" } }),
        12 => { bump(&mut q.fork, r); Some("fork") }
        13 => match r.below(4) {
            0 if q.block.is_some() && (q.upgrade.is_some() || q.hash.is_some()) => { q.block = None; Some("remove-block") }
            1 if q.upgrade.is_some() => { q.upgrade = None; Some("remove-upgrade") }
            2 if q.seek.is_some() => { q.seek = None; Some("remove-seek") }
            3 if q.hash.is_some() => { q.hash = None; Some("remove-hash") }
            _ => None },
        16 | 17 | 18 => {
            // a section the honest proof does not have, empty or with arbitrary content
            let nodes = |r: &mut Rng| -> Vec<Node> { (0..r.below(3)).map(|_| Node::new(r.below(40), r.bytes(32), r.below(20))).collect() };
            match r.below(4) {
                0 if q.seek.is_none() => { q.seek = Some(hypercore::DataSeek { bytes: *r.pick(&[0u64, 1, 5, 1 << 20]), nodes: nodes(r) }); Some("add-seek") }
                1 if q.hash.is_none() => { q.hash = Some(hypercore::DataHash { index: r.below(40), nodes: nodes(r) }); Some("add-hash") }
                2 if q.block.is_none() => { q.block = Some(hypercore::DataBlock { index: r.below(20), value: r.bytes(3), nodes: nodes(r) }); Some("add-block") }
                3 if q.upgrade.is_none() => { q.upgrade = Some(hypercore::DataUpgrade { start: r.below(10), length: r.below(10), nodes: nodes(r), additional_nodes: nodes(r), signature: r.bytes(64) }); Some("add-upgrade") }
                _ => None }
        }
        14 => match (q.upgrade.as_mut(), other.and_then(|o| o.upgrade.as_ref())) { (Some(u), Some(o)) => { u.signature = o.signature.clone(); Some("signature-other-key-or-length") } _ => None },
        _ => q.upgrade.as_mut().map(|u| { u.length = 0; u.nodes.clear(); u.additional_nodes.clear(); "upgrade-empty" }),
    };
    kind.map(|k| (q, k))
}

fn boundary(r: &mut Rng, len: u64) -> u64 {
    *r.pick(&[0, 1, 2, len.saturating_sub(1), len, len + 1, 2 * len, 2 * len + 1, 2 * len + 2, 3, 7, 1 << 32, (1u64 << 40) - 1, len / 2])
}

pub fn adversarial_histories(seed: u64, n: usize, max_len: u64, requests_only: bool) -> RunOut {
    let mut r = Rng::new(seed);
    let mut c = Ctx { sim: Sim::new(), out: RunOut { ops: vec![], outs: vec![], stats: BTreeMap::new(), failures: vec![], samples: vec![] }, seen: HashSet::new(), hist_digest: String::new() };
    for hi in 0..n {
        c.run(format!("new W {SEED_HEX}"));
        c.run("new X 9d61b19deffd5a60ba844af492ec2cc44449c5697b326919703bac031cae7f60".to_string());
        c.run("newr R W".into());
        let wl = match hi % 5 { 0 => 0, 1 => 1, _ => r.range(2, max_len) };
        // every fifth history: mostly empty blocks (roots whose subtree holds no bytes)
        let empties = hi % 5 == 4;
        for _ in 0..wl {
            let b = if empties && r.chance(3, 5) { vec![] } else { gen_block(&mut r, false) };
            c.run(format!("append W {}", hex(&b))); c.run(format!("append X {}", hex(&gen_block(&mut r, false))));
        }
        if wl > 2 && r.chance(1, 3) { let s = r.below(wl); c.run(format!("clear W {s} {}", s + 1)); }
        let rounds = r.range(2, 7);
        for _ in 0..rounds {
            let wl = c.sim.h["W"].oracle.len;
            let rl = c.sim.h["R"].oracle.len;
            if requests_only || r.chance(1, 3) {
                // arbitrary request tuples (C09): every field absent or at a boundary value
                for _ in 0..6 {
                    let opt = |r: &mut Rng, s: String| if r.chance(2, 5) { "-".to_string() } else { s };
                    let b = { let v = format!("{}:{}", boundary(&mut r, wl), boundary(&mut r, wl)); opt(&mut r, v) };
                    let h = { let v = format!("{}:{}", boundary(&mut r, wl), boundary(&mut r, wl)); opt(&mut r, v) };
                    let s = { let v = format!("{}", boundary(&mut r, wl * 8)); opt(&mut r, v) };
                    let u = { let v = format!("{}:{}", boundary(&mut r, wl), boundary(&mut r, wl)); opt(&mut r, v) };
                    let name = if r.chance(1, 4) { "R" } else { "W" };
                    let o = c.run(format!("prove {name} {b} {h} {s} {u}"));
                    *c.out.stats.entry(format!("req_{}", o.split(' ').take(2).collect::<Vec<_>>().join("_").chars().take(12).collect::<String>())).or_insert(0) += 1;
                    if o.starts_with("ok fork") && name == "W" { let t = crate::sim::proof_full_txt(c.sim.proof.as_ref().unwrap()); c.sim.proof_honest = false; c.run(format!("applyp R {t}")); }
                }
                // request tuples whose fields are all inside the log but need not fit each other: any tree
                // node for the hash, any byte for the seek, any upgrade window (the hash node may lie left
                // of the window, straddle its start or its end, the seek target may lie in another subtree)
                if wl > 0 {
                    let total: u64 = c.sim.h["W"].oracle.blocks.iter().map(|b| b.len() as u64).sum();
                    for _ in 0..6 {
                        let us = r.below(wl); let ul = r.range(1, wl - us);
                        let u = if r.chance(1, 5) { "-".to_string() } else { format!("{us}:{ul}") };
                        let h = if r.chance(1, 4) { "-".to_string() } else { format!("{}:{}", r.below(2 * wl), if r.chance(2, 3) { 0 } else { r.below(4) }) };
                        let b = if h == "-" && r.chance(1, 2) { format!("{}:{}", r.below(wl), r.below(4)) } else { "-".to_string() };
                        let s = if r.chance(1, 4) { "-".to_string() } else { format!("{}", r.below(total + 2)) };
                        if b == "-" && h == "-" && s == "-" && u == "-" { continue; }
                        let o = c.run(format!("prove W {b} {h} {s} {u}"));
                        *c.out.stats.entry(format!("mixreq_{}", o.split(' ').take(2).collect::<Vec<_>>().join("_").chars().take(12).collect::<String>())).or_insert(0) += 1;
                        if o.starts_with("ok fork") { let t = crate::sim::proof_full_txt(c.sim.proof.as_ref().unwrap()); c.sim.proof_honest = false; c.run(format!("applyp R {t}")); }
                    }
                }
                c.run("probe W".into());
                c.run(format!("append W {}", hex(&gen_block(&mut r, false))));
                c.run(format!("append X {}", hex(&gen_block(&mut r, false))));
                continue;
            }
            if wl == 0 { continue; }
            // a well-formed request
            let behind = rl < wl;
            let up = if behind && (rl == 0 || r.chance(2, 3)) { let to = r.range(rl + 1, wl); Some((rl, to - rl)) } else { None };
            let horizon = up.map(|(s, l)| s + l).unwrap_or(rl);
            if horizon == 0 { continue; }
            let mut blk = "-".to_string(); let mut hsh = "-".to_string(); let mut sk = "-".to_string();
            match r.below(10) {
                0..=5 => { let i = r.below(horizon); let o = c.run(format!("missing R {i}")); blk = format!("{i}:{}", o.strip_prefix("ok ").and_then(|x| x.parse::<u64>().ok()).unwrap_or(0)); }
                6..=7 => { let leaf = r.below(horizon); let o = c.run(format!("missingt R {}", 2 * leaf)); hsh = format!("{}:{}", 2 * leaf, o.strip_prefix("ok ").and_then(|x| x.parse::<u64>().ok()).unwrap_or(0)); }
                8 => { let total: u64 = c.sim.h["W"].oracle.blocks.iter().take(horizon as usize).map(|b| b.len() as u64).sum(); if total > 0 { sk = format!("{}", r.below(total)); } }
                _ => {}
            }
            let ups = up.map(|(s, l)| format!("{s}:{l}")).unwrap_or("-".into());
            if blk == "-" && hsh == "-" && sk == "-" && ups == "-" { continue; }
            // the same request answered by another writer (different key, same shape)
            let other = { let o = c.run(format!("prove X {blk} {hsh} {sk} {ups}")); if o.starts_with("ok fork") { c.sim.proof.clone() } else { None } };
            let o = c.run(format!("prove W {blk} {hsh} {sk} {ups}"));
            if !o.starts_with("ok fork") { continue; }
            let honest = c.sim.proof.clone().unwrap();
            let honest_txt = crate::sim::proof_full_txt(&honest);
            // alterations first (the replica must refuse them, or stay truthful), the honest proof last
            let mut state_changed = false;
            for _ in 0..r.range(3, 9) {
                if let Some((q, kind)) = alter(&honest, other.as_ref(), &mut r) {
                    if q == honest { continue; }
                    *c.out.stats.entry(format!("alt_{kind}")).or_insert(0) += 1;
                    c.sim.proof_honest = false;
                    let o = c.run(format!("applyp R {}", crate::sim::proof_full_txt(&q)));
                    if o.starts_with("ok true") { state_changed = true; *c.out.stats.entry(format!("altaccepted_{kind}")).or_insert(0) += 1; }
                }
            }
            // the 31/33-byte re-cut of every adjacent node pair of one section (sibling pairs still hash to the real
            // parent, so verification passes and the oplog encoder is what has to refuse the nodes)
            if r.chance(1, 2) {
                let sec = r.below(4);
                let npairs = { let ns = match sec { 0 => honest.block.as_ref().map(|b| &b.nodes), 1 => honest.hash.as_ref().map(|b| &b.nodes), 2 => honest.seek.as_ref().map(|b| &b.nodes), _ => honest.upgrade.as_ref().map(|b| &b.nodes) }; ns.map(|n| n.len().saturating_sub(1)).unwrap_or(0) };
                for k in 0..npairs.min(4) {
                    let mut q = honest.clone();
                    { let ns = match sec { 0 => q.block.as_mut().map(|b| &mut b.nodes), 1 => q.hash.as_mut().map(|b| &mut b.nodes), 2 => q.seek.as_mut().map(|b| &mut b.nodes), _ => q.upgrade.as_mut().map(|b| &mut b.nodes) }.unwrap();
                      let mut a = ns[k].hash().to_vec(); let mut b = ns[k + 1].hash().to_vec();
                      if let Some(x) = a.pop() { b.insert(0, x); }
                      ns[k] = Node::new(ns[k].index(), a, ns[k].len()); ns[k + 1] = Node::new(ns[k + 1].index(), b, ns[k + 1].len()); }
                    *c.out.stats.entry("alt_node-hash-recut-pair".into()).or_insert(0) += 1;
                    c.sim.proof_honest = false;
                    let o = c.run(format!("applyp R {}", crate::sim::proof_full_txt(&q)));
                    if o.starts_with("ok true") { state_changed = true; }
                }
            }
            if let Some(o) = other.as_ref() { if r.chance(1, 3) { *c.out.stats.entry("alt_other-writer-proof".into()).or_insert(0) += 1; c.sim.proof_honest = false; let out = c.run(format!("applyp R {}", crate::sim::proof_full_txt(o))); if out.starts_with("ok true") { state_changed = true; } } }
            // (an accepted variant may have advanced the replica: the original answer is then stale)
            c.sim.proof = Some(honest); c.sim.proof_honest = !state_changed;
            c.run(format!("applyp R {honest_txt}"));
            if r.chance(1, 3) { c.run("probe R".into()); }
        }
        // honest replication can still complete
        let wl = c.sim.h["W"].oracle.len;
        if wl > 0 {
            let rl = c.sim.h["R"].oracle.len;
            if rl < wl { let o = c.run(format!("prove W - - - {rl}:{}", wl - rl)); if o.starts_with("ok fork") { let t = crate::sim::proof_full_txt(c.sim.proof.as_ref().unwrap()); c.run(format!("applyp R {t}")); } }
            for i in 0..wl {
                if c.sim.h["R"].oracle.has(i) || !c.sim.h["W"].oracle.has(i) { continue; }
                let o = c.run(format!("missing R {i}"));
                let nn: u64 = o.strip_prefix("ok ").and_then(|x| x.parse().ok()).unwrap_or(0);
                let o = c.run(format!("prove W {i}:{nn} - - -"));
                if o.starts_with("ok fork") { let t = crate::sim::proof_full_txt(c.sim.proof.as_ref().unwrap()); c.run(format!("applyp R {t}")); }
            }
            c.run("probe R".into());
            c.run("probe W".into());
            c.run(format!("append W {}", hex(&gen_block(&mut r, false))));
            c.run("probe W".into());
        }
        c.end_history();
    }
    c.out
}

// ---------------------------------------------------------------------------------------------
// configuration independence (C14): the same history on mirrors with other backends / cache settings

const MIRRORS: [(&str, &str); 5] = [("A", "cache=0"), ("B", "cache=300"), ("M", "backend=mem"), ("K", "backend=disk"), ("L", "backend=disk cache=300")];

fn strip_journal(s: &str) -> String {
    match (s.find(" j=["), s.find(']')) { (Some(a), Some(_)) => { let end = s[a..].find(']').map(|e| a + e + 1).unwrap_or(s.len()); format!("{}{}", &s[..a], &s[end..]) } _ => s.to_string() }
}

struct Mirrored { c: Ctx, last_proof: Vec<Option<String>>, raw: bool }
impl Mirrored {
    /// run `line` (about W / R) on the primary (recorded, compared with the model) and on every mirror
    fn run(&mut self, line: String) -> String {
        let primary = self.c.run(line.clone());
        if line.starts_with("prove W") { /* the primary's proof text is taken by the caller */ }
        for (mi, (m, _)) in MIRRORS.iter().enumerate() {
            let mut l = format!("{line} ").replace(" W ", &format!(" {m} ")).replace(" R ", &format!(" R{m} ")).trim_end().to_string();
            if l.starts_with("applyp ") && !self.raw {
                match &self.last_proof[mi] { Some(t) => { l = format!("applyp R{m} {t}"); } None => continue }
            }
            let honest = self.c.sim.proof_honest; let saved = self.c.sim.proof.clone(); let saved_len = self.c.sim.proof_writer_len;
            let o = self.c.sim.exec(&l);
            if l.starts_with("prove ") { self.last_proof[mi] = if o.starts_with("ok fork") { Some(crate::sim::proof_full_txt(self.c.sim.proof.as_ref().unwrap())) } else { None }; }
            self.c.sim.proof = saved; self.c.sim.proof_honest = honest; self.c.sim.proof_writer_len = saved_len;
            self.c.sim.history.pop();
            let inst = *m == "A" || *m == "B";
            let (a, b) = if inst { (primary.clone(), o.clone()) } else if l.starts_with("dump ") {
                let name = l.split(' ').nth(1).unwrap().to_string();
                let pname = line.split(' ').nth(1).unwrap().to_string();
                let a = self.c.sim.exec(&format!("dumpz {pname}")); self.c.sim.history.pop();
                let b = self.c.sim.exec(&format!("dumpz {name}")); self.c.sim.history.pop();
                (a, b)
            } else { (strip_journal(&primary), strip_journal(&o)) };
            if a != b {
                let line_no = self.c.sim.line;
                self.c.sim.failures.push(crate::sim::Failure { key: format!("config-divergence:{}", MIRRORS[mi].1.replace(' ', "+")), detail: format!("configuration [{}] answered [{}] where the reference configuration (instrumented backend, no cache) answered [{}] to `{}` || history: {}", MIRRORS[mi].1, crate::sim::trunc(&b), crate::sim::trunc(&a), crate::sim::trunc(&line), self.c.sim.history.iter().rev().take(40).rev().cloned().collect::<Vec<_>>().join(" ; ")), line: line_no });
            }
        }
        *self.c.out.stats.entry("config_comparisons".into()).or_insert(0) += MIRRORS.len() as u64;
        primary
    }
}

pub fn config_histories(seed: u64, n: usize, max_ops: u64) -> RunOut {
    let mut r = Rng::new(seed);
    let c = Ctx { sim: Sim::new(), out: RunOut { ops: vec![], outs: vec![], stats: BTreeMap::new(), failures: vec![], samples: vec![] }, seen: HashSet::new(), hist_digest: String::new() };
    let mut m = Mirrored { c, last_proof: vec![None; MIRRORS.len()], raw: false };
    for _ in 0..n {
        m.c.run(format!("new W {SEED_HEX}"));
        for (name, opt) in MIRRORS.iter() { m.c.sim.exec(&format!("new {name} {SEED_HEX} {opt}")); m.c.sim.history.pop(); }
        m.c.run("newr R W".into());
        for (name, opt) in MIRRORS.iter() { m.c.sim.exec(&format!("newr R{name} {name} {opt}")); m.c.sim.history.pop(); }
        m.last_proof = vec![None; MIRRORS.len()];
        // half of the histories start with a larger log, read back from storage, and a sparse replica
        if r.chance(1, 2) {
            let n0 = r.range(21, 90);
            m.run(format!("fill W {n0} {}", r.below(200)));
            m.run("reopen W".into());
            for _ in 0..r.range(4, 14) { let i = match r.below(3) { 0 => r.below(5), 1 => 20 * r.below(4) + r.below(2), _ => r.below(n0) }; m.run(format!("get W {}", i.min(n0 - 1))); }
            // the replica takes a far block together with the upgrade, then asks what it is missing
            let far = n0 - 1 - r.below(3);
            let o = m.run(format!("prove W {far}:0 - - 0:{n0}"));
            if o.starts_with("ok fork") { let t = crate::sim::proof_full_txt(m.c.sim.proof.as_ref().unwrap()); m.run(format!("applyp R {t}")); }
            for i in [0u64, 1, n0 / 2, far.saturating_sub(1)] { m.run(format!("missing R {i}")); m.run(format!("missingt R {}", 2 * i + 1)); }
            for _ in 0..r.range(2, 6) {
                let i = r.below(n0);
                let o = m.run(format!("missing R {i}"));
                let nn: u64 = o.strip_prefix("ok ").and_then(|x| x.parse().ok()).unwrap_or(0);
                let o = m.run(format!("prove W {i}:{nn} - - -"));
                if o.starts_with("ok fork") { let t = crate::sim::proof_full_txt(m.c.sim.proof.as_ref().unwrap()); m.run(format!("applyp R {t}")); m.run("probe R".into()); }
            }
        }
        let nops = r.range(4, max_ops);
        for _ in 0..nops {
            let wl = m.c.sim.h["W"].oracle.len;
            let rl = m.c.sim.h["R"].oracle.len;
            if r.chance(3, 5) || wl == 0 {
                let line = random_log_op(&mut r, wl, false, false);
                m.run(line);
            } else {
                // a replication request, including block/hash + seek combinations and arbitrary seeks
                let behind = rl < wl;
                let up = if behind && (rl == 0 || r.chance(2, 3)) { let to = r.range(rl + 1, wl); Some((rl, to - rl)) } else { None };
                let horizon = up.map(|(s, l)| s + l).unwrap_or(rl);
                if horizon == 0 { continue; }
                let total: u64 = m.c.sim.h["W"].oracle.blocks.iter().take(horizon as usize).map(|b| b.len() as u64).sum();
                let mut blk = "-".to_string(); let mut hsh = "-".to_string(); let mut sk = "-".to_string();
                match r.below(10) {
                    0..=3 => { let i = r.below(horizon); let o = m.run(format!("missing R {i}")); blk = format!("{i}:{}", o.strip_prefix("ok ").and_then(|x| x.parse::<u64>().ok()).unwrap_or(0)); }
                    4..=5 => { let i = r.below(horizon); let o = m.run(format!("missing R {i}")); blk = format!("{i}:{}", o.strip_prefix("ok ").and_then(|x| x.parse::<u64>().ok()).unwrap_or(0)); if total > 0 && up.is_none() { sk = format!("{}", r.below(total)); } }
                    6 => { let leaf = r.below(horizon); let o = m.run(format!("missingt R {}", 2 * leaf)); hsh = format!("{}:{}", 2 * leaf, o.strip_prefix("ok ").and_then(|x| x.parse::<u64>().ok()).unwrap_or(0)); }
                    7..=8 => { if total > 0 { sk = format!("{}", r.below(total)); } }
                    _ => {}
                }
                let ups = up.map(|(s, l)| format!("{s}:{l}")).unwrap_or("-".into());
                if blk == "-" && hsh == "-" && sk == "-" && ups == "-" { continue; }
                let o = m.run(format!("prove W {blk} {hsh} {sk} {ups}"));
                if o.starts_with("ok fork") {
                    let honest = m.c.sim.proof.clone().unwrap();
                    let t = crate::sim::proof_full_txt(&honest);
                    // sometimes altered variants first: every configuration must give the same verdict on them
                    let mut changed = false;
                    if r.chance(1, 3) {
                        for _ in 0..r.range(1, 3) {
                            if let Some((q, kind)) = alter(&honest, None, &mut r) {
                                if q == honest { continue; }
                                *m.c.out.stats.entry(format!("alt_{kind}")).or_insert(0) += 1;
                                m.c.sim.proof_honest = false;
                                m.raw = true;
                                let o = m.run(format!("applyp R {}", crate::sim::proof_full_txt(&q)));
                                m.raw = false;
                                if o.starts_with("ok true") { changed = true; }
                            }
                        }
                    }
                    m.c.sim.proof = Some(honest); m.c.sim.proof_honest = !changed;
                    m.run(format!("applyp R {t}"));
                    if r.chance(1, 3) { m.run("probe R".into()); }
                    if r.chance(1, 6) { m.run("reopen R".into()); }
                }
            }
            if r.chance(1, 8) { m.run("dump W".into()); }
            if r.chance(1, 30) {
                // the writer starts over on the same storage (overwrite); its replicas are replaced by fresh ones
                m.run("recreate W".into()); m.run("probe W".into()); m.run("dump W".into());
                m.c.run("newr R W".into());
                for (name, opt) in MIRRORS.iter() { m.c.sim.exec(&format!("newr R{name} {name} {opt}")); m.c.sim.history.pop(); }
                m.last_proof = vec![None; MIRRORS.len()];
            }
        }
        m.run("probe W".into()); m.run("dump W".into()); m.run("dump R".into());
        m.run("reopen W".into()); m.run("probe W".into()); m.run("probe R".into());
        m.c.end_history();
    }
    m.c.out
}

// ---------------------------------------------------------------------------------------------
// events (C13) and key hygiene (C12)

pub fn event_histories(seed: u64, n: usize, max_ops: u64) -> RunOut {
    let mut r = Rng::new(seed);
    let mut c = Ctx { sim: Sim::new(), out: RunOut { ops: vec![], outs: vec![], stats: BTreeMap::new(), failures: vec![], samples: vec![] }, seen: HashSet::new(), hist_digest: String::new() };
    for _ in 0..n {
        c.run(format!("new W {SEED_HEX}"));
        c.run("new X 9d61b19deffd5a60ba844af492ec2cc44449c5697b326919703bac031cae7f60".to_string());
        c.run("newr R W".into());
        if r.chance(2, 3) { c.run("sub W".into()); }
        if r.chance(2, 3) { c.run("sub R".into()); }
        for _ in 0..r.range(4, max_ops) {
            let wl = c.sim.h["W"].oracle.len; let rl = c.sim.h["R"].oracle.len;
            match r.below(14) {
                0..=2 => { c.run(format!("append W {}", hex(&gen_block(&mut r, false)))); c.run(format!("append X {}", hex(&gen_block(&mut r, false)))); }
                3 => { let k = r.below(4); if k == 0 { c.run("batch W ~".into()); } else { c.run(format!("batch W {}", (0..k).map(|_| hex(&gen_block(&mut r, false))).collect::<Vec<_>>().join(","))); } }
                4 if wl > 0 => { let s = r.below(wl); c.run(format!("clear W {s} {}", s + r.range(1, 3))); }
                5 => { c.run(format!("get W {}", gen_index(&mut r, wl))); }
                6 => { c.run(format!("get R {}", gen_index(&mut r, rl.max(wl)))); }
                7 => { let who = if r.chance(1, 2) { "W" } else { "R" }; if c.sim.h[who].subs.len() < 3 { c.run(format!("sub {who}")); } }
                8 => { c.run("append R 00".into()); }
                _ if wl > 0 => {
                    let behind = rl < wl;
                    let up = if behind && (rl == 0 || r.chance(2, 3)) { let to = r.range(rl + 1, wl); Some((rl, to - rl)) } else { None };
                    let horizon = up.map(|(s, l)| s + l).unwrap_or(rl);
                    if horizon == 0 { continue; }
                    let mut blk = "-".to_string();
                    if r.chance(2, 3) { let i = r.below(horizon); let o = c.run(format!("missing R {i}")); blk = format!("{i}:{}", o.strip_prefix("ok ").and_then(|x| x.parse::<u64>().ok()).unwrap_or(0)); }
                    let ups = up.map(|(s, l)| format!("{s}:{l}")).unwrap_or("-".into());
                    if blk == "-" && ups == "-" { continue; }
                    let other = { let o = c.run(format!("prove X {blk} - - {ups}")); if o.starts_with("ok fork") { c.sim.proof.clone() } else { None } };
                    let o = c.run(format!("prove W {blk} - - {ups}"));
                    if !o.starts_with("ok fork") { continue; }
                    let honest = c.sim.proof.clone().unwrap();
                    // sometimes a refused variant first
                    if r.chance(1, 2) { if let Some((q, _)) = alter(&honest, other.as_ref(), &mut r) { if q != honest { c.sim.proof_honest = false; let o = c.run(format!("applyp R {}", crate::sim::proof_full_txt(&q))); if o.starts_with("ok true") { continue; } } } }
                    c.sim.proof = Some(honest.clone()); c.sim.proof_honest = true;
                    c.run(format!("applyp R {}", crate::sim::proof_full_txt(&honest)));
                    // the same answer once more: the upgrade now targets the length the replica already has
                    if r.chance(1, 3) {
                        *c.out.stats.entry("proof_reapplied".into()).or_insert(0) += 1;
                        // (not an answer to a request the replica would make now: accepted or refused, but consistently)
                        c.sim.proof = Some(honest.clone()); c.sim.proof_honest = false;
                        c.run(format!("applyp R {}", crate::sim::proof_full_txt(&honest)));
                    }
                }
                _ => {}
            }
        }
        c.run("evcheck W".into()); c.run("evcheck R".into());
        c.end_history();
    }
    c.out
}

pub fn readonly_histories(seed: u64, n: usize, max_ops: u64, with_crash: bool) -> RunOut {
    let mut r = Rng::new(seed);
    let mut c = Ctx { sim: Sim::new(), out: RunOut { ops: vec![], outs: vec![], stats: BTreeMap::new(), failures: vec![], samples: vec![] }, seen: HashSet::new(), hist_digest: String::new() };
    for hi in 0..n {
        c.run(format!("new W {SEED_HEX}"));
        c.run("pk W".into());
        c.run("openkp W".into());
        // all four header-bit parities and 0..3 unflushed entries at the moment of the call
        let pre = (hi as u64 % 8) + r.below(3);
        for _ in 0..pre {
            let len = c.sim.h["W"].oracle.len;
            let line = random_log_op(&mut r, len, false, false);
            c.run(line);
        }
        c.run(format!("secretscan W {SEED_HEX}"));
        if r.chance(1, 3) { c.run("rebuild W 9d61b19deffd5a60ba844af492ec2cc44449c5697b326919703bac031cae7f60".to_string()); c.run("pk W".into()); c.run("probe W".into()); }
        c.run("ro W".into());
        if with_crash { c.crash_points("W", Mode::Crash, &mut r, 0); }
        c.run(format!("secretscan W {SEED_HEX}"));
        c.run("probe W".into());
        c.run("pk W".into());
        c.run(format!("append W {}", hex(&gen_block(&mut r, false))));
        c.run("batch W 61,62".into());
        // the same instance keeps working after make_read_only: clears that reach the periodic flush (every fourth
        // mutation) write the header again — it must not bring the secret back
        let k = r.below(7);
        for _ in 0..k {
            let len = c.sim.h["W"].oracle.len;
            if len == 0 { break; }
            let s0 = r.below(len);
            c.run(format!("clear W {s0} {}", s0 + 1));
        }
        if k > 0 { *c.out.stats.entry("ro_then_same_instance_clears".into()).or_insert(0) += 1; c.run(format!("secretscan W {SEED_HEX}")); c.run("probe W".into()); }
        c.run("ro W".into());
        c.run("dump W".into());
        c.run("reopen W".into());
        c.run("pk W".into());
        c.run("probe W".into());
        c.run(format!("secretscan W {SEED_HEX}"));
        c.run("append W 63".into());
        // building (not opening) on the existing storage with some key pair must keep the stored key and writability
        c.run(format!("rebuild W {}", if r.chance(1, 2) { SEED_HEX } else { "9d61b19deffd5a60ba844af492ec2cc44449c5697b326919703bac031cae7f60" }));
        c.run("pk W".into());
        c.run("append W 64".into());
        c.run("probe W".into());
        c.run("ro W".into());
        c.run("openkp W".into());
        for _ in 0..r.below(max_ops) { let len = c.sim.h["W"].oracle.len; let line = random_log_op(&mut r, len, false, true); c.run(line); }
        c.run(format!("secretscan W {SEED_HEX}"));
        c.run("probe W".into());
        // a replica is read-only from the start
        c.run("newr R W".into()); c.run("pk R".into()); c.run("append R 00".into()); c.run("ro R".into()); c.run("probe R".into());
        c.run(format!("rebuild R {SEED_HEX}")); c.run("pk R".into()); c.run("append R 01".into()); c.run("probe R".into());
        c.end_history();
    }
    c.out
}

// ---------------------------------------------------------------------------------------------
// the storage backends against the flat-file model (C14)

pub fn backend_sequences(seed: u64, n: usize) -> RunOut {
    use random_access_storage::RandomAccess;
    use crate::backend::block_on;
    let mut r = Rng::new(seed);
    let mut out = RunOut { ops: vec![], outs: vec![], stats: BTreeMap::new(), failures: vec![], samples: vec![] };
    let dir = tempfile::Builder::new().prefix("hcverif-be").tempdir_in("/verif/work").or_else(|_| tempfile::tempdir()).unwrap();
    for case in 0..n {
        let mut mem = random_access_memory::RandomAccessMemory::new(if case % 3 == 0 { 16 } else if case % 3 == 1 { 1024 } else { 1024 * 1024 });
        let path = dir.path().join(format!("f{case}"));
        let mut disk = block_on(random_access_disk::RandomAccessDisk::open(path.clone())).unwrap();
        let mut flat: crate::backend::Files = Default::default();
        out.ops.push("fnew".into()); out.outs.push("ok".into());
        let mut hist = vec![];
        for _ in 0..r.range(3, 25) {
            let len = flat[0].len() as u64;
            let (line, expect): (String, String) = match r.below(10) {
                0..=3 => { let off = if r.chance(1, 4) { len + r.below(40) } else { r.below(len + 1) }; let dl = *r.pick(&[0usize, 1, 3, 17, 40, 100]); let d = r.bytes(dl); crate::backend::apply(&mut flat, &crate::backend::Op::Write(0, off, d.clone())); (format!("fwrite {off} {}", hex(&d)), format!("ok size={}", flat[0].len())) }
                4..=6 => { let off = r.below(len + 3); let l = r.below(30); let e = if off + l > len { "err".to_string() } else { format!("ok {}", crate::sim::show(&flat[0][off as usize..(off + l) as usize])) }; (format!("fread {off} {l}"), e) }
                7..=8 => { let off = r.below(len + 3); let l = r.below(40); let e = if off > len { "err".to_string() } else { crate::backend::apply(&mut flat, &crate::backend::Op::Del(0, off, l)); format!("ok size={}", flat[0].len()) }; (format!("fdel {off} {l}"), e) }
                _ => { let nl = r.below(len + 20); crate::backend::apply(&mut flat, &crate::backend::Op::Trunc(0, nl)); (format!("ftrunc {nl}"), format!("ok size={}", flat[0].len())) }
            };
            hist.push(line.clone());
            let ws: Vec<&str> = line.split(' ').collect();
            let mut results = vec![];
            for (bname, b) in [("memory", &mut mem as &mut (dyn RandomAccess + Send)), ("disk", &mut disk as &mut (dyn RandomAccess + Send))] {
                let res = block_on(async {
                    match ws[0] {
                        "fwrite" => { let d = crate::rng::unhex(ws[2]); match b.write(ws[1].parse().unwrap(), &d).await { Ok(()) => format!("ok size={}", b.len().await.unwrap()), Err(_) => "err".into() } }
                        "fread" => match b.read(ws[1].parse().unwrap(), ws[2].parse().unwrap()).await { Ok(v) => format!("ok {}", crate::sim::show(&v)), Err(_) => "err".into() },
                        "fdel" => match b.del(ws[1].parse().unwrap(), ws[2].parse().unwrap()).await { Ok(()) => format!("ok size={}", b.len().await.unwrap()), Err(_) => "err".into() },
                        _ => match b.truncate(ws[1].parse().unwrap()).await { Ok(()) => format!("ok size={}", b.len().await.unwrap()), Err(_) => "err".into() },
                    }
                });
                results.push((bname, res));
            }
            // a zero-length write past the end extends the memory backends but not the disk file: compare
            // sizes only where the property does (contents up to zero-filled holes) — see `dumpz`
            for (bname, res) in &results {
                let same = *res == expect || (*bname == "disk" && res.starts_with("ok size=") && expect.starts_with("ok size="));
                if !same { out.failures.push(Failure { key: format!("backend-differs-from-flat-file:{bname}"), detail: format!("backend {bname} answered [{res}] to `{line}`, the flat-file model says [{expect}] || sequence: {}", hist.join(" ; ")), line: out.ops.len() }); }
            }
            out.ops.push(line); out.outs.push(expect);
        }
        // final contents, up to trailing zeros
        let trim = |v: &Vec<u8>| { let mut n = v.len(); while n > 0 && v[n - 1] == 0 { n -= 1; } v[..n].to_vec() };
        let m = block_on(async { let l = mem.len().await.unwrap(); mem.read(0, l).await.unwrap() });
        let d = std::fs::read(&path).unwrap_or_default();
        if trim(&m) != trim(&flat[0]) || trim(&d) != trim(&flat[0]) { out.failures.push(Failure { key: "backend-contents-differ".into(), detail: format!("final contents differ: flat {} memory {} disk {} || sequence: {}", crate::sim::show(&flat[0]), crate::sim::show(&m), crate::sim::show(&d), hist.join(" ; ")), line: out.ops.len() }); }
        *out.stats.entry("cases".into()).or_insert(0) += 1;
        *out.stats.entry("distinct".into()).or_insert(0) += 1;
        if out.samples.len() < 2 { out.samples.push(hist.join(" ; ")); }
    }
    out
}

// ---------------------------------------------------------------------------------------------
// storage faults (C10): one I/O error at the k-th storage operation of a call

fn replay_with_fault(prefix: &[String], op: &str, k: usize, plen: u64) -> (String, String, String) { replay_with_fault_on("W", prefix, op, k, plen) }

fn replay_with_fault_on(name: &str, prefix: &[String], op: &str, k: usize, plen: u64) -> (String, String, String) { replay_with_fault_sub(name, prefix, op, k, plen, false) }

/// the same with a subscriber attached right before the failing call (C13: a failed call emits nothing)
fn replay_with_fault_sub(name: &str, prefix: &[String], op: &str, k: usize, plen: u64, subscribe: bool) -> (String, String, String) {
    let mut sim = Sim::new();
    sim.check_oracle = false;
    for l in prefix { sim.exec(l); }
    if subscribe { sim.exec(&format!("sub {name}")); sim.exec(&format!("sub {name}")); }
    sim.exec(&format!("faultnext {name} {k}"));
    let res = sim.exec(op);
    let st = sim.exec(&format!("faultstate {name}"));
    let r2 = sim.exec(&format!("reopen {name}"));
    let probe = if r2.starts_with("ok") { sim.exec(&format!("probeat {name} {plen}")) } else { format!("reopen:{r2}") };
    (res, st, probe)
}

/// events the subscribers saw during a call, from its output line (` ev=a,b;a,b`)
fn emitted(res: &str) -> String { res.split(" ev=").nth(1).map(|e| e.split(' ').next().unwrap_or("").replace(';', "")).unwrap_or_default() }

/// A read-only call (`missing_nodes`, `create_proof`) replayed once per storage operation it issues with that operation
/// failing: the call must answer with an error (C10: no storage error is swallowed, e.g. turned into "node missing").
fn readonly_faults(c: &mut Ctx, lines: &[String], name: &str, line: &str) {
    let mut probe_sim = Sim::new();
    probe_sim.check_oracle = false;
    for l in lines { probe_sim.exec(l); }
    probe_sim.exec(&format!("faultnext {name} 999999999"));
    probe_sim.exec(line);
    let st = probe_sim.exec(&format!("faultstate {name}"));
    let kinds: Vec<char> = st.split("kinds=").nth(1).unwrap_or("").chars().collect();
    for k in 0..kinds.len().min(24) {
        let (res, fst, _) = replay_with_fault_sub(name, lines, line, k, 0, false);
        *c.out.stats.entry(format!("readonly_fault_at_{}", kinds[k])).or_insert(0) += 1;
        *c.out.stats.entry("fault_points".into()).or_insert(0) += 1;
        if !fst.starts_with("failed=true") { continue; }
        let ctx = format!("`{}` with an I/O error at storage operation {k} ({}) of {name} || history: {}", crate::sim::trunc(line), kinds[k], crate::sim::trunc(&lines.join(" ; ")));
        let line_no = c.sim.line;
        if res.starts_with("ok") { c.out.failures.push(Failure { key: "fault-swallowed".into(), detail: format!("the call returned [{}] although a storage operation failed: {ctx}", crate::sim::trunc(&res)), line: line_no }); }
        else if res.starts_with("panic") { c.out.failures.push(Failure { key: "fault-panic".into(), detail: format!("the call panicked: {ctx}"), line: line_no }); }
    }
}

/// Storage faults during proof applications on a replica (C10 over "histories as in C02"): the writer holds a
/// log, the replica applies honest proofs (upgrade, block, block + upgrade, in random request order, with
/// growth rounds in between); each application is replayed once per storage operation of the replica with
/// that operation failing.
pub fn fault_replica_histories(seed: u64, n: usize, events: bool) -> RunOut {
    let mut r = Rng::new(seed);
    let mut c = Ctx { sim: Sim::new(), out: RunOut { ops: vec![], outs: vec![], stats: BTreeMap::new(), failures: vec![], samples: vec![] }, seen: HashSet::new(), hist_digest: String::new() };
    for _ in 0..n {
        let mut lines: Vec<String> = vec![];
        let mut go = |c: &mut Ctx, lines: &mut Vec<String>, l: String| -> String { lines.push(l.clone()); c.run(l) };
        go(&mut c, &mut lines, format!("new W {SEED_HEX}"));
        go(&mut c, &mut lines, "newr R W".into());
        let wl0 = r.range(1, 7);
        for _ in 0..wl0 { let b = gen_block(&mut r, false); go(&mut c, &mut lines, format!("append W {}", hex(&b))); }
        let rounds = r.range(2, 5);
        for _ in 0..rounds {
            if r.chance(1, 3) { let b = gen_block(&mut r, false); go(&mut c, &mut lines, format!("append W {}", hex(&b))); }
            let wl = c.sim.h["W"].oracle.len; let rl = c.sim.h["R"].oracle.len;
            let up = if rl < wl && (rl == 0 || r.chance(2, 3)) { Some((rl, wl - rl)) } else { None };
            let horizon = up.map(|(s, l)| s + l).unwrap_or(rl);
            if horizon == 0 { continue; }
            let mut blk = "-".to_string();
            if up.is_none() || r.chance(3, 4) {
                let cand: Vec<u64> = (0..horizon).filter(|i| !c.sim.h["R"].oracle.has(*i)).collect();
                if !cand.is_empty() {
                    let i = *r.pick(&cand);
                    if !events { readonly_faults(&mut c, &lines, "R", &format!("missing R {i}")); }
                    let o = go(&mut c, &mut lines, format!("missing R {i}")); blk = format!("{i}:{}", o.strip_prefix("ok ").and_then(|x| x.parse::<u64>().ok()).unwrap_or(0));
                }
            }
            let ups = up.map(|(s, l)| format!("{s}:{l}")).unwrap_or("-".into());
            if blk == "-" && ups == "-" { continue; }
            // the writer's side of the exchange under read faults; every other time with a seek, whose walk reads nodes it may miss
            if !events {
                let total: u64 = c.sim.h["W"].oracle.blocks.iter().take(horizon as usize).map(|b| b.len() as u64).sum();
                let sk = if ups == "-" && total > 0 && r.chance(1, 2) { format!("{}", r.below(total)) } else { "-".to_string() };
                readonly_faults(&mut c, &lines, "W", &format!("prove W {blk} - {sk} {ups}"));
            }
            let o = go(&mut c, &mut lines, format!("prove W {blk} - - {ups}"));
            if !o.starts_with("ok fork") { continue; }
            let line = format!("applyp R {}", crate::sim::proof_full_txt(c.sim.proof.as_ref().unwrap()));
            c.sim.exec("faultnext R 999999999"); c.sim.history.pop();
            c.run(line.clone());
            let st = c.sim.exec("faultstate R"); c.sim.history.pop();
            let kinds: Vec<char> = st.split("kinds=").nth(1).unwrap_or("").chars().collect();
            let jlen = c.sim.h["R"].last_journal.len();
            let mut crash_out: Vec<String> = vec![];
            for j in 0..=jlen { crash_out.push(c.run(format!("crash R {j} 0")).split(" oj=").next().unwrap().to_string()); }
            let plen = c.sim.h["R"].oracle.len.max(c.sim.h["R"].prev_oracle.len);
            for k in 0..kinds.len() {
                let (res, fst, probe) = replay_with_fault_sub("R", &lines, &line, k, plen, events);
                *c.out.stats.entry(format!("rfault_at_{}", kinds[k])).or_insert(0) += 1;
                *c.out.stats.entry("fault_points".into()).or_insert(0) += 1;
                if !fst.starts_with("failed=true") { continue; }
                if events {
                    // C13: a call that failed with a storage error announces nothing
                    *c.out.stats.entry("failed_calls_with_subscribers".into()).or_insert(0) += 1;
                    if !res.starts_with("ok") && !emitted(&res).is_empty() {
                        let line_no = c.sim.line;
                        c.out.failures.push(Failure { key: "events-on-failed-call".into(), detail: format!("the call failed [{}] but its subscribers received events: `{}` with an I/O error at the replica's storage operation {k} ({}) || history: {}", crate::sim::trunc(&res), crate::sim::trunc(&line), kinds[k], crate::sim::trunc(&lines.join(" ; "))), line: line_no });
                    }
                    continue;
                }
                let j = kinds[..k].iter().filter(|c| **c == 'w' || **c == 'd' || **c == 't').count();
                let ctx = format!("`{}` with an I/O error at the replica's storage operation {k} ({}) || history: {}", crate::sim::trunc(&line), kinds[k], crate::sim::trunc(&lines.join(" ; ")));
                let line_no = c.sim.line;
                if res.starts_with("ok") { c.out.failures.push(Failure { key: "fault-swallowed".into(), detail: format!("the call returned [{}] although a storage operation failed: {ctx}", crate::sim::trunc(&res)), line: line_no }); }
                else if res.starts_with("panic") { c.out.failures.push(Failure { key: "fault-panic".into(), detail: format!("the call panicked: {ctx}"), line: line_no }); }
                let expect = crash_out.get(j).cloned().unwrap_or_default();
                if probe != expect { c.out.failures.push(Failure { key: "fault-recovery-wrong".into(), detail: format!("after the failed call, drop and reopen shows [{}], expected the state of a crash after {j} storage operations [{}]: {ctx}", crate::sim::trunc(&probe), crate::sim::trunc(&expect)), line: line_no }); }
            }
            lines.push(line);
        }
        c.end_history();
    }
    c.out
}

pub fn fault_histories(seed: u64, n: usize, max_ops: u64, events: bool) -> RunOut {
    let mut r = Rng::new(seed);
    let mut c = Ctx { sim: Sim::new(), out: RunOut { ops: vec![], outs: vec![], stats: BTreeMap::new(), failures: vec![], samples: vec![] }, seen: HashSet::new(), hist_digest: String::new() };
    for _ in 0..n {
        let mut lines: Vec<String> = vec![format!("new W {SEED_HEX}")];
        c.run(lines[0].clone());
        let nops = r.range(2, max_ops);
        for _ in 0..nops {
            let len = c.sim.h["W"].oracle.len;
            let line = match r.below(10) { 0..=4 => random_log_op(&mut r, len, false, true), 5 => format!("get W {}", r.below(len + 1)), 6 => "reopen W".into(), _ => format!("append W {}", hex(&gen_block(&mut r, false))) };
            if line.starts_with("probe") || line.starts_with("has") || line.starts_with("info") { continue; }
            // clean run of the operation: kinds of all its storage operations, journal, crash outputs
            c.sim.exec("faultnext W 999999999"); c.sim.history.pop();
            let clean = c.run(line.clone());
            let st = c.sim.exec("faultstate W"); c.sim.history.pop();
            let kinds: Vec<char> = st.split("kinds=").nth(1).unwrap_or("").chars().collect();
            let mutating = line.starts_with("append") || line.starts_with("batch") || line.starts_with("clear") || line.starts_with("ro ");
            let jlen = if mutating { c.sim.h["W"].last_journal.len() } else { 0 };
            let mut crash_out: Vec<String> = vec![];
            if mutating { for j in 0..=jlen { crash_out.push(c.run(format!("crash W {j} 0")).split(" oj=").next().unwrap().to_string()); } }
            let plen = c.sim.h["W"].oracle.len.max(c.sim.h["W"].prev_oracle.len);
            let before_probe = if !mutating { let o = c.sim.exec(&format!("probeat W {plen}")); c.sim.history.pop(); Some(o) } else { None };
            // every fault point
            for k in 0..kinds.len() {
                let (res, fst, probe) = replay_with_fault_sub("W", &lines, &line, k, plen, events);
                *c.out.stats.entry(format!("fault_at_{}", kinds[k])).or_insert(0) += 1;
                *c.out.stats.entry("fault_points".into()).or_insert(0) += 1;
                let fired = fst.starts_with("failed=true");
                if !fired { continue; }
                if events {
                    *c.out.stats.entry("failed_calls_with_subscribers".into()).or_insert(0) += 1;
                    if !res.starts_with("ok") && !emitted(&res).is_empty() && !line.starts_with("get") {
                        let line_no = c.sim.line;
                        c.out.failures.push(Failure { key: "events-on-failed-call".into(), detail: format!("the call failed [{}] but its subscribers received events: `{line}` with an I/O error at its storage operation {k} ({}) || history: {}", crate::sim::trunc(&res), kinds[k], lines.join(" ; ")), line: line_no });
                    }
                    continue;
                }
                let j = kinds[..k].iter().filter(|c| **c == 'w' || **c == 'd' || **c == 't').count();
                let ctx = format!("`{line}` with an I/O error at its storage operation {k} ({}) || history: {}", kinds[k], lines.join(" ; "));
                let line_no = c.sim.line;
                if res.starts_with("ok") { c.out.failures.push(Failure { key: "fault-swallowed".into(), detail: format!("the call returned [{}] although a storage operation failed: {ctx}", crate::sim::trunc(&res)), line: line_no }); }
                else if res.starts_with("panic") { c.out.failures.push(Failure { key: "fault-panic".into(), detail: format!("the call panicked: {ctx}"), line: line_no }); }
                let expect = if mutating { crash_out.get(j).cloned().unwrap_or_default() } else { before_probe.clone().unwrap_or_default() };
                if probe != expect { c.out.failures.push(Failure { key: "fault-recovery-wrong".into(), detail: format!("after the failed call, drop and reopen shows [{}], expected the state of a crash after {j} storage operations [{}]: {ctx}", crate::sim::trunc(&probe), crate::sim::trunc(&expect)), line: line_no }); }
            }
            let _ = clean;
            lines.push(line);
        }
        c.end_history();
    }
    c.out
}

// ---------------------------------------------------------------------------------------------
// Merkle tree / signature against the independent reference (C05)

pub fn tree_histories(seed: u64, n: usize, max_len: u64) -> RunOut {
    let mut r = Rng::new(seed);
    let mut c = Ctx { sim: Sim::new(), out: RunOut { ops: vec![], outs: vec![], stats: BTreeMap::new(), failures: vec![], samples: vec![] }, seen: HashSet::new(), hist_digest: String::new() };
    for hi in 0..n {
        c.run(format!("new W {SEED_HEX}"));
        // target length: every length up to max_len is hit across histories; sizes 0..5 KiB
        let target = if (hi as u64) <= max_len { hi as u64 } else { r.range(0, max_len) };
        let fixed = hi % 3 == 0;
        let mut checks = 0;
        while c.sim.h["W"].oracle.len < target {
            let left = target - c.sim.h["W"].oracle.len;
            let blk = |r: &mut Rng| if fixed { vec![0x61u8; 3] } else { let n = match r.below(12) { 0 => 0, 1 => r.range(1000, 5200), 2 => 4096, _ => r.range(1, 60) } as usize; r.bytes(n) };
            if r.chance(1, 3) { let k = r.range(1, left.min(9)); c.run(format!("batch W {}", (0..k).map(|_| hex(&blk(&mut r))).collect::<Vec<_>>().join(","))); }
            else { c.run(format!("append W {}", hex(&blk(&mut r)))); }
            if r.chance(1, 7) { c.run("reopen W".into()); }
            if r.chance(1, 5) || c.sim.h["W"].oracle.len == target { checks += 1; let bl = c.sim.h["W"].oracle.blocks.iter().map(|b| hex(b)).collect::<Vec<_>>().join(","); c.run(format!("reftree W {}", if bl.is_empty() { "~".to_string() } else { bl })); }
        }
        if checks == 0 { c.run("reftree W ~".into()); }
        c.run("reopen W".into());
        let bl = c.sim.h["W"].oracle.blocks.iter().map(|b| hex(b)).collect::<Vec<_>>().join(",");
        c.run(format!("reftree W {}", if bl.is_empty() { "~".to_string() } else { bl }));
        c.run("probe W".into());
        c.end_history();
    }
    c.out
}

// ---------------------------------------------------------------------------------------------
// on-disk layout (C06)

fn hexfull(v: &[u8]) -> String { hex(v) }

impl Ctx {
    /// dump the raw stores of `name` and let the layout reader reconstruct the state from them
    fn readfiles(&mut self, name: &str) {
        let f = crate::backend::dump_files(&self.sim.h[name].world);
        self.sim.readfiles_of = name.to_string();
        self.run(format!("readfiles {} {} {} {}", hexfull(&f[0]), hexfull(&f[1]), hexfull(&f[2]), hexfull(&f[3])));
    }
}

fn golden_hashes() -> Vec<String> {
    // the constants certified against the JavaScript implementation, read from the repository's test
    let src = std::fs::read_to_string("/repo/tests/js_interop.rs").unwrap_or_default();
    let mut out = vec![];
    for step in 1..=5 {
        let Some(pos) = src.find(&format!("fn step_{step}_hash()")) else { continue };
        let body = &src[pos..src[pos..].find("\n}\n").map(|e| pos + e).unwrap_or(src.len())];
        let field = |n: &str| -> String { body.find(&format!("{n}: ")).map(|p| { let rest = &body[p + n.len() + 2..]; if rest.starts_with("None") { "NONE".to_string() } else { rest.split('"').nth(1).unwrap_or("").to_string() } }).unwrap_or_default() };
        out.push(format!("bitfield={} data={} oplog={} tree={}", field("bitfield"), field("data"), field("oplog"), field("tree")));
    }
    out
}

pub fn layout_histories(seed: u64, n: usize, max_ops: u64) -> RunOut {
    let mut r = Rng::new(seed);
    let mut c = Ctx { sim: Sim::new(), out: RunOut { ops: vec![], outs: vec![], stats: BTreeMap::new(), failures: vec![], samples: vec![] }, seen: HashSet::new(), hist_digest: String::new() };
    // --- the five-step interoperability scenario (tests/js_interop.rs), all steps executed by this crate
    {
        let golden = golden_hashes();
        let steps: Vec<Vec<String>> = vec![
            vec![format!("new W {SEED_HEX}")],
            vec!["reopen W".into(), "batch W 48656c6c6f,576f726c64".into()],
            vec!["reopen W".into(), "get W 0".into(), "get W 1".into(), "append W 6669727374".into(), "batch W 7365636f6e64,7468697264".into(), format!("append W {}", "61".repeat(4096 * 3)), "batch W ~".into(), "get W 2".into(), "get W 5".into()],
            vec!["reopen W".into(), "append W 00".into(), "append W 01".into(), "append W 02".into(), "append W 03".into(), "append W 04".into()],
            vec!["reopen W".into(), "clear W 5 6".into(), "clear W 7 9".into(), "info W".into(), "get W 5".into(), "get W 4".into()],
        ];
        for (i, st) in steps.iter().enumerate() {
            for l in st { c.run(l.clone()); }
            let got = c.run("sha W".into());
            if let Some(g) = golden.get(i) { if *g != got { let line = c.sim.line; c.out.failures.push(Failure { key: format!("interop-hash-step-{}", i + 1), detail: format!("after step {} of the interoperability scenario the stores hash to [{got}], the hashes certified against the JavaScript implementation are [{g}]", i + 1), line }); } }
            else { let line = c.sim.line; c.out.failures.push(Failure { key: "interop-golden-missing".into(), detail: "could not read the golden hashes from /repo/tests/js_interop.rs".into(), line }); }
            c.readfiles("W");
        }
        *c.out.stats.entry("interop_steps".into()).or_insert(0) += 5;
        c.end_history();
    }
    // --- a core whose bitfield needs a second page (page i of the bitfield store lies at byte 4096 * i)
    if seed % 4 == 1 {
        c.run(format!("new W {SEED_HEX}"));
        c.run("fill W 32766 3".into());
        for b in ["61", "6262", "63", "64"] { c.run(format!("append W {b}")); }
        c.readfiles("W");
        c.run("clear W 32767 32769".into());
        c.run("append W 65".into()); c.run("append W 66".into()); c.run("append W 67".into()); c.run("append W 68".into());
        c.readfiles("W");
        c.run("reopen W".into());
        c.readfiles("W");
        c.run("probe W".into());
        *c.out.stats.entry("two_page_bitfield_cases".into()).or_insert(0) += 1;
        c.end_history();
    }
    // --- dumps at every operation boundary, read back by the layout reader
    for _ in 0..n {
        c.run(format!("new W {SEED_HEX}"));
        c.run("newr R W".into());
        c.readfiles("W");
        // a clear deletes data at once: an unflushed clear entry cannot be "un-done" by flagging it partial
        let mut clear_since_flush = false;
        for _ in 0..r.range(3, max_ops) {
            let wl = c.sim.h["W"].oracle.len; let rl = c.sim.h["R"].oracle.len;
            if r.chance(2, 3) || wl == 0 {
                let line = random_log_op(&mut r, wl, false, true);
                let mutating = line.starts_with("append") || line.starts_with("batch") || line.starts_with("clear") || line.starts_with("ro ");
                let is_clear = line.starts_with("clear");
                c.run(line);
                if mutating { if c.sim.h["W"].unflushed_entries == 0 { clear_since_flush = false; } else if is_clear { clear_since_flush = true; } }
                if mutating { c.readfiles("W"); }
            } else {
                let behind = rl < wl;
                let up = if behind && (rl == 0 || r.chance(2, 3)) { let to = r.range(rl + 1, wl); Some((rl, to - rl)) } else { None };
                let horizon = up.map(|(s, l)| s + l).unwrap_or(rl);
                if horizon == 0 { continue; }
                let mut blk = "-".to_string();
                if r.chance(2, 3) { let i = r.below(horizon); let o = c.run(format!("missing R {i}")); blk = format!("{i}:{}", o.strip_prefix("ok ").and_then(|x| x.parse::<u64>().ok()).unwrap_or(0)); }
                let ups = up.map(|(s, l)| format!("{s}:{l}")).unwrap_or("-".into());
                if blk == "-" && ups == "-" { continue; }
                let o = c.run(format!("prove W {blk} - - {ups}"));
                if o.starts_with("ok fork") { let t = crate::sim::proof_full_txt(c.sim.proof.as_ref().unwrap()); c.run(format!("applyp R {t}")); c.readfiles("R"); }
            }
        }
        // --- the same storage re-encoded in other JS-valid forms, opened by the crate
        let f = crate::backend::dump_files(&c.sim.h["W"].world);
        let o = crate::jslayout::parse(&f[3]);
        let idx = crate::sim::probe_indices(c.sim.h["W"].oracle.len);
        let expect_now = c.sim.h["W"].oracle.probe_string(&idx);
        if let Some((hdr, bit)) = crate::jslayout::newest(&o) {
            let variants: Vec<(&str, crate::jslayout::Oplog)> = {
                let mut v = vec![];
                // header in slot 1 only / slot 0 only / both, entries re-framed with the matching current bit
                let reframe = |es: &Vec<crate::jslayout::Frame>, b: bool| es.iter().map(|e| crate::jslayout::Frame { bit: b, partial: e.partial, payload: e.payload.clone() }).collect::<Vec<_>>();
                v.push(("header-slot1-only", crate::jslayout::Oplog { slot0: None, slot1: Some(crate::jslayout::Frame { bit: true, partial: false, payload: hdr.clone() }), entries: reframe(&o.entries, true), trailing: vec![] }));
                v.push(("header-slot0-only", crate::jslayout::Oplog { slot0: Some(crate::jslayout::Frame { bit: true, partial: false, payload: hdr.clone() }), slot1: None, entries: reframe(&o.entries, false), trailing: vec![] }));
                v.push(("stale-entries-after", { let mut x = o.clone(); let stale: Vec<_> = reframe(&o.entries, !bit); x.entries.extend(stale); x }));
                v.push(("trailing-garbage", { let mut x = o.clone(); let gl = r.range(1, 7) as usize; x.trailing = r.bytes(gl); x }));
                v.push(("trailing-zero-leader", { let mut x = o.clone(); x.trailing = vec![0u8; 8]; x }));
                v
            };
            for (kind, ov) in variants {
                let bytes = crate::jslayout::render(&ov);
                let out = c.run(format!("openfiles V {} {} {} {}", hexfull(&f[0]), hexfull(&f[1]), hexfull(&f[2]), hexfull(&bytes)));
                *c.out.stats.entry(format!("synthetic_{kind}")).or_insert(0) += 1;
                let line = c.sim.line;
                if !out.starts_with("ok") { c.out.failures.push(Failure { key: format!("js-layout-not-opened:{kind}"), detail: format!("storage re-encoded as [{kind}] (valid for the JavaScript reader) was answered with {out} || history: {}", c.sim.history.iter().rev().skip(1).take(30).rev().map(|s| crate::sim::trunc(s).chars().take(120).collect::<String>()).collect::<Vec<_>>().join(" ; ")), line }); continue; }
                c.sim.check_oracle = false;
                let got = c.run("probe V".into());
                c.sim.check_oracle = true;
                let want = if expect_now.len() > 600 { format!("{} ## {:016x}", expect_now.split(" ::").next().unwrap(), fnv(&expect_now)) } else { expect_now.clone() };
                if got != want { c.out.failures.push(Failure { key: format!("js-layout-wrong-state:{kind}"), detail: format!("storage re-encoded as [{kind}] opens to [{}], expected [{}]", crate::sim::trunc(&got), crate::sim::trunc(&want)), line }); }
            }
            // trailing partial entries (an unfinished atomic batch) are dropped
            if !o.entries.is_empty() {
                let n = o.entries.len();
                let last_wrote_entry = c.sim.h["W"].last_journal.iter().any(|op| matches!(op, Op::Write(3, off, _) if *off >= 8192)) && !c.sim.h["W"].last_journal.iter().any(|op| matches!(op, Op::Trunc(3, _)));
                let shapes: Vec<(&str, Vec<bool>, Option<crate::sim::Oracle>)> = vec![
                    ("last-partial", (0..n).map(|i| i == n - 1).collect(), if last_wrote_entry { Some(c.sim.h["W"].prev_oracle.clone()) } else { None }),
                    ("all-partial", vec![true; n], Some(c.sim.h["W"].flushed_oracle.clone())),
                    ("partial-then-complete", (0..n).map(|i| i + 1 < n).collect(), if n >= 2 { Some(c.sim.h["W"].oracle.clone()) } else { None }),
                ];
                for (kind, flags, expect) in shapes {
                    if kind == "partial-then-complete" && n < 2 { continue; }
                    let mut x = o.clone();
                    for (e, p) in x.entries.iter_mut().zip(flags.iter()) { e.partial = *p; }
                    let bytes = crate::jslayout::render(&x);
                    let out = c.run(format!("openfiles V {} {} {} {}", hexfull(&f[0]), hexfull(&f[1]), hexfull(&f[2]), hexfull(&bytes)));
                    *c.out.stats.entry(format!("synthetic_{kind}")).or_insert(0) += 1;
                    let line = c.sim.line;
                    if !out.starts_with("ok") { c.out.failures.push(Failure { key: format!("js-layout-not-opened:{kind}"), detail: format!("a storage whose log entries are flagged [{kind}] (unfinished atomic batch) was answered with {out}"), line }); continue; }
                    c.sim.check_oracle = false; let got = c.run("probe V".into()); c.sim.check_oracle = true;
                    if let Some(e) = expect {
                        if clear_since_flush && kind != "partial-then-complete" { continue; }
                        let idx2 = crate::sim::probe_indices(e.len);
                        let w = e.probe_string(&idx2);
                        let want = if w.len() > 600 { format!("{} ## {:016x}", w.split(" ::").next().unwrap(), fnv(&w)) } else { w };
                        if got != want { c.out.failures.push(Failure { key: format!("js-layout-wrong-state:{kind}"), detail: format!("storage whose entries are flagged [{kind}] opens to [{}], expected [{}]", crate::sim::trunc(&got), crate::sim::trunc(&want)), line }); }
                    }
                }
            }
        }
        c.end_history();
    }
    c.out
}
