//! History generators (one PRNG state) and the driver loop that interleaves generation with
//! execution (crash/torn points depend on the journal the real crate just produced).
use crate::backend::Op;
use crate::rng::{fnv, hex, Rng};
use crate::sim::{Failure, Sim};
use std::collections::{BTreeMap, HashSet};

pub struct RunOut { pub ops: Vec<String>, pub outs: Vec<String>, pub stats: BTreeMap<String, u64>, pub failures: Vec<Failure>, pub samples: Vec<String> }

pub const SEED_HEX: &str = "27e67425c1ffd1d9ee625c962b5713c3510b711415f331f6fa9ef2bf235f2ffe";

fn gen_block(r: &mut Rng, big: bool) -> Vec<u8> {
    let n = match r.below(20) {
        0 => 0, 1 => 1, 2..=9 => r.range(1, 8), 10..=15 => r.range(9, 80), 16 => 253, 17 => r.range(200, 700),
        _ => if big { *r.pick(&[4096usize as u64, 4097, 12288, 12300, 70000]) } else { r.range(81, 200) },
    } as usize;
    r.bytes(n)
}
fn gen_index(r: &mut Rng, len: u64) -> u64 {
    match r.below(10) {
        0..=5 => r.below(len.max(1)),
        6 => len, 7 => len + 1,
        8 => *r.pick(&[(1u64 << 40) - 1, u64::MAX, 32768, 8192, 65536, 40960]),
        _ => r.below(2 * len + 3),
    }
}

#[derive(Clone, Copy, PartialEq)]
pub enum Mode { Log, Crash, Torn }

struct Ctx { sim: Sim, out: RunOut, seen: HashSet<u64>, hist_digest: String }
impl Ctx {
    fn run(&mut self, line: String) -> String {
        let o = self.sim.exec(&line);
        self.hist_digest.push_str(&o);
        self.out.ops.push(line);
        self.out.outs.push(o.clone());
        o
    }
    fn end_history(&mut self) {
        *self.out.stats.entry("cases".into()).or_insert(0) += 1;
        let nontrivial = self.sim.history.len() >= 3;
        if nontrivial && self.seen.insert(fnv(&self.hist_digest)) { *self.out.stats.entry("distinct".into()).or_insert(0) += 1; }
        if self.out.samples.len() < 3 { self.out.samples.push(self.sim.history.join(" ; ").chars().take(600).collect()); }
        self.hist_digest.clear();
        self.out.failures.extend(self.sim.failures.drain(..));
        for (k, v) in std::mem::take(&mut self.sim.stats) { *self.out.stats.entry(k).or_insert(0) += v; }
        let line = self.sim.line;
        self.sim = Sim::new();
        self.sim.line = line;
        self.run("reset".to_string());
    }
    /// all crash (and torn) points of the operation that just ran on `name`
    fn crash_points(&mut self, name: &str, mode: Mode, r: &mut Rng, go_prob: u64) {
        let j: Vec<Op> = self.sim.h[name].last_journal.clone();
        let class = |op: &Op| match op { Op::Write(s, o, _) => format!("cp_{}w{}", crate::backend::STORE_CH[*s], if *s == 3 && *o < 8192 { "hdr" } else { "" }), Op::Del(s, ..) => format!("cp_{}d", crate::backend::STORE_CH[*s]), Op::Trunc(s, _) => format!("cp_{}t", crate::backend::STORE_CH[*s]) };
        for k in 0..=j.len() {
            if let Some(op) = j.get(k) { *self.out.stats.entry(format!("{}_next", class(op))).or_insert(0) += 1; }
            self.run(format!("crash {name} {k} 0"));
            if mode == Mode::Torn {
                if let Some(Op::Write(_, _, d)) = j.get(k) {
                    let mut cuts: Vec<usize> = if d.len() <= 64 { (1..d.len()).collect() } else {
                        let mut c = vec![1, 3, 4, 5, 7, 8, 9, 12, d.len() / 2, d.len() - 1];
                        let mut s = 512; while s < d.len() { c.push(s); s += 512; }
                        for _ in 0..4 { c.push(r.range(1, d.len() as u64 - 1) as usize); }
                        c
                    };
                    cuts.sort(); cuts.dedup();
                    for t in cuts { if t > 0 && t < d.len() { self.run(format!("crash {name} {k} {t}")); } }
                }
            }
        }
        if !j.is_empty() && r.chance(go_prob, 100) {
            let k = r.below(j.len() as u64 + 1);
            self.run(format!("crashgo {name} {k} 0"));
            self.run(format!("probe {name}"));
            *self.out.stats.entry("crash_continued".into()).or_insert(0) += 1;
        }
    }
}

fn random_log_op(r: &mut Rng, len: u64, big: bool, allow_ro: bool) -> String {
    match r.below(100) {
        0..=34 => format!("append W {}", hex(&gen_block(r, big))),
        35..=46 => { let n = r.below(6); if n == 0 { "batch W ~".into() } else { format!("batch W {}", (0..n).map(|_| hex(&gen_block(r, false))).collect::<Vec<_>>().join(",")) } }
        47..=60 if len > 0 => { let s = r.below(len); let e = match r.below(4) { 0 => s + 1, 1 => len + r.below(4), _ => r.range(s + 1, len) }; format!("clear W {s} {e}") }
        61..=68 => format!("get W {}", gen_index(r, len)),
        69..=72 => format!("has W {}", gen_index(r, len)),
        73..=75 => "info W".into(),
        76..=90 => "reopen W".into(),
        91 if allow_ro => "ro W".into(),
        _ => "probe W".into(),
    }
}

/// Random histories on one writer (C01 / C02 / C07 depending on `mode`).
pub fn random_histories(seed: u64, n: usize, max_ops: u64, mode: Mode, big: bool) -> RunOut {
    let mut r = Rng::new(seed);
    let mut c = Ctx { sim: Sim::new(), out: RunOut { ops: vec![], outs: vec![], stats: BTreeMap::new(), failures: vec![], samples: vec![] }, seen: HashSet::new(), hist_digest: String::new() };
    for _ in 0..n {
        c.run(format!("new W {SEED_HEX}"));
        if mode != Mode::Log { c.crash_points("W", mode, &mut r, 0); }
        let nops = r.range(3, max_ops);
        for _ in 0..nops {
            let len = c.sim.h["W"].oracle.len;
            let line = random_log_op(&mut r, len, big, mode != Mode::Log);
            let mutating = line.starts_with("append") || line.starts_with("batch") || line.starts_with("clear") || line.starts_with("ro ");
            c.run(line);
            if mutating && mode != Mode::Log { c.crash_points("W", mode, &mut r, 12); }
        }
        c.run("probe W".into());
        c.run("reopen W".into());
        c.run("probe W".into());
        c.end_history();
    }
    c.out
}

const ALPHABET: [&str; 10] = ["append W -", "append W 61", "append W 626364", "batch W ~", "batch W 78,797a", "clear W 0 1", "clear W LAST LAST3", "clear W MID MID1", "reopen W", "get W LEN"];

/// Bounded-exhaustive: every sequence of `depth` symbols of the alphabet, full probe after each step.
pub fn exhaustive_histories(depth: usize, mode: Mode, limit: usize, seed: u64) -> RunOut {
    let mut r = Rng::new(seed);
    let mut c = Ctx { sim: Sim::new(), out: RunOut { ops: vec![], outs: vec![], stats: BTreeMap::new(), failures: vec![], samples: vec![] }, seen: HashSet::new(), hist_digest: String::new() };
    let a = ALPHABET.len();
    let total = a.pow(depth as u32);
    let step = if total > limit { total / limit + 1 } else { 1 };
    let mut code = 0usize;
    while code < total {
        c.run(format!("new W {SEED_HEX}"));
        let mut x = code;
        for _ in 0..depth {
            let sym = ALPHABET[x % a]; x /= a;
            let len = c.sim.h["W"].oracle.len;
            if sym.starts_with("clear") && len == 0 { continue; }
            let line = sym.replace("LAST3", &(len + 3).to_string()).replace("LAST", &len.saturating_sub(1).to_string())
                .replace("MID1", &(len / 2 + 1).to_string()).replace("MID", &(len / 2).to_string()).replace("LEN", &len.to_string());
            let mutating = line.starts_with("append") || line.starts_with("batch") || line.starts_with("clear");
            c.run(line);
            if mutating && mode != Mode::Log { c.crash_points("W", mode, &mut r, 0); }
            c.run("probe W".into());
        }
        c.end_history();
        code += step;
    }
    *c.out.stats.entry("exhaustive_depth".into()).or_insert(0) = depth as u64;
    c.out
}

/// Large cores: indices crossing 8192, 32768 and 65536; clears straddling page edges; reopen and
/// crash recovery in between (C08, and C01's "longer than one bitfield page").
pub fn large_histories(seed: u64, n: usize, with_crash: bool) -> RunOut {
    let mut r = Rng::new(seed);
    let mut c = Ctx { sim: Sim::new(), out: RunOut { ops: vec![], outs: vec![], stats: BTreeMap::new(), failures: vec![], samples: vec![] }, seen: HashSet::new(), hist_digest: String::new() };
    for hi in 0..n {
        c.run(format!("new W {SEED_HEX}"));
        let targets: Vec<u64> = match hi % 4 { 0 => vec![9000], 1 => vec![8190, 8200, 32760, 32775], 2 => vec![33000, 66000], _ => vec![r.range(8000, 9000), r.range(32000, 34000), r.range(65000, 70000)] };
        for t in targets {
            let len = c.sim.h["W"].oracle.len;
            if t > len { c.run(format!("fill W {} {}", t - len, r.below(200))); }
            if with_crash { let j = c.sim.h["W"].last_journal.len(); for k in [0, 1, 2, j / 2, j.saturating_sub(2), j.saturating_sub(1), j] { if k <= j { c.run(format!("crash W {k} 0")); } } }
            c.run("scan W".into());
            c.run("probe W".into());
            c.run("reopen W".into());
            c.run("scan W".into());
            c.run("probe W".into());
            let len = c.sim.h["W"].oracle.len;
            for _ in 0..r.range(1, 4) {
                let edge = *r.pick(&[8192u64, 32768, 65536, 16384, 40960, 32, 1024]);
                if edge + 2 < len {
                    let s = edge - r.below(6).min(edge); let e = edge + r.range(1, 9);
                    c.run(format!("clear W {s} {e}"));
                } else if len > 10 { let s = r.below(len - 5); c.run(format!("clear W {s} {}", s + r.range(1, 5))); }
                if with_crash { let j = c.sim.h["W"].last_journal.len(); for k in 0..=j { c.run(format!("crash W {k} 0")); } }
                if r.chance(1, 2) { c.run("reopen W".into()); }
                c.run("scan W".into());
            }
            c.run(format!("append W {}", hex(&gen_block(&mut r, false))));
            c.run("scan W".into());
            c.run("reopen W".into());
            c.run("scan W".into());
            c.run("probe W".into());
        }
        c.end_history();
    }
    c.out
}

/// Honest replication (C03): a writer W with appends/clears, one or two replicas fetching in random
/// request orders; every request is well-formed (nodes from missing_nodes, upgrade from the
/// replica's own length whenever it is behind).
pub fn replication_histories(seed: u64, n: usize, max_len: u64, with_crash: Mode) -> RunOut {
    let mut r = Rng::new(seed);
    let mut c = Ctx { sim: Sim::new(), out: RunOut { ops: vec![], outs: vec![], stats: BTreeMap::new(), failures: vec![], samples: vec![] }, seen: HashSet::new(), hist_digest: String::new() };
    for _ in 0..n {
        c.run(format!("new W {SEED_HEX}"));
        c.run("newr R W".into());
        let rounds = r.range(1, 4);
        for _ in 0..rounds {
            // writer grows
            let grow = r.range(1, max_len / rounds + 1);
            let mut left = grow;
            while left > 0 {
                if r.chance(1, 3) { let k = r.range(1, left.min(6)); c.run(format!("batch W {}", (0..k).map(|_| hex(&gen_block(&mut r, false))).collect::<Vec<_>>().join(","))); left -= k; }
                else { c.run(format!("append W {}", hex(&gen_block(&mut r, false)))); left -= 1; }
            }
            if r.chance(1, 5) { let wl = c.sim.h["W"].oracle.len; let s = r.below(wl); c.run(format!("clear W {s} {}", s + 1)); }
            if r.chance(1, 6) { c.run("reopen W".into()); }
            let nreq = r.range(1, 10);
            for _ in 0..nreq {
                let wl = c.sim.h["W"].oracle.len;
                let rl = c.sim.h["R"].oracle.len;
                let behind = rl < wl;
                // upgrade target: any length in (rl, wl]
                let up = if behind && (rl == 0 || r.chance(2, 3)) { let to = r.range(rl + 1, wl); Some((rl, to - rl)) } else { None };
                let horizon = up.map(|(s, l)| s + l).unwrap_or(rl);
                if horizon == 0 { continue; }
                let kind = r.below(10);
                let mut blk = "-".to_string(); let mut hsh = "-".to_string(); let mut sk = "-".to_string();
                if kind < 6 {
                    let i = r.below(horizon);
                    let o = c.run(format!("missing R {i}"));
                    let nn: u64 = o.strip_prefix("ok ").and_then(|x| x.parse().ok()).unwrap_or(0);
                    blk = format!("{i}:{nn}");
                } else if kind < 8 {
                    // hash of a tree node whose span lies within the horizon
                    let leaf = r.below(horizon);
                    let mut ti = 2 * leaf; let mut span = 1u64; let mut lo = leaf;
                    // the node's span lies entirely below the replica's length or entirely at/above it
                    for _ in 0..r.below(4) { let nspan = span * 2; let nlo = lo - (lo % nspan); if nlo + nspan > horizon || (nlo < rl && nlo + nspan > rl) { break; } ti = nlo * 2 + nspan - 1; span = nspan; lo = nlo; }
                    let o = c.run(format!("missingt R {ti}"));
                    let nn: u64 = o.strip_prefix("ok ").and_then(|x| x.parse().ok()).unwrap_or(0);
                    hsh = format!("{ti}:{nn}");
                } else if kind == 8 {
                    let total: u64 = c.sim.h["W"].oracle.blocks.iter().take(horizon as usize).map(|b| b.len() as u64).sum();
                    if total > 0 { sk = format!("{}", r.below(total)); }
                }
                let ups = up.map(|(s, l)| format!("{s}:{l}")).unwrap_or("-".into());
                if blk == "-" && hsh == "-" && sk == "-" && ups == "-" { continue; }
                let o = c.run(format!("prove W {blk} {hsh} {sk} {ups}"));
                if o.starts_with("ok fork") {
                    c.run("apply R".into());
                    if with_crash != Mode::Log { c.crash_points("R", with_crash, &mut r, 10); }
                    if r.chance(1, 4) { c.run("probe R".into()); }
                    if r.chance(1, 8) { c.run("reopen R".into()); c.run("probe R".into()); }
                }
            }
        }
        c.run("probe R".into());
        c.run("reopen R".into());
        c.run("probe R".into());
        c.end_history();
    }
    c.out
}
