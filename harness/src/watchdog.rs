//! Hang detection: an operation that does not return within the limit is reported (with the
//! history that led to it) and the process exits with status 3.
use std::sync::atomic::{AtomicU64, Ordering};
use std::sync::Mutex;
use std::time::{SystemTime, UNIX_EPOCH};

static STARTED: AtomicU64 = AtomicU64::new(0);
static CURRENT: Mutex<String> = Mutex::new(String::new());
fn now_ms() -> u64 { SystemTime::now().duration_since(UNIX_EPOCH).unwrap().as_millis() as u64 }

pub fn enter(history: &[String]) {
    let tail = history.iter().rev().take(60).rev().map(|l| if l.len() > 300 { format!("{}…[{} chars]", &l[..300], l.len()) } else { l.clone() }).collect::<Vec<_>>().join(" ; ");
    *CURRENT.lock().unwrap() = tail;
    STARTED.store(now_ms(), Ordering::SeqCst);
}
pub fn leave() { STARTED.store(0, Ordering::SeqCst); }

pub fn start(out_dir: String, limit_ms: u64) {
    std::thread::spawn(move || loop {
        std::thread::sleep(std::time::Duration::from_millis(250));
        let s = STARTED.load(Ordering::SeqCst);
        if s != 0 && now_ms() - s > limit_ms {
            let cur = CURRENT.lock().map(|c| c.clone()).unwrap_or_default();
            let msg = format!("HANG: an operation did not return within {} s (non-termination or runaway allocation). History: {}", limit_ms / 1000, cur);
            let _ = std::fs::write(format!("{out_dir}/hang.txt"), &msg);
            eprintln!("{msg}");
            std::process::exit(3);
        }
    });
}
