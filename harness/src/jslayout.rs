//! The JavaScript Hypercore-10 oplog layout, written from its description (independent of the crate):
//! two 4096-byte header slots, each `crc32(LE) ‖ (len << 2 | partial << 1 | bit)(LE) ‖ payload`;
//! entries from byte 8192 in the same framing. Used to re-encode storages the crate produced in
//! other JS-valid forms (header in the other slot, trailing partial entries, stale entries, garbage).
pub const SLOT: usize = 4096;
pub const ENTRIES: usize = 8192;

#[derive(Clone, Debug)]
pub struct Frame { pub bit: bool, pub partial: bool, pub payload: Vec<u8> }

pub fn render_frame(f: &Frame) -> Vec<u8> {
    let word: u32 = ((f.payload.len() as u32) << 2) | if f.partial { 2 } else { 0 } | if f.bit { 1 } else { 0 };
    let mut h = crc32fast::Hasher::new();
    h.update(&word.to_le_bytes());
    h.update(&f.payload);
    let mut out = h.finalize().to_le_bytes().to_vec();
    out.extend_from_slice(&word.to_le_bytes());
    out.extend_from_slice(&f.payload);
    out
}
pub fn parse_frame(buf: &[u8]) -> Option<(Frame, usize)> {
    if buf.len() < 8 { return None; }
    let crc = u32::from_le_bytes(buf[0..4].try_into().unwrap());
    let word = u32::from_le_bytes(buf[4..8].try_into().unwrap());
    let len = (word >> 2) as usize;
    if len == 0 || buf.len() < 8 + len { return None; }
    let mut h = crc32fast::Hasher::new();
    h.update(&buf[4..8 + len]);
    if h.finalize() != crc { return None; }
    Some((Frame { bit: word & 1 == 1, partial: word & 2 == 2, payload: buf[8..8 + len].to_vec() }, 8 + len))
}
#[derive(Clone, Debug, Default)]
pub struct Oplog { pub slot0: Option<Frame>, pub slot1: Option<Frame>, pub entries: Vec<Frame>, pub trailing: Vec<u8> }

pub fn parse(oplog: &[u8]) -> Oplog {
    let mut o = Oplog::default();
    if oplog.len() >= SLOT { o.slot0 = parse_frame(&oplog[..SLOT]).map(|x| x.0); }
    if oplog.len() >= 2 * SLOT { o.slot1 = parse_frame(&oplog[SLOT..2 * SLOT]).map(|x| x.0); }
    let mut pos = ENTRIES;
    while pos < oplog.len() { match parse_frame(&oplog[pos..]) { Some((f, n)) => { o.entries.push(f); pos += n; } None => break } }
    if pos < oplog.len() { o.trailing = oplog[pos..].to_vec(); }
    o
}
pub fn render(o: &Oplog) -> Vec<u8> {
    let mut out = vec![0u8; ENTRIES];
    if let Some(f) = &o.slot0 { let b = render_frame(f); out[..b.len()].copy_from_slice(&b); }
    if let Some(f) = &o.slot1 { let b = render_frame(f); out[SLOT..SLOT + b.len()].copy_from_slice(&b); }
    for e in &o.entries { out.extend_from_slice(&render_frame(e)); }
    out.extend_from_slice(&o.trailing);
    out
}
/// the header the reader uses and the current header bit
pub fn newest(o: &Oplog) -> Option<(Vec<u8>, bool)> {
    match (&o.slot0, &o.slot1) {
        (Some(a), Some(b)) => Some((if a.bit == b.bit { a.payload.clone() } else { b.payload.clone() }, a.bit != b.bit)),
        (Some(a), None) => Some((a.payload.clone(), false)),
        (None, Some(b)) => Some((b.payload.clone(), true)),
        (None, None) => None,
    }
}
