//! Third, independent reference of the Hypercore-10 Merkle scheme (written from the scheme's
//! description, using the `blake2` and `ed25519-dalek` crates directly — not the crate under test):
//! leaf = BLAKE2b-256(0x00 ‖ LE64 size ‖ data); parent = BLAKE2b-256(0x01 ‖ LE64 size ‖ left ‖ right);
//! tree = BLAKE2b-256(0x02 ‖ for each root: hash ‖ LE64 index ‖ LE64 size);
//! signed message = namespace ‖ tree hash ‖ LE64 length ‖ LE64 fork; flat in-order numbering.
use blake2::{digest::consts::U32, Blake2b, Digest};
type B256 = Blake2b<U32>;

pub const TREE_NS: [u8; 32] = [
    0x9F, 0xAC, 0x70, 0xB5, 0x0C, 0xA1, 0x4E, 0xFC, 0x4E, 0x91, 0xC8, 0x33, 0xB2, 0x04, 0xE7, 0x5B,
    0x8B, 0x5A, 0xAD, 0x8B, 0x58, 0x81, 0xBF, 0xC0, 0xAD, 0xB5, 0xEF, 0x38, 0xA3, 0x27, 0x5B, 0x9C,
];

#[derive(Clone, Debug, PartialEq)]
pub struct RNode { pub index: u64, pub size: u64, pub hash: [u8; 32] }

pub fn leaf(d: &[u8]) -> [u8; 32] { let mut h = B256::new(); h.update([0u8]); h.update((d.len() as u64).to_le_bytes()); h.update(d); h.finalize().into() }
pub fn parent(size: u64, l: &[u8; 32], r: &[u8; 32]) -> [u8; 32] { let mut h = B256::new(); h.update([1u8]); h.update(size.to_le_bytes()); h.update(l); h.update(r); h.finalize().into() }
pub fn flat(depth: u32, offset: u64) -> u64 { (offset << (depth + 1)) + (1u64 << depth) - 1 }

/// all full nodes of the tree over `blocks`, by level
pub fn all_nodes(blocks: &[Vec<u8>]) -> Vec<RNode> {
    let mut out = vec![];
    let mut level: Vec<(u64, [u8; 32])> = blocks.iter().map(|b| (b.len() as u64, leaf(b))).collect();
    let mut depth = 0u32;
    while !level.is_empty() {
        for (o, (s, h)) in level.iter().enumerate() { out.push(RNode { index: flat(depth, o as u64), size: *s, hash: *h }); }
        let mut next = vec![];
        for pair in level.chunks(2) { if pair.len() == 2 { let s = pair[0].0 + pair[1].0; next.push((s, parent(s, &pair[0].1, &pair[1].1))); } }
        level = next; depth += 1;
    }
    out.sort_by_key(|n| n.index);
    out
}
/// root positions of a tree with n leaves, left to right
pub fn roots(n: u64) -> Vec<u64> {
    let mut out = vec![]; let mut off = 0u64; let mut rem = n;
    while rem > 0 { let d = 63 - rem.leading_zeros(); out.push(flat(d, off >> d)); off += 1 << d; rem -= 1 << d; }
    out
}
pub fn tree_hash(roots: &[RNode]) -> [u8; 32] { let mut h = B256::new(); h.update([2u8]); for r in roots { h.update(r.hash); h.update(r.index.to_le_bytes()); h.update(r.size.to_le_bytes()); } h.finalize().into() }
pub fn signable(tree_hash: &[u8; 32], length: u64, fork: u64) -> Vec<u8> { let mut v = TREE_NS.to_vec(); v.extend_from_slice(tree_hash); v.extend_from_slice(&length.to_le_bytes()); v.extend_from_slice(&fork.to_le_bytes()); v }
pub fn node_bytes(n: &RNode) -> Vec<u8> { let mut v = n.size.to_le_bytes().to_vec(); v.extend_from_slice(&n.hash); v }
