//! Executor of the line protocol on the real crate, with the list-model oracle evaluated on the
//! implementation's own observations (independent of Lean).
use crate::backend::{self, apply, block_on, new_world, Files, Op, Shared, STORE_CH};
use std::collections::BTreeSet;
use crate::rng::{fnv, hex, unhex};
use futures::FutureExt;
use hypercore::replication::Event;
use hypercore::{DataBlock, DataHash, DataSeek, DataUpgrade, Hypercore, HypercoreBuilder, Node, PartialKeypair, Proof, RequestBlock, RequestSeek, RequestUpgrade, SigningKey};
use merkle_tree_stream::Node as NodeTrait;
use std::collections::BTreeMap;
use std::panic::AssertUnwindSafe;

pub fn fnv_bytes(b: &[u8]) -> u64 {
    let mut h: u64 = 0xcbf29ce484222325;
    for x in b { h ^= *x as u64; h = h.wrapping_mul(0x100000001b3); }
    h
}
/// canonical rendering of a byte string: "-" if empty, hex if short, "#len:fnv64" otherwise
pub fn show(b: &[u8]) -> String {
    if b.len() <= 48 { hex(b) } else { format!("#{}:{:016x}", b.len(), fnv_bytes(b)) }
}
pub fn jfmt(ops: &[Op]) -> String {
    // tree-node writes between two non-tree operations form an unordered group (IntMap::drain order)
    let mut items: Vec<(usize, u64, String)> = ops.iter().map(|op| match op {
        Op::Write(s, o, d) => (*s, *o, format!("{}w@{}:{}", STORE_CH[*s], o, show(d))),
        Op::Del(s, o, l) => (9, *o, format!("{}d@{}+{}", STORE_CH[*s], o, l)),
        Op::Trunc(s, l) => (9, *l, format!("{}t@{}", STORE_CH[*s], l)),
    }).collect();
    let mut i = 0;
    while i < items.len() {
        if items[i].0 == backend::TREE {
            let mut j = i;
            while j < items.len() && items[j].0 == backend::TREE { j += 1; }
            items[i..j].sort_by_key(|x| x.1);
            i = j;
        } else { i += 1; }
    }
    format!("[{}]", items.into_iter().map(|x| x.2).collect::<Vec<_>>().join(","))
}

#[derive(Clone, Debug, Default)]
pub struct Oracle {
    /// the writer's blocks (for a replica: what the writer had at the replica's last upgrade is a prefix)
    pub blocks: Vec<Vec<u8>>,
    pub held: Vec<bool>,
    pub len: u64,
    pub byte_len: u64,
    pub writable: bool,
    pub exists: bool,
}
impl Oracle {
    pub fn contiguous(&self) -> u64 { self.held.iter().position(|h| !*h).map(|p| p as u64).unwrap_or(self.len) }
    pub fn has(&self, i: u64) -> bool { i < self.len && self.held[i as usize] }
    pub fn probe_string(&self, idx: &[u64]) -> String {
        let mut s = format!("len={} bl={} cl={} fork=0 w={} ::", self.len, self.byte_len, self.contiguous(), self.writable);
        for &i in idx {
            if self.has(i) { s += &format!(" {}=1S{}", i, show(&self.blocks[i as usize])); } else { s += &format!(" {}=0N", i); }
        }
        s
    }
}

pub struct Handle {
    pub world: Shared,
    pub core: Option<Hypercore>,
    pub seed: Option<[u8; 32]>,
    pub writer: String,
    pub oracle: Oracle,
    /// files / oracle before the last mutating operation, and that operation's journal
    pub prev_files: Files,
    pub prev_oracle: Oracle,
    pub last_journal: Vec<Op>,
    pub subs: Vec<Box<dyn FnMut() -> Vec<String>>>,
    /// block indices announced by Have events of the first subscriber / that became available
    pub announced: BTreeSet<u64>,
    pub became: BTreeSet<u64>,
    pub sub_since_start: bool,
    /// log entries written since the last flush (derived from the journals), and the oracle at that flush
    pub unflushed_entries: u64,
    pub flushed_oracle: Oracle,
}

#[derive(Clone, Debug)]
pub struct Failure { pub key: String, pub detail: String, pub line: usize }

pub fn node_txt(n: &Node) -> String { format!("{}:{}:{}", n.index(), n.len(), hex(n.hash())) }
pub fn nodes_txt(ns: &[Node]) -> String { if ns.is_empty() { "-".into() } else { ns.iter().map(node_txt).collect::<Vec<_>>().join(",") } }
pub fn proof_txt(p: &Proof) -> String {
    let b = p.block.as_ref().map(|b| format!("{}:{}:{}", b.index, show(&b.value), nodes_txt(&b.nodes))).unwrap_or("-".into());
    let h = p.hash.as_ref().map(|b| format!("{}:{}", b.index, nodes_txt(&b.nodes))).unwrap_or("-".into());
    let s = p.seek.as_ref().map(|b| format!("{}:{}", b.bytes, nodes_txt(&b.nodes))).unwrap_or("-".into());
    let u = p.upgrade.as_ref().map(|u| format!("{}:{}:{}:{}:{}", u.start, u.length, nodes_txt(&u.nodes), nodes_txt(&u.additional_nodes), hex(&u.signature))).unwrap_or("-".into());
    format!("fork={} block={} hash={} seek={} up={}", p.fork, b, h, s, u)
}

/// full textual form: `fork=F block=I/VALUE/NODES hash=I/NODES seek=B/NODES up=S/L/NODES/ADD/SIG`
pub fn proof_full_txt(p: &Proof) -> String {
    let b = p.block.as_ref().map(|b| format!("{}/{}/{}", b.index, hex(&b.value), nodes_txt(&b.nodes))).unwrap_or("-".into());
    let h = p.hash.as_ref().map(|b| format!("{}/{}", b.index, nodes_txt(&b.nodes))).unwrap_or("-".into());
    let s = p.seek.as_ref().map(|b| format!("{}/{}", b.bytes, nodes_txt(&b.nodes))).unwrap_or("-".into());
    let u = p.upgrade.as_ref().map(|u| format!("{}/{}/{}/{}/{}", u.start, u.length, nodes_txt(&u.nodes), nodes_txt(&u.additional_nodes), hex(&u.signature))).unwrap_or("-".into());
    format!("fork={} block={} hash={} seek={} up={}", p.fork, b, h, s, u)
}
fn parse_nodes(s: &str) -> Option<Vec<Node>> {
    if s == "-" { return Some(vec![]); }
    s.split(',').map(|n| { let f: Vec<&str> = n.split(':').collect(); if f.len() != 3 { return None; } Some(Node::new(f[0].parse().ok()?, unhex(f[2]), f[1].parse().ok()?)) }).collect()
}
pub fn parse_proof(ws: &[&str]) -> Option<Proof> {
    if ws.len() != 5 { return None; }
    let fork: u64 = ws[0].strip_prefix("fork=")?.parse().ok()?;
    let bs = ws[1].strip_prefix("block=")?;
    let block = if bs == "-" { None } else { let f: Vec<&str> = bs.split('/').collect(); if f.len() != 3 { return None; } Some(DataBlock { index: f[0].parse().ok()?, value: unhex(f[1]), nodes: parse_nodes(f[2])? }) };
    let hs = ws[2].strip_prefix("hash=")?;
    let hash = if hs == "-" { None } else { let f: Vec<&str> = hs.split('/').collect(); if f.len() != 2 { return None; } Some(DataHash { index: f[0].parse().ok()?, nodes: parse_nodes(f[1])? }) };
    let ss = ws[3].strip_prefix("seek=")?;
    let seek = if ss == "-" { None } else { let f: Vec<&str> = ss.split('/').collect(); if f.len() != 2 { return None; } Some(DataSeek { bytes: f[0].parse().ok()?, nodes: parse_nodes(f[1])? }) };
    let us = ws[4].strip_prefix("up=")?;
    let upgrade = if us == "-" { None } else { let f: Vec<&str> = us.split('/').collect(); if f.len() != 5 { return None; } Some(DataUpgrade { start: f[0].parse().ok()?, length: f[1].parse().ok()?, nodes: parse_nodes(f[2])?, additional_nodes: parse_nodes(f[3])?, signature: unhex(f[4]) }) };
    Some(Proof { fork, block, hash, seek, upgrade })
}

pub struct Sim {
    pub proof: Option<Proof>,
    /// the stored proof is the unaltered answer to a well-formed request
    pub proof_honest: bool,
    pub proof_writer_len: u64,
    /// which core the next `readfiles` line describes
    pub readfiles_of: String,
    pub h: BTreeMap<String, Handle>,
    pub failures: Vec<Failure>,
    pub line: usize,
    pub history: Vec<String>,
    pub stats: BTreeMap<String, u64>,
    pub check_oracle: bool,
    /// long histories of honest proof applications: no per-call snapshot of the stores (no crash points are taken)
    pub light: bool,
}

pub fn probe_indices(len: u64) -> Vec<u64> {
    let mut v: Vec<u64> = (0..len.min(24) + 2).collect();
    if len > 24 { for i in len.saturating_sub(3)..len + 2 { if !v.contains(&i) { v.push(i); } } }
    for b in [8191u64, 8192, 32767, 32768, 40960, 65535, 65536, 98304] { if len > 24 && b < len + 40000 && !v.contains(&b) { v.push(b); } }
    v.push((1 << 40) - 1);
    v.push(u64::MAX);
    v
}

fn events_to_strings(evs: Vec<Event>) -> Vec<String> {
    evs.into_iter().map(|e| match e {
        Event::Get(g) => format!("G{}", g.index),
        Event::DataUpgrade(_) => "U".to_string(),
        Event::Have(h) => format!("H{}+{}{}", h.start, h.length, if h.drop { "d" } else { "" }),
    }).collect()
}

impl Sim {
    pub fn new() -> Self { Sim { proof: None, proof_honest: false, proof_writer_len: 0, readfiles_of: String::new(), h: BTreeMap::new(), failures: vec![], line: 0, history: vec![], stats: BTreeMap::new(), check_oracle: true, light: false } }
    fn fail(&mut self, key: &str, detail: String) {
        *self.stats.entry("oracle_failures".into()).or_insert(0) += 1;
        if self.failures.len() < 200 {
            let hist = self.history.iter().rev().take(40).rev().map(|l| if l.len() > 700 { format!("{}…[{} chars]", &l[..700], l.len()) } else { l.clone() }).collect::<Vec<_>>().join(" ; ");
            self.failures.push(Failure { key: key.to_string(), detail: format!("{detail} || history: {hist}"), line: self.line });
        }
    }
    fn bump(&mut self, k: &str) { *self.stats.entry(k.to_string()).or_insert(0) += 1; }

    fn open_core(world: &Shared, kp: Option<PartialKeypair>) -> Result<Hypercore, String> {
        let w = world.clone();
        let cache = world.lock().unwrap().cache;
        let r = block_on(AssertUnwindSafe(async move {
            let st = backend::storage(&w).await.map_err(|e| format!("err:{e}"))?;
            // the builder's options are independent of the order in which they are set: alternate the order
            static ORDER: std::sync::atomic::AtomicUsize = std::sync::atomic::AtomicUsize::new(0);
            let cache_first = ORDER.fetch_add(1, std::sync::atomic::Ordering::Relaxed) % 2 == 0;
            let with_cache = |b: HypercoreBuilder| match cache { Some(cap) => b.node_cache_options(if cap == 0 { hypercore::CacheOptionsBuilder::new() } else { hypercore::CacheOptionsBuilder::new().max_capacity(cap) }), None => b };
            let with_key = |b: HypercoreBuilder| match kp.clone() { Some(kp) => b.key_pair(kp), None => b.open(true) };
            let b = HypercoreBuilder::new(st);
            let b = if cache_first { with_key(with_cache(b)) } else { with_cache(with_key(b)) };
            b.build().await.map_err(|e| format!("err:{e}"))
        }).catch_unwind());
        match r { Ok(x) => x, Err(_) => Err("panic".into()) }
    }

    fn drain(h: &mut Handle) -> String {
        if h.subs.is_empty() { return String::new(); }
        let mut parts = vec![];
        for (si, s) in h.subs.iter_mut().enumerate() {
            let evs = s();
            if si == 0 { for e in &evs { if let Some(r) = e.strip_prefix('H') { let mut it = r.trim_end_matches('d').split('+'); if let (Some(a), Some(b)) = (it.next().and_then(|x| x.parse::<u64>().ok()), it.next().and_then(|x| x.parse::<u64>().ok())) { for i in a..a + b { h.announced.insert(i); } } } } }
            parts.push(evs.join(","));
        }
        format!(" ev={}", parts.join(";"))
    }

    fn take_journal(h: &mut Handle) -> Vec<Op> { std::mem::take(&mut h.world.lock().unwrap().journal) }

    /// bookkeeping after a mutating call: entries written since the last flush
    fn note_journal(h: &mut Handle, j: &[Op]) {
        for op in j {
            match op {
                Op::Write(s, off, _) if *s == backend::OPLOG && *off >= 8192 => h.unflushed_entries += 1,
                Op::Trunc(s, _) if *s == backend::OPLOG => { h.unflushed_entries = 0; }
                _ => {}
            }
        }
        if j.iter().any(|op| matches!(op, Op::Trunc(s, _) if *s == backend::OPLOG)) { h.flushed_oracle = h.oracle.clone(); }
    }

    fn snapshot(h: &mut Handle) {
        h.prev_files = h.world.lock().unwrap().files.clone();
        h.prev_oracle = h.oracle.clone();
    }

    pub fn probe_core(core: &mut Hypercore, idx: &[u64]) -> String {
        let info = core.info();
        let mut s = format!("len={} bl={} cl={} fork={} w={} ::", info.length, info.byte_length, info.contiguous_length, info.fork, info.writeable);
        for &i in idx {
            let has = core.has(i);
            let g = block_on(AssertUnwindSafe(core.get(i)).catch_unwind());
            let gs = match g { Ok(Ok(Some(v))) => format!("S{}", show(&v)), Ok(Ok(None)) => "N".into(), Ok(Err(_)) => "E".into(), Err(_) => "P".into() };
            s += &format!(" {}={}{}", i, if has { 1 } else { 0 }, gs);
        }
        s
    }

    /// Execute one protocol line; returns the observation line.
    pub fn exec(&mut self, line: &str) -> String {
        self.history.push(line.to_string());
        crate::watchdog::enter(&self.history);
        let ws: Vec<&str> = line.split_whitespace().collect();
        let out = self.exec_words(&ws);
        crate::watchdog::leave();
        self.line += 1;
        out
    }

    fn exec_words(&mut self, ws: &[&str]) -> String {
        match ws {
            ["new", name, seed, ..] => {
                let seed: [u8; 32] = unhex(seed).try_into().unwrap();
                let sk = SigningKey::from_bytes(&seed);
                let world = new_world(Default::default());
                // optional 4th word `cache=N`: enable the node cache (N = capacity in bytes, 0 = default)
                for opt in ws.iter().skip(3) {
                    if let Some(c) = opt.strip_prefix("cache=") { world.lock().unwrap().cache = c.parse().ok(); }
                    if *opt == "backend=mem" { world.lock().unwrap().kind = backend::Kind::Mem(std::sync::Arc::new(std::array::from_fn(|_| std::sync::Arc::new(futures::lock::Mutex::new(random_access_memory::RandomAccessMemory::default()))))); }
                    if *opt == "backend=disk" { world.lock().unwrap().kind = backend::Kind::Disk(std::sync::Arc::new(tempfile::Builder::new().prefix("hcverif").tempdir_in("/verif/work").or_else(|_| tempfile::tempdir()).unwrap())); }
                }
                let kp = PartialKeypair { public: sk.verifying_key(), secret: Some(sk) };
                let r = Self::open_core(&world, Some(kp));
                let (core, out) = match r { Ok(c) => (Some(c), "ok".to_string()), Err(e) => (None, e.chars().take(3).collect()) };
                if core.is_none() { self.fail("new-failed", format!("creating a core failed: {out}")); }
                let mut h = Handle { world, core, seed: Some(seed), writer: name.to_string(), oracle: Oracle { writable: true, exists: true, ..Default::default() }, prev_files: Default::default(), prev_oracle: Default::default(), last_journal: vec![], subs: vec![], announced: BTreeSet::new(), became: BTreeSet::new(), sub_since_start: false, unflushed_entries: 0, flushed_oracle: Default::default() };
                let j = Self::take_journal(&mut h);
                let s = format!("{out} j={}", jfmt(&j));
                h.flushed_oracle = h.oracle.clone();
                h.last_journal = j;
                self.h.insert(name.to_string(), h);
                s
            }
            ["recreate", name] => {
                // create a core again on the SAME storage with `overwrite = true`: whatever the stores hold is discarded
                let Some(h) = self.h.get_mut(*name) else { return "nocore".into() };
                let Some(seed) = h.seed else { return "nocore".into() };
                h.core = None;
                Self::snapshot(h);
                h.world.lock().unwrap().overwrite = true;
                h.world.lock().unwrap().journal.clear();
                let sk = SigningKey::from_bytes(&seed);
                let kp = PartialKeypair { public: sk.verifying_key(), secret: Some(sk) };
                let r = Self::open_core(&h.world, Some(kp));
                let (core, out) = match r { Ok(c) => (Some(c), "ok".to_string()), Err(e) => (None, e.chars().take(3).collect()) };
                let failed = core.is_none();
                h.core = core;
                h.oracle = Oracle { writable: true, exists: true, ..Default::default() };
                h.subs.clear(); h.announced.clear(); h.became.clear(); h.unflushed_entries = 0;
                let j = Self::take_journal(h);
                h.flushed_oracle = h.oracle.clone();
                h.last_journal = j.clone();
                if failed { self.fail("recreate-failed", format!("creating a core with overwrite on existing storage failed: {out}")); }
                self.bump("op_recreate");
                format!("{out} j={}", jfmt(&j))
            }
            ["newr", name, writer, ..] => {
                let pk = self.h[*writer].core.as_ref().map(|c| c.key_pair().public);
                let Some(pk) = pk else { return "nocore".into() };
                let world = new_world(Default::default());
                for opt in ws.iter().skip(3) {
                    if let Some(c) = opt.strip_prefix("cache=") { world.lock().unwrap().cache = c.parse().ok(); }
                    if *opt == "backend=mem" { world.lock().unwrap().kind = backend::Kind::Mem(std::sync::Arc::new(std::array::from_fn(|_| std::sync::Arc::new(futures::lock::Mutex::new(random_access_memory::RandomAccessMemory::default()))))); }
                    if *opt == "backend=disk" { world.lock().unwrap().kind = backend::Kind::Disk(std::sync::Arc::new(tempfile::Builder::new().prefix("hcverif").tempdir_in("/verif/work").or_else(|_| tempfile::tempdir()).unwrap())); }
                }
                let r = Self::open_core(&world, Some(PartialKeypair { public: pk, secret: None }));
                let (core, out) = match r { Ok(c) => (Some(c), "ok".to_string()), Err(e) => (None, e.chars().take(3).collect()) };
                let mut h = Handle { world, core, seed: None, writer: writer.to_string(), oracle: Oracle { writable: false, exists: true, ..Default::default() }, prev_files: Default::default(), prev_oracle: Default::default(), last_journal: vec![], subs: vec![], announced: BTreeSet::new(), became: BTreeSet::new(), sub_since_start: false, unflushed_entries: 0, flushed_oracle: Default::default() };
                let j = Self::take_journal(&mut h);
                let s = format!("{out} j={}", jfmt(&j));
                h.flushed_oracle = h.oracle.clone();
                h.last_journal = j;
                self.h.insert(name.to_string(), h);
                s
            }
            ["append", name, data] => { let d = unhex(data); self.do_append(name, vec![d]) }
            ["batch", name, data] => {
                let bs: Vec<Vec<u8>> = if *data == "~" { vec![] } else { data.split(',').map(unhex).collect() };
                self.do_append(name, bs)
            }
            ["fill", name, n, v] => {
                // batch append of n one-byte blocks, block j of the batch = [(len + j + v) % 251]
                let (n, v): (u64, u64) = (n.parse().unwrap(), v.parse().unwrap());
                let len = self.h.get(*name).map(|h| h.oracle.len).unwrap_or(0);
                let bs: Vec<Vec<u8>> = (0..n).map(|j| vec![((len + j + v) % 251) as u8]).collect();
                self.do_append(name, bs)
            }
            ["clear", name, s, e] => {
                let (s, e): (u64, u64) = (s.parse().unwrap(), e.parse().unwrap());
                let Some(h) = self.h.get_mut(*name) else { return "nocore".into() };
                if h.core.is_none() { return "nocore".into(); }
                Self::snapshot(h);
                let r = block_on(AssertUnwindSafe(h.core.as_mut().unwrap().clear(s, e)).catch_unwind());
                let j = Self::take_journal(h);
                let ev = Self::drain(h);
                let out = match &r { Ok(Ok(())) => "ok".to_string(), Ok(Err(_)) => "err".into(), Err(_) => "panic".into() };
                if matches!(r, Ok(Ok(()))) && s < e {
                    for i in s..e.min(h.oracle.len) { h.oracle.held[i as usize] = false; }
                }
                h.last_journal = j.clone();
                Self::note_journal(h, &j);
                let valid = s < e && s < h.oracle.len;
                if valid && out != "ok" { let why = match &r { Ok(Err(x)) => format!("{x:?}"), _ => String::new() }; self.fail("clear-failed", format!("clear({s},{e}) on a core of length {} returned {out} {why}", self.h[*name].oracle.len)); }
                self.bump("op_clear");
                format!("{out} j={}{ev}", jfmt(&j))
            }
            ["get", name, i] => {
                let i: u64 = i.parse().unwrap();
                let Some(h) = self.h.get_mut(*name) else { return "nocore".into() };
                let Some(core) = h.core.as_mut() else { return "nocore".into() };
                let r = block_on(AssertUnwindSafe(core.get(i)).catch_unwind());
                let ev = Self::drain(h);
                let out = match &r { Ok(Ok(Some(v))) => format!("ok some:{}", show(v)), Ok(Ok(None)) => "ok none".into(), Ok(Err(_)) => "err".into(), Err(_) => "panic".into() };
                let expect = if h.oracle.has(i) { format!("ok some:{}", show(&h.oracle.blocks[i as usize])) } else { "ok none".to_string() };
                let expect_ev = if h.subs.is_empty() { String::new() } else if h.oracle.has(i) { format!(" ev={}", vec![""; h.subs.len()].join(";")) } else { format!(" ev={}", vec![format!("G{i}"); h.subs.len()].join(";")) };
                if self.check_oracle && out != expect { self.fail("get-wrong", format!("get({i}) = {out}, list model says {expect}")); }
                if self.check_oracle && ev != expect_ev { self.fail("get-events", format!("get({i}) events '{ev}', expected '{expect_ev}'")); }
                self.bump("op_get");
                format!("{out}{ev}")
            }
            ["has", name, i] => {
                let i: u64 = i.parse().unwrap();
                let Some(h) = self.h.get_mut(*name) else { return "nocore".into() };
                let Some(core) = h.core.as_mut() else { return "nocore".into() };
                let r = core.has(i);
                let e = h.oracle.has(i);
                if self.check_oracle && r != e { self.fail("has-wrong", format!("has({i}) = {r}, list model says {e}")); }
                format!("ok {r}")
            }
            ["info", name] => {
                let Some(h) = self.h.get_mut(*name) else { return "nocore".into() };
                let Some(core) = h.core.as_mut() else { return "nocore".into() };
                let i = core.info();
                let out = format!("ok len={} bl={} cl={} fork={} w={}", i.length, i.byte_length, i.contiguous_length, i.fork, i.writeable);
                let o = &h.oracle;
                let expect = format!("ok len={} bl={} cl={} fork=0 w={}", o.len, o.byte_len, o.contiguous(), o.writable);
                if self.check_oracle && out != expect { self.fail("info-wrong", format!("info = {out}, list model says {expect}")); }
                out
            }
            ["probe", name] => {
                let Some(h) = self.h.get_mut(*name) else { return "nocore".into() };
                let Some(core) = h.core.as_mut() else { return "nocore".into() };
                let idx = probe_indices(core.info().length);
                let s = Self::probe_core(core, &idx);
                let ev = Self::drain(h);
                let _ = ev; // probes are never issued while subscribers are attached
                let e = h.oracle.probe_string(&idx);
                let out = if s.len() > 600 { format!("{} ## {:016x}", s.split(" ::").next().unwrap(), fnv(&s)) } else { s.clone() };
                if self.check_oracle && s != e { self.fail("probe-wrong", format!("observations differ from the list model: got [{}] expected [{}]", trunc(&s), trunc(&e))); }
                self.bump("op_probe");
                out
            }
            ["probeat", name, n] => {
                let n: u64 = n.parse().unwrap();
                let Some(h) = self.h.get_mut(*name) else { return "nocore".into() };
                let Some(core) = h.core.as_mut() else { return "nocore".into() };
                let s = Self::probe_core(core, &probe_indices(n));
                Self::drain(h);
                if s.len() > 600 { format!("{} ## {:016x}", s.split(" ::").next().unwrap(), fnv(&s)) } else { s }
            }
            ["scan", name] => {
                // has() on every index below length + two following pages' boundaries; digest only
                let Some(h) = self.h.get_mut(*name) else { return "nocore".into() };
                let Some(core) = h.core.as_mut() else { return "nocore".into() };
                let len = core.info().length;
                let mut bad: Option<u64> = None;
                let mut hsh: u64 = 0xcbf29ce484222325;
                let mut idx: Vec<u64> = (0..len + 2).collect();
                let page = 32768u64;
                let base = (len / page + 1) * page;
                for b in [base - 1, base, base + 8191, base + 8192, base + page - 1, base + page, base + page + 8192, base + 2 * page] { idx.push(b); }
                for i in idx {
                    let r = core.has(i);
                    if r != h.oracle.has(i) && bad.is_none() { bad = Some(i); }
                    hsh ^= r as u64 + 1; hsh = hsh.wrapping_mul(0x100000001b3);
                }
                let cl = core.info().contiguous_length;
                if self.check_oracle { if let Some(i) = bad { let (a, b) = (self.h[*name].core.as_ref().unwrap().has(i), self.h[*name].oracle.has(i)); self.fail("has-wrong", format!("has({i}) = {a}, list model says {b} (length {len})")); } }
                let ecl = self.h[*name].oracle.contiguous();
                if self.check_oracle && cl != ecl { self.fail("contiguous-wrong", format!("contiguous_length = {cl}, first missing index is {ecl}")); }
                self.bump("op_scan");
                format!("ok n={} cl={} {:016x}", len + 10, cl, hsh)
            }
            ["reopen", name] => {
                let Some(h) = self.h.get_mut(*name) else { return "nocore".into() };
                h.core = None;
                h.subs.clear();
                let r = Self::open_core(&h.world, None);
                let j = Self::take_journal(h);
                let out = match r { Ok(c) => { h.core = Some(c); "ok".to_string() } Err(e) => { let d = format!("reopening existing storage failed: {}", e.chars().take(160).collect::<String>()); self.fail("reopen-failed", d); if e.starts_with("err") { "err".to_string() } else { "panic".to_string() } } };
                self.bump("op_reopen");
                format!("{out} j={}", jfmt(&j))
            }
            ["ro", name] => {
                let Some(h) = self.h.get_mut(*name) else { return "nocore".into() };
                if h.core.is_none() { return "nocore".into(); }
                Self::snapshot(h);
                let r = block_on(AssertUnwindSafe(h.core.as_mut().unwrap().make_read_only()).catch_unwind());
                let j = Self::take_journal(h);
                let ev = Self::drain(h);
                let out = match &r { Ok(Ok(b)) => format!("ok {b}"), Ok(Err(_)) => "err".into(), Err(_) => "panic".into() };
                let expect = format!("ok {}", h.oracle.writable);
                if matches!(r, Ok(Ok(_))) { h.oracle.writable = false; }
                h.last_journal = j.clone();
                Self::note_journal(h, &j);
                if out != expect { self.fail("ro-wrong", format!("make_read_only = {out}, expected {expect}")); }
                self.bump("op_ro");
                format!("{out} j={}{ev}", jfmt(&j))
            }
            ["evcheck", name] => {
                // the union of announced ranges equals the set of blocks that became available
                let Some(h) = self.h.get_mut(*name) else { return "nocore".into() };
                if !h.sub_since_start || h.subs.is_empty() { return "ok".into(); }
                let (a, b) = (h.announced.clone(), h.became.clone());
                if a != b { self.fail("announced-union-wrong", format!("announced {:?} but the blocks that became available are {:?}", a.iter().take(40).collect::<Vec<_>>(), b.iter().take(40).collect::<Vec<_>>())); }
                "ok".to_string()
            }
            ["sub", name] => {
                let Some(h) = self.h.get_mut(*name) else { return "nocore".into() };
                let Some(core) = h.core.as_mut() else { return "nocore".into() };
                let mut rx = core.event_subscribe();
                if h.subs.is_empty() && h.oracle.len == 0 { h.sub_since_start = true; }
                h.subs.push(Box::new(move || {
                    let mut v = vec![];
                    while let Ok(e) = rx.try_recv() { v.push(e); }
                    events_to_strings(v)
                }));
                format!("ok {}", h.subs.len())
            }
            ["secretscan", name, _seed] => {
                // the 32-byte seed, its halves, and both halves of the expanded secret (SHA-512 of the seed)
                let Some(h) = self.h.get_mut(*name) else { return "nocore".into() };
                let Some(seed) = h.seed else { return "noseed".into() };
                let f = backend::dump_files(&h.world);
                use sha2::Digest;
                let exp = sha2::Sha512::digest(seed);
                let needles: Vec<(&str, Vec<u8>)> = vec![("seed", seed.to_vec()), ("seed-lo", seed[..16].to_vec()), ("seed-hi", seed[16..].to_vec()), ("expanded-lo", exp[..32].to_vec()), ("expanded-hi", exp[32..].to_vec())];
                let mut found = vec![];
                for (si, file) in f.iter().enumerate() {
                    for (nm, nd) in &needles {
                        if let Some(pos) = file.windows(nd.len()).position(|w| w == &nd[..]) { found.push(format!("{}@{}{}", nm, STORE_CH[si], pos)); }
                    }
                }
                let out = if found.is_empty() { "clean".to_string() } else { format!("found {}", found.join(",")) };
                let ro = !h.oracle.writable;
                if ro && out != "clean" { self.fail("secret-on-disk", format!("after make_read_only the storage still contains secret key material: {out}")); }
                self.bump("op_secretscan");
                out
            }
            ["rebuild", name, seed] => {
                // build (not open) on EXISTING storage with a caller-supplied key pair: the stored key pair wins
                let Some(h) = self.h.get_mut(*name) else { return "nocore".into() };
                h.core = None; h.subs.clear();
                let seed: [u8; 32] = unhex(seed).try_into().unwrap();
                let sk = SigningKey::from_bytes(&seed);
                let r = Self::open_core(&h.world, Some(PartialKeypair { public: sk.verifying_key(), secret: Some(sk) }));
                let j = Self::take_journal(h);
                let out = match r { Ok(c) => { h.core = Some(c); "ok".to_string() } Err(e) => { let d = format!("building on existing storage with a key pair failed: {}", e.chars().take(160).collect::<String>()); self.fail("rebuild-failed", d); if e.starts_with("err") { "err".to_string() } else { "panic".to_string() } } };
                self.bump("op_rebuild");
                format!("{out} j={}", jfmt(&j))
            }
            ["openkp", name] => {
                // supplying a key pair together with open mode must be rejected
                let Some(h) = self.h.get_mut(*name) else { return "nocore".into() };
                let w = h.world.clone();
                let seed = h.seed.unwrap_or([7u8; 32]);
                let r = block_on(AssertUnwindSafe(async move {
                    let st = backend::storage(&w).await.map_err(|e| format!("err:{e}"))?;
                    let sk = SigningKey::from_bytes(&seed);
                    HypercoreBuilder::new(st).key_pair(PartialKeypair { public: sk.verifying_key(), secret: Some(sk) }).open(true).build().await.map(|_| ()).map_err(|e| format!("err:{e}"))
                }).catch_unwind());
                Self::take_journal(h);
                let out = match r { Ok(Ok(())) => "ok", Ok(Err(_)) => "err", Err(_) => "panic" };
                if out != "err" { self.fail("open-with-keypair-accepted", format!("building with open(true) and a key pair returned {out}, expected an error")); }
                out.to_string()
            }
            ["pk", name] => {
                let Some(h) = self.h.get_mut(*name) else { return "nocore".into() };
                let Some(core) = h.core.as_ref() else { return "nocore".into() };
                let kp = core.key_pair();
                let out = format!("ok {} secret={}", hex(kp.public.as_bytes()), kp.secret.is_some());
                let expect_pk = self.h.get(&self.h[*name].writer).and_then(|w| w.seed).map(|s| SigningKey::from_bytes(&s).verifying_key());
                let h = &self.h[*name];
                if let Some(pk) = expect_pk { let e = format!("ok {} secret={}", hex(pk.as_bytes()), h.oracle.writable); if out != e { self.fail("key-pair-wrong", format!("key_pair() = {out}, expected {e}")); } }
                out
            }
            ["faultnext", name, k] => {
                // the k-th storage operation (reads and length queries included) from now on fails
                let Some(h) = self.h.get_mut(*name) else { return "nocore".into() };
                let mut w = h.world.lock().unwrap();
                w.nops = 0; w.kinds.clear(); w.failed = false; w.fail_at = k.parse().ok();
                "ok".into()
            }
            ["faultstate", name] => {
                let Some(h) = self.h.get_mut(*name) else { return "nocore".into() };
                let mut w = h.world.lock().unwrap();
                let out = format!("failed={} kinds={}", w.failed, w.kinds.iter().collect::<String>());
                w.fail_at = None;
                out
            }
            ["reftree", name, blocks] => {
                // every persisted node, the roots and the signature against the independent reference
                let bs: Vec<Vec<u8>> = if *blocks == "~" { vec![] } else { blocks.split(',').map(unhex).collect() };
                let Some(h) = self.h.get_mut(*name) else { return "nocore".into() };
                if h.core.is_none() { return "nocore".into(); }
                let refn = crate::reftree::all_nodes(&bs);
                let len = bs.len() as u64;
                let files = backend::dump_files(&h.world);
                let mut fails: Vec<(&str, String)> = vec![];
                let mut filenodes = 0u64;
                let by_index: std::collections::HashMap<u64, &crate::reftree::RNode> = refn.iter().map(|n| (n.index, n)).collect();
                for (i, rec) in files[0].chunks(40).enumerate() {
                    if rec.len() < 40 || rec.iter().all(|b| *b == 0) { continue; }
                    match by_index.get(&(i as u64)) {
                        Some(n) => { filenodes += 1; if crate::reftree::node_bytes(n) != rec { fails.push(("tree-node-differs-from-reference", format!("persisted node {i} is {} but the scheme prescribes {} (log of {len} blocks)", hex(rec), hex(&crate::reftree::node_bytes(n))))); } }
                        None => fails.push(("tree-node-not-in-reference", format!("the tree store holds a record at index {i}, which is not a full node of a {len}-block tree"))),
                    }
                }
                let mut digest: Vec<u8> = vec![];
                for n in &refn { digest.extend_from_slice(&n.index.to_le_bytes()); digest.extend_from_slice(&crate::reftree::node_bytes(n)); }
                let roots: Vec<crate::reftree::RNode> = crate::reftree::roots(len).iter().map(|i| (*by_index[i]).clone()).collect();
                let mut sig = "none".to_string();
                let mut proofnodes = 0u64;
                if len > 0 {
                    let core = h.core.as_mut().unwrap();
                    let pk = core.key_pair().public;
                    let r = block_on(AssertUnwindSafe(core.create_proof(None, None, None, Some(RequestUpgrade { start: 0, length: len }))).catch_unwind());
                    match r {
                        Ok(Ok(Some(p))) => {
                            let u = p.upgrade.unwrap();
                            let got: Vec<(u64, u64, Vec<u8>)> = u.nodes.iter().map(|n| (n.index(), n.len(), n.hash().to_vec())).collect();
                            let want: Vec<(u64, u64, Vec<u8>)> = roots.iter().map(|n| (n.index, n.size, n.hash.to_vec())).collect();
                            if got != want { fails.push(("proof-roots-differ-from-reference", format!("upgrade 0..{len} carries roots {:?}, the scheme prescribes {:?}", got.iter().map(|x| (x.0, x.1)).collect::<Vec<_>>(), want.iter().map(|x| (x.0, x.1)).collect::<Vec<_>>()))); }
                            let msg = crate::reftree::signable(&crate::reftree::tree_hash(&roots), len, 0);
                            let ok = ed25519_dalek::Signature::from_slice(&u.signature).map(|s| { use ed25519_dalek::Verifier; pk.verify(&msg, &s).is_ok() }).unwrap_or(false);
                            sig = if ok { "valid".into() } else { "INVALID".into() };
                            if !ok { fails.push(("signature-invalid", format!("the served signature does not verify over namespace | tree hash | length {len} | fork 0 under the core's public key"))); }
                        }
                        other => { sig = format!("noproof:{}", match other { Ok(Ok(None)) => "none", Ok(Err(_)) => "err", _ => "panic" }); fails.push(("upgrade-proof-failed", format!("create_proof(upgrade 0..{len}) did not return a proof"))); }
                    }
                    // nodes carried in block proofs
                    let step = (len / 7).max(1);
                    let mut i = 0;
                    while i < len {
                        let height = 64 - len.leading_zeros() as u64;
                        for nodes in [0u64, 1, height.saturating_sub(1)] {
                            let r = block_on(AssertUnwindSafe(core.create_proof(Some(RequestBlock { index: i, nodes }), None, None, None)).catch_unwind());
                            if let Ok(Ok(Some(p))) = r { for n in p.block.unwrap().nodes { proofnodes += 1; match by_index.get(&n.index()) { Some(rn) if rn.size == n.len() && rn.hash[..] == *n.hash() => {}, _ => fails.push(("proof-node-differs-from-reference", format!("block proof {i} (nodes {nodes}) carries node {} which differs from the reference", n.index()))) } } }
                        }
                        i += step;
                    }
                }
                let ev = Self::drain(h); let _ = ev;
                for (k, d) in fails { self.fail(k, d); }
                self.bump("op_reftree");
                format!("ok len={} filenodes={} roots={} sig={} proofnodes={} ref={:016x}", len, filenodes, roots.len(), sig, proofnodes, fnv_bytes(&digest))
            }
            ["sha", name] => {
                let Some(h) = self.h.get_mut(*name) else { return "nocore".into() };
                let f = backend::dump_files(&h.world);
                use sha2::Digest;
                let hs = |v: &Vec<u8>| if v.is_empty() { "NONE".to_string() } else { sha2::Sha256::digest(v).iter().map(|b| format!("{:02X}", b)).collect::<String>() };
                format!("bitfield={} data={} oplog={} tree={}", hs(&f[2]), hs(&f[1]), hs(&f[3]), hs(&f[0]))
            }
            ["openfiles", name, t, d, b, o] => {
                let files: Files = [unhex(t), unhex(d), unhex(b), unhex(o)];
                let world = new_world(files);
                let r = Self::open_core(&world, None);
                let (core, out) = match r { Ok(c) => (Some(c), "ok".to_string()), Err(e) => (None, if e.starts_with("err") { "err".to_string() } else { "panic".to_string() }) };
                let mut h = Handle { world, core, seed: None, writer: name.to_string(), oracle: Oracle { exists: true, ..Default::default() }, prev_files: Default::default(), prev_oracle: Default::default(), last_journal: vec![], subs: vec![], announced: BTreeSet::new(), became: BTreeSet::new(), sub_since_start: false, unflushed_entries: 0, flushed_oracle: Default::default() };
                let j = Self::take_journal(&mut h);
                self.h.insert(name.to_string(), h);
                format!("{out} j={}", jfmt(&j))
            }
            ["readfiles", ..] => {
                // the implementation's side of `readfiles` is what the API of the live core reports
                let name = self.readfiles_of.clone();
                let Some(h) = self.h.get_mut(&name) else { return "nocore".into() };
                let Some(core) = h.core.as_mut() else { return "nocore".into() };
                let idx = probe_indices(core.info().length);
                let s = Self::probe_core(core, &idx);
                Self::drain(h);
                // independent reader of the JavaScript oplog layout: the entries that carry the current header
                // bit must be exactly the ones written since the last flush
                let f = backend::dump_files(&h.world);
                let o = crate::jslayout::parse(&f[3]);
                let mut lfail = None;
                match crate::jslayout::newest(&o) {
                    None => lfail = Some("no valid header slot".to_string()),
                    Some((_, bit)) => {
                        let current = o.entries.iter().take_while(|e| e.bit == bit).count() as u64;
                        if current != h.unflushed_entries { lfail = Some(format!("a reader of the JavaScript layout finds {current} entries carrying the current header bit, but {} entries were written since the last flush (slot bits {:?}/{:?}, entry bits {:?})", h.unflushed_entries, o.slot0.as_ref().map(|s| s.bit), o.slot1.as_ref().map(|s| s.bit), o.entries.iter().map(|e| e.bit).collect::<Vec<_>>())); }
                    }
                }
                // independent readers of the other stores (JavaScript layout): the bitfield store is a flat array of
                // bits, bit i in byte i/8 (pages of 4096 bytes back to back); the data store is the blocks back to back
                if lfail.is_none() {
                    let o = &h.oracle;
                    if h.unflushed_entries == 0 {
                        let bit = |i: u64| -> bool { f[2].get((i / 8) as usize).map(|b| b >> (i % 8) & 1 == 1).unwrap_or(false) };
                        let nbits = (f[2].len() as u64) * 8;
                        let mut bad: Option<u64> = None;
                        for i in 0..o.len.max(nbits) { if bit(i) != o.has(i) { bad = Some(i); break; } }
                        if let Some(i) = bad { lfail = Some(format!("just flushed: a reader of the JavaScript bitfield layout (bit i in byte i/8 of the bitfield store, {} bytes) finds block {i} {}, the core {}", f[2].len(), if bit(i) { "held" } else { "missing" }, if o.has(i) { "holds it" } else { "does not hold it" })); }
                    }
                    if lfail.is_none() {
                        let mut off = 0usize;
                        for (i, b) in o.blocks.iter().enumerate() {
                            if o.has(i as u64) && !b.is_empty() && f[1].get(off..off + b.len()) != Some(&b[..]) { lfail = Some(format!("the data store does not hold block {i} at byte offset {off} (blocks back to back)")); break; }
                            off += b.len();
                        }
                    }
                }
                if let Some(d) = lfail { self.fail("js-layout-reader-disagrees", d); }
                self.bump("op_readfiles");
                if s.len() > 600 { format!("{} ## {:016x}", s.split(" ::").next().unwrap(), fnv(&s)) } else { s }
            }
            ["dumpz", name] => {
                // as `dump`, but without trailing zero bytes (a zero-length write past the end extends
                // the file on the memory backends and not on the disk backend)
                let Some(h) = self.h.get_mut(*name) else { return "nocore".into() };
                let f = backend::dump_files(&h.world);
                let t = |v: &Vec<u8>| { let mut n = v.len(); while n > 0 && v[n - 1] == 0 { n -= 1; } show(&v[..n]) };
                format!("T={} D={} B={} O={}", t(&f[0]), t(&f[1]), t(&f[2]), t(&f[3]))
            }
            ["dump", name] => {
                let Some(h) = self.h.get_mut(*name) else { return "nocore".into() };
                let f = backend::dump_files(&h.world);
                format!("T={} D={} B={} O={}", show(&f[0]), show(&f[1]), show(&f[2]), show(&f[3]))
            }
            ["missing", name, i] | ["missingt", name, i] => {
                let i: u64 = i.parse().unwrap();
                let tree = ws[0] == "missingt";
                let Some(h) = self.h.get_mut(*name) else { return "nocore".into() };
                let Some(core) = h.core.as_mut() else { return "nocore".into() };
                let r = if tree { block_on(AssertUnwindSafe(core.missing_nodes_from_merkle_tree_index(i)).catch_unwind()) } else { block_on(AssertUnwindSafe(core.missing_nodes(i)).catch_unwind()) };
                match r { Ok(Ok(n)) => format!("ok {n}"), Ok(Err(_)) => "err".into(), Err(_) => { self.fail("missing-nodes-panic", format!("missing_nodes({i}) panicked")); "panic".into() } }
            }
            ["prove", name, b, hsh, sk, up] => {
                let pair = |s: &str| -> Option<(u64, u64)> { if s == "-" { None } else { let mut it = s.split(':'); Some((it.next()?.parse().ok()?, it.next()?.parse().ok()?)) } };
                let block = pair(b).map(|(index, nodes)| RequestBlock { index, nodes });
                let hash = pair(hsh).map(|(index, nodes)| RequestBlock { index, nodes });
                let seek = if *sk == "-" { None } else { Some(RequestSeek { bytes: sk.parse().unwrap() }) };
                let upgrade = pair(up).map(|(start, length)| RequestUpgrade { start, length });
                let Some(h) = self.h.get_mut(*name) else { return "nocore".into() };
                let Some(core) = h.core.as_mut() else { return "nocore".into() };
                let r = block_on(AssertUnwindSafe(core.create_proof(block, hash, seek, upgrade)).catch_unwind());
                let ev = Self::drain(h);
                self.proof = None;
                self.proof_honest = false;
                self.proof_writer_len = h.oracle.len;
                let out = match r {
                    Ok(Ok(Some(p))) => { let t = proof_txt(&p); self.proof = Some(p); self.proof_honest = true; format!("ok {t}") }
                    Ok(Ok(None)) => "ok none".into(),
                    Ok(Err(_)) => "err".into(),
                    Err(_) => { self.fail("create-proof-panic", format!("create_proof({b} {hsh} {sk} {up}) panicked")); "panic".into() }
                };
                self.bump("op_prove");
                format!("{out}{ev}")
            }
            [op, name, rest @ ..] if *op == "applyp" => {
                let Some(p) = parse_proof(rest) else { return "bad-op".into() };
                // honest iff it is exactly the proof the writer just produced
                let honest = self.proof_honest && self.proof.as_ref() == Some(&p);
                self.do_apply(name, p, honest)
            }
            ["crash", name, k, t] | ["crashgo", name, k, t] => {
                let go = ws[0] == "crashgo";
                let (k, t): (usize, usize) = (k.parse().unwrap(), t.parse().unwrap());
                self.do_crash(name, k, t, go)
            }
            _ => "bad-op".into(),
        }
    }

    fn do_apply(&mut self, name: &str, proof: Proof, honest: bool) -> String {
        let wlen = self.proof_writer_len;
        let Some(h) = self.h.get_mut(name) else { return "nocore".into() };
        if h.core.is_none() { return "nocore".into(); }
        if !(self.light && honest) { Self::snapshot(h); }
        let idx0 = probe_indices(h.oracle.len);
        let before_probe = if honest { String::new() } else { Self::probe_core(h.core.as_mut().unwrap(), &idx0) };
        if !honest { Self::drain(h); }
        let fork_before = h.core.as_ref().unwrap().info().fork;
        let r = block_on(AssertUnwindSafe(h.core.as_mut().unwrap().verify_and_apply_proof(&proof)).catch_unwind());
        let j = Self::take_journal(h);
        let ev = Self::drain(h);
        let out = match &r { Ok(Ok(b)) => format!("ok {b}"), Ok(Err(_)) => "err".into(), Err(_) => "panic".into() };
        let errtxt = match &r { Ok(Err(e)) => format!(" [{}]", e.to_string().chars().take(140).collect::<String>()), _ => String::new() };
        h.last_journal = j.clone();
        let writer = h.writer.clone();
        let mut fails: Vec<(&str, String)> = vec![];
        if out == "panic" { fails.push(("apply-panic", format!("verify_and_apply_proof panicked on {}", trunc(&proof_txt(&proof))))); }
        // the writer's blocks, borrowed for the duration of the checks (put back below)
        let truth: Vec<Vec<u8>> = self.h.get_mut(&writer).map(|w| std::mem::take(&mut w.oracle.blocks)).unwrap_or_default();
        let h = self.h.get_mut(name).unwrap();
        let accepted = out == "ok true";
        if accepted && proof.fork != fork_before {
            // C04: a proof whose claimed fork differs from the replica's is refused, whatever else it carries
            fails.push(("foreign-fork-accepted", format!("a proof claiming fork {} was accepted by a replica on fork {}: {}", proof.fork, fork_before, trunc(&proof_txt(&proof)))));
        }
        if accepted {
            // what the replica now believes must be the writer's truth
            let info = h.core.as_ref().unwrap().info();
            let prefix: u64 = truth.iter().take(info.length as usize).map(|b| b.len() as u64).sum();
            if info.length as usize > truth.len() || info.byte_length != prefix {
                fails.push(("replica-believes-unsigned-head", format!("after an accepted proof the replica reports length {} byte_length {} but the writer's first {} blocks total {} bytes (writer length {})", info.length, info.byte_length, info.length, prefix, truth.len())));
            }
            let o = &mut h.oracle;
            if o.blocks.len() != truth.len() { o.blocks = truth.clone(); }
            if honest {
                // an upgrade always carries the writer's current signature: the additional nodes
                // extend a partial upgrade to the length the writer had when it made the proof
                if proof.upgrade.is_some() { o.len = wlen; }
                o.byte_len = truth.iter().take(o.len as usize).map(|b| b.len() as u64).sum();
                o.held.resize(o.len as usize, false);
                if let Some(b) = &proof.block { if (b.index as usize) < o.held.len() { o.held[b.index as usize] = true; h.became.insert(b.index); } }
            } else {
                o.len = info.length; o.byte_len = info.byte_length;
                o.held.resize(o.len as usize, false);
                if let Some(b) = &proof.block { if (b.index as usize) < o.held.len() && h.core.as_ref().unwrap().has(b.index) { o.held[b.index as usize] = true; h.became.insert(b.index); } }
            }
            let expect_ev = { let mut v = vec![]; if proof.upgrade.is_some() { v.push("U".to_string()); } if let Some(b) = &proof.block { v.push(format!("H{}+1", b.index)); } v.join(",") };
            let expect_ev = if h.subs.is_empty() { String::new() } else { format!(" ev={}", vec![expect_ev; h.subs.len()].join(";")) };
            if ev != expect_ev { fails.push(("apply-events", format!("accepted proof emitted '{ev}', expected '{expect_ev}'"))); }
        } else {
            if honest { fails.push(("honest-proof-refused", format!("an honest proof for a well-formed request was answered with '{out}'{errtxt} (writer length {wlen}): {}", trunc(&proof_txt(&proof))))); }
            if !j.is_empty() { fails.push(("refused-proof-wrote", format!("a proof answered with '{out}' issued storage operations {}", trunc(&jfmt(&j))))); }
            if !ev.is_empty() && ev.chars().any(|c| c.is_ascii_alphabetic() && c != 'e' && c != 'v') { fails.push(("refused-proof-events", format!("a proof answered with '{out}' emitted '{ev}'"))); }
            if !honest && out != "panic" {
                let after_probe = Self::probe_core(h.core.as_mut().unwrap(), &idx0);
                Self::drain(h);
                if after_probe != before_probe { fails.push(("refused-proof-changed-state", format!("a proof answered with '{out}' changed the replica: before [{}] after [{}]", trunc(&before_probe), trunc(&after_probe)))); }
            }
        }
        Self::note_journal(h, &j);
        if let Some(w) = self.h.get_mut(&writer) { w.oracle.blocks = truth; }
        for (k, d) in fails { self.fail(k, d); }
        self.bump(if accepted { "apply_accepted" } else if out == "ok false" { "apply_refused" } else if out == "err" { "apply_error" } else { "apply_panic" });
        format!("{out} j={}{ev}", jfmt(&j))
    }

    fn do_append(&mut self, name: &str, bs: Vec<Vec<u8>>) -> String {
        let Some(h) = self.h.get_mut(name) else { return "nocore".into() };
        if h.core.is_none() { return "nocore".into(); }
        Self::snapshot(h);
        let r = block_on(AssertUnwindSafe(h.core.as_mut().unwrap().append_batch(&bs)).catch_unwind());
        let j = Self::take_journal(h);
        let ev = Self::drain(h);
        let out = match &r { Ok(Ok(o)) => format!("ok len={} bl={}", o.length, o.byte_length), Ok(Err(hypercore::HypercoreError::NotWritable)) => "notwritable".into(), Ok(Err(_)) => "err".into(), Err(_) => "panic".into() };
        let o = &mut h.oracle;
        let start = o.len;
        let (expect, expect_ev) = if o.writable {
            for b in &bs { o.byte_len += b.len() as u64; o.blocks.push(b.clone()); o.held.push(true); h.became.insert(o.len); o.len += 1; }
            (format!("ok len={} bl={}", o.len, o.byte_len), if bs.is_empty() { String::new() } else { format!("U,H{}+{}", start, bs.len()) })
        } else { ("notwritable".to_string(), String::new()) };
        let expect_ev = if h.subs.is_empty() { String::new() } else { format!(" ev={}", vec![expect_ev; h.subs.len()].join(";")) };
        h.last_journal = j.clone();
        Self::note_journal(h, &j);
        let nonw = !h.oracle.writable;
        if self.check_oracle && out != expect { self.fail("append-wrong", format!("append of {} block(s) returned {out}, list model says {expect}", bs.len())); }
        if self.check_oracle && ev != expect_ev { self.fail("append-events", format!("append of {} block(s) emitted '{ev}', expected '{expect_ev}'", bs.len())); }
        if self.check_oracle && nonw && !j.is_empty() { self.fail("readonly-append-wrote", format!("append on a read-only core issued storage operations {}", jfmt(&j))); }
        self.bump(if bs.len() == 1 { "op_append" } else if bs.is_empty() { "op_batch_empty" } else { "op_batch" });
        format!("{out} j={}{ev}", jfmt(&j))
    }

    /// Crash inside the last mutating operation: the first `k` journal entries reached the disk and
    /// `t` bytes of entry k (if it is a write). Reopen, probe, check before-or-after.
    fn do_crash(&mut self, name: &str, k: usize, t: usize, go: bool) -> String {
        let Some(h) = self.h.get_mut(name) else { return "nocore".into() };
        let mut files = h.prev_files.clone();
        let j = h.last_journal.clone();
        if k > j.len() { return "bad-k".into(); }
        for op in &j[..k] { apply(&mut files, op); }
        let mut torn = String::new();
        if t > 0 {
            match j.get(k) {
                Some(Op::Write(s, off, d)) if t < d.len() => { apply(&mut files, &Op::Write(*s, *off, d[..t].to_vec())); torn = format!(" torn={}{}", STORE_CH[*s], t); }
                _ => return "bad-t".into(),
            }
        }
        let world = new_world(files);
        let r = Self::open_core(&world, None);
        let before = h.prev_oracle.clone();
        let after = h.oracle.clone();
        let mut fails: Vec<(&str, String)> = vec![];
        let mut bumps: Vec<&str> = vec!["crash_points"];
        if t > 0 { bumps.push("torn_points"); }
        let out = match r {
            Err(e) => {
                let short: String = if e.starts_with("err") { "err".to_string() } else { "panic".to_string() };
                // creating the store itself has "no core" as its before-state
                let fresh_ok = !before.exists && short == "err";
                if !fresh_ok {
                    let d = format!("crash after {k}/{} storage operations{torn} of the last call: reopen failed with {}", j.len(), e.chars().take(120).collect::<String>());
                    fails.push((if t > 0 { "torn-open-failed" } else { "crash-open-failed" }, d));
                }
                format!("open{short}")
            }
            Ok(mut core) => {
                let idx = probe_indices(after.len.max(before.len));
                let oj: Vec<Op> = world.lock().unwrap().journal.clone();
                let s = Self::probe_core(&mut core, &idx);
                // recovery must be stable: what a further reopen of the recovered store shows is what this one shows
                let again = {
                    let files2 = world.lock().unwrap().files.clone();
                    let w2 = new_world(files2);
                    match Self::open_core(&w2, None) {
                        Ok(mut c2) => { let s2 = Self::probe_core(&mut c2, &idx); if s2 == s { "same".to_string() } else { s2 } }
                        Err(e) => format!("open-failed {}", e.chars().take(80).collect::<String>()),
                    }
                };
                if again != "same" {
                    let d = format!("crash after {k}/{} storage operations{torn} of the last call: the first reopen shows [{}] but reopening the recovered store once more shows [{}] (journal of the call {}, of the first reopen {})", j.len(), trunc(&s), trunc(&again), trunc(&jfmt(&j)), trunc(&jfmt(&oj)));
                    fails.push((if t > 0 { "torn-recovery-unstable" } else { "crash-recovery-unstable" }, d));
                }
                let sb = before.probe_string(&idx);
                let sa = after.probe_string(&idx);
                let is_before = before.exists && s == sb;
                let is_after = s == sa;
                if !(is_before || is_after) {
                    let d = format!("crash after {k}/{} storage operations{torn} of the last call: recovered [{}] is neither before [{}] nor after [{}] (journal {})", j.len(), trunc(&s), trunc(&sb), trunc(&sa), trunc(&jfmt(&j)));
                    fails.push((if t > 0 { "torn-not-before-or-after" } else { "crash-not-before-or-after" }, d));
                }
                bumps.push(if is_after { "crash_after" } else { "crash_before" });
                let out = if s.len() > 600 { format!("{} ## {:016x}", s.split(" ::").next().unwrap(), fnv(&s)) } else { s };
                let out = format!("{out} oj={} re={}", jfmt(&oj), if again == "same" { "same" } else { "differs" });
                if go {
                    world.lock().unwrap().journal.clear();
                    h.core = Some(core);
                    h.world = world;
                    h.subs.clear();
                    if !is_after { h.oracle = before; }
                    h.last_journal = vec![];
                    h.prev_files = h.world.lock().unwrap().files.clone();
                    h.prev_oracle = h.oracle.clone();
                }
                out
            }
        };
        for (k, d) in fails { self.fail(k, d); }
        for b in bumps { self.bump(b); }
        out
    }
}

pub fn trunc(s: &str) -> String { if s.len() > 700 { format!("{}…", &s[..700]) } else { s.to_string() } }
