import HC.Driver
import HC.Model.Core
import HC.Model.Proof
import HC.Spec.RefTree
import HC.Crypto.Sha256
/-! Stateful part of the line-protocol driver: cores on model disks. -/
namespace HC.Driver
open HC HC.Codec HC.Oplog

structure Handle where
  core : Option Core := none
  disk : Disk := {}
  /-- disk and core length before the last mutating operation; that operation's journal -/
  prevDisk : Disk := {}
  prevLen : Nat := 0
  prevExists : Bool := false
  lastJournal : List SOp := []
  writer : String := ""
  subs : Nat := 0
deriving Inhabited

structure World where
  hs : List (String × Handle) := []
  /-- scratch file for the backend-vs-flat-file comparison -/
  scratch : File := File.empty
deriving Inhabited

def World.get? (w : World) (n : String) : Option Handle := (w.hs.find? (·.1 == n)).map (·.2)
def World.set (w : World) (n : String) (h : Handle) : World :=
  { w with hs := (n, h) :: w.hs.filter (·.1 != n) }

def C : Crypto := Crypto.real

def sopTxt : SOp → String
  | .write s off bs => s!"{s.ch}w@{off}:{showBytes bs}"
  | .del s off len => s!"{s.ch}d@{off}+{len}"
  | .trunc s len => s!"{s.ch}t@{len}"

def jTxt (j : List SOp) : String := "[" ++ ",".intercalate (j.map sopTxt) ++ "]"

def evTxt : Event → String
  | .get i => s!"G{i}"
  | .upgrade => "U"
  | .have s l => s!"H{s}+{l}"

def evsTxt (subs : Nat) (es : List Event) : String :=
  if subs = 0 then "" else
  " ev=" ++ ";".intercalate (List.replicate subs (",".intercalate (es.map evTxt)))

def failTxt : Fail → String
  | .err => "err"
  | .panic => "panic"

def probeIndices (len : Nat) : List Nat :=
  let v := List.range (min len 24 + 2)
  let v := if len > 24 then v ++ ((List.range 5).map (· + (len - 3))).filter (fun i => !v.contains i) else v
  let v := [8191, 8192, 32767, 32768, 40960, 65535, 65536, 98304].foldl
    (fun v b => if len > 24 ∧ b < len + 40000 ∧ !v.contains b then v ++ [b] else v) v
  v ++ [2 ^ 40 - 1, 2 ^ 64 - 1]

def probeCore (c : Core) (d : Disk) (idx : List Nat) : String :=
  let i := c.info
  let head := s!"len={i.length} bl={i.byteLength} cl={i.contiguous} fork={i.fork} w={i.writeable} ::"
  idx.foldl (fun s k =>
    let g := match (c.getBlock d k).result with
      | .ok (some v) => s!"S{showBytes v}"
      | .ok none => "N"
      | .error .err => "E"
      | .error .panic => "P"
    s ++ s!" {k}={if c.has k then 1 else 0}{g}") head

def shorten (s : String) : String :=
  if s.length > 600 then s!"{(s.splitOn " ::").headD ""} ## {hex16 (fnv64Str s)}" else s

/-- run a mutating step on a handle -/
def commitStep {α : Type} (h : Handle) (c : Core) (st : Step α) : Handle :=
  { h with prevDisk := h.disk, prevLen := c.tree.length, prevExists := true, lastJournal := st.journal,
           core := some st.core, disk := h.disk.applyAll st.journal }

def doAppend (w : World) (name : String) (bs : List Bytes) : World × String :=
  match w.get? name with
  | none => (w, "nocore")
  | some h =>
    match h.core with
    | none => (w, "nocore")
    | some c =>
      let st := c.appendBatch C bs
      let h' := commitStep h c st
      let out := match st.result with
        | .ok o => s!"ok len={o.length} bl={o.byteLength}"
        | .error e => if c.secret.isNone then "notwritable" else failTxt e
      (w.set name h', s!"{out} j={jTxt st.journal}{evsTxt h.subs (if st.result.isOk then st.events else [])}")

def openOn (d : Disk) (kp : Option (Bytes × Option Bytes)) : R (Core × List SOp) := Core.openCore C kp d

def crashLine (w : World) (name : String) (k t : Nat) (go : Bool) : World × String :=
  match w.get? name with
  | none => (w, "nocore")
  | some h =>
    let j := h.lastJournal
    if k > j.length then (w, "bad-k") else
    let d0 := h.prevDisk.applyAll (j.take k)
    let d1? : Option Disk :=
      if t = 0 then some d0 else
      match j[k]? with
      | some (.write s off bs) => if t < bs.length then some (d0.apply (.write s off (bs.take t))) else none
      | _ => none
    match d1? with
    | none => (w, "bad-t")
    | some d1 =>
      match openOn d1 none with
      | .error e => (w, s!"open{failTxt e}")
      | .ok (c, jo) =>
        let d1 := d1.applyAll jo
        let curLen := match h.core with | some cc => cc.tree.length | none => 0
        let idx := probeIndices (max curLen h.prevLen)
        let s := probeCore c d1 idx
        let w' := if go then w.set name { h with core := some c, disk := d1, subs := 0, lastJournal := [], prevDisk := d1, prevLen := c.tree.length } else w
        -- a further reopen of the recovered store
        let again := match openOn d1 none with
          | .error _ => "differs"
          | .ok (c2, jo2) => if probeCore c2 (d1.applyAll jo2) idx == s then "same" else "differs"
        (w', s!"{shorten s} oj={jTxt jo} re={again}")

/-- first position at which `needle` occurs in `hay` -/
def findSub (hay needle : Bytes) : Option Nat :=
  let n := needle.length
  let rec go : Nat → Bytes → Nat → Option Nat
    | 0, _, _ => none
    | fuel+1, h, pos =>
      if h.length < n then none
      else if h.take n == needle then some pos
      else go fuel (h.drop 1) (pos + 1)
  go (hay.length + 1) hay 0

def coreLine (w : World) (ws : List String) : Option (World × String) :=
  match ws with
  | ["reset"] => some ({ scratch := w.scratch }, "bad-op")
  | ["new", name, seed] =>
    (match unhex seed with
     | none => some (w, "bad-op")
     | some sd =>
       let pk := C.publicKey sd
       match openOn {} (some (pk, some sd)) with
       | .error e => some (w.set name { writer := name }, s!"{failTxt e} j=[]")
       | .ok (c, j) =>
         let d := ({} : Disk).applyAll j
         some (w.set name { core := some c, disk := d, lastJournal := j, writer := name }, s!"ok j={jTxt j}"))
  | ["recreate", name] =>
    -- `Storage::open(.., overwrite = true)` truncates every non-empty store, then a core is created
    (match w.get? name with
     | none => some (w, "nocore")
     | some h =>
       match h.core.bind (·.secret) with
       | none => some (w, "nocore")
       | some sd =>
         let tr : List SOp := [Store.tree, Store.data, Store.bitfield, Store.oplog].filterMap fun s =>
           if (h.disk.get s).size > 0 then some (.trunc s 0) else none
         let d0 := h.disk.applyAll tr
         match openOn d0 (some (C.publicKey sd, some sd)) with
         | .error e => some (w.set name { h with core := none }, s!"{failTxt e} j={jTxt tr}")
         | .ok (c, j) =>
           some (w.set name { core := some c, disk := d0.applyAll j, prevDisk := h.disk, prevExists := true,
                              lastJournal := tr ++ j, writer := name }, s!"ok j={jTxt (tr ++ j)}"))
  | ["newr", name, writer] =>
    (match (w.get? writer).bind (·.core) with
     | none => some (w, "nocore")
     | some wc =>
       match openOn {} (some (wc.publicKey, none)) with
       | .error e => some (w.set name { writer := writer }, s!"{failTxt e} j=[]")
       | .ok (c, j) =>
         let d := ({} : Disk).applyAll j
         some (w.set name { core := some c, disk := d, lastJournal := j, writer := writer }, s!"ok j={jTxt j}"))
  | ["append", name, data] =>
    (match unhex data with
     | none => some (w, "bad-op")
     | some d => some (doAppend w name [d]))
  | ["batch", name, data] =>
    if data == "~" then some (doAppend w name []) else
    (match (data.splitOn ",").mapM unhex with
     | none => some (w, "bad-op")
     | some bs => some (doAppend w name bs))
  | ["fill", name, n, v] =>
    (match n.toNat?, v.toNat?, w.get? name with
     | some n, some v, some h =>
       let len := match h.core with | some c => c.tree.length | none => 0
       some (doAppend w name ((List.range n).map fun j => [UInt8.ofNat ((len + j + v) % 251)]))
     | _, _, _ => some (w, "nocore"))
  | ["clear", name, s, e] =>
    (match s.toNat?, e.toNat?, w.get? name with
     | some s, some e, some h =>
       (match h.core with
        | none => some (w, "nocore")
        | some c =>
          let st := c.clear h.disk s e
          let h' := commitStep h c st
          let out := match st.result with | .ok _ => "ok" | .error x => failTxt x
          some (w.set name h', s!"{out} j={jTxt st.journal}{evsTxt h.subs []}"))
     | _, _, _ => some (w, "nocore"))
  | ["get", name, i] =>
    (match i.toNat?, w.get? name with
     | some i, some h =>
       (match h.core with
        | none => some (w, "nocore")
        | some c =>
          let st := c.getBlock h.disk i
          let out := match st.result with
            | .ok (some v) => s!"ok some:{showBytes v}"
            | .ok none => "ok none"
            | .error x => failTxt x
          some (w, s!"{out}{evsTxt h.subs st.events}"))
     | _, _ => some (w, "nocore"))
  | ["has", name, i] =>
    (match i.toNat?, (w.get? name).bind (·.core) with
     | some i, some c => some (w, s!"ok {c.has i}")
     | _, _ => some (w, "nocore"))
  | ["info", name] =>
    (match (w.get? name).bind (·.core) with
     | some c => let i := c.info
       some (w, s!"ok len={i.length} bl={i.byteLength} cl={i.contiguous} fork={i.fork} w={i.writeable}")
     | none => some (w, "nocore"))
  | ["probe", name] =>
    (match w.get? name with
     | some h => (match h.core with
       | some c => some (w, shorten (probeCore c h.disk (probeIndices c.tree.length)))
       | none => some (w, "nocore"))
     | none => some (w, "nocore"))
  | ["scan", name] =>
    (match (w.get? name).bind (·.core) with
     | some c =>
       let len := c.tree.length
       let page := 32768
       let base := (len / page + 1) * page
       let idx := List.range (len + 2) ++ [base - 1, base, base + 8191, base + 8192, base + page - 1, base + page, base + page + 8192, base + 2 * page]
       let h := idx.foldl (fun (h : UInt64) i => (h ^^^ (if c.has i then 2 else 1)) * 0x100000001b3) 0xcbf29ce484222325
       some (w, s!"ok n={len + 10} cl={c.info.contiguous} {hex16 h}")
     | none => some (w, "nocore"))
  | ["reopen", name] =>
    (match w.get? name with
     | none => some (w, "nocore")
     | some h =>
       match openOn h.disk none with
       | .error e => some (w.set name { h with core := none, subs := 0 }, s!"{failTxt e} j=[]")
       | .ok (c, j) => some (w.set name { h with core := some c, subs := 0, disk := h.disk.applyAll j }, s!"ok j={jTxt j}"))
  | ["rebuild", name, seed] =>
    -- build (not open) on existing storage with a caller-supplied key pair
    (match unhex seed, w.get? name with
     | some sd, some h =>
       (match openOn h.disk (some (C.publicKey sd, some sd)) with
        | .error e => some (w.set name { h with core := none, subs := 0 }, s!"{failTxt e} j=[]")
        | .ok (c, j) => some (w.set name { h with core := some c, subs := 0, disk := h.disk.applyAll j }, s!"ok j={jTxt j}"))
     | _, _ => some (w, "nocore"))
  | ["ro", name] =>
    (match w.get? name with
     | none => some (w, "nocore")
     | some h => match h.core with
       | none => some (w, "nocore")
       | some c =>
         let st := c.makeReadOnly
         let h' := commitStep h c st
         let out := match st.result with | .ok b => s!"ok {b}" | .error x => failTxt x
         some (w.set name h', s!"{out} j={jTxt st.journal}{evsTxt h.subs []}"))
  | ["sub", name] =>
    (match w.get? name with
     | some h => if h.core.isSome then some (w.set name { h with subs := h.subs + 1 }, s!"ok {h.subs + 1}") else some (w, "nocore")
     | none => some (w, "nocore"))
  | ["dump", name] =>
    (match w.get? name with
     | some h => some (w, s!"T={showBytes h.disk.tree.toList} D={showBytes h.disk.data.toList} B={showBytes h.disk.bitfield.toList} O={showBytes h.disk.oplog.toList}")
     | none => some (w, "nocore"))
  | ["fnew"] => some ({ w with scratch := File.empty }, "ok")
  | ["fwrite", off, d] =>
    (match off.toNat?, unhex d with
     | some off, some d => let f := w.scratch.write off d; some ({ w with scratch := f }, s!"ok size={f.size}")
     | _, _ => some (w, "bad-op"))
  | ["fread", off, len] =>
    (match off.toNat?, len.toNat? with
     | some off, some len => some (w, match w.scratch.read off len with | some b => s!"ok {showBytes b}" | none => "err")
     | _, _ => some (w, "bad-op"))
  | ["fdel", off, len] =>
    (match off.toNat?, len.toNat? with
     | some off, some len => (match w.scratch.del off len with
        | some f => some ({ w with scratch := f }, s!"ok size={f.size}")
        | none => some (w, "err"))
     | _, _ => some (w, "bad-op"))
  | ["ftrunc", n] =>
    (match n.toNat? with
     | some n => let f := w.scratch.truncate n; some ({ w with scratch := f }, s!"ok size={f.size}")
     | none => some (w, "bad-op"))
  | ["reftree", name, blocks] =>
    (match (if blocks == "~" then some [] else (blocks.splitOn ",").mapM unhex), w.get? name with
     | some bl, some h =>
       (match h.core with
        | none => some (w, "nocore")
        | some c =>
          let bs := bl.toArray
          let len := bs.size
          let refn := RefTree.allNodes C bs
          let digest := fnv64 (refn.flatMap fun n => le8 n.index ++ nodeBytes n)
          let treeFile := h.disk.tree
          let recs := (List.range (treeFile.size / 40)).filterMap fun i =>
            match treeFile.read (i * 40) 40 with
            | some r => if r.all (· == 0) then none else some (i, r)
            | none => none
          let bad := recs.filter fun (i, r) => match refn.find? (·.index == i) with | some n => nodeBytes n != r | none => true
          let rts := RefTree.roots C bs
          let (sig, rootsOk) :=
            if len = 0 then ("none", true) else
            match (c.createProof h.disk none none none (some ⟨0, len⟩)).result with
            | .ok (some p) =>
              (match p.upgrade with
               | some u =>
                 let ok := C.verify c.publicKey (RefTree.signableOf C bs 0) u.signature
                 ((if ok then "valid" else "INVALID"), u.nodes == rts)
               | none => ("noproof:none", false))
            | .ok none => ("noproof:none", false)
            | .error _ => ("noproof:err", false)
          let height := Nat.log2 (max len 1) + 1
          let step := max (len / 7) 1
          let idxs := (List.range len).filter fun i => i % step == 0
          let pn := idxs.foldl (fun acc i =>
            [0, 1, height - 1].foldl (fun acc nodes =>
              match (c.createProof h.disk (some ⟨i, nodes⟩) none none none).result with
              | .ok (some p) => acc + (match p.block with | some b => b.nodes.length | none => 0)
              | _ => acc) acc) 0
          let flag := if bad.isEmpty && rootsOk then "" else " MISMATCH"
          some (w, s!"ok len={len} filenodes={recs.length} roots={rts.length} sig={sig} proofnodes={pn} ref={hex16 digest}{flag}"))
     | _, _ => some (w, "bad-op"))
  | ["sha", name] =>
    -- SHA-256 of the four stores (upper-case hex; NONE for an empty store), as tests/js_interop.rs hashes them
    (match w.get? name with
     | some h =>
       let f := fun (x : File) => if x.size = 0 then "NONE" else (hex (Sha256.hash x.toList)).toUpper
       some (w, s!"bitfield={f h.disk.bitfield} data={f h.disk.data} oplog={f h.disk.oplog} tree={f h.disk.tree}")
     | none => some (w, "nocore"))
  | ["openfiles", name, t, d, b, o] =>
    -- open a core on the given raw store contents (`open(true)`)
    (match unhex t, unhex d, unhex b, unhex o with
     | some t, some d, some b, some o =>
       let disk : Disk := ⟨File.ofList t, File.ofList d, File.ofList b, File.ofList o⟩
       (match openOn disk none with
        | .error e => some (w.set name { disk := disk, writer := name }, s!"{failTxt e} j=[]")
        | .ok (c, j) => some (w.set name { core := some c, disk := disk.applyAll j, writer := name, prevExists := true }, s!"ok j={jTxt j}"))
     | _, _, _, _ => some (w, "bad-op"))
  | ["readfiles", t, d, b, o] =>
    -- reconstruct the log state from raw store contents, as a reader that knows only the layout
    (match unhex t, unhex d, unhex b, unhex o with
     | some t, some d, some b, some o =>
       let disk : Disk := ⟨File.ofList t, File.ofList d, File.ofList b, File.ofList o⟩
       (match openOn disk none with
        | .error e => some (w, s!"open{failTxt e}")
        | .ok (c, _) => some (w, shorten (probeCore c disk (probeIndices c.tree.length))))
     | _, _, _, _ => some (w, "bad-op"))
  | ["evcheck", _] => some (w, "ok")
  | ["pk", name] =>
    (match (w.get? name).bind (·.core) with
     | some c => some (w, s!"ok {hex c.publicKey} secret={c.secret.isSome}")
     | none => some (w, "nocore"))
  | ["openkp", name] =>
    -- `Hypercore::new` rejects a key pair together with `open` before touching the storage
    (match w.get? name with
     | some _ => some (w, "err")
     | none => some (w, "nocore"))
  | ["secretscan", name, seed] =>
    (match unhex seed, w.get? name with
     | some sd, some h =>
       let exp := Sha512.hash sd
       let needles : List (String × Bytes) := [("seed", sd), ("seed-lo", sd.take 16), ("seed-hi", sd.drop 16),
         ("expanded-lo", exp.take 32), ("expanded-hi", exp.drop 32)]
       let files : List (String × Bytes) := [("T", h.disk.tree.toList), ("D", h.disk.data.toList), ("B", h.disk.bitfield.toList), ("O", h.disk.oplog.toList)]
       let found := files.flatMap fun (sn, f) => needles.filterMap fun (nm, nd) =>
         (findSub f nd).map fun pos => s!"{nm}@{sn}{pos}"
       some (w, if found.isEmpty then "clean" else "found " ++ ",".intercalate found)
     | _, _ => some (w, "nocore"))
  | ["crash", name, k, t] => (match k.toNat?, t.toNat? with
     | some k, some t => some (crashLine w name k t false)
     | _, _ => some (w, "bad-op"))
  | ["crashgo", name, k, t] => (match k.toNat?, t.toNat? with
     | some k, some t => some (crashLine w name k t true)
     | _, _ => some (w, "bad-op"))
  | _ => none

end HC.Driver

namespace HC.Driver
open HC HC.Codec

/-! ### replication -/

def proofTxt (p : Proof) : String :=
  let b := match p.block with | some b => s!"{b.index}:{showBytes b.value}:{nodesTxt b.nodes}" | none => "-"
  let h := match p.hash with | some h => s!"{h.index}:{nodesTxt h.nodes}" | none => "-"
  let s := match p.seek with | some s => s!"{s.bytes}:{nodesTxt s.nodes}" | none => "-"
  let u := match p.upgrade with
    | some u => s!"{u.start}:{u.length}:{nodesTxt u.nodes}:{nodesTxt u.additionalNodes}:{hexOrDash u.signature}"
    | none => "-"
  s!"fork={p.fork} block={b} hash={h} seek={s} up={u}"

def parsePair (s : String) : Option (Option (Nat × Nat)) :=
  if s == "-" then some none else
  match s.splitOn ":" with
  | [a, b] => do let x ← a.toNat?; let y ← b.toNat?; pure (some (x, y))
  | _ => none

def stripPrefix? (s pre : String) : Option String :=
  if s.startsWith pre then some (s.drop pre.length).toString else none

/-- full textual form of a proof: `fork=F block=I/VALUE/NODES hash=I/NODES seek=B/NODES up=S/L/NODES/ADD/SIG` -/
def parseProof (ws : List String) : Option Proof :=
  match ws with
  | [f, b, h, s, u] => do
    let fork ← (← stripPrefix? f "fork=").toNat?
    let bs ← stripPrefix? b "block="
    let block ← if bs == "-" then some none else
      match bs.splitOn "/" with
      | [i, v, ns] => do pure (some (⟨← i.toNat?, ← unhex v, ← parseNodes ns⟩ : DataBlock))
      | _ => none
    let hs ← stripPrefix? h "hash="
    let hash ← if hs == "-" then some none else
      match hs.splitOn "/" with
      | [i, ns] => do pure (some (⟨← i.toNat?, ← parseNodes ns⟩ : DataHash))
      | _ => none
    let ss ← stripPrefix? s "seek="
    let seek ← if ss == "-" then some none else
      match ss.splitOn "/" with
      | [i, ns] => do pure (some (⟨← i.toNat?, ← parseNodes ns⟩ : DataSeek))
      | _ => none
    let us ← stripPrefix? u "up="
    let up ← if us == "-" then some none else
      match us.splitOn "/" with
      | [a, l, ns, ad, sg] => do pure (some (⟨← a.toNat?, ← l.toNat?, ← parseNodes ns, ← parseNodes ad, ← unhex sg⟩ : DataUpgrade))
      | _ => none
    pure ⟨fork, block, hash, seek, up⟩
  | _ => none

def replLine (w : World) (ws : List String) : Option (World × String) :=
  match ws with
  | ["missing", name, i] =>
    (match i.toNat?, w.get? name with
     | some i, some h => (match h.core with
       | some c => some (w, s!"ok {c.tree.missingNodes h.disk.tree (2 * i)}")
       | none => some (w, "nocore"))
     | _, _ => some (w, "nocore"))
  | ["missingt", name, i] =>
    (match i.toNat?, w.get? name with
     | some i, some h => (match h.core with
       | some c => some (w, s!"ok {c.tree.missingNodes h.disk.tree i}")
       | none => some (w, "nocore"))
     | _, _ => some (w, "nocore"))
  | ["prove", name, b, hs, sk, up] =>
    (match parsePair b, parsePair hs, parsePair up, w.get? name with
     | some b, some hs, some up, some h =>
       (match h.core with
        | none => some (w, "nocore")
        | some c =>
          let seek : Option (Option RequestSeek) := if sk == "-" then some none else sk.toNat?.map (fun x => some ⟨x⟩)
          match seek with
          | none => some (w, "bad-op")
          | some seek =>
            let st := c.createProof h.disk (b.map fun (i, n) => ⟨i, n⟩) (hs.map fun (i, n) => ⟨i, n⟩) seek (up.map fun (s, l) => ⟨s, l⟩)
            let out := match st.result with
              | .ok (some p) => s!"ok {proofTxt p}"
              | .ok none => "ok none"
              | .error e => failTxt e
            some (w, s!"{out}{evsTxt h.subs st.events}"))
     | _, _, _, _ => some (w, "bad-op"))
  | "applyp" :: name :: rest =>
    (match parseProof rest, w.get? name with
     | some p, some h =>
       (match h.core with
        | none => some (w, "nocore")
        | some c =>
          let st := c.verifyAndApply C h.disk p
          let h' := commitStep h c st
          let out := match st.result with | .ok b => s!"ok {b}" | .error e => failTxt e
          some (w.set name h', s!"{out} j={jTxt st.journal}{evsTxt h.subs (if st.result.isOk then st.events else [])}"))
     | _, _ => some (w, "bad-op"))
  | _ => none

end HC.Driver
