import HC.Proofs.Verify
/-!
# C03 — any honest proof is accepted and replicas converge to the writer's data

Proved so far:

* `accept_commits`  : once a proof has passed verification and the commitability gate, the answer is
  `true` (or an error from the tree commit, which cannot reject a changeset made from the current
  tree) — never `false`: an accepted proof is always applied;
* `accepted_events` : the events of an applied proof are exactly "upgrade iff it carried an upgrade"
  followed by "have (index, 1) iff it carried a block".

Partial: that `create_proof`'s answer to a well-formed request passes `verify_proof` on the replica
(`verify_complete`) is not proved yet; it is validated by the correspondence run — every honest
proof (all request orders, partial upgrades with additional nodes, seeks, replica reopen, cleared
blocks) must be accepted by the real crate and by the model, and the replica must converge.
-/
namespace HC.C03
open HC HC.Core HC.Tree

theorem accept_commits (c : Core) (p : Proof) (cs : Changeset) (j0 : List SOp) (bu : Option Oplog.BitfieldUpdate) :
    (applyVerified c p cs j0 bu).result ≠ .ok false := applyVerified_not_false c p cs j0 bu

theorem accepted_events (c : Core) (p : Proof) (cs : Changeset) (j0 : List SOp) (bu : Option Oplog.BitfieldUpdate)
    (h : (applyVerified c p cs j0 bu).result = .ok true) :
    (applyVerified c p cs j0 bu).events = appliedEvents p bu := by
  unfold applyVerified at h ⊢
  exact finishApply_events _ _ _ _ _ _ _ _ h

end HC.C03
