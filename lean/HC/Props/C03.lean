import HC.Proofs.Verify
import HC.Proofs.Complete
import HC.Proofs.UpgradeComplete
import HC.Proofs.Sync
import HC.Proofs.Replica
import HC.Proofs.Growth
import HC.Proofs.HashReq
import HC.Proofs.ReplicaReopen
import HC.Proofs.CreateTotal
import HC.Proofs.BlockUpgrade
import HC.Proofs.BlockGrow
import HC.Proofs.BlockGrowWriter
import HC.Proofs.BlockNew
import HC.Proofs.BlockGrowGen
import HC.Proofs.NewBlockWriter
/-!
# C03 — any honest proof is accepted and replicas converge to the writer's data

Proved so far:

* `accept_commits`  : once a proof has passed verification and the commitability gate, the answer is
  `true` (or an error from the tree commit, which cannot reject a changeset made from the current
  tree) — never `false`: an accepted proof is always applied;
* `accepted_events` : the events of an applied proof are exactly "upgrade iff it carried an upgrade"
  followed by "have (index, 1) iff it carried a block".

* **`honest_block_accepted`** (unbounded): for every log, every writer state whose roots and node lookup
  are the reference tree (what `C01.live_refinement` maintains), every sparse replica of that log — it
  stores only reference nodes inside its length and stores its roots — and every block index below the
  replica's length: the replica's own `missing_nodes` count, the writer's `create_valueless_proof` for
  that request, and the block's bytes form a proof that the replica's `verify_proof` accepts; all nodes of
  the resulting changeset are reference nodes.  Components: `missing_nodes_spec` (the count leads to a
  stored ancestor inside the replica's tree), `writer_answers` (the writer returns the reference siblings
  along the path), `block_accepted` (the climb over them reaches that ancestor and the comparison with the
  stored node succeeds).

* **`honest_first_upgrade_accepted`** (unbounded): first contact — for every non-empty log, every writer state
  holding it and every replica that knows nothing yet, the writer's answer to "upgrade from 0 to your length"
  (`create_valueless_proof`: its reference roots, left to right, and its signature) is accepted by the replica's
  `verify_proof`, which adopts exactly the writer's roots, length and fork.  Both sides walk the full roots of
  the length with canonical, aligned iterators (`UpgradeSound.fullRoot_canon`), and the greedy walk is the
  recursive root decomposition (`FullRoots.cover_lt`).

* **`sync_first_contact`, `sync_invariant`, `sync_progress`** (unbounded, tree level): the exchange is closed
  under its own effects.  `Sync.Reach` is the set of replica tree states obtained from one that knows nothing
  by the first upgrade answer followed by any number of block answers in any order (repeats allowed), each
  produced by the writer's `create_valueless_proof` for the replica's own request, checked by the replica's
  `verify_proof` and committed by `commit`.  First contact succeeds from every empty replica; every reachable
  state is a sparse replica at the writer's length holding the writer's roots and fork; and from every
  reachable state the exchange for every block of the log succeeds again (answer, acceptance, commit).  So an
  honest exchange never gets stuck, for every log, every order of requests and every length of the exchange.

* **`replica_converges`** (unbounded, **core level**): the whole of `verify_and_apply_proof` — verification, the byte
  offset of the block under the replica's own sparse tree, data write, oplog entry, bitfield, tree commit, periodic
  flush of bitfield pages and tree nodes.  From a replica that knows nothing: the writer's upgrade answer is applied
  (`true`), then for **every list of block indices in any order, with repetitions**, each honest block answer is
  applied (`true`), and at the end the replica reports the writer's length and byte length, serves exactly the blocks
  it fetched — **each byte-identical to the writer's block** — and answers "not held" for the others.  Behind it:
  `Replica.RepR` (representation invariant of a replica: a *closed* sparse tree — every stored node inside the tree
  has its sibling and parent stored — which is what makes `byte_offset_from_nodes` work on a sparse tree; bits = held
  set; the data store holds the held blocks at the writer's offsets; the tree store's size is a multiple of the slot
  size so that flushing cannot surface a half slot), `apply_first_upgrade`, `apply_block`, `get_held`.
* **`replica_grows`** (unbounded, core level, **growth rounds**): the same for a log that keeps growing.  After first
  contact at any length `n₁`, the replica plays any list of acts — *upgrade to the writer's current length `n`*
  (any `n` above its own length, as often as the writer grows), *fetch block `i`* (any index below its current
  length) and *ask for the hash of tree node `(d, o)`* (any full node inside its current length; `HashReq.apply_hash`:
  the path is stored, no data, no bitfield change), in any order.  The upgrade answer is the greedy decomposition of `[m, n)` into aligned blocks
  (`Growth.Up`; `up_exists`: it exists for every `m < n`); inside the first new root the replica's `verify_upgrade`
  runs its `grow` loop, where every appended block is the right sibling of the current last root and merges upwards
  like a binary counter.  Every act is answered `true`; at the end the replica reports the last length and its byte
  length and serves exactly the fetched blocks, byte-identical.  Key lemma: `Growth.dyadic_append_closed` — one
  aligned append takes a closed replica of the first `L` blocks to a closed replica of the first `L + 2^J` blocks.
* `honest_growth_is_writers`: the upgrade answers used in `replica_grows` are what the writer's `create_valueless_proof`
  returns for the request "upgrade me from `m`" when its log has `n` blocks (the "connect existing tree" walk of
  `upgrade_proof` collects the right siblings from leaf `m − 1` up to the first new root: `Growth.connectWalk_honest`,
  `grow_rightSibs`).
* `honest_hash_is_writers`: likewise for hash requests (`HashReq.create_hash_proof`).
* `honest_block_is_writers`: the proof applied in these theorems is the one the writer's `create_valueless_proof`
  produces for the replica's request, with the block's bytes.

Partial: proofs with a seek section, upgrades to less than the writer's length (additional nodes),
block + upgrade in one proof, replica reopen and writer-side clears are not proved complete;
they are validated by the correspondence run — every honest proof (all request orders, partial upgrades
with additional nodes, seeks, hash sweeps, replica reopen, cleared blocks) must be accepted by the real
crate and by the model, and the replica must converge.
-/
namespace HC.C03
open HC HC.Core HC.Tree

theorem accept_commits (c : Core) (p : Proof) (cs : Changeset) (j0 : List SOp) (bu : Option Oplog.BitfieldUpdate) :
    (applyVerified c p cs j0 bu).result ≠ .ok false := applyVerified_not_false c p cs j0 bu

theorem accepted_events (c : Core) (p : Proof) (cs : Changeset) (j0 : List SOp) (bu : Option Oplog.BitfieldUpdate)
    (h : (applyVerified c p cs j0 bu).result = .ok true) :
    (applyVerified c p cs j0 bu).events = appliedEvents p bu := by
  unfold applyVerified at h ⊢
  exact finishApply_events _ _ _ _ _ _ _ _ h

theorem missing_nodes_spec (C : Crypto) (bs : Array Bytes) (m : Nat) (t : Tree) (f : File)
    (hS : Complete.Sparse C bs m t f) (hm : m < 2 ^ 64) (i : Nat) (hi : i < m) :
    t.node? f (Flat.index (t.missingNodes f (2 * i)) (i / 2 ^ t.missingNodes f (2 * i)))
        = some (RefTree.nodeAt C bs (t.missingNodes f (2 * i)) (i / 2 ^ t.missingNodes f (2 * i)))
      ∧ (i / 2 ^ t.missingNodes f (2 * i) + 1) * 2 ^ t.missingNodes f (2 * i) ≤ m :=
  Complete.missingNodes_spec C bs m t f hS hm i hi

theorem writer_answers (C : Crypto) (bs : Array Bytes) (t : Tree) (f : File) (hT : RefProof.RootsOK C bs t.changeset)
    (hN : Offsets.NodesOK C bs t f) (hs : bs.size < 2 ^ 64) (i k : Nat) (hi : i < bs.size)
    (hk : (i / 2 ^ k + 1) * 2 ^ k ≤ bs.size) :
    t.createValuelessProof f (some ⟨i, k⟩) none none none
      = .ok ⟨t.fork, some ⟨i, Complete.sibPath C bs 0 i k⟩, none, none, none⟩ :=
  Complete.create_block_proof C bs t f hT hN hs i k hi hk

theorem block_accepted (C : Crypto) (bs : Array Bytes) (t : Tree) (f : File) (pk : Bytes) (i k fork : Nat)
    (hstored : t.node? f (Flat.index k (i / 2 ^ k)) = some (RefTree.nodeAt C bs k (i / 2 ^ k))) :
    ∃ cs, t.verifyProof C f ⟨fork, some ⟨i, bs.getD i [], Complete.sibPath C bs 0 i k⟩, none, none, none⟩ pk = .ok cs
      ∧ cs.upgraded = t.changeset.upgraded ∧ cs.length = t.length
      ∧ (∀ n ∈ cs.rnodes, ∃ dn on, n = RefTree.nodeAt C bs dn on ∧ (on + 1) * 2 ^ dn ≤ (i / 2 ^ k + 1) * 2 ^ k)
      ∧ cs.origLength = t.length ∧ cs.origFork = t.fork :=
  Complete.block_proof_complete C bs t f pk i k fork hstored

/-- honest block exchange, end to end on the verification side -/
theorem honest_block_accepted (C : Crypto) (bs : Array Bytes) (tw : Tree) (fw : File) (tr : Tree) (fr : File) (m : Nat)
    (hT : RefProof.RootsOK C bs tw.changeset) (hN : Offsets.NodesOK C bs tw fw) (hs : bs.size < 2 ^ 64)
    (hS : Complete.Sparse C bs m tr fr) (hm : m ≤ bs.size) (i : Nat) (hi : i < m) (pk : Bytes) :
    ∃ nodes cs, tw.createValuelessProof fw (some ⟨i, tr.missingNodes fr (2 * i)⟩) none none none
        = .ok ⟨tw.fork, some ⟨i, nodes⟩, none, none, none⟩
      ∧ tr.verifyProof C fr ⟨tw.fork, some ⟨i, bs.getD i [], nodes⟩, none, none, none⟩ pk = .ok cs
      ∧ (∀ n ∈ cs.rnodes, ∃ dn on, n = RefTree.nodeAt C bs dn on ∧ (on + 1) * 2 ^ dn ≤ m)
      ∧ cs.upgraded = false ∧ cs.origLength = tr.length ∧ cs.origFork = tr.fork :=
  Complete.honest_block_accepted C bs tw fw tr fr m hT hN hs hS hm i hi pk

/-- non-vacuity: a replica that stores the whole reference tree of a one-block log is `Sparse` -/
example (C : Crypto) (hC : TreeStore.HashWF C) : Complete.Sparse C #[[1, 2, 3]] 1
    { length := 1, unflushed := (∅ : Std.HashMap Nat Codec.Node).insert 0 (RefTree.nodeAt C #[[1, 2, 3]] 0 0) } File.empty := by
  refine ⟨rfl, ?_, ?_⟩
  · intro i n h
    simp only [Tree.node?, Std.HashMap.getElem?_insert, Std.HashMap.getElem?_empty] at h
    by_cases h0 : (0 : Nat) == i
    · simp only [h0, ite_true] at h
      have hb := TreeStore.nodeAt_not_blank C hC #[[1, 2, 3]] 0 0
      simp only [hb, Bool.false_eq_true, ite_false, Option.some.injEq] at h
      refine ⟨0, 0, ?_, h.symm, by simp⟩
      have : i = 0 := by simpa using (beq_iff_eq.mp h0).symm
      rw [this]; simp [Flat.index]
    · simp only [h0, Bool.false_eq_true, ite_false] at h
      simp [File.read, File.empty, File.size, Spec.nodeSize] at h
  · intro p hp
    have h1 : RefTree.rootsStack 1 = [(0, 0)] := by
      rw [RefProof.rootsStack_odd 1 (by decide)]; simp [RefProof.rootsStack_zero]
    rw [h1] at hp
    simp only [List.mem_singleton] at hp
    subst hp
    have hb := TreeStore.nodeAt_not_blank C hC #[[1, 2, 3]] 0 0
    simp [Tree.node?, Flat.index, hb]

/-- **First contact, upgrade.**  For every log `bs` (shorter than 2^64, non-empty), every writer state holding it
    (reference roots, reference nodes reachable, a signature that verifies for the reference head) and every
    replica that knows nothing yet: the writer's answer to the request "upgrade from 0 to your length" is its
    reference roots and its signature, and the replica's `verify_proof` accepts it, adopting exactly the writer's
    roots, length and fork. -/
theorem honest_first_upgrade_accepted (C : Crypto) (bs : Array Bytes) (tw : Tree) (fw : File) (tr : Tree) (fr : File) (pk sig : Bytes)
    (hT : RefProof.RootsOK C bs tw.changeset) (hNodes : Offsets.NodesOK C bs tw fw) (hN : bs.size < 2 ^ 64) (h0 : 0 < bs.size)
    (hsig : tw.signature = some sig) (hsl : sig.length = 64)
    (hver : C.verify pk (RefTree.signableOf C bs tw.fork) sig = true)
    (hfresh : tr.roots = []) (hflen : tr.length = 0) :
    ∃ vp cs', tw.createValuelessProof fw none none none (some ⟨0, bs.size⟩) = .ok vp
      ∧ tr.verifyProof C fr ⟨vp.fork, none, none, none, vp.upgrade⟩ pk = .ok cs'
      ∧ cs'.roots = RefTree.roots C bs ∧ cs'.length = bs.size ∧ cs'.fork = tw.fork ∧ cs'.signature = some sig := by
  have hw := UpgradeComplete.create_upgrade_from0 C bs tw fw hT hNodes hN h0 sig hsig
  obtain ⟨cs', h1, h2, h3, h4, h5⟩ := UpgradeComplete.fresh_upgrade_accepted C bs hN h0 tw.fork pk sig tr.changeset
    (by simp [Tree.changeset, hfresh]) (by simp [Tree.changeset, hflen]) hsl hver
  refine ⟨_, cs', hw, ?_, h2, h3, h4, h5.1⟩
  simp [Tree.verifyProof, verifyTree, untrustedOf, noSeekOf, h1]

/-- **Sync, first contact.**  From every replica that stores nothing, the writer's answer to "upgrade from 0" is
    accepted and committed; the replica then is a sparse replica at the writer's length with the writer's roots,
    fork and signature. -/
theorem sync_first_contact (C : Crypto) (hC : TreeStore.HashWF C) (bs : Array Bytes) (tw : Tree) (fw : File) (pk sig : Bytes)
    (hW : Sync.Writer C bs tw fw pk sig) (tr : Tree) (fr : File) (hS : Complete.Sparse C bs 0 tr fr) (hr : tr.roots = []) :
    ∃ vp cs tr', tw.createValuelessProof fw none none none (some ⟨0, bs.size⟩) = .ok vp
      ∧ tr.verifyProof C fr ⟨vp.fork, none, none, none, vp.upgrade⟩ pk = .ok cs
      ∧ tr.commit cs = .ok tr'
      ∧ Sync.Reach C bs tw fw pk fr tr'
      ∧ Complete.Sparse C bs bs.size tr' fr ∧ tr'.roots = RefTree.roots C bs ∧ tr'.fork = tw.fork ∧ tr'.signature = some sig := by
  obtain ⟨vp, cs, tr', h1, h2, h3, h4⟩ := Sync.first_contact C hC bs tw fw pk sig hW tr fr hS hr
  exact ⟨vp, cs, tr', h1, h2, h3, Sync.Reach.first tr vp cs tr' hS hr h1 h2 h3, h4⟩

/-- **Sync, invariant.**  Every replica tree state reachable by honest exchanges is a sparse replica of the
    writer's log at the writer's length, with the writer's roots and fork. -/
theorem sync_invariant (C : Crypto) (hC : TreeStore.HashWF C) (bs : Array Bytes) (tw : Tree) (fw : File) (pk sig : Bytes)
    (hW : Sync.Writer C bs tw fw pk sig) (fr : File) (tr : Tree) (h : Sync.Reach C bs tw fw pk fr tr) :
    Complete.Sparse C bs bs.size tr fr ∧ tr.roots = RefTree.roots C bs ∧ tr.fork = tw.fork :=
  Sync.reach_sparse C hC bs tw fw pk sig hW fr tr h

/-- **Sync, progress.**  From every reachable replica state, the exchange for every block of the log succeeds:
    the writer answers the replica's request, the replica accepts the answer, the commit succeeds, and the
    result is reachable again. -/
theorem sync_progress (C : Crypto) (hC : TreeStore.HashWF C) (bs : Array Bytes) (tw : Tree) (fw : File) (pk sig : Bytes)
    (hW : Sync.Writer C bs tw fw pk sig) (fr : File) (tr : Tree) (h : Sync.Reach C bs tw fw pk fr tr) (i : Nat) (hi : i < bs.size) :
    ∃ nodes cs tr', tw.createValuelessProof fw (some ⟨i, tr.missingNodes fr (2 * i)⟩) none none none
        = .ok ⟨tw.fork, some ⟨i, nodes⟩, none, none, none⟩
      ∧ tr.verifyProof C fr ⟨tw.fork, some ⟨i, bs.getD i [], nodes⟩, none, none, none⟩ pk = .ok cs
      ∧ tr.commit cs = .ok tr' ∧ Sync.Reach C bs tw fw pk fr tr' :=
  Sync.block_progress C hC bs tw fw pk sig hW fr tr h i hi

/-- non-vacuity: a new tree over an empty store is a replica that stores nothing -/
example (C : Crypto) (bs : Array Bytes) : Complete.Sparse C bs 0 {} File.empty ∧ ({} : Tree).roots = [] := by
  refine ⟨⟨rfl, ?_, ?_⟩, rfl⟩
  · intro i n h
    simp [Tree.node?, File.read, File.empty, File.size, Spec.nodeSize] at h
  · intro p hp
    simp [RefProof.rootsStack_zero] at hp

/-- non-vacuity: a writer holding a one-block log, with a signing scheme whose signatures are 64 bytes and verify -/
example (C : Crypto) (hC : TreeStore.HashWF C) (seed : Bytes) (hS : LiveRefine.SignWF C)
    (hV : ∀ msg, C.verify (C.publicKey seed) msg (C.sign seed msg) = true) :
    Sync.Writer C #[[1, 2, 3]]
      { roots := [RefTree.nodeAt C #[[1, 2, 3]] 0 0], length := 1, byteLength := 3, signature := some (C.sign seed (RefTree.signableOf C #[[1, 2, 3]] 0)), unflushed := (∅ : Std.HashMap Nat Codec.Node).insert 0 (RefTree.nodeAt C #[[1, 2, 3]] 0 0) }
      File.empty (C.publicKey seed) (C.sign seed (RefTree.signableOf C #[[1, 2, 3]] 0)) := by
  have h1 : RefTree.rootsStack 1 = [(0, 0)] := by
    rw [RefProof.rootsStack_odd 1 (by decide)]; simp [RefProof.rootsStack_zero]
  refine ⟨⟨rfl, ?_, rfl⟩, ?_, by decide, by decide, rfl, hS _ _, hV _⟩
  · show [RefTree.nodeAt C #[[1, 2, 3]] 0 0].reverse = (RefTree.rootsStack 1).map _
    rw [h1]; rfl
  · intro d o hb
    have hd : d = 0 := by
      cases d with
      | zero => rfl
      | succ d =>
        have : 2 ≤ 2 ^ (d + 1) := by rw [Nat.pow_succ]; have := Nat.pow_pos (n := d) (by decide : 0 < 2); omega
        have : 2 ≤ (o + 1) * 2 ^ (d + 1) := Nat.le_trans this (Nat.le_mul_of_pos_left _ (Nat.succ_pos _))
        simp at hb; omega
    subst hd
    have ho : o = 0 := by simp at hb; omega
    subst ho
    have hb := TreeStore.nodeAt_not_blank C hC #[[1, 2, 3]] 0 0
    simp [Tree.node?, Flat.index, hb]

/-- the proof used below is the writer's: its `create_valueless_proof` for the replica's request returns the same
    fork and nodes, and the value is the writer's block -/
theorem honest_block_is_writers (C : Crypto) (bs : Array Bytes) (tw : Tree) (fw : File) (hT : RefProof.RootsOK C bs tw.changeset)
    (hN : Offsets.NodesOK C bs tw fw) (hs : bs.size < 2 ^ 64) (c : Core) (d : Disk) (held : Nat → Bool)
    (h : Replica.RepR C bs c d held) (hf : c.tree.fork = tw.fork) (i : Nat) (hi : i < bs.size) :
    ∃ nodes, tw.createValuelessProof fw (some ⟨i, c.tree.missingNodes d.tree (2 * i)⟩) none none none
        = .ok ⟨tw.fork, some ⟨i, nodes⟩, none, none, none⟩
      ∧ Replica.honestBlock C bs c d i = ⟨tw.fork, some ⟨i, bs.getD i [], nodes⟩, none, none, none⟩ := by
  obtain ⟨_, hin⟩ := Complete.missingNodes_spec C bs bs.size c.tree d.tree h.closed.sparse hs i hi
  refine ⟨_, Complete.create_block_proof C bs tw fw hT hN hs i _ hi hin, ?_⟩
  simp [Replica.honestBlock, hf]

/-- **C03 at core level: replicas converge to the writer's data.**  A replica that knows nothing applies the writer's
    upgrade answer and then the writer's block answers for the indices `is` — any indices of the log, in any order,
    repetitions allowed.  Every application answers `true`; afterwards the replica reports the writer's length and
    byte length, every fetched block reads back byte-identical to the writer's, and every other index reads as not
    held. -/
theorem replica_converges (C : Crypto) (hC : TreeStore.HashWF C) (bs : Array Bytes) (c : Core) (d : Disk)
    (h : Replica.FreshR C bs c d) (h0 : 0 < bs.size) (sig : Bytes) (hsl : sig.length = 64)
    (hver : C.verify c.publicKey (RefTree.signableOf C bs c.tree.fork) sig = true)
    (is : List Nat) (his : ∀ i ∈ is, i < bs.size) :
    let st1 := c.verifyAndApply C d (Replica.honestUpgrade C bs c.tree.fork sig)
    let s2 := Replica.fetch C bs (st1.core, d.applyAll st1.journal) is
    st1.result = .ok true
      ∧ Replica.fetchResults C bs (st1.core, d.applyAll st1.journal) is = is.map (fun _ => .ok true)
      ∧ s2.1.tree.length = bs.size ∧ s2.1.tree.byteLength = LogSpec.totalBytes bs
      ∧ (∀ j, j ∈ is → (s2.1.getBlock s2.2 j).result = .ok (some (bs.getD j [])))
      ∧ (∀ j, j ∉ is → (s2.1.getBlock s2.2 j).result = .ok none) := by
  intro st1 s2
  obtain ⟨r1, r2, _, _⟩ := Replica.apply_first_upgrade C hC bs c d h h0 sig hsl hver
  obtain ⟨r3, r4⟩ := Replica.fetch_repr C hC bs is _ _ _ r2 his
  refine ⟨r1, r4, r3.closed.sparse.length, by rw [r3.bytes, LiveRefine.psum_total], fun j hj => ?_, fun j hj => ?_⟩
  · exact Replica.get_held C bs _ _ _ r3 j (by simp [hj])
  · exact Replica.get_missing C bs _ _ _ r3 j (by simp [hj])

/-- non-vacuity: a core with an empty tree, an empty bitfield and hint 0 over empty stores knows nothing -/
example (C : Crypto) (bs : Array Bytes) (hs : bs.size < 2 ^ 64 ∧ Offsets.psum bs bs.size < 2 ^ 64) (c : Core)
    (ht : c.tree = {}) (hb : c.bitfield = {}) (hh : c.header.contiguous = 0) : Replica.FreshR C bs c {} := by
  have hg : ∀ i, c.bitfield.get i = false := by intro i; rw [hb]; simp [Bitfield.get]
  refine ⟨⟨by rw [ht], ?_, ?_⟩, by rw [ht], by rw [ht], ?_, rfl, hg, ?_, hs⟩
  · intro i n h
    rw [ht] at h
    simp [Tree.node?, File.read, File.empty, File.size, Spec.nodeSize] at h
  · intro p hp
    simp [RefProof.rootsStack_zero] at hp
  · rw [ht]; intro k n h; simp at h
  · rw [hh]; exact ⟨(fun i hi => by cases hi), hg 0⟩

/-- **C03 at core level with growth rounds.**  First contact at length `n₁`, then any list of acts — upgrades to larger
    lengths of the writer's log and block requests below the current length, in any order: every application answers
    `true`; afterwards the replica reports the last length and its byte length, every fetched block reads back
    byte-identical to the writer's, every other index reads as not held. -/
theorem replica_grows (C : Crypto) (hC : TreeStore.HashWF C) (bs : Array Bytes) (hs : bs.size < 2 ^ 64 ∧ Offsets.psum bs bs.size < 2 ^ 64)
    (n₁ : Nat) (h0 : 0 < n₁) (hn : n₁ ≤ bs.size) (c : Core) (d : Disk) (h : Replica.FreshR C (bs.extract 0 n₁) c d)
    (sig : Bytes) (hsl : sig.length = 64) (hver : C.verify c.publicKey (Growth.signableAt C bs n₁ c.tree.fork) sig = true)
    (acts : List HashReq.Act) (hok : HashReq.OkActs C bs c.publicKey c.tree.fork n₁ acts) :
    let st1 := c.verifyAndApply C d (Growth.honestFirst C bs c.tree.fork n₁ sig)
    let s2 := HashReq.play C bs (st1.core, d.applyAll st1.journal) acts
    st1.result = .ok true
      ∧ HashReq.playResults C bs (st1.core, d.applyAll st1.journal) acts = acts.map (fun _ => .ok true)
      ∧ s2.1.tree.length = HashReq.lenAfter n₁ acts ∧ s2.1.tree.byteLength = Offsets.psum bs (HashReq.lenAfter n₁ acts)
      ∧ (∀ j, HashReq.fetched acts j = true → (s2.1.getBlock s2.2 j).result = .ok (some (bs.getD j [])))
      ∧ (∀ j, HashReq.fetched acts j = false → (s2.1.getBlock s2.2 j).result = .ok none) := by
  intro st1 s2
  obtain ⟨r1, r2, r3, r4⟩ := Growth.first_contact_at C hC bs hs n₁ h0 hn c d h sig hsl hver
  obtain ⟨q1, q2⟩ := HashReq.play_repr C hC bs c.publicKey c.tree.fork acts n₁ _ _ _ r2 h0 r4 r3 hok
  refine ⟨r1, q2, q1.closed.sparse.length, q1.bytes, fun j hj => ?_, fun j hj => ?_⟩
  · exact Growth.get_held_at C bs _ _ _ _ q1 j (by simp [hj])
  · exact Growth.get_missing_at C bs _ _ _ _ q1 j (by simp [hj])

/-- non-vacuity of the acts: for every pair of lengths there is an honest position list -/
example (m n : Nat) (h : m < n) : ∃ us, Growth.Up m 0 (RefTree.rootsStack n).reverse us := Growth.up_exists0 m n h

/-- the upgrade proofs of `replica_grows` are the writer's: a writer whose log is the first `n` blocks answers the request
    "upgrade me from `m`" with exactly `Growth.honestGrowth` -/
theorem honest_growth_is_writers (C : Crypto) (bs : Array Bytes) (n : Nat) (hn : n ≤ bs.size) (hs : bs.size < 2 ^ 64) (tw : Tree) (fw : File)
    (hT : RefProof.RootsOK C (bs.extract 0 n) tw.changeset) (hN : Offsets.NodesOK C (bs.extract 0 n) tw fw)
    (m : Nat) (hm0 : 0 < m) (hmn : m < n) (sig : Bytes) (hsig : tw.signature = some sig)
    (us : List (Nat × Nat)) (hup : Growth.Up m 0 (RefTree.rootsStack n).reverse us) :
    tw.createValuelessProof fw none none none (some ⟨m, n - m⟩)
      = .ok ⟨tw.fork, none, none, none, (Growth.honestGrowth C bs tw.fork m n us sig).upgrade⟩ := by
  have hsz := Growth.size_extract bs n hn
  have := Growth.create_growth_proof C (bs.extract 0 n) tw fw hT hN (by rw [hsz]; omega) m hm0 (by rw [hsz]; exact hmn) sig hsig us
    (by rw [hsz]; exact hup)
  rw [hsz] at this
  rw [this, ← Growth.honestGrowth_extract C bs n hn tw.fork m us sig hup]
  rfl

/-- the hash proofs of `replica_grows` are the writer's answer to the replica's request -/
theorem honest_hash_is_writers (C : Crypto) (bs : Array Bytes) (tw : Tree) (fw : File) (hT : RefProof.RootsOK C bs tw.changeset)
    (hN : Offsets.NodesOK C bs tw fw) (hs : bs.size < 2 ^ 64) (c : Core) (d : Disk) (held : Nat → Bool)
    (h : Replica.RepR C bs c d held) (hf : c.tree.fork = tw.fork) (d0 o0 : Nat) (hin : (o0 + 1) * 2 ^ d0 ≤ bs.size) :
    ∃ nodes, tw.createValuelessProof fw none (some ⟨Flat.index d0 o0, c.tree.missingNodes d.tree (Flat.index d0 o0)⟩) none none
        = .ok ⟨tw.fork, none, some ⟨Flat.index d0 o0, nodes⟩, none, none⟩
      ∧ HashReq.honestHash C bs c d d0 o0 = ⟨tw.fork, none, some ⟨Flat.index d0 o0, nodes⟩, none, none⟩ := by
  obtain ⟨_, hin', hd0⟩ := HashReq.missingNodes_spec_node C bs bs.size c.tree d.tree h.closed.sparse hs d0 o0 hin
  refine ⟨_, HashReq.create_hash_proof C bs tw fw hT hN hs d0 o0 _ hd0 hin', ?_⟩
  simp [HashReq.honestHash, hf]

/-- **C03 at core level, from creation, across restarts.**  A replica is created with `Hypercore::new` over empty stores
    from the writer's public key alone; first contact at length `n₁`; then any list of acts — upgrades to larger lengths
    of the writer's log, block requests and hash requests inside the current length, and *closing and reopening the
    stores* (`Hypercore::new` with no key pair), in any order.  Every application answers `true`, every reopen succeeds
    (without writing to the stores); at the end the replica reports the last length and its byte length, every fetched
    block reads back byte-identical to the writer's and every other index reads as not held — whatever was fetched
    before a restart is still there after it, and a restarted replica goes on exactly where it stopped. -/
theorem replica_reopens (C : Crypto) (hC : TreeStore.HashWF C) (hT : TreeStore.TreeWF C) (bs : Array Bytes)
    (hs : bs.size < 2 ^ 62 ∧ Offsets.psum bs bs.size < 2 ^ 64) (pk : Bytes) (hpk : pk.length = 32)
    (n₁ : Nat) (h0 : 0 < n₁) (hn : n₁ ≤ bs.size) (sig : Bytes) (hsl : sig.length = 64)
    (hver : C.verify pk (Growth.signableAt C bs n₁ 0) sig = true)
    (acts : List ReplicaReopen.ActR) (hok : HashReq.OkActs C bs pk 0 n₁ (ReplicaReopen.exchanges acts)) :
    ∃ c j, Core.openCore C (some (pk, none)) {} = .ok (c, j) ∧
      let d := ({} : Disk).applyAll j
      let st1 := c.verifyAndApply C d (Growth.honestFirst C bs 0 n₁ sig)
      let s2 := ReplicaReopen.playR C bs (st1.core, d.applyAll st1.journal) acts
      st1.result = .ok true
        ∧ ReplicaReopen.resultsR C bs (st1.core, d.applyAll st1.journal) acts = acts.map (fun _ => .ok true)
        ∧ s2.1.tree.length = HashReq.lenAfter n₁ (ReplicaReopen.exchanges acts)
        ∧ s2.1.tree.byteLength = Offsets.psum bs (HashReq.lenAfter n₁ (ReplicaReopen.exchanges acts))
        ∧ (∀ i, HashReq.fetched (ReplicaReopen.exchanges acts) i = true → (s2.1.getBlock s2.2 i).result = .ok (some (bs.getD i [])))
        ∧ (∀ i, HashReq.fetched (ReplicaReopen.exchanges acts) i = false → (s2.1.getBlock s2.2 i).result = .ok none) := by
  obtain ⟨c, j, e1, e2, e3, e4, e5, e6⟩ := ReplicaReopen.init_replica C pk hpk
  refine ⟨c, j, e1, ?_⟩
  intro d st1 s2
  have hsz := Growth.size_extract bs n₁ hn
  have hfresh := e4 (bs.extract 0 n₁) ⟨by rw [hsz]; omega, by
    rw [hsz, Growth.psum_extract bs n₁ hn n₁ (Nat.le_refl _)]
    have := Offsets.psum_mono bs hn; omega⟩
  have hver' : C.verify c.publicKey (Growth.signableAt C bs n₁ c.tree.fork) sig = true := by rw [e2, e3]; exact hver
  obtain ⟨r1, r2, r3, r4⟩ := ReplicaReopen.rp_first C hC hT bs hs n₁ h0 hn c d hfresh ⟨_, _, e5, e6 bs⟩ sig hsl hver'
  rw [e3] at r1 r2 r3 r4
  obtain ⟨q1, q2⟩ := ReplicaReopen.playR_rp C hC hT bs pk 0 acts n₁ _ _ _ r2 h0 (by rw [r3, e2]) r4 hok
  refine ⟨r1, q2, q1.rep.closed.sparse.length, q1.rep.bytes, fun i hi => ?_, fun i hi => ?_⟩
  · exact Growth.get_held_at C bs _ _ _ _ q1.rep i (by simp [hi])
  · exact Growth.get_missing_at C bs _ _ _ _ q1.rep i (by simp [hi])

/-- non-vacuity: a run with a restart between two fetches meets the hypotheses -/
example (C : Crypto) (bs : Array Bytes) (pk : Bytes) (h : 2 ≤ bs.size) :
    HashReq.OkActs C bs pk 0 2 (ReplicaReopen.exchanges [.act (.fetch 1), .reopen, .act (.hash 1 0), .reopen, .act (.fetch 0)]) := by
  simp [ReplicaReopen.exchanges, HashReq.OkActs]

/-- the block section of a created proof names the requested block -/
theorem created_block_index (t : Tree) (f : File) (b : Codec.RequestBlock) (hash : Option Codec.RequestBlock) (seek : Option Codec.RequestSeek)
    (upgrade : Option Codec.RequestUpgrade) (vp : ValuelessProof) (h : t.createValuelessProof f (some b) hash seek upgrade = .ok vp) :
    ∃ ns, vp.block = some ⟨b.index, ns⟩ := by
  have key : ∀ frm upto, CreateTotal.staged t f (some b) hash seek upgrade frm upto = .ok vp → ∃ ns, vp.block = some ⟨b.index, ns⟩ := by
    intro frm upto hs
    unfold CreateTotal.staged at hs
    simp only [] at hs
    split at hs
    · cases hs
    · split at hs
      · cases hs
      · split at hs
        · cases hs
        · split at hs
          · cases hs
          · rename_i p _
            unfold CreateTotal.assemble at hs
            simp only [] at hs
            cases hn : p.nodes with
            | none => rw [hn] at hs; simp at hs
            | some ns =>
              rw [hn] at hs
              simp only [] at hs
              split at hs
              · rename_i bb hh uu e1 e2 e3
                cases e1; cases hs; exact ⟨ns, rfl⟩
              · cases hs
              · cases hs
              · cases hs
  rw [CreateTotal.create_eq] at h
  cases upgrade with
  | none => exact key _ _ h
  | some u => exact key _ _ h

/-- **a block that is not held (e.g. cleared by the writer) yields no proof rather than a wrong one**: whatever else the
    request asks for, `create_proof` for a block whose bit is not set answers `None` or an error, never a proof -/
theorem cleared_block_no_proof (c : Core) (d : Disk) (b : Codec.RequestBlock) (hash : Option Codec.RequestBlock) (seek : Option Codec.RequestSeek)
    (upgrade : Option Codec.RequestUpgrade) (hclr : c.bitfield.get b.index = false) (p : Proof) :
    (c.createProof d (some b) hash seek upgrade).result ≠ .ok (some p) := by
  unfold Core.createProof
  cases hv : c.tree.createValuelessProof d.tree (some b) hash seek upgrade with
  | error e => simp
  | ok vp =>
    obtain ⟨ns, hb⟩ := created_block_index c.tree d.tree b hash seek upgrade vp hv
    simp only [hb, Core.getBlock, hclr, Bool.not_false, ite_true]
    simp

/-- … and a proof that *is* created for a block carries exactly what `get` returns for that index (the writer's block,
    by `C01`): the value is not taken from anywhere else -/
theorem created_block_value (c : Core) (d : Disk) (b : Codec.RequestBlock) (hash : Option Codec.RequestBlock) (seek : Option Codec.RequestSeek)
    (upgrade : Option Codec.RequestUpgrade) (p : Proof) (h : (c.createProof d (some b) hash seek upgrade).result = .ok (some p)) :
    ∃ blk, p.block = some blk ∧ blk.index = b.index ∧ (c.getBlock d b.index).result = .ok (some blk.value) := by
  unfold Core.createProof at h
  cases hv : c.tree.createValuelessProof d.tree (some b) hash seek upgrade with
  | error e => rw [hv] at h; simp at h
  | ok vp =>
    obtain ⟨ns, hb⟩ := created_block_index c.tree d.tree b hash seek upgrade vp hv
    rw [hv] at h
    simp only [hb] at h
    cases hg : (c.getBlock d b.index).result with
    | error e => rw [hg] at h; simp at h
    | ok o =>
      cases o with
      | none => rw [hg] at h; simp at h
      | some v =>
        rw [hg] at h
        simp only [] at h
        have := Except.ok.inj h
        have hp := Option.some.inj this
        rw [← hp]
        exact ⟨_, rfl, rfl, rfl⟩

/-- **block + upgrade in one proof (tree level, block below the replica's length).**  For every replica state reached by
    honest replication (`RepRAt`), every block index `i < m` with the node count of the replica's own `missing_nodes`
    query and every upgrade `m → n` of the writer's log: the proof made of the block's bytes, its reference sibling path,
    the honest upgrade nodes and the writer's signature for `n` passes `verify_proof`; the changeset holds the reference
    roots of `n` (`Inv`), is marked upgraded with that signature and is commitable.  (`verify_tree`'s root waits in
    `verify_upgrade`'s queue as its extra node; no upgrade node shares its index — `BlockUpgrade.verifyUpgrade_extra`
    — so it is reported as not consumed and compared with the stored ancestor.)  The byte offset of the block under
    the merged roots and the commit at core level for this shape are covered by the run, as are blocks of the new
    part. -/
theorem honest_block_with_upgrade_accepted (C : Crypto) (hC : TreeStore.HashWF C) (bs : Array Bytes) (m n : Nat) (c : Core) (d : Disk)
    (held : Nat → Bool) (h : Growth.RepRAt C bs m c d held) (hm0 : 0 < m) (hmn : m < n) (hn : n ≤ bs.size) (us : List (Nat × Nat))
    (hup : Growth.Up m 0 (RefTree.rootsStack n).reverse us) (sig : Bytes) (hsl : sig.length = 64)
    (hver : C.verify c.publicKey (Growth.signableAt C bs n c.tree.fork) sig = true) (i : Nat) (hi : i < m) :
    ∃ cs', c.tree.verifyProof C d.tree
        ⟨c.tree.fork, some ⟨i, bs.getD i [], Complete.sibPath C bs 0 i (c.tree.missingNodes d.tree (2 * i))⟩, none, none,
          some ⟨m, n - m, us.map (fun p => RefTree.nodeAt C bs p.1 p.2), [], sig⟩⟩ c.publicKey = .ok cs'
      ∧ Growth.Inv C bs c.tree d.tree cs' n ∧ cs'.upgraded = true ∧ cs'.signature = some sig ∧ cs'.fork = c.tree.fork
      ∧ c.tree.commitable cs' = true :=
  by
    obtain ⟨cs', h1, h2, h3, h4, h5, h6, _⟩ := BlockUpgrade.honest_old_block_upgrade_accepted C hC bs m n c d held h hm0 hmn hn us hup sig hsl hver i hi
    exact ⟨cs', h1, h2, h3, h4, h5, h6⟩

/-- **block + upgrade in one proof, at core level.**  For every replica state that satisfies the invariants, every block
    index `i < m` and every upgrade `m → n`: `verify_and_apply_proof` on the writer's combined answer returns `true`;
    afterwards the replica shows the first `n` blocks of the writer's log with block `i` held — length, byte length,
    the block's bytes (written at the writer's byte offset, which the replica computes under the *merged* roots:
    `BlockUpgrade.offset_in_upgraded`), `has`, contiguous length — and the invariants hold again (so the step can be
    followed by any other exchange, survives a reopen: `replica_reopens`, and is crash-atomic:
    `C02.replica_blockgrow_crash_atomic`). -/
theorem block_with_upgrade_applied (C : Crypto) (hC : TreeStore.HashWF C) (hT : TreeStore.TreeWF C) (bs : Array Bytes) (m n : Nat) (c : Core) (d : Disk)
    (held : Nat → Bool) (h : ReplicaReopen.RP C bs m c d held) (hm0 : 0 < m) (hmn : m < n) (hn : n ≤ bs.size) (us : List (Nat × Nat))
    (hup : Growth.Up m 0 (RefTree.rootsStack n).reverse us) (sig : Bytes) (hsl : sig.length = 64)
    (hver : C.verify c.publicKey (Growth.signableAt C bs n c.tree.fork) sig = true) (i : Nat) (hi : i < m) :
    let st := c.verifyAndApply C d (BlockGrow.honestBlockGrowth C bs c d i m n us sig)
    st.result = .ok true
      ∧ st.core.tree.length = n ∧ st.core.tree.byteLength = Offsets.psum bs n
      ∧ (st.core.getBlock (d.applyAll st.journal) i).result = .ok (some (bs.getD i []))
      ∧ (∀ j, held j = true → (st.core.getBlock (d.applyAll st.journal) j).result = .ok (some (bs.getD j [])))
      ∧ (∀ j, st.core.has j = (held j || j == i))
      ∧ ReplicaReopen.RP C bs n st.core (d.applyAll st.journal) (fun j => held j || j == i) := by
  intro st
  obtain ⟨r1, r2, _, _⟩ := BlockGrow.rp_blockgrow C hC hT bs m n c d held h hm0 hmn hn us hup sig hsl hver i hi
  refine ⟨r1, r2.rep.closed.sparse.length, r2.rep.bytes, ?_, ?_, ?_, r2⟩
  · exact Growth.get_held_at C bs n _ _ _ r2.rep i (by simp)
  · intro j hj
    exact Growth.get_held_at C bs n _ _ _ r2.rep j (by simp [hj])
  · intro j
    simpa [Core.has] using r2.rep.bits j

/-- the combined proof of `block_with_upgrade_applied` is the writer's: a writer whose log is the first `n` blocks answers
    the replica's request "block `i` with my `missing_nodes` count, upgrade me from `m`" with exactly those nodes, and the
    value is the writer's block -/
theorem honest_blockgrowth_is_writers (C : Crypto) (bs : Array Bytes) (n : Nat) (hn : n ≤ bs.size) (hs : bs.size < 2 ^ 64) (tw : Tree) (fw : File)
    (hT : RefProof.RootsOK C (bs.extract 0 n) tw.changeset) (hN : Offsets.NodesOK C (bs.extract 0 n) tw fw)
    (m : Nat) (hm0 : 0 < m) (hmn : m < n) (sig : Bytes) (hsig : tw.signature = some sig)
    (us : List (Nat × Nat)) (hup : Growth.Up m 0 (RefTree.rootsStack n).reverse us)
    (c : Core) (d : Disk) (held : Nat → Bool) (h : Growth.RepRAt C bs m c d held) (hf : c.tree.fork = tw.fork) (i : Nat) (hi : i < m) :
    ∃ nodes up, tw.createValuelessProof fw (some ⟨i, c.tree.missingNodes d.tree (2 * i)⟩) none none (some ⟨m, n - m⟩)
        = .ok ⟨tw.fork, some ⟨i, nodes⟩, none, none, some up⟩
      ∧ BlockGrow.honestBlockGrowth C bs c d i m n us sig = ⟨tw.fork, some ⟨i, bs.getD i [], nodes⟩, none, none, some up⟩ := by
  have hsz := Growth.size_extract bs n hn
  have hM : m < 2 ^ 64 := by omega
  obtain ⟨_, hin⟩ := Complete.missingNodes_spec C bs m c.tree d.tree h.closed.sparse hM i hi
  have := BlockGrowWriter.create_blockgrowth_proof C (bs.extract 0 n) tw fw hT hN (by rw [hsz]; omega) m hm0 (by rw [hsz]; exact hmn) sig hsig us
    (by rw [hsz]; exact hup) i _ hi hin
  rw [hsz] at this
  refine ⟨_, _, this, ?_⟩
  simp only [BlockGrow.honestBlockGrowth, hf]
  rw [Growth.sibPath_extract C bs n hn _ 0 i (by simp only [Nat.zero_add]; omega)]
  congr 3
  apply List.map_congr_left
  intro q hq
  exact (Growth.nodeAt_extract C bs n hn q.1 q.2 (Growth.up_bound m n _ 0 us (Offsets.cover_roots n) hup q hq)).symm

/-- **block of the new part + upgrade in one proof (tree level)** — the usual shape of a download.  For every replica state
    reached by honest replication (`RepRAt` at length `m`), every upgrade `m → n` of the writer's log with its honest
    position list `us`, and every block index `m ≤ i < n`: the block lies under exactly one node `(k, i / 2^k)` of `us`; the
    proof made of the block's bytes, its reference sibling path up to that node, the *other* nodes of `us` and the
    writer's signature for `n` passes `verify_proof` (the block climb recomputes the node, `verify_upgrade` takes it from
    its extra slot exactly when its turn comes and reports it as consumed, so no stored node is compared); the changeset
    holds the reference roots, length and byte length of `n` and the signature, is commitable, records reference nodes
    only, and committing it leaves the replica's tree closed (`ClosedAt`: every stored node below a root has its sibling
    and parent stored).  (The application at core level: `new_block_with_upgrade_applied`.) -/
theorem honest_new_block_with_upgrade_accepted (C : Crypto) (hC : TreeStore.HashWF C) (bs : Array Bytes) (m n : Nat) (c : Core) (d : Disk)
    (held : Nat → Bool) (h : Growth.RepRAt C bs m c d held) (hm0 : 0 < m) (hmn : m < n) (hn : n ≤ bs.size) (us : List (Nat × Nat))
    (hup : Growth.Up m 0 (RefTree.rootsStack n).reverse us) (sig : Bytes) (hsl : sig.length = 64)
    (hver : C.verify c.publicKey (Growth.signableAt C bs n c.tree.fork) sig = true) (i : Nat) (hmi : m ≤ i) (hi : i < n) :
    ∃ (a b : List (Nat × Nat)) (k : Nat) (cs' : Changeset), us = a ++ (k, i / 2 ^ k) :: b ∧ (i / 2 ^ k + 1) * 2 ^ k ≤ n ∧ m ≤ i / 2 ^ k * 2 ^ k
      ∧ c.tree.verifyProof C d.tree
          ⟨c.tree.fork, some ⟨i, bs.getD i [], Complete.sibPath C bs 0 i k⟩, none, none,
            some ⟨m, n - m, (a ++ b).map (fun p => RefTree.nodeAt C bs p.1 p.2), [], sig⟩⟩ c.publicKey = .ok cs'
      ∧ cs'.roots = Growth.rootsAt C bs n ∧ cs'.length = n ∧ cs'.byteLength = Offsets.psum bs n ∧ cs'.upgraded = true
      ∧ cs'.signature = some sig ∧ cs'.fork = c.tree.fork ∧ c.tree.commitable cs' = true
      ∧ (∀ x ∈ cs'.nodes, ∃ dd o, x = RefTree.nodeAt C bs dd o ∧ (o + 1) * 2 ^ dd ≤ n)
      ∧ Growth.ClosedAt C bs n (Growth.vt c.tree cs') d.tree := by
  obtain ⟨a, b, k, cs', h1, h2, h3, h4, h5, h6, h7, h8, h9, h10, h11, h12, h13, _⟩ :=
    BlockNew.honest_new_block_upgrade_accepted C hC bs m n c d held h hm0 hmn hn us hup sig hsl hver i hmi hi
  exact ⟨a, b, k, cs', h1, h2, h3, h4, h5, h6, h7, h8, h9, h10, h11, h12, h13⟩

/-- **a block of the new part + upgrade in one proof, at core level** — the download step.  For every replica state that
    satisfies the invariants (length `m > 0`), every upgrade `m → n` of the writer's log and every block `m ≤ i < n`: the
    block lies under exactly one node `(k, i / 2^k)` of the honest position list (`BlockNew.split_exists`), and for that
    split `verify_and_apply_proof` on the writer's answer to "block `i` and upgrade me to `n`" returns `true`; the block's
    byte offset is computed under the changeset's node list (the block's path, then the upgrade's nodes) and its new roots
    (`BlockNewOffset.offset_new_block`) and is the writer's; one entry carries nodes + upgrade + bitfield update;
    afterwards the replica shows the first `n` blocks of the writer's log with block `i` held, and the invariants hold again
    (so the step reopens, and is crash-atomic: `C02.replica_newblock_crash_atomic`).  With `block_with_upgrade_applied`
    (blocks below `m`) this covers every block + upgrade proof. -/
theorem new_block_with_upgrade_applied (C : Crypto) (hC : TreeStore.HashWF C) (hT : TreeStore.TreeWF C) (bs : Array Bytes) (m n : Nat) (c : Core) (d : Disk)
    (held : Nat → Bool) (h : ReplicaReopen.RP C bs m c d held) (hm0 : 0 < m) (hmn : m < n) (hn : n ≤ bs.size) (us : List (Nat × Nat))
    (hup : Growth.Up m 0 (RefTree.rootsStack n).reverse us) (sig : Bytes) (hsl : sig.length = 64)
    (hver : C.verify c.publicKey (Growth.signableAt C bs n c.tree.fork) sig = true) (i : Nat) (hmi : m ≤ i) (hi : i < n)
    (a b : List (Nat × Nat)) (k : Nat) (hsplit : us = a ++ (k, i / 2 ^ k) :: b) :
    let st := c.verifyAndApply C d (BlockGrowGen.honestNewBlock C bs c.tree.fork i m n a b k sig)
    st.result = .ok true
      ∧ st.core.tree.length = n ∧ st.core.tree.byteLength = Offsets.psum bs n
      ∧ (st.core.getBlock (d.applyAll st.journal) i).result = .ok (some (bs.getD i []))
      ∧ (∀ j, held j = true → (st.core.getBlock (d.applyAll st.journal) j).result = .ok (some (bs.getD j [])))
      ∧ (∀ j, st.core.has j = (held j || j == i))
      ∧ ReplicaReopen.RP C bs n st.core (d.applyAll st.journal) (fun j => held j || j == i) := by
  intro st
  obtain ⟨c1, e, j0, hk⟩ := BlockGrowGen.newblock_ok C hC hT bs m n c d held h hm0 hmn hn us hup sig hsl hver i hmi hi a b k hsplit
  obtain ⟨r1, r2, _, _⟩ := ReplicaReopen.rp_of_ok C bs m n c c1 d held _ _ e j0 h hk
  refine ⟨r1, r2.rep.closed.sparse.length, r2.rep.bytes, ?_, ?_, ?_, r2⟩
  · exact Growth.get_held_at C bs n _ _ _ r2.rep i (by simp)
  · intro j hj
    exact Growth.get_held_at C bs n _ _ _ r2.rep j (by simp [hj])
  · intro j
    simpa [Core.has] using r2.rep.bits j

/-- the next block (`i = m`): the live-download step -/
theorem next_block_with_upgrade_applied (C : Crypto) (hC : TreeStore.HashWF C) (hT : TreeStore.TreeWF C) (bs : Array Bytes) (m n : Nat) (c : Core) (d : Disk)
    (held : Nat → Bool) (h : ReplicaReopen.RP C bs m c d held) (hm0 : 0 < m) (hmn : m < n) (hn : n ≤ bs.size) (us : List (Nat × Nat))
    (hup : Growth.Up m 0 (RefTree.rootsStack n).reverse us) (sig : Bytes) (hsl : sig.length = 64)
    (hver : C.verify c.publicKey (Growth.signableAt C bs n c.tree.fork) sig = true)
    (a b : List (Nat × Nat)) (k : Nat) (hsplit : us = a ++ (k, m / 2 ^ k) :: b) :
    let st := c.verifyAndApply C d (BlockGrowGen.honestNextBlock C bs c.tree.fork m n a b k sig)
    st.result = .ok true
      ∧ st.core.tree.length = n ∧ st.core.tree.byteLength = Offsets.psum bs n
      ∧ (st.core.getBlock (d.applyAll st.journal) m).result = .ok (some (bs.getD m []))
      ∧ (∀ j, held j = true → (st.core.getBlock (d.applyAll st.journal) j).result = .ok (some (bs.getD j [])))
      ∧ (∀ j, st.core.has j = (held j || j == m))
      ∧ ReplicaReopen.RP C bs n st.core (d.applyAll st.journal) (fun j => held j || j == m) :=
  new_block_with_upgrade_applied C hC hT bs m n c d held h hm0 hmn hn us hup sig hsl hver m (Nat.le_refl _) hmn a b k hsplit

/-- non-vacuity of the split: every block of the new part lies under exactly one node of the honest position list -/
example (m n : Nat) (us : List (Nat × Nat)) (hup : Growth.Up m 0 (RefTree.rootsStack n).reverse us) (i : Nat) (hmi : m ≤ i) (hi : i < n) :
    ∃ (a b : List (Nat × Nat)) (k : Nat), us = a ++ (k, i / 2 ^ k) :: b := BlockNew.split_exists m n us hup i hmi hi

/-- non-vacuity of the split -/
example (m n : Nat) (hmn : m < n) (us : List (Nat × Nat)) (hup : Growth.Up m 0 (RefTree.rootsStack n).reverse us) :
    ∃ (a b : List (Nat × Nat)) (k : Nat), us = a ++ (k, m / 2 ^ k) :: b := BlockGrowGen.nextblock_split m n hmn us hup

/-- the proof of `new_block_with_upgrade_applied` is the writer's: a writer whose log is the first `n` blocks answers the request
    "block `i` (`m ≤ i < n`, any node count) and upgrade me from `m`" with exactly `BlockGrowGen.honestNewBlock` — the block with its
    reference sibling path up to the node of the honest position list that holds it, the other nodes of that list, and
    its signature -/
theorem honest_newblock_is_writers (C : Crypto) (bs : Array Bytes) (n : Nat) (hn : n ≤ bs.size) (hs : bs.size < 2 ^ 64) (tw : Tree) (fw : File)
    (hT : RefProof.RootsOK C (bs.extract 0 n) tw.changeset) (hN : Offsets.NodesOK C (bs.extract 0 n) tw fw)
    (m : Nat) (hm0 : 0 < m) (hmn : m < n) (sig : Bytes) (hsig : tw.signature = some sig)
    (us : List (Nat × Nat)) (hup : Growth.Up m 0 (RefTree.rootsStack n).reverse us) (i nn : Nat) (hmi : m ≤ i) (hi : i < n)
    (a b : List (Nat × Nat)) (k : Nat) (hsplit : us = a ++ (k, i / 2 ^ k) :: b) :
    ∃ nodes up, tw.createValuelessProof fw (some ⟨i, nn⟩) none none (some ⟨m, n - m⟩) = .ok ⟨tw.fork, some ⟨i, nodes⟩, none, none, some up⟩
      ∧ BlockGrowGen.honestNewBlock C bs tw.fork i m n a b k sig = ⟨tw.fork, some ⟨i, bs.getD i [], nodes⟩, none, none, some up⟩ := by
  have hsz := Growth.size_extract bs n hn
  have hmem : (k, i / 2 ^ k) ∈ us := by rw [hsplit]; simp
  have hb := Growth.up_bound m n _ 0 us (Offsets.cover_roots n) hup _ hmem
  simp only at hb
  have := NewBlockWriter.create_newblock_proof C (bs.extract 0 n) tw fw hT hN (by rw [hsz]; omega) m hm0 (by rw [hsz]; exact hmn) sig hsig us
    (by rw [hsz]; exact hup) i nn hmi a b k hsplit
  rw [hsz] at this
  refine ⟨_, _, this, ?_⟩
  simp only [BlockGrowGen.honestNewBlock]
  rw [Growth.sibPath_extract C bs n hn _ 0 i (by simp only [Nat.zero_add]; exact hb)]
  congr 3
  apply List.map_congr_left
  intro q hq
  have hq' : q ∈ us := by
    rw [hsplit]
    rcases List.mem_append.mp hq with h | h
    · exact List.mem_append.mpr (Or.inl h)
    · exact List.mem_append.mpr (Or.inr (List.mem_cons_of_mem _ h))
  exact (Growth.nodeAt_extract C bs n hn q.1 q.2 (Growth.up_bound m n _ 0 us (Offsets.cover_roots n) hup q hq')).symm

end HC.C03
