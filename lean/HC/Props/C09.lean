import HC.Proofs.Verify
import HC.Proofs.VerifyTotal
import HC.Proofs.ApplyTotal
import HC.Proofs.PeerSafe
import HC.Props.C05
/-!
# C09 — no request or proof from a peer can panic the node

The model makes the Rust's panic sites explicit (`.error .panic`; a loop that exhausts its fuel is
also a panic: it means non-termination).

* `queue_total`     : `NodeQueue::shift` never panics;
* `climb_total`     : the hashing climb of `verify_tree` terminates without panic for every node list;
* `verify_tree_total_partial` : `verify_tree` returns a root or an error for **every** proof
  (block, hash and seek sections of any shape and length, any indices) — never a panic.

* `verify_upgrade_total`, **`verify_proof_total`** : `verify_upgrade` and the whole of `verify_proof`
  return a changeset or an error for **every** proof, tree state and key — no panic, and no loop runs out
  of fuel: the root loop's iterator index grows every round and stops at `to` (merging in `append_root`
  never moves the right edge of the subtree to the left), the grow loop consumes a queued node per round,
  the descent for additional nodes halves a power-of-two factor per round.

* **`create_valueless_proof_total`, `create_proof_total`** : the sending side.  For every tree whose roots sit
  at the root positions of its length (`RootShape`: true of every state of a writer, `serve_along_history`, of
  every replica reached by honest exchanges, `serve_on_synced_replica`, and of the empty tree), every store
  content and **every request** — any node counts, any seek offset, any upgrade window, block indices below
  2^63 and tree-node indices below 2^65 − 1 (the `u64` domain; the property bounds fields by 2^40) — the answer
  is a proof or an error.  Climbs are entered only when the root contains the start (the guard of the
  repaired tree) and reach it after `depth root − depth start` steps; descents lose one level per round; the
  loop over the full roots at least halves the remaining leaves per round; `nodes_to_root` cannot climb
  beyond depth 64 because above it every ancestor contains the head.
* **`verify_and_apply_total`** : the receiving side at core level — verification, the byte offset of the block
  under the new roots (a walk of the replica's own tree), oplog entry, bitfield, tree commit and flush — returns
  `true`, `false` or an error for **every** proof; the commit's panic site (a truncating commit) is unreachable
  because the changeset `verify_proof` returns keeps `ancestors` and the original length of the tree's own
  changeset (`verify_proof_keeps`).

* **`peer_never_panics`** : the induction is closed on the replica side.  `RootShape` survives
  `verify_and_apply_proof` of **every** proof — refused, failing or accepted (`PeerSafe.shape_step`: an accepted
  upgrade adopts roots whose positions are those of a prefix the writer signed, by `C04.sound_upgrade`) — so after
  *any sequence of arbitrary proofs* the next proof and the next request are again answered without panic.
  Assumptions, all explicit: no collision of the root-list hash, the key verifies only what the writer signed and
  the writer signs only heads of prefixes of its log (`PeerSafe.World`), and lengths are `u64` values (`U64Run`).

`verify_tree_total_partial` keeps its name (the evidence refers to it); it is total.  What the theorems do not
cover: `u64` arithmetic overflow (the model computes in `Nat`; requests with fields ≥ 2^63 do overflow in the
Rust, outside the property's 2^40 bound); it is exercised by the correspondence run (arbitrary request
tuples at boundary values and inside the log, the C04 alteration set, added sections and arbitrary proofs under
`catch_unwind` with a watchdog; the model's outcome class is compared).
-/
namespace HC.C09
open HC HC.Tree HC.Codec HC.Flat

theorem queue_total (q : NodeQueue) (i : Nat) : q.shift i ≠ .error .panic := shift_ne_panic q i

theorem climb_total (C : Crypto) (fuel : Nat) (q : NodeQueue) (it : Iter) (cur : Node) (rn : List Node)
    (hf : q.length < fuel) : climb C fuel q it cur rn ≠ .error .panic := climb_ne_panic C fuel q it cur rn hf

theorem verify_tree_total_partial (C : Crypto) (block : Option DataBlock) (hash : Option DataHash)
    (seek : Option DataSeek) (cs : Changeset) : verifyTree C block hash seek cs ≠ .error .panic :=
  verifyTree_notPanic C block hash seek cs

theorem verify_upgrade_total (C : Crypto) (fork : Nat) (u : DataUpgrade) (blockRoot : Option Node) (pk : Bytes)
    (cs : Changeset) : verifyUpgrade C fork u blockRoot pk cs ≠ .error .panic :=
  verifyUpgrade_notPanic C fork u blockRoot pk cs

theorem verify_proof_total (C : Crypto) (t : Tree) (f : File) (p : Proof) (pk : Bytes) :
    verifyProof C t f p pk ≠ .error .panic := verifyProof_notPanic C t f p pk

/-- the changeset `verify_proof` returns keeps the two numbers the commit's panic site compares -/
theorem verify_proof_keeps (C : Crypto) (t : Tree) (f : File) (p : Proof) (pk : Bytes) (cs : Changeset)
    (h : verifyProof C t f p pk = .ok cs) : cs.ancestors = t.length ∧ cs.origLength = t.length :=
  ApplyTotal.verifyProof_keeps C t f p pk cs h

/-- **the sending side is total at tree level** -/
theorem create_valueless_proof_total (t : Tree) (f : File) (hT : CreateTotal.RootShape t) (block hash : Option RequestBlock)
    (seek : Option RequestSeek) (upgrade : Option RequestUpgrade)
    (hb : ∀ b, block = some b → b.index < 2 ^ 63) (hh : ∀ h, hash = some h → h.index < 2 ^ 65 - 1) :
    t.createValuelessProof f block hash seek upgrade ≠ .error .panic :=
  CreateTotal.create_total t f hT block hash seek upgrade hb hh

/-- **`create_proof` is total** -/
theorem create_proof_total (c : Core) (d : Disk) (hT : CreateTotal.RootShape c.tree) (block hash : Option RequestBlock)
    (seek : Option RequestSeek) (upgrade : Option RequestUpgrade)
    (hb : ∀ b, block = some b → b.index < 2 ^ 63) (hh : ∀ h, hash = some h → h.index < 2 ^ 65 - 1) :
    (c.createProof d block hash seek upgrade).result ≠ .error .panic :=
  ApplyTotal.createProof_total c d hT block hash seek upgrade hb hh

/-- **`verify_and_apply_proof` is total** -/
theorem verify_and_apply_total (C : Crypto) (c : Core) (d : Disk) (hT : CreateTotal.RootShape c.tree) (p : Proof) :
    (c.verifyAndApply C d p).result ≠ .error .panic :=
  ApplyTotal.verifyAndApply_total C c d hT p

section Model
open HC.LogSpec HC.LiveRefine HC.TreeStore HC.Persist HC.C01

/-- along every history of a writer (calls and reopen steps) the core answers every request without panic -/
theorem serve_along_history (C : Crypto) (hC : HashWF C) (hS : SignWF C) (hTw : TreeWF C) (pk sk : Bytes)
    (hpk : pk.length = 32) (hsk : sk.length = 32) (steps : List HStep) (hok : AllOK {} steps)
    (block hash : Option RequestBlock) (seek : Option RequestSeek) (upgrade : Option RequestUpgrade)
    (hb : ∀ b, block = some b → b.index < 2 ^ 63) (hh : ∀ h, hash = some h → h.index < 2 ^ 65 - 1) :
    ∃ c j, Core.openCore C (some (pk, some sk)) {} = .ok (c, j) ∧
      ((runC' C (c, ({} : Disk).applyAll j) steps).1.1.createProof (runC' C (c, ({} : Disk).applyAll j) steps).1.2
          block hash seek upgrade).result ≠ Except.error Fail.panic := by
  obtain ⟨c, j, h1, h2, h3⟩ := init_both C pk sk hpk hsk
  obtain ⟨hrep, _⟩ := C02.history_invariants_reopen C hC hS hTw steps c _ {} _ {} [] h2 h3 hok
  refine ⟨c, j, h1, ?_⟩
  exact create_proof_total _ _ (ApplyTotal.rootShape_of_rootsOK C _ _ hrep.tree hrep.small.1) block hash seek upgrade hb hh

end Model

/-- a replica reached by honest exchanges answers every request and survives every proof without panic -/
theorem serve_on_synced_replica (C : Crypto) (hC : TreeStore.HashWF C) (bs : Array Bytes) (tw : Tree) (fw : File) (pk sig : Bytes)
    (hW : Sync.Writer C bs tw fw pk sig) (fr : File) (tr : Tree) (h : Sync.Reach C bs tw fw pk fr tr) :
    CreateTotal.RootShape tr := by
  obtain ⟨hS, hr, _⟩ := Sync.reach_sparse C hC bs tw fw pk sig hW fr tr h
  apply ApplyTotal.rootShape_of_roots tr bs.size hW.small hS.length
  rw [hr]
  simp [RefTree.roots, List.map_map, Function.comp_def, TreeStore.nodeAt_index]

/-- non-vacuity: the empty tree has the shape -/
example : CreateTotal.RootShape {} := ApplyTotal.rootShape_empty

/-- **a replica stays servable whatever it is sent**: after any sequence of arbitrary proofs, the next proof and
    the next request are answered without panic -/
theorem peer_never_panics (C : Crypto) (bs : Array Bytes) (wfork : Nat) (hnc : ¬ Sound.TreeCollision C) (c : Core) (d : Disk)
    (hW : PeerSafe.World C bs wfork c.publicKey) (hT : CreateTotal.RootShape c.tree) (hf : c.tree.fork < 2 ^ 64)
    (ps : List Proof) (hu : PeerSafe.U64Run C (c, d) ps) (q : Proof)
    (block hash : Option RequestBlock) (seek : Option RequestSeek) (upgrade : Option RequestUpgrade)
    (hb : ∀ b, block = some b → b.index < 2 ^ 63) (hh : ∀ h, hash = some h → h.index < 2 ^ 65 - 1) :
    ((PeerSafe.after C (c, d) ps).1.verifyAndApply C (PeerSafe.after C (c, d) ps).2 q).result ≠ .error .panic
      ∧ ((PeerSafe.after C (c, d) ps).1.createProof (PeerSafe.after C (c, d) ps).2 block hash seek upgrade).result ≠ .error .panic := by
  obtain ⟨h1, _, _⟩ := PeerSafe.shape_after C bs wfork hnc ps c d hW hT hf hu
  exact ⟨verify_and_apply_total C _ _ h1 q, create_proof_total _ _ h1 block hash seek upgrade hb hh⟩

/-- non-vacuity of `World`: a key under which nothing verifies -/
example (C : Crypto) (hv : ∀ pk m s, C.verify pk m s = false) (hl : ∀ x, (C.tree x).length = 32) (pk : Bytes) :
    PeerSafe.World C #[] 0 pk :=
  ⟨⟨fun _ => False, (fun m sig h => by rw [hv] at h; cases h), (fun m h => False.elim h)⟩, hl, by decide, by decide⟩

end HC.C09
