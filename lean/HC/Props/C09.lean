import HC.Proofs.Verify
/-!
# C09 — no request or proof from a peer can panic the node

The model makes the Rust's panic sites explicit (`.error .panic`; a loop that exhausts its fuel is
also a panic: it means non-termination).

* `queue_total`     : `NodeQueue::shift` never panics;
* `climb_total`     : the hashing climb of `verify_tree` terminates without panic for every node list;
* `verify_tree_total_partial` : `verify_tree` returns a root or an error for **every** proof
  (block, hash and seek sections of any shape and length, any indices) — never a panic.

Partial: `verify_upgrade` and the proof-construction side (`create_valueless_proof`) are not proved
total yet; the panic sites there are listed in the table of `HC/Model/Proof.lean` and exercised by
the correspondence run (arbitrary request tuples at boundary values, the C04 alteration set and
arbitrary proofs under `catch_unwind` with a watchdog; the model's outcome class is compared).
-/
namespace HC.C09
open HC HC.Tree HC.Codec HC.Flat

theorem queue_total (q : NodeQueue) (i : Nat) : q.shift i ≠ .error .panic := shift_ne_panic q i

theorem climb_total (C : Crypto) (fuel : Nat) (q : NodeQueue) (it : Iter) (cur : Node) (rn : List Node)
    (hf : q.length < fuel) : climb C fuel q it cur rn ≠ .error .panic := climb_ne_panic C fuel q it cur rn hf

theorem verify_tree_total_partial (C : Crypto) (block : Option DataBlock) (hash : Option DataHash)
    (seek : Option DataSeek) (cs : Changeset) : verifyTree C block hash seek cs ≠ .error .panic :=
  verifyTree_notPanic C block hash seek cs

end HC.C09
