import HC.Proofs.Verify
import HC.Proofs.VerifyTotal
/-!
# C09 — no request or proof from a peer can panic the node

The model makes the Rust's panic sites explicit (`.error .panic`; a loop that exhausts its fuel is
also a panic: it means non-termination).

* `queue_total`     : `NodeQueue::shift` never panics;
* `climb_total`     : the hashing climb of `verify_tree` terminates without panic for every node list;
* `verify_tree_total_partial` : `verify_tree` returns a root or an error for **every** proof
  (block, hash and seek sections of any shape and length, any indices) — never a panic.

* `verify_upgrade_total`, **`verify_proof_total`** : `verify_upgrade` and the whole of `verify_proof`
  return a changeset or an error for **every** proof, tree state and key — no panic, and no loop runs out
  of fuel: the root loop's iterator index grows every round and stops at `to` (merging in `append_root`
  never moves the right edge of the subtree to the left), the grow loop consumes a queued node per round,
  the descent for additional nodes halves a power-of-two factor per round.

Partial (`…_partial` stays on `verify_tree_total_partial` as the name the evidence refers to): the
proof-construction side (`create_valueless_proof`) and the application step after verification
(`byte_offset_in_changeset`, which walks the replica's own tree) are not proved total; their panic sites
are listed in the table of `HC/Model/Proof.lean` and exercised by the correspondence run (arbitrary
request tuples at boundary values, the C04 alteration set, added sections and arbitrary proofs under
`catch_unwind` with a watchdog; the model's outcome class is compared).
-/
namespace HC.C09
open HC HC.Tree HC.Codec HC.Flat

theorem queue_total (q : NodeQueue) (i : Nat) : q.shift i ≠ .error .panic := shift_ne_panic q i

theorem climb_total (C : Crypto) (fuel : Nat) (q : NodeQueue) (it : Iter) (cur : Node) (rn : List Node)
    (hf : q.length < fuel) : climb C fuel q it cur rn ≠ .error .panic := climb_ne_panic C fuel q it cur rn hf

theorem verify_tree_total_partial (C : Crypto) (block : Option DataBlock) (hash : Option DataHash)
    (seek : Option DataSeek) (cs : Changeset) : verifyTree C block hash seek cs ≠ .error .panic :=
  verifyTree_notPanic C block hash seek cs

theorem verify_upgrade_total (C : Crypto) (fork : Nat) (u : DataUpgrade) (blockRoot : Option Node) (pk : Bytes)
    (cs : Changeset) : verifyUpgrade C fork u blockRoot pk cs ≠ .error .panic :=
  verifyUpgrade_notPanic C fork u blockRoot pk cs

theorem verify_proof_total (C : Crypto) (t : Tree) (f : File) (p : Proof) (pk : Bytes) :
    verifyProof C t f p pk ≠ .error .panic := verifyProof_notPanic C t f p pk

end HC.C09
