import HC.Proofs.Rotation
import HC.Proofs.Frame
/-!
# C02 — a crash between any two storage operations recovers to before-or-after state

The commit protocol of the oplog, proved at the level of the reader's rule (abstract headers and
entries; a slot is `none` when `validate_leader` rejects it):

* `reopen_exact`     : whenever the invariant `Inv` holds, a reopen sees exactly the last flushed
  header and exactly the entries written since (before-state of any operation in progress whose
  entry has not been written; after-state once it has — the entry write is the commit point);
* `append_commit`    : appending one complete entry with the current header bit keeps `Inv`;
* `flush_atomic`     : a flush writes the next header slot and then truncates.  In the crash state
  between the two the reader sees the **new** header and **no** entries (the old entries carry the
  previous header bit); after the truncate `Inv` holds again for the new bits;
* `fresh`            : a freshly created log satisfies `Inv`.

So for every interleaving of entry appends and flushes, and every crash point between their storage
operations, the reader recovers (header, entries) = the acknowledged state: by induction, `reachable`.

Partial (`crash_atomic_partial`): the theorem is about the oplog protocol.  That replaying the
recovered entries over partially flushed bitfield/tree/data files is idempotent is validated by the
correspondence run (every journal prefix of every generated history is reopened on the real crate
and on the model), not yet proved.
-/
namespace HC.C02
open HC.Rotation

variable {H E : Type}

theorem reopen_exact {bits : Bits} {h : H} {es : List E} {l : Log H E} (inv : Inv bits h es l) :
    Sees l bits h es := open_of_inv inv

theorem append_commit {bits : Bits} {h : H} {es : List E} {l : Log H E} (inv : Inv bits h es l) (e : E) :
    Inv bits h (es ++ [e]) { l with entries := l.entries ++ [mk bits.cur e] } := append_inv inv e

theorem flush_atomic {bits : Bits} {h h' : H} {es : List E} {l : Log H E} (inv : Inv bits h es l) :
    Sees (l.writeNext bits h') bits.next h' ([] : List E)
      ∧ Inv bits.next h' ([] : List E) { (l.writeNext bits h') with entries := [] } := switch_atomic inv

theorem fresh (h : H) :
    Inv (E := E) (Bits.next ⟨HC.Spec.initialBits.1, HC.Spec.initialBits.2⟩) h []
      (({ s0 := none, s1 := none, entries := [] } : Log H E).writeNext ⟨HC.Spec.initialBits.1, HC.Spec.initialBits.2⟩ h) :=
  fresh_inv h

/-- operations on the log: append an entry, or flush with a new header -/
inductive LogOp (H E : Type)
  | append (e : E)
  | flush (h : H)

/-- the acknowledged state (bits, header, entries) and the file after a sequence of completed operations -/
def run : List (LogOp H E) → (Bits × H × List E × Log H E) → (Bits × H × List E × Log H E)
  | [], s => s
  | .append e :: ops, (b, h, es, l) => run ops (b, h, es ++ [e], { l with entries := l.entries ++ [mk b.cur e] })
  | .flush h' :: ops, (b, _, _, l) => run ops (b.next, h', [], { (l.writeNext b h') with entries := [] })

/-- every reachable log state satisfies the invariant, hence reopens to exactly the acknowledged state -/
theorem reachable (ops : List (LogOp H E)) (b : Bits) (h : H) (es : List E) (l : Log H E) (inv : Inv b h es l) :
    let s := run ops (b, h, es, l)
    Inv s.1 s.2.1 s.2.2.1 s.2.2.2 := by
  induction ops generalizing b h es l with
  | nil => exact inv
  | cons op ops ih =>
    cases op with
    | append e => exact ih _ _ _ _ (append_inv inv e)
    | flush h' => exact ih _ _ _ _ (switch_atomic inv).2

theorem crash_atomic_partial (ops : List (LogOp H E)) (h0 : H) :
    let s := run ops (Bits.next ⟨HC.Spec.initialBits.1, HC.Spec.initialBits.2⟩, h0, [],
      ({ s0 := none, s1 := none, entries := [] } : Log H E).writeNext ⟨HC.Spec.initialBits.1, HC.Spec.initialBits.2⟩ h0)
    Sees s.2.2.2 s.1 s.2.1 s.2.2.1
      ∧ ∀ h', Sees (s.2.2.2.writeNext s.1 h') s.1.next h' ([] : List E) := by
  intro s
  have inv := reachable ops _ h0 [] _ (fresh_inv (E := E) h0)
  exact ⟨open_of_inv inv, fun h' => (switch_atomic inv).1⟩

/-- non-vacuity: two appends, a flush, one more append, on `Nat` headers and entries -/
example : (run [LogOp.append 1, .append 2, .flush 7, .append 3]
    (Bits.next ⟨true, false⟩, 0, [], ({ s0 := none, s1 := none, entries := [] } : Log Nat Nat).writeNext ⟨true, false⟩ 0)).2.2.2.open
    = some (⟨false, true⟩, 7, [3]) := by decide

end HC.C02
