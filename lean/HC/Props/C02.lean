import HC.Proofs.Rotation
import HC.Proofs.Frame
import HC.Proofs.Crash
import HC.Props.C01
import HC.Proofs.ReplicaCrash
/-!
# C02 — a crash between any two storage operations recovers to before-or-after state

The commit protocol of the oplog, proved at the level of the reader's rule (abstract headers and
entries; a slot is `none` when `validate_leader` rejects it):

* `reopen_exact`     : whenever the invariant `Inv` holds, a reopen sees exactly the last flushed
  header and exactly the entries written since (before-state of any operation in progress whose
  entry has not been written; after-state once it has — the entry write is the commit point);
* `append_commit`    : appending one complete entry with the current header bit keeps `Inv`;
* `flush_atomic`     : a flush writes the next header slot and then truncates.  In the crash state
  between the two the reader sees the **new** header and **no** entries (the old entries carry the
  previous header bit); after the truncate `Inv` holds again for the new bits;
* `fresh`            : a freshly created log satisfies `Inv`.

So for every interleaving of entry appends and flushes, and every crash point between their storage
operations, the reader recovers (header, entries) = the acknowledged state: by induction, `reachable`.

**`crash_atomic`** (the property itself, on the model of the crate): take any history of API calls and
close-and-reopen steps of a freshly created core, any further call `op` (append_batch or clear of any
arguments within the format limits, make_read_only, or a read), and **any number `k` of its storage operations** — the
stores as they are if the process dies after exactly those `k` operations (`LogSpec.crashDisk`).  Then
`Hypercore::new` on these stores succeeds, and the recovered core satisfies the representation invariant
`Rep` for the abstract log *before* `op` or for the abstract log *after* `op`: length, byte length, every
`has`, every `get` (block bytes), the contiguous length (exactly the first missing index) and writability
are those of one of the two logs, and nothing else.  The crash points inside a flush are covered: some
bitfield pages already hold the newer state while the header still carries the older contiguous-length
hint (`Reopen.RInv` tolerates a bitfield store that is ahead of the header, and the hint is shown to come
out exact), some tree nodes are already in their slots, the new header is written but the stale entries
are not yet truncated (`OplogBytes.opinv_flush_mid`).
**`crash_then_continue`**: the recovered core stays usable — every further sequence of calls on it yields
the observations of the abstract log it recovered to.  **`acknowledged_stays`**: once all storage
operations of a call are done (the call is acknowledged), the recovered log is the one after the call.

**`crash_refinement`** (the strongest form): histories in which calls complete, the store is closed and
reopened, or the process dies after any number of storage operations of a call and the store is reopened —
any number of times, in any order (`LogSpec.XStep`, `runX`).  Every reopen succeeds and the whole
observation sequence is one the abstract log produces when each crash leaves the log before the
interrupted call or the log after it (`LogSpec.AbsX`).  Recovery re-establishes the ghost invariant
(`Crash.recover_persist`); this rests on `Oplog::open` cutting off what follows the entries it read (the
stale entries of a flush that was cut between its header write and its truncate) — the repair `a6a0579` of
a defect these crash histories exposed in the pinned tree.

`make_read_only` is one of the calls (`Op.makeReadOnly`): cut anywhere, it leaves the writable log (until its
first header write reaches the store) or the same log read-only (`Crash.crash_ro`).

Not covered by these theorems: proof applications on a replica (validated by the run); torn writes are C07.
-/
namespace HC.C02
open HC.Rotation

variable {H E : Type}

theorem reopen_exact {bits : Bits} {h : H} {es : List E} {l : Log H E} (inv : Inv bits h es l) :
    Sees l bits h es := open_of_inv inv

theorem append_commit {bits : Bits} {h : H} {es : List E} {l : Log H E} (inv : Inv bits h es l) (e : E) :
    Inv bits h (es ++ [e]) { l with entries := l.entries ++ [mk bits.cur e] } := append_inv inv e

theorem flush_atomic {bits : Bits} {h h' : H} {es : List E} {l : Log H E} (inv : Inv bits h es l) :
    Sees (l.writeNext bits h') bits.next h' ([] : List E)
      ∧ Inv bits.next h' ([] : List E) { (l.writeNext bits h') with entries := [] } := switch_atomic inv

theorem fresh (h : H) :
    Inv (E := E) (Bits.next ⟨HC.Spec.initialBits.1, HC.Spec.initialBits.2⟩) h []
      (({ s0 := none, s1 := none, entries := [] } : Log H E).writeNext ⟨HC.Spec.initialBits.1, HC.Spec.initialBits.2⟩ h) :=
  fresh_inv h

/-- operations on the log: append an entry, or flush with a new header -/
inductive LogOp (H E : Type)
  | append (e : E)
  | flush (h : H)

/-- the acknowledged state (bits, header, entries) and the file after a sequence of completed operations -/
def run : List (LogOp H E) → (Bits × H × List E × Log H E) → (Bits × H × List E × Log H E)
  | [], s => s
  | .append e :: ops, (b, h, es, l) => run ops (b, h, es ++ [e], { l with entries := l.entries ++ [mk b.cur e] })
  | .flush h' :: ops, (b, _, _, l) => run ops (b.next, h', [], { (l.writeNext b h') with entries := [] })

/-- every reachable log state satisfies the invariant, hence reopens to exactly the acknowledged state -/
theorem reachable (ops : List (LogOp H E)) (b : Bits) (h : H) (es : List E) (l : Log H E) (inv : Inv b h es l) :
    let s := run ops (b, h, es, l)
    Inv s.1 s.2.1 s.2.2.1 s.2.2.2 := by
  induction ops generalizing b h es l with
  | nil => exact inv
  | cons op ops ih =>
    cases op with
    | append e => exact ih _ _ _ _ (append_inv inv e)
    | flush h' => exact ih _ _ _ _ (switch_atomic inv).2

theorem crash_atomic_partial (ops : List (LogOp H E)) (h0 : H) :
    let s := run ops (Bits.next ⟨HC.Spec.initialBits.1, HC.Spec.initialBits.2⟩, h0, [],
      ({ s0 := none, s1 := none, entries := [] } : Log H E).writeNext ⟨HC.Spec.initialBits.1, HC.Spec.initialBits.2⟩ h0)
    Sees s.2.2.2 s.1 s.2.1 s.2.2.1
      ∧ ∀ h', Sees (s.2.2.2.writeNext s.1 h') s.1.next h' ([] : List E) := by
  intro s
  have inv := reachable ops _ h0 [] _ (fresh_inv (E := E) h0)
  exact ⟨open_of_inv inv, fun h' => (switch_atomic inv).1⟩

/-- non-vacuity: two appends, a flush, one more append, on `Nat` headers and entries -/
example : (run [LogOp.append 1, .append 2, .flush 7, .append 3]
    (Bits.next ⟨true, false⟩, 0, [], ({ s0 := none, s1 := none, entries := [] } : Log Nat Nat).writeNext ⟨true, false⟩ 0)).2.2.2.open
    = some (⟨false, true⟩, 7, [3]) := by decide

/-! ### the crate's model: every crash point of every call -/

section Model
open HC HC.LogSpec HC.LiveRefine HC.TreeStore HC.Persist HC.Crash HC.C01 HC.Oplog

/-- `Rep` and the ghost invariant along a history with close-and-reopen steps -/
theorem history_invariants_reopen (C : Crypto) (hC : HashWF C) (hS : SignWF C) (hTw : TreeWF C) (steps : List HStep) :
    ∀ (c : Core) (d : Disk) (a : Abs) (hf : Header) (a0 : Abs) (es : List Entry), Rep C c d a →
      Persist C c d hf a0 es a → AllOK a steps →
      Rep C (runC' C (c, d) steps).1.1 (runC' C (c, d) steps).1.2 (runA' a steps).1
        ∧ ∃ hf' a0' es', Persist C (runC' C (c, d) steps).1.1 (runC' C (c, d) steps).1.2 hf' a0' es' (runA' a steps).1 := by
  induction steps with
  | nil => intro c d a hf a0 es h hp _; exact ⟨h, hf, a0, es, hp⟩
  | cons st rest ih =>
    intro c d a hf a0 es h hp hok
    cases st with
    | call op =>
      obtain ⟨_, h2⟩ := step_refines C hC c d a h op hok.1
      obtain ⟨hf', a0', es', hp2⟩ := persist_step C hC hS hTw c d hf a0 a es h hp op hok.1 hok.2.1
      exact ih _ _ _ hf' a0' es' h2 hp2 hok.2.2
    | reopen =>
      obtain ⟨c', hopen, hrep', hp'⟩ := reopen_persist C hC hTw c d hf a0 a es h hp
      have := ih c' d a hf a0 es hrep' hp' hok
      simpa only [runC', runA', stepC', Abs.step', hopen, LiveRefine.applyAll_nil] using this

/-- **C02.**  Any history, any call, any crash point inside it: reopening succeeds and the recovered core
    represents the log before the call or the log after it. -/
theorem crash_atomic (C : Crypto) (hC : HashWF C) (hS : SignWF C) (hTw : TreeWF C) (pk sk : Bytes)
    (hpk : pk.length = 32) (hsk : sk.length = 32) (steps : List HStep) (hok : AllOK {} steps) (op : Op)
    (hv : Valid (runA' {} steps).1 op) (hl : Limits (runA' {} steps).1 op) (k : Nat) :
    ∃ c j, Core.openCore C (some (pk, some sk)) {} = .ok (c, j) ∧
      ∃ c' jo, Core.openCore C none (crashDisk C (runC' C (c, ({} : Disk).applyAll j) steps).1 op k) = .ok (c', jo)
        ∧ (Rep C c' ((crashDisk C (runC' C (c, ({} : Disk).applyAll j) steps).1 op k).applyAll jo) (runA' {} steps).1
          ∨ Rep C c' ((crashDisk C (runC' C (c, ({} : Disk).applyAll j) steps).1 op k).applyAll jo) ((runA' {} steps).1.step op).1) := by
  obtain ⟨c, j, h1, h2, h3⟩ := init_both C pk sk hpk hsk
  obtain ⟨hrep, hf, a0, es, hp⟩ := history_invariants_reopen C hC hS hTw steps c _ {} _ {} [] h2 h3 hok
  refine ⟨c, j, h1, ?_⟩
  rcases crash_step C hC hS hTw _ _ hf a0 _ es hrep hp op hv hl k with ⟨hf', a0', es', hd⟩ | ⟨hf', a0', es', hd⟩
  · obtain ⟨c', jo, ho, hr⟩ := durable_open C hC hTw _ hf' a0' es' _ hd.toDurable0
    exact ⟨c', jo, ho, Or.inl hr⟩
  · obtain ⟨c', jo, ho, hr⟩ := durable_open C hC hTw _ hf' a0' es' _ hd.toDurable0
    exact ⟨c', jo, ho, Or.inr hr⟩

/-- the recovered core stays usable: every further sequence of calls behaves like the abstract log it
    recovered to (the one before the interrupted call, or the one after it) -/
theorem crash_then_continue (C : Crypto) (hC : HashWF C) (hS : SignWF C) (hTw : TreeWF C) (pk sk : Bytes)
    (hpk : pk.length = 32) (hsk : sk.length = 32) (steps : List HStep) (hok : AllOK {} steps) (op : Op)
    (hv : Valid (runA' {} steps).1 op) (hl : Limits (runA' {} steps).1 op) (k : Nat) (more : List Op) :
    ∃ c j, Core.openCore C (some (pk, some sk)) {} = .ok (c, j) ∧
      ∃ c' jo, Core.openCore C none (crashDisk C (runC' C (c, ({} : Disk).applyAll j) steps).1 op k) = .ok (c', jo)
        ∧ ((AllValid (runA' {} steps).1 more →
              (runC C (c', (crashDisk C (runC' C (c, ({} : Disk).applyAll j) steps).1 op k).applyAll jo) more).2 = (runA (runA' {} steps).1 more).2)
          ∨ (AllValid ((runA' {} steps).1.step op).1 more →
              (runC C (c', (crashDisk C (runC' C (c, ({} : Disk).applyAll j) steps).1 op k).applyAll jo) more).2
                = (runA ((runA' {} steps).1.step op).1 more).2)) := by
  obtain ⟨c, j, h1, c', jo, h2, h3⟩ := crash_atomic C hC hS hTw pk sk hpk hsk steps hok op hv hl k
  refine ⟨c, j, h1, c', jo, h2, ?_⟩
  rcases h3 with h3 | h3
  · exact Or.inl fun hvm => (live_refinement C hC more c' _ _ h3 hvm).1
  · exact Or.inr fun hvm => (live_refinement C hC more c' _ _ h3 hvm).1

/-- once every storage operation of the call is done, the recovered log is the one after the call -/
theorem acknowledged_stays (C : Crypto) (hC : HashWF C) (hS : SignWF C) (hTw : TreeWF C) (pk sk : Bytes)
    (hpk : pk.length = 32) (hsk : sk.length = 32) (steps : List HStep) (hok : AllOK {} steps) (op : Op)
    (hv : Valid (runA' {} steps).1 op) (hl : Limits (runA' {} steps).1 op) (k : Nat) :
    ∃ c j, Core.openCore C (some (pk, some sk)) {} = .ok (c, j) ∧
      ((journalC C (runC' C (c, ({} : Disk).applyAll j) steps).1 op).length ≤ k →
        ∃ c', Core.openCore C none (crashDisk C (runC' C (c, ({} : Disk).applyAll j) steps).1 op k) = .ok (c', [])
          ∧ Rep C c' (crashDisk C (runC' C (c, ({} : Disk).applyAll j) steps).1 op k) ((runA' {} steps).1.step op).1) := by
  obtain ⟨c, j, h1, h2, h3⟩ := init_both C pk sk hpk hsk
  obtain ⟨hrep, hf, a0, es, hp⟩ := history_invariants_reopen C hC hS hTw steps c _ {} _ {} [] h2 h3 hok
  refine ⟨c, j, h1, fun hk => ?_⟩
  generalize hs : (runC' C (c, ({} : Disk).applyAll j) steps).1 = s at *
  obtain ⟨sc, sd⟩ := s
  have hdisk : crashDisk C (sc, sd) op k = (stepC C (sc, sd) op).1.2 := by
    unfold crashDisk
    rw [List.take_of_length_le hk]
    cases op <;> rfl
  obtain ⟨_, hrep2⟩ := step_refines C hC sc sd _ hrep op hv
  obtain ⟨hf', a0', es', hp2⟩ := persist_step C hC hS hTw sc sd hf a0 _ es hrep hp op hv hl
  obtain ⟨c', hopen, hrep', _⟩ := reopen_persist C hC hTw _ _ hf' a0' _ es' hrep2 hp2
  rw [hdisk]
  exact ⟨c', hopen, hrep'⟩

/-- every call of a history with crashes is within the quantifier, whichever way the crashes before it
    were resolved -/
def XOK (a : Abs) : List XStep → Prop
  | [] => True
  | .call op :: rest => Valid a op ∧ Limits a op ∧ XOK (a.step op).1 rest
  | .reopen :: rest => XOK a rest
  | .crash op _ :: rest => Valid a op ∧ Limits a op ∧ XOK a rest ∧ XOK (a.step op).1 rest

/-- **C02 in full for a writer, on the model.**  Histories in which calls complete, the store is closed and
    reopened, or the process dies after any number of storage operations of a call and the store is
    reopened — any number of times, in any order: every reopen succeeds, and the observations are those of
    the abstract log in which each crash leaves the log before the interrupted call or the log after it. -/
theorem crash_refinement_from (C : Crypto) (hC : HashWF C) (hS : SignWF C) (hTw : TreeWF C) (steps : List XStep) :
    ∀ (c : Core) (d : Disk) (a : Abs) (hf : Header) (a0 : Abs) (es : List Entry), Rep C c d a →
      Persist C c d hf a0 es a → XOK a steps → AbsX a steps (runX C (c, d) steps).2 := by
  induction steps with
  | nil => intro c d a hf a0 es _ _ _; exact AbsX.nil a
  | cons st rest ih =>
    intro c d a hf a0 es h hp hok
    cases st with
    | call op =>
      obtain ⟨h1, h2⟩ := step_refines C hC c d a h op hok.1
      obtain ⟨hf', a0', es', hp2⟩ := persist_step C hC hS hTw c d hf a0 a es h hp op hok.1 hok.2.1
      have := ih _ _ _ hf' a0' es' h2 hp2 hok.2.2
      simp only [runX, stepX]
      rw [h1]
      exact AbsX.call a op rest _ this
    | reopen =>
      obtain ⟨c', hopen, hrep', hp'⟩ := reopen_persist C hC hTw c d hf a0 a es h hp
      have := ih c' d a hf a0 es hrep' hp' hok
      simp only [runX, stepX, stepC', hopen, LiveRefine.applyAll_nil]
      exact AbsX.reopen a rest _ this
    | crash op k =>
      obtain ⟨hv, hl, hok1, hok2⟩ := hok
      rcases crash_step C hC hS hTw c d hf a0 a es h hp op hv hl k with ⟨hf', a0', es', hd⟩ | ⟨hf', a0', es', hd⟩
      · obtain ⟨c', j, hopen, hrep', hp'⟩ := recover_persist C hC hTw _ hf' a0' es' _ hd
        have := ih c' _ a hf' a0' es' hrep' hp' hok1
        simp only [runX, stepX, hopen]
        exact AbsX.crashBefore a op k rest _ this
      · obtain ⟨c', j, hopen, hrep', hp'⟩ := recover_persist C hC hTw _ hf' a0' es' _ hd
        have := ih c' _ _ hf' a0' es' hrep' hp' hok2
        simp only [runX, stepX, hopen]
        exact AbsX.crashAfter a op k rest _ this

/-- … in particular from a freshly created core (32-byte key and seed) -/
theorem crash_refinement (C : Crypto) (hC : HashWF C) (hS : SignWF C) (hTw : TreeWF C) (pk sk : Bytes)
    (hpk : pk.length = 32) (hsk : sk.length = 32) (steps : List XStep) (hok : XOK {} steps) :
    ∃ c j, Core.openCore C (some (pk, some sk)) {} = .ok (c, j) ∧ AbsX {} steps (runX C (c, ({} : Disk).applyAll j) steps).2 := by
  obtain ⟨c, j, h1, h2, h3⟩ := init_both C pk sk hpk hsk
  exact ⟨c, j, h1, crash_refinement_from C hC hS hTw steps c _ {} _ {} [] h2 h3 hok⟩

/-- non-vacuity: two crashes in a row, then further calls, are within the quantifier -/
example : XOK {} [.call (.append [[1, 2], []]), .crash (.append [[3]]) 5, .crash (.clear 0 1) 1, .reopen, .call (.get 0), .call .info] := by
  simp [XOK, Valid, Limits, Abs.step, totalBytes]

/-- non-vacuity: a call after a history with a reopen is within the quantifier, and its journal has crash
    points (an append issues a data write and an oplog write before anything else) -/
example : AllOK {} [.call (.append [[1, 2], []]), .reopen, .call (.clear 0 1)] ∧ Valid (runA' {} [.call (.append [[1, 2], []]), .reopen, .call (.clear 0 1)]).1 (.append [[3]])
    ∧ Limits (runA' {} [.call (.append [[1, 2], []]), .reopen, .call (.clear 0 1)]).1 (.append [[3]]) := by
  simp [AllOK, Valid, Limits, Abs.step, Abs.step', runA', totalBytes]

end Model

/-! ### proof applications on a replica -/

/-- what a replica of the first `m` blocks of the writer's log `bs` that holds `held` shows: its length and byte
    length are the writer's at `m`, every held block reads back byte-identical to the writer's block, every other index
    reads as not held, `has` is `held` and the contiguous-length hint is the first index not held -/
def Shows (bs : Array Bytes) (m : Nat) (held : Nat → Bool) (c : Core) (d : Disk) : Prop :=
  c.tree.length = m ∧ c.tree.byteLength = Offsets.psum bs m
    ∧ (∀ i, held i = true → (c.getBlock d i).result = .ok (some (bs.getD i [])))
    ∧ (∀ i, held i = false → (c.getBlock d i).result = .ok none)
    ∧ (∀ i, c.has i = held i) ∧ Core.FirstMissing c.bitfield c.info.contiguous

theorem shows_of_rp (C : Crypto) (bs : Array Bytes) (m : Nat) (c : Core) (d : Disk) (held : Nat → Bool)
    (h : ReplicaReopen.RP C bs m c d held) : Shows bs m held c d :=
  ⟨h.rep.closed.sparse.length, h.rep.bytes, fun i hi => Growth.get_held_at C bs m c d held h.rep i hi,
    fun i hi => Growth.get_missing_at C bs m c d held h.rep i hi, fun i => by simpa [Core.has] using h.rep.bits i, h.rep.contig⟩

/-- **a replica that dies in the middle of a proof application recovers to before-or-after.**  For every replica state
    that satisfies the invariants (every state reached from creation by honest exchanges, reopens and earlier crashes:
    `replica_survives_crashes`), every honest act — the writer's answer to an upgrade, block or hash request — and
    **every prefix of the storage operations** its application issues (the block's data write, the oplog entry, and
    when the periodic flush is due the dirty bitfield pages, the unflushed tree nodes, the header, the truncation):
    `Hypercore::new` on the stores succeeds and shows the replica exactly as it was before the application or exactly
    as the completed application leaves it — and the invariants hold again, so it is fully usable. -/
theorem replica_crash_atomic (C : Crypto) (hC : TreeStore.HashWF C) (hT : TreeStore.TreeWF C) (bs : Array Bytes) (m : Nat) (c : Core) (d : Disk)
    (held : Nat → Bool) (h : ReplicaReopen.RP C bs m c d held) (hm0 : 0 < m) (a : HashReq.Act)
    (hok : HashReq.OkActs C bs c.publicKey c.tree.fork m [a]) (k : Nat) :
    let st := c.verifyAndApply C d (HashReq.actProof C bs c d a)
    let dk := d.applyAll (st.journal.take k)
    ∃ c' j, Core.openCore C none dk = .ok (c', j) ∧ c'.publicKey = c.publicKey ∧ c'.tree.fork = c.tree.fork
      ∧ ((Shows bs m held c' (dk.applyAll j) ∧ ReplicaReopen.RP C bs m c' (dk.applyAll j) held)
        ∨ (Shows bs (HashReq.lenAfter m [a]) (fun i => held i || HashReq.fetched [a] i) c' (dk.applyAll j)
            ∧ ReplicaReopen.RP C bs (HashReq.lenAfter m [a]) c' (dk.applyAll j) (fun i => held i || HashReq.fetched [a] i))) := by
  intro st dk
  obtain ⟨c1, e, j0, hk⟩ := ReplicaCrash.act_ok C hC hT bs m c d held h hm0 a hok
  obtain ⟨c', j, r1, r2, r3, r4⟩ := ReplicaCrash.crash_recover C bs m _ c c1 d held _ _ e j0 h hk k
  refine ⟨c', j, r1, r2, r3, ?_⟩
  rcases r4 with r4 | r4
  · exact Or.inl ⟨shows_of_rp C bs m c' _ held r4, r4⟩
  · exact Or.inr ⟨shows_of_rp C bs _ c' _ _ r4, r4⟩

/-- the same for first contact: the application of the writer's answer to "upgrade from 0" on a replica of length 0, cut
    after any number of storage operations, leaves the fresh replica or the replica at length `n` -/
theorem replica_first_crash_atomic (C : Crypto) (hC : TreeStore.HashWF C) (hT : TreeStore.TreeWF C) (bs : Array Bytes) (c : Core) (d : Disk)
    (held : Nat → Bool) (h : ReplicaReopen.RP C bs 0 c d held) (n : Nat) (h0 : 0 < n) (hn : n ≤ bs.size) (sig : Bytes) (hsl : sig.length = 64)
    (hver : C.verify c.publicKey (Growth.signableAt C bs n c.tree.fork) sig = true) (k : Nat) :
    let st := c.verifyAndApply C d (Growth.honestFirst C bs c.tree.fork n sig)
    let dk := d.applyAll (st.journal.take k)
    ∃ c' j, Core.openCore C none dk = .ok (c', j) ∧ c'.publicKey = c.publicKey ∧ c'.tree.fork = c.tree.fork
      ∧ ((Shows bs 0 (fun _ => false) c' (dk.applyAll j) ∧ ReplicaReopen.RP C bs 0 c' (dk.applyAll j) (fun _ => false))
        ∨ (Shows bs n (fun _ => false) c' (dk.applyAll j) ∧ ReplicaReopen.RP C bs n c' (dk.applyAll j) (fun _ => false))) := by
  intro st dk
  obtain ⟨rfl, c1, e, j0, hk⟩ := ReplicaCrash.first_ok0 C hC hT bs c d held h n h0 hn sig hsl hver
  obtain ⟨c', j, r1, r2, r3, r4⟩ := ReplicaCrash.crash_recover C bs 0 n c c1 d _ _ _ e j0 h hk k
  refine ⟨c', j, r1, r2, r3, ?_⟩
  rcases r4 with r4 | r4
  · exact Or.inl ⟨shows_of_rp C bs 0 c' _ _ r4, r4⟩
  · exact Or.inr ⟨shows_of_rp C bs n c' _ _ r4, r4⟩

/-- the same for **a block and an upgrade in one proof** (block `i < m`, upgrade `m → n`): the application writes the
    block's bytes, then one oplog entry that carries the nodes, the upgrade and the bitfield update; cut after any number
    of storage operations it leaves the replica of length `m` without the block or the replica of length `n` with it —
    never the upgrade without the block or the block without the upgrade -/
theorem replica_blockgrow_crash_atomic (C : Crypto) (hC : TreeStore.HashWF C) (hT : TreeStore.TreeWF C) (bs : Array Bytes) (m n : Nat) (c : Core) (d : Disk)
    (held : Nat → Bool) (h : ReplicaReopen.RP C bs m c d held) (hm0 : 0 < m) (hmn : m < n) (hn : n ≤ bs.size) (us : List (Nat × Nat))
    (hup : Growth.Up m 0 (RefTree.rootsStack n).reverse us) (sig : Bytes) (hsl : sig.length = 64)
    (hver : C.verify c.publicKey (Growth.signableAt C bs n c.tree.fork) sig = true) (i : Nat) (hi : i < m) (k : Nat) :
    let st := c.verifyAndApply C d (BlockGrow.honestBlockGrowth C bs c d i m n us sig)
    let dk := d.applyAll (st.journal.take k)
    ∃ c' j, Core.openCore C none dk = .ok (c', j) ∧ c'.publicKey = c.publicKey ∧ c'.tree.fork = c.tree.fork
      ∧ ((Shows bs m held c' (dk.applyAll j) ∧ ReplicaReopen.RP C bs m c' (dk.applyAll j) held)
        ∨ (Shows bs n (fun j => held j || j == i) c' (dk.applyAll j) ∧ ReplicaReopen.RP C bs n c' (dk.applyAll j) (fun j => held j || j == i))) := by
  intro st dk
  obtain ⟨c1, e, j0, hk⟩ := BlockGrow.blockgrow_ok C hC hT bs m n c d held h hm0 hmn hn us hup sig hsl hver i hi
  obtain ⟨c', j, r1, r2, r3, r4⟩ := ReplicaCrash.crash_recover C bs m n c c1 d held _ _ e j0 h hk k
  refine ⟨c', j, r1, r2, r3, ?_⟩
  rcases r4 with r4 | r4
  · exact Or.inl ⟨shows_of_rp C bs m c' _ held r4, r4⟩
  · exact Or.inr ⟨shows_of_rp C bs n c' _ _ r4, r4⟩

/-- the same for **a block of the new part and an upgrade in one proof** (block `m ≤ i < n` on a replica of length `m`, upgrade
    `m → n` — the download step): cut after any number of storage operations it leaves the replica of length `m` without
    the block or the replica of length `n` with it -/
theorem replica_newblock_crash_atomic (C : Crypto) (hC : TreeStore.HashWF C) (hT : TreeStore.TreeWF C) (bs : Array Bytes) (m n : Nat) (c : Core) (d : Disk)
    (held : Nat → Bool) (h : ReplicaReopen.RP C bs m c d held) (hm0 : 0 < m) (hmn : m < n) (hn : n ≤ bs.size) (us : List (Nat × Nat))
    (hup : Growth.Up m 0 (RefTree.rootsStack n).reverse us) (sig : Bytes) (hsl : sig.length = 64)
    (hver : C.verify c.publicKey (Growth.signableAt C bs n c.tree.fork) sig = true) (i : Nat) (hmi : m ≤ i) (hi : i < n)
    (a b : List (Nat × Nat)) (k : Nat) (hsplit : us = a ++ (k, i / 2 ^ k) :: b) (kk : Nat) :
    let st := c.verifyAndApply C d (BlockGrowGen.honestNewBlock C bs c.tree.fork i m n a b k sig)
    let dk := d.applyAll (st.journal.take kk)
    ∃ c' j, Core.openCore C none dk = .ok (c', j) ∧ c'.publicKey = c.publicKey ∧ c'.tree.fork = c.tree.fork
      ∧ ((Shows bs m held c' (dk.applyAll j) ∧ ReplicaReopen.RP C bs m c' (dk.applyAll j) held)
        ∨ (Shows bs n (fun j => held j || j == i) c' (dk.applyAll j) ∧ ReplicaReopen.RP C bs n c' (dk.applyAll j) (fun j => held j || j == i))) := by
  intro st dk
  obtain ⟨c1, e, j0, hk⟩ := BlockGrowGen.newblock_ok C hC hT bs m n c d held h hm0 hmn hn us hup sig hsl hver i hmi hi a b k hsplit
  obtain ⟨c', j, r1, r2, r3, r4⟩ := ReplicaCrash.crash_recover C bs m n c c1 d held _ _ e j0 h hk kk
  refine ⟨c', j, r1, r2, r3, ?_⟩
  rcases r4 with r4 | r4
  · exact Or.inl ⟨shows_of_rp C bs m c' _ held r4, r4⟩
  · exact Or.inr ⟨shows_of_rp C bs n c' _ _ r4, r4⟩

/-- **replicas survive any number of crashes.**  From a replica created with `Hypercore::new` over empty stores and
    the writer's public key: every state reached by first contact, honest exchanges (upgrade, block, hash, block + upgrade in one proof — the block below the replica's length or in the new part;
    with
    the request computed from the replica's current length), close/reopen steps and crashes at any storage operation of any of these applications
    followed by a reopen (`ReplicaCrash.Reach`) shows a prefix of the writer's log — its length and byte length,
    every held block byte-identical, `has` and the contiguous length exact — and satisfies the invariants, so
    `replica_crash_atomic` / `replica_first_crash_atomic` apply again: the next crash is recoverable, without bound. -/
theorem replica_survives_crashes (C : Crypto) (hC : TreeStore.HashWF C) (hT : TreeStore.TreeWF C) (bs : Array Bytes)
    (hs : bs.size < 2 ^ 62 ∧ Offsets.psum bs bs.size < 2 ^ 64) (pk : Bytes) (hpk : pk.length = 32) :
    ∃ c j, Core.openCore C (some (pk, none)) {} = .ok (c, j) ∧ ReplicaCrash.Reach C bs pk 0 (c, ({} : Disk).applyAll j)
      ∧ ∀ s, ReplicaCrash.Reach C bs pk 0 s →
          ∃ m held, m ≤ bs.size ∧ Shows bs m held s.1 s.2 ∧ ReplicaReopen.RP C bs m s.1 s.2 held ∧ s.1.publicKey = pk ∧ s.1.tree.fork = 0 := by
  obtain ⟨c, j, e1, e2, e3, e4, e5, e6⟩ := ReplicaReopen.init_replica C pk hpk
  have hs64 : bs.size < 2 ^ 64 ∧ Offsets.psum bs bs.size < 2 ^ 64 := ⟨by omega, hs.2⟩
  have hrp0 : ReplicaReopen.RP C bs 0 c (({} : Disk).applyAll j) (fun _ => false) :=
    ⟨ReplicaReopen.reprAt0_of_fresh C bs bs hs64 c _ (e4 bs hs64), ⟨_, _, e5, e6 bs⟩, hs.1⟩
  refine ⟨c, j, e1, ReplicaCrash.Reach.start _ _ 0 _ hrp0 e2 e3, fun s hreach => ?_⟩
  obtain ⟨m, held, hrp, hpk', hfk'⟩ := ReplicaCrash.reach_rp C hC hT bs pk 0 s hreach
  exact ⟨m, held, hrp.rep.le, shows_of_rp C bs m s.1 s.2 held hrp, hrp, hpk', hfk'⟩

/-- non-vacuity: first contact, a crash in the middle of it, and a fetch are steps of `Reach` -/
example (C : Crypto) (bs : Array Bytes) (pk : Bytes) (c : Core) (d : Disk) (h : ReplicaCrash.Reach C bs pk 0 (c, d)) (hl : c.tree.length = 0)
    (n : Nat) (h0 : 0 < n) (hn : n ≤ bs.size) (sig : Bytes) (hsl : sig.length = 64)
    (hver : C.verify pk (Growth.signableAt C bs n 0) sig = true) :
    ReplicaCrash.Reach C bs pk 0 ((c.verifyAndApply C d (Growth.honestFirst C bs c.tree.fork n sig)).core,
      d.applyAll (c.verifyAndApply C d (Growth.honestFirst C bs c.tree.fork n sig)).journal) :=
  ReplicaCrash.Reach.first c d n sig h hl h0 hn hsl hver

end HC.C02
