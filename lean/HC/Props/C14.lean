import HC.Proofs.File
import HC.Model.Tree
import HC.Proofs.Replica
import HC.Proofs.Journal
/-!
# C14 — behaviour and bytes are independent of storage backend and node cache

The model runs over a flat file of bytes.  What makes the choice of backend irrelevant:

* `file_laws`        : the flat file satisfies the contract the crate relies on — size after a write,
  every byte after a write (zero extension included), a write reads back exactly;
* `backend_indep`    : reads are determined by (size, bytes), and writes preserve agreement on
  (size, bytes): two backends whose files agree byte-for-byte stay in agreement and answer every read
  alike, whatever they are made of (pages, OS files, vectors);
* `backend_simulation`, `backends_agree`: a backend whose single operations realise the flat file (law per
  operation: `Backend.run_ok`, `read_ok`) realises it along every journal, so two such backends started from
  the same bytes hold the same bytes and answer every read alike after any sequence of writes, deletes and
  truncations;
* `cache_transparent`: a node cache whose entries are non-blank nodes of the store (what
  `infos_to_nodes` inserts) never changes the result of a node lookup, for any content — hence any
  capacity and eviction policy.

* `cache_inv_transparent`, `cache_inv_fill`, `cache_inv_evict`, `cache_inv_insert`, `cache_inv_flush`: the
  invariant that makes the cache invisible **along a history** — `CacheInv` (every cached node is the non-blank
  node the tree *store* holds at that index: what `infos_to_nodes` and `to_node_cache` insert) together with
  `Agree` (an unflushed node never contradicts a non-blank stored node: appended nodes sit on fresh slots, a
  replica's nodes were compared with the stored ones) gives the same answer with and without the cache although
  the cache is consulted *before* the unflushed map; the invariant survives cache fills from the store,
  evictions of any kind, new unflushed nodes that agree with the store, and `flush_nodes` (which moves the
  unflushed nodes to their slots and empties the map: `Replica.flush_lookup`).

That `random-access-memory` (paged), `random-access-disk` (sparse or not) and the instrumented
backend realise the flat file is validated by running them against it on random operation sequences;
that the crate's observations and raw files coincide under {memory, disk, instrumented} x {cache off,
default, 300 bytes} is validated by running every generated history under six configurations.
-/
namespace HC.C14
open HC HC.File HC.Codec

theorem file_laws (f : File) (off : Nat) (bs : Bytes) :
    (f.write off bs).size = max f.size (off + bs.length)
      ∧ (∀ i, (f.write off bs).byte i = if off ≤ i ∧ i < off + bs.length then bs.getD (i - off) 0 else f.byte i)
      ∧ (f.write off bs).read off bs.length = some bs :=
  ⟨size_write f off bs, byte_write f off bs, read_write_same f off bs⟩

theorem backend_indep (f g : File) (hs : f.size = g.size) (hb : ∀ i, f.byte i = g.byte i) :
    (∀ off len, f.read off len = g.read off len)
      ∧ (∀ off bs, (f.write off bs).size = (g.write off bs).size ∧ ∀ i, (f.write off bs).byte i = (g.write off bs).byte i) :=
  ⟨read_congr f g hs hb, write_congr f g hs hb⟩

/-- lookup through a cache in front of the tree (`MerkleTree::node` with the `cache` feature) -/
def nodeWithCache (cache : Nat → Option Node) (t : Tree) (f : File) (i : Nat) : Option Node :=
  match cache i with
  | some n => some n
  | none => t.node? f i

theorem cache_transparent (cache : Nat → Option Node) (t : Tree) (f : File)
    (hsub : ∀ i n, cache i = some n → t.node? f i = some n) (i : Nat) :
    nodeWithCache cache t f i = t.node? f i := by
  unfold nodeWithCache
  cases h : cache i with
  | none => rfl
  | some n => exact (hsub i n h).symm

/-- the empty cache, and a cache filled from lookups, satisfy the hypothesis -/
example (t : Tree) (f : File) : ∀ i n, (fun _ => (none : Option Node)) i = some n → t.node? f i = some n := by
  intro i n h; cases h

theorem cache_fill_ok (cache : Nat → Option Node) (t : Tree) (f : File)
    (hsub : ∀ i n, cache i = some n → t.node? f i = some n) (j : Nat) :
    ∀ i n, (fun k => if k = j then (match t.node? f j with | some m => some m | none => cache k) else cache k) i = some n
      → t.node? f i = some n := by
  intro i n h
  simp only at h
  split at h
  · rename_i hij
    subst hij
    cases hn : t.node? f i with
    | some m => simp [hn] at h; rw [← h]
    | none =>
      simp [hn] at h
      have := hsub i n h
      rw [hn] at this
      cases this
  · exact hsub i n h

/-! ## any backend that realises the flat file, operation by operation, realises it along every journal -/
/-- the mutating operations of `RandomAccess` on one store -/
inductive FOp
  | write (off : Nat) (bs : Bytes)
  | del (off len : Nat)
  | trunc (n : Nat)

/-- their effect on the flat file (an out-of-bounds `del` fails and changes nothing, as in `Disk.apply`) -/
def FOp.run (f : File) : FOp → File
  | .write off bs => f.write off bs
  | .del off len => match f.del off len with
    | some g => g
    | none => f
  | .trunc n => f.truncate n

/-- a backend (pages in memory, an OS file with or without holes, the instrumented store) with the flat file it
    stands for; the two laws are per operation — what the backend differential of the harness exercises -/
structure Backend (β : Type) where
  view : β → File
  run : β → FOp → β
  read : β → Nat → Nat → Option Bytes
  run_ok : ∀ b op, view (run b op) = FOp.run (view b) op
  read_ok : ∀ b off len, read b off len = (view b).read off len

theorem backend_simulation {β : Type} (B : Backend β) (ops : List FOp) (b : β) :
    B.view (ops.foldl B.run b) = ops.foldl FOp.run (B.view b)
      ∧ ∀ off len, B.read (ops.foldl B.run b) off len = (ops.foldl FOp.run (B.view b)).read off len := by
  induction ops generalizing b with
  | nil => exact ⟨rfl, B.read_ok b⟩
  | cons op rest ih =>
    simp only [List.foldl_cons]
    rw [← B.run_ok b op]
    exact ih (B.run b op)

/-- **two backends that start from the same bytes hold the same bytes and answer every read alike after any journal** -/
theorem backends_agree {β γ : Type} (B : Backend β) (G : Backend γ) (b : β) (g : γ) (h0 : B.view b = G.view g) (ops : List FOp) :
    B.view (ops.foldl B.run b) = G.view (ops.foldl G.run g)
      ∧ ∀ off len, B.read (ops.foldl B.run b) off len = G.read (ops.foldl G.run g) off len := by
  obtain ⟨b1, b2⟩ := backend_simulation B ops b
  obtain ⟨g1, g2⟩ := backend_simulation G ops g
  refine ⟨by rw [b1, g1, h0], fun off len => by rw [b2, g2, h0]⟩

/-- a journalled operation as an operation on the store it targets -/
def toF : SOp → FOp
  | .write _ off bs => .write off bs
  | .del _ off len => .del off len
  | .trunc _ len => .trunc len

theorem onFile_eq (op : SOp) (f : File) : op.onFile f = FOp.run f (toF op) := by
  cases op with
  | write s off bs => rfl
  | del s off len => simp only [SOp.onFile, toF, FOp.run]; cases f.del off len <;> rfl
  | trunc s len => rfl

/-- **the model's journals on any backend**: if backend `b` stands for store `s` of the model's disk, then after any
    journal of the model (any call, any history) the backend that was given the operations of its store stands
    for store `s` of the resulting disk, and answers every read as that file does -/
theorem journal_on_backend {β : Type} (B : Backend β) (b : β) (d : Disk) (s : Store) (h0 : B.view b = d.get s) (ops : List SOp) :
    let b' := ((ops.filter fun op => op.store = s).map toF).foldl B.run b
    B.view b' = (d.applyAll ops).get s ∧ ∀ off len, B.read b' off len = ((d.applyAll ops).get s).read off len := by
  have e : (d.applyAll ops).get s = ((ops.filter fun op => op.store = s).map toF).foldl FOp.run (B.view b) := by
    rw [Journal.applyAll_get, h0, List.foldl_map]
    congr 1
    funext f op
    exact onFile_eq op f
  obtain ⟨h1, h2⟩ := backend_simulation B ((ops.filter fun op => op.store = s).map toF) b
  exact ⟨by rw [h1, e], fun off len => by rw [h2, e]⟩

/-- non-vacuity: the flat file itself is a backend -/
def flatBackend : Backend File := ⟨id, FOp.run, File.read, fun _ _ => rfl, fun _ _ _ => rfl⟩

/-! ## the cache along a history -/
open HC.TreeStore in
/-- what the tree store alone answers for index `i` (`none` = out of bounds or blank) -/
def storeNode (f : File) (i : Nat) : Option Node :=
  match f.read (i * Spec.nodeSize) Spec.nodeSize with
  | none => none
  | some bs => let n := nodeOfBytes i bs; if n.blank then none else some n

theorem node?_noUnflushed (t : Tree) (f : File) (i : Nat) : ({ t with unflushed := {} } : Tree).node? f i = storeNode f i := by
  simp only [Tree.node?, storeNode, Std.HashMap.getElem?_empty]
  cases f.read (i * Spec.nodeSize) Spec.nodeSize <;> rfl

theorem storeNode_nonblank (f : File) (i : Nat) (n : Node) (h : storeNode f i = some n) : n.blank = false := by
  unfold storeNode at h
  split at h
  · cases h
  · simp only at h
    split at h
    · cases h
    · rename_i hb
      cases h
      simpa using hb

/-- every cached node is the non-blank node of the store at that index -/
def CacheInv (cache : Nat → Option Node) (f : File) : Prop := ∀ i n, cache i = some n → storeNode f i = some n
/-- an unflushed node never contradicts a non-blank stored node -/
def Agree (t : Tree) (f : File) : Prop := ∀ i u n, t.unflushed[i]? = some u → storeNode f i = some n → u = n

theorem cache_sub (cache : Nat → Option Node) (t : Tree) (f : File) (hc : CacheInv cache f) (ha : Agree t f) :
    ∀ i n, cache i = some n → t.node? f i = some n := by
  intro i n h
  have hs := hc i n h
  unfold Tree.node?
  cases hu : t.unflushed[i]? with
  | none =>
    unfold storeNode at hs
    cases hr : f.read (i * Spec.nodeSize) Spec.nodeSize with
    | none => rw [hr] at hs; cases hs
    | some bs => rw [hr] at hs; simpa using hs
  | some u =>
    have := ha i u n hu hs
    subst this
    simp [storeNode_nonblank f i u hs]

/-- **the cache is invisible** although it is consulted before the unflushed map -/
theorem cache_inv_transparent (cache : Nat → Option Node) (t : Tree) (f : File) (hc : CacheInv cache f) (ha : Agree t f) (i : Nat) :
    nodeWithCache cache t f i = t.node? f i :=
  cache_transparent cache t f (cache_sub cache t f hc ha) i

/-- `infos_to_nodes` / `to_node_cache`: a non-blank node read from the store is inserted -/
theorem cache_inv_fill (cache : Nat → Option Node) (f : File) (hc : CacheInv cache f) (j : Nat) (n : Node) (h : storeNode f j = some n) :
    CacheInv (fun k => if k = j then some n else cache k) f := by
  intro i m hm
  simp only at hm
  split at hm
  · rename_i e; subst e; cases hm; exact h
  · exact hc i m hm

/-- any eviction policy (capacity, time to live, time to idle) -/
theorem cache_inv_evict (cache cache' : Nat → Option Node) (f : File) (hc : CacheInv cache f)
    (hsub : ∀ i n, cache' i = some n → cache i = some n) : CacheInv cache' f :=
  fun i n h => hc i n (hsub i n h)

/-- a commit adds unflushed nodes; `Agree` is kept when each agrees with what the store holds at its slot -/
theorem cache_inv_insert (t : Tree) (f : File) (ha : Agree t f) (n : Node) (hn : ∀ m, storeNode f n.index = some m → n = m) :
    Agree (t.addNode n) f := by
  intro i u m hu hs
  simp only [Tree.addNode, Std.HashMap.getElem?_insert] at hu
  split at hu
  · rename_i e
    have e' : n.index = i := by simpa using e
    subst e'; cases hu; exact hn m hs
  · exact ha i u m hu hs

/-- `flush_nodes`: the unflushed nodes go to their slots, the map is emptied; both invariants survive -/
theorem cache_inv_flush (cache : Nat → Option Node) (t : Tree) (f : File) (hwf : TreeStore.MapWF t.unflushed) (hal : f.size % 40 = 0)
    (hc : CacheInv cache f) (ha : Agree t f) :
    ∃ L : List Node, t.flush = ({ t with unflushed := {} }, L.map fun n => SOp.write .tree (n.index * Spec.nodeSize) (nodeBytes n))
      ∧ CacheInv cache (TreeStore.writeSlots f L) ∧ Agree { t with unflushed := {} } (TreeStore.writeSlots f L)
      ∧ (TreeStore.writeSlots f L).size % 40 = 0 := by
  obtain ⟨L, h1, h2, h3⟩ := Replica.flush_lookup t f hwf hal
  refine ⟨L, h1, ?_, ?_, h3⟩
  · intro i n h
    rw [← node?_noUnflushed t, h2 i]
    exact cache_sub cache t f hc ha i n h
  · intro i u n hu _
    simp at hu

/-- `to_node_cache(roots)`: the cache a tree is opened with holds the roots it has just read from the store -/
def cacheOf : List Node → (Nat → Option Node)
  | [] => fun _ => none
  | n :: ns => fun k => if k = n.index then some n else cacheOf ns k

theorem cache_inv_open (f : File) (L : List Node) (h : ∀ n ∈ L, storeNode f n.index = some n) : CacheInv (cacheOf L) f := by
  induction L with
  | nil => intro _ _ hc; cases hc
  | cons n ns ih =>
    exact cache_inv_fill (cacheOf ns) f (ih (fun m hm => h m (List.mem_cons_of_mem _ hm))) n.index n (h n List.mem_cons_self)

/-- unflushed nodes on slots where the store has nothing (an appended range) agree with the store -/
theorem agree_of_fresh (t : Tree) (f : File) (h : ∀ i u, t.unflushed[i]? = some u → storeNode f i = none) : Agree t f := by
  intro i u n hu hs
  rw [h i u hu] at hs
  cases hs

/-- non-vacuity: the empty cache over any store, and a tree without unflushed nodes -/
example (f : File) : CacheInv (fun _ => none) f := fun _ _ h => by cases h
example (t : Tree) (f : File) : Agree { t with unflushed := {} } f := fun i u n hu _ => by simp at hu

/-! ## … for every history of cache and tree-store events -/
/-- cache, tree (its unflushed map) and tree store -/
abbrev CState := (Nat → Option Node) × Tree × File

/-- what can happen to them: a node read from the store is cached; entries are evicted (any policy); a commit adds
    an unflushed node that agrees with the store; `flush_nodes` writes the unflushed nodes and empties the map -/
inductive CStep : CState → CState → Prop
  | fill (c : Nat → Option Node) (t : Tree) (f : File) (j : Nat) (n : Node) :
      storeNode f j = some n → CStep (c, t, f) ((fun k => if k = j then some n else c k), t, f)
  | evict (c c' : Nat → Option Node) (t : Tree) (f : File) :
      (∀ i n, c' i = some n → c i = some n) → CStep (c, t, f) (c', t, f)
  | insert (c : Nat → Option Node) (t : Tree) (f : File) (n : Node) :
      (∀ m, storeNode f n.index = some m → n = m) → n.hash.length = 32 → n.length < 2 ^ 64 → CStep (c, t, f) (c, t.addNode n, f)
  | flush (c : Nat → Option Node) (t : Tree) (f : File) :
      CStep (c, t, f) (c, t.flush.1, t.flush.2.foldl (fun f op => op.onFile f) f)

inductive CReach : CState → CState → Prop
  | refl (s : CState) : CReach s s
  | step (s s' s'' : CState) : CReach s s' → CStep s' s'' → CReach s s''

def CInv (s : CState) : Prop := CacheInv s.1 s.2.2 ∧ Agree s.2.1 s.2.2 ∧ TreeStore.MapWF s.2.1.unflushed ∧ s.2.2.size % 40 = 0

theorem cstep_inv (s s' : CState) (h : CInv s) (st : CStep s s') : CInv s' := by
  cases st with
  | fill c t f j n hn => exact ⟨cache_inv_fill c f h.1 j n hn, h.2.1, h.2.2.1, h.2.2.2⟩
  | evict c c' t f hsub => exact ⟨cache_inv_evict c c' f h.1 hsub, h.2.1, h.2.2.1, h.2.2.2⟩
  | insert c t f n hn h32 hlen =>
    refine ⟨h.1, cache_inv_insert t f h.2.1 n hn, ?_, h.2.2.2⟩
    intro k m hk
    simp only [Tree.addNode, Std.HashMap.getElem?_insert] at hk
    split at hk
    · rename_i e
      have e' : n.index = k := by simpa using e
      cases hk
      exact ⟨e', h32, hlen⟩
    · exact h.2.2.1 k m hk
  | flush c t f =>
    obtain ⟨L, h1, h2, h3, h4⟩ := cache_inv_flush c t f h.2.2.1 h.2.2.2 h.1 h.2.1
    have e : t.flush.2.foldl (fun f op => op.onFile f) f = TreeStore.writeSlots f L := by
      rw [h1]
      simp only [List.foldl_map, TreeStore.writeSlots]
      rfl
    have e1 : t.flush.1 = { t with unflushed := {} } := by rw [h1]
    show CacheInv c _ ∧ Agree _ _ ∧ TreeStore.MapWF _ ∧ _
    rw [e, e1]
    refine ⟨h2, h3, ?_, h4⟩
    intro k m hk
    simp at hk

/-- **along every history of fills, evictions, agreeing commits and flushes the cache is invisible**: every lookup
    through the cache (consulted first) answers as the lookup without it -/
theorem cache_invisible_along (s s' : CState) (h : CInv s) (r : CReach s s') (i : Nat) :
    nodeWithCache s'.1 s'.2.1 s'.2.2 i = s'.2.1.node? s'.2.2 i := by
  have hinv : CInv s' := by
    induction r with
    | refl => exact h
    | step s1 s2 _ st ih => exact cstep_inv _ _ ih st
  exact cache_inv_transparent _ _ _ hinv.1 hinv.2.1 i

/-- non-vacuity: an opened tree (nothing unflushed) over an aligned store with the empty cache -/
example (t : Tree) (f : File) (hal : f.size % 40 = 0) : CInv ((fun _ => none), { t with unflushed := {} }, f) :=
  ⟨fun _ _ h => (by cases h), fun i u n hu _ => (by simp at hu), fun k m hk => (by simp at hk), hal⟩

end HC.C14
