import HC.Proofs.File
import HC.Model.Tree
/-!
# C14 — behaviour and bytes are independent of storage backend and node cache

The model runs over a flat file of bytes.  What makes the choice of backend irrelevant:

* `file_laws`        : the flat file satisfies the contract the crate relies on — size after a write,
  every byte after a write (zero extension included), a write reads back exactly;
* `backend_indep`    : reads are determined by (size, bytes), and writes preserve agreement on
  (size, bytes): two backends whose files agree byte-for-byte stay in agreement and answer every read
  alike, whatever they are made of (pages, OS files, vectors);
* `cache_transparent`: a node cache whose entries are non-blank nodes of the store (what
  `infos_to_nodes` inserts) never changes the result of a node lookup, for any content — hence any
  capacity and eviction policy.

That `random-access-memory` (paged), `random-access-disk` (sparse or not) and the instrumented
backend realise the flat file is validated by running them against it on random operation sequences;
that the crate's observations and raw files coincide under {memory, disk, instrumented} x {cache off,
default, 300 bytes} is validated by running every generated history under six configurations.
-/
namespace HC.C14
open HC HC.File HC.Codec

theorem file_laws (f : File) (off : Nat) (bs : Bytes) :
    (f.write off bs).size = max f.size (off + bs.length)
      ∧ (∀ i, (f.write off bs).byte i = if off ≤ i ∧ i < off + bs.length then bs.getD (i - off) 0 else f.byte i)
      ∧ (f.write off bs).read off bs.length = some bs :=
  ⟨size_write f off bs, byte_write f off bs, read_write_same f off bs⟩

theorem backend_indep (f g : File) (hs : f.size = g.size) (hb : ∀ i, f.byte i = g.byte i) :
    (∀ off len, f.read off len = g.read off len)
      ∧ (∀ off bs, (f.write off bs).size = (g.write off bs).size ∧ ∀ i, (f.write off bs).byte i = (g.write off bs).byte i) :=
  ⟨read_congr f g hs hb, write_congr f g hs hb⟩

/-- lookup through a cache in front of the tree (`MerkleTree::node` with the `cache` feature) -/
def nodeWithCache (cache : Nat → Option Node) (t : Tree) (f : File) (i : Nat) : Option Node :=
  match cache i with
  | some n => some n
  | none => t.node? f i

theorem cache_transparent (cache : Nat → Option Node) (t : Tree) (f : File)
    (hsub : ∀ i n, cache i = some n → t.node? f i = some n) (i : Nat) :
    nodeWithCache cache t f i = t.node? f i := by
  unfold nodeWithCache
  cases h : cache i with
  | none => rfl
  | some n => exact (hsub i n h).symm

/-- the empty cache, and a cache filled from lookups, satisfy the hypothesis -/
example (t : Tree) (f : File) : ∀ i n, (fun _ => (none : Option Node)) i = some n → t.node? f i = some n := by
  intro i n h; cases h

theorem cache_fill_ok (cache : Nat → Option Node) (t : Tree) (f : File)
    (hsub : ∀ i n, cache i = some n → t.node? f i = some n) (j : Nat) :
    ∀ i n, (fun k => if k = j then (match t.node? f j with | some m => some m | none => cache k) else cache k) i = some n
      → t.node? f i = some n := by
  intro i n h
  simp only at h
  split at h
  · rename_i hij
    subst hij
    cases hn : t.node? f i with
    | some m => simp [hn] at h; rw [← h]
    | none =>
      simp [hn] at h
      have := hsub i n h
      rw [hn] at this
      cases this
  · exact hsub i n h

end HC.C14
