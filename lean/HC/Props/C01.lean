import HC.Proofs.Frame
import HC.Proofs.Bitfield
/-!
# C01 — log contents equal an append-only list model, across close and reopen

Proved so far (all unbounded), each a component of the refinement `Full` below:

* `entry_reopen`   : every log entry the crate can write (any combination of the four sections)
  decodes to itself, whatever follows it in the file;
* `header_reopen`  : every header decodes to itself;
* `frame_reopen`   : the checksummed leader yields payload and both bits back;
* `held_after`     : range updates of the held set (append = set, clear = drop) are exact.

`refines_partial` is therefore **partial**: the statement that a whole history's observations equal
the list model's (`Full`) is validated by the correspondence run (implementation = Lean model =
list-model oracle on every generated history), not yet proved.
-/
namespace HC.C01
open HC HC.Oplog HC.Codec

theorem entry_reopen (e : Entry) (wf : e.WF) (rest : Bytes) : decEntry (encEntry e ++ rest) = some (e, rest) :=
  decEntry_enc e wf rest

theorem header_reopen (h : Header) (wf : h.WF) (rest : Bytes) : decHeader (encHeader h ++ rest) = .ok (h, rest) :=
  decHeader_enc h wf rest

theorem frame_reopen (payload rest : Bytes) (hb pb : Bool) (h0 : 0 < payload.length) (h30 : payload.length < 2 ^ 30) :
    validateLeader (frame payload hb pb ++ rest) = some ⟨hb, pb, payload.length, payload ++ rest⟩ :=
  validateLeader_frame payload rest hb pb h0 h30

theorem held_after (b : Bitfield) (start len : Nat) (v : Bool) (i : Nat) :
    (b.setRange start len v).get i = if start ≤ i ∧ i < start + len then v else b.get i :=
  Bitfield.get_setRange b start len v i

/-- an append entry followed by a clear entry, as the crate writes them, read back in sequence -/
theorem refines_partial (e1 e2 : Entry) (w1 : e1.WF) (w2 : e2.WF) (hb : Bool)
    (h1 : (encEntry e1).length < 2 ^ 30) (h2 : (encEntry e2).length < 2 ^ 30) (rest : Bytes) :
    ∃ l1 l2, validateLeader (frame (encEntry e1) hb false ++ (frame (encEntry e2) hb false ++ rest)) = some l1
      ∧ l1.headerBit = hb ∧ decEntry l1.state = some (e1, frame (encEntry e2) hb false ++ rest)
      ∧ validateLeader (frame (encEntry e2) hb false ++ rest) = some l2
      ∧ l2.headerBit = hb ∧ decEntry l2.state = some (e2, rest) := by
  have p1 : 0 < (encEntry e1).length := by simp [encEntry]
  have p2 : 0 < (encEntry e2).length := by simp [encEntry]
  refine ⟨_, _, validateLeader_frame _ _ hb false p1 h1, rfl, ?_, validateLeader_frame _ _ hb false p2 h2, rfl, ?_⟩
  · exact decEntry_enc e1 w1 _
  · exact decEntry_enc e2 w2 _

/-- non-vacuity: the entry of `clear(0,1)` and an upgrade entry are well-formed -/
example : ({ bitfield := some ⟨true, 0, 1⟩ } : Entry).WF :=
  ⟨⟨by decide, by simp⟩, ⟨by decide, by simp⟩, by simp, by intro b hb; cases hb; exact ⟨by decide, by decide⟩⟩

end HC.C01
