import HC.Proofs.Frame
import HC.Proofs.Bitfield
import HC.Proofs.LiveRefine
import HC.Proofs.Reopen
import HC.Proofs.Persist
/-!
# C01 — log contents equal an append-only list model, across close and reopen

**`live_refinement`** (unbounded, every crypto record with 32-byte non-zero digests): starting from a
freshly created core (`created`) — or any state satisfying the representation invariant `Rep` —
**every** sequence of `append_batch` / `clear` / `get` / `has` / `info` / `make_read_only` calls on the model of the crate
(memory state + the four stores, each call's journal applied to the disk) yields exactly the
observations of the abstract log `LogSpec.Abs` (block list + held set): lengths and byte lengths of
appends, block bytes of reads (`None` exactly for blocks that are not held), `has`, and
`info().contiguous_length` = the first missing index; and `Rep` holds again afterwards.  `Rep` says:
roots = reference roots, node lookup (unflushed map, then the tree store) = reference tree, bitfield =
held set, hint = first missing index, every held block's bytes sit in the data store at the
prefix-sum offset.  The flush cadence (every fourth operation / 64 KiB) is inside the model, so the
theorem covers histories in which nodes move from memory to the store at arbitrary points.

**`history_then_reopen`** / **`reopen_then_continue`**: after any such history (within the size limits of
the on-disk formats: fewer than 2^62 blocks, batches below 2^20 blocks, 32-byte key and seed, 64-byte
signatures, 32-byte digests), `Hypercore::new` on the four stores yields a core that represents the same
abstract log, and every further call behaves like the abstract log again.  The proof composes the oplog's
commit protocol (`Rotation.Inv`) with its byte layout (`OplogBytes`: `Oplog::open` on the bytes = the
reader's rule on the abstraction; appends and flushes keep the abstraction), the flushed stores (`Persist`:
bitfield pages decode to the bits in memory, tree slots hold the reference nodes) and the replay
(`Reopen`: `full_roots` = reference roots, `truncate` + commit rebuild the roots).

So C01 is proved for the model in full: create, any calls, close, reopen, any calls.  What ties the model
to the Rust is the correspondence run.  The components below are kept as they were stated earlier:

* `entry_reopen`   : every log entry the crate can write (any combination of the four sections)
  decodes to itself, whatever follows it in the file;
* `header_reopen`  : every header decodes to itself;
* `frame_reopen`   : the checksummed leader yields payload and both bits back;
* `held_after`     : range updates of the held set (append = set, clear = drop) are exact.

`refines_partial` keeps its historical name; it is subsumed by the theorems above.
-/
namespace HC.C01
open HC HC.Oplog HC.Codec HC.LogSpec HC.LiveRefine HC.TreeStore

/-- run a sequence of API calls on the model of the crate -/
def runC (C : Crypto) (s : Core × Disk) : List Op → (Core × Disk) × List Obs
  | [] => (s, [])
  | op :: rest =>
    let r := stepC C s op
    let rr := runC C r.1 rest
    (rr.1, r.2 :: rr.2)

/-- the same calls on the abstract log -/
def runA (a : Abs) : List Op → Abs × List Obs
  | [] => (a, [])
  | op :: rest =>
    let r := a.step op
    let rr := runA r.1 rest
    (rr.1, r.2 :: rr.2)

/-- every call is within C01's quantifier in the abstract state it is issued in -/
def AllValid (a : Abs) : List Op → Prop
  | [] => True
  | op :: rest => Valid a op ∧ AllValid (a.step op).1 rest

theorem step_refines (C : Crypto) (hC : HashWF C) (c : Core) (d : Disk) (a : Abs) (h : Rep C c d a) (op : Op)
    (hv : Valid a op) :
    (stepC C (c, d) op).2 = (a.step op).2 ∧ Rep C (stepC C (c, d) op).1.1 (stepC C (c, d) op).1.2 (a.step op).1 := by
  cases op with
  | append batch => exact append_refines C hC c d a h batch hv
  | clear s e => exact clear_refines C hC c d a h s e hv
  | get i => rw [get_refines C c d a h i]; exact ⟨rfl, h⟩
  | has i => rw [has_refines C c d a h i]; exact ⟨rfl, h⟩
  | info => rw [info_refines C c d a h]; exact ⟨rfl, h⟩
  | makeReadOnly => exact makeReadOnly_refines C hC c d a h

/-- **C01, live part.**  Any sequence of calls from a state satisfying `Rep` is observationally the
    abstract log, and ends in a state satisfying `Rep`. -/
theorem live_refinement (C : Crypto) (hC : HashWF C) (ops : List Op) :
    ∀ (c : Core) (d : Disk) (a : Abs), Rep C c d a → AllValid a ops →
      (runC C (c, d) ops).2 = (runA a ops).2
        ∧ Rep C (runC C (c, d) ops).1.1 (runC C (c, d) ops).1.2 (runA a ops).1 := by
  induction ops with
  | nil => intro c d a h _; exact ⟨rfl, h⟩
  | cons op rest ih =>
    intro c d a h hv
    obtain ⟨h1, h2⟩ := step_refines C hC c d a h op hv.1
    obtain ⟨i1, i2⟩ := ih _ _ _ h2 hv.2
    simp only [runC, runA]
    exact ⟨by rw [h1, i1], i2⟩

/-- a freshly created core represents the empty log -/
theorem created (C : Crypto) (pk sk : Bytes) :
    ∃ c j, Core.openCore C (some (pk, some sk)) {} = .ok (c, j) ∧ Rep C c (({} : Disk).applyAll j) {} :=
  init_rep C pk sk

/-- hence every history of a freshly created core behaves like the list model -/
theorem created_refines (C : Crypto) (hC : HashWF C) (pk sk : Bytes) (ops : List Op) (hv : AllValid {} ops) :
    ∃ c j, Core.openCore C (some (pk, some sk)) {} = .ok (c, j)
      ∧ (runC C (c, ({} : Disk).applyAll j) ops).2 = (runA {} ops).2 := by
  obtain ⟨c, j, h1, h2⟩ := created C pk sk
  exact ⟨c, j, h1, (live_refinement C hC ops c _ {} h2 hv).1⟩

/-- every call is also within the size limits of the on-disk formats (see `Persist.Limits`) -/
def AllLimits (a : Abs) : List Op → Prop
  | [] => True
  | op :: rest => Persist.Limits a op ∧ AllLimits (a.step op).1 rest

/-- `Rep` and the ghost invariant `Persist` along a whole history -/
theorem history_invariants (C : Crypto) (hC : HashWF C) (hS : SignWF C) (hTw : TreeWF C) (ops : List Op) :
    ∀ (c : Core) (d : Disk) (a : Abs) (hf : Header) (a0 : Abs) (es : List Entry), Rep C c d a →
      Persist.Persist C c d hf a0 es a → AllValid a ops → AllLimits a ops →
      Rep C (runC C (c, d) ops).1.1 (runC C (c, d) ops).1.2 (runA a ops).1
        ∧ ∃ hf' a0' es', Persist.Persist C (runC C (c, d) ops).1.1 (runC C (c, d) ops).1.2 hf' a0' es' (runA a ops).1 := by
  induction ops with
  | nil => intro c d a hf a0 es h hp _ _; exact ⟨h, hf, a0, es, hp⟩
  | cons op rest ih =>
    intro c d a hf a0 es h hp hv hl
    obtain ⟨_, h2⟩ := step_refines C hC c d a h op hv.1
    obtain ⟨hf', a0', es', hp2⟩ := Persist.persist_step C hC hS hTw c d hf a0 a es h hp op hv.1 hl.1
    exact ih _ _ _ hf' a0' es' h2 hp2 hv.2 hl.2

/-- **C01 across close and reopen.**  After any history of a freshly created core (32-byte key and seed),
    `Hypercore::new` on the four stores — `open(true)`, no key pair supplied — yields a core that
    represents the same abstract log, so that `live_refinement` applies to every further call: every
    block that was held reads back byte-identical, `has` and the contiguous length are unchanged,
    length and byte length are unchanged.  The proof composes: the commit protocol of the oplog
    (`Rotation.Inv`) with its byte layout (`OplogBytes.openLog_abs`: `Oplog::open` on the bytes = the
    reader's rule on the abstraction), the flushed tree and bitfield stores (`Persist`), and the replay
    of the logged entries (`Reopen.reopen_refines`). -/
theorem history_then_reopen (C : Crypto) (hC : HashWF C) (hS : SignWF C) (hTw : TreeWF C) (pk sk : Bytes)
    (hpk : pk.length = 32) (hsk : sk.length = 32) (ops : List Op) (hv : AllValid {} ops) (hl : AllLimits {} ops) :
    ∃ c j, Core.openCore C (some (pk, some sk)) {} = .ok (c, j) ∧
      ∃ c', Core.openCore C none (runC C (c, ({} : Disk).applyAll j) ops).1.2 = .ok (c', [])
        ∧ Rep C c' (runC C (c, ({} : Disk).applyAll j) ops).1.2 (runA {} ops).1 := by
  obtain ⟨c, j, h1, h2, h3⟩ := Persist.init_both C pk sk hpk hsk
  obtain ⟨hrep, hf, a0, es, hp⟩ := history_invariants C hC hS hTw ops c _ {} _ {} [] h2 h3 hv hl
  refine ⟨c, j, h1, ?_⟩
  obtain ⟨c', hopen, hrep', _⟩ := Persist.reopen_persist C hC hTw _ _ hf a0 _ es hrep hp
  exact ⟨c', hopen, hrep'⟩

/-- histories with reopen steps in the middle: a reopened core continues like the abstract log -/
theorem reopen_then_continue (C : Crypto) (hC : HashWF C) (hS : SignWF C) (hTw : TreeWF C) (pk sk : Bytes)
    (hpk : pk.length = 32) (hsk : sk.length = 32) (ops more : List Op) (hv : AllValid {} ops) (hl : AllLimits {} ops)
    (hv2 : AllValid (runA {} ops).1 more) :
    ∃ c j, Core.openCore C (some (pk, some sk)) {} = .ok (c, j) ∧
      ∃ c', Core.openCore C none (runC C (c, ({} : Disk).applyAll j) ops).1.2 = .ok (c', [])
        ∧ (runC C (c', (runC C (c, ({} : Disk).applyAll j) ops).1.2) more).2 = (runA (runA {} ops).1 more).2 := by
  obtain ⟨c, j, h1, c', h2, h3⟩ := history_then_reopen C hC hS hTw pk sk hpk hsk ops hv hl
  exact ⟨c, j, h1, c', h2, (live_refinement C hC more c' _ _ h3 hv2).1⟩

/-- histories with any number of close-and-reopen steps -/
def runC' (C : Crypto) (s : Core × Disk) : List HStep → (Core × Disk) × List Obs
  | [] => (s, [])
  | st :: rest =>
    let r := stepC' C s st
    let rr := runC' C r.1 rest
    (rr.1, r.2 :: rr.2)

def runA' (a : Abs) : List HStep → Abs × List Obs
  | [] => (a, [])
  | st :: rest =>
    let r := a.step' st
    let rr := runA' r.1 rest
    (rr.1, r.2 :: rr.2)

def AllOK (a : Abs) : List HStep → Prop
  | [] => True
  | .call op :: rest => Valid a op ∧ Persist.Limits a op ∧ AllOK (a.step op).1 rest
  | .reopen :: rest => AllOK a rest

/-- **C01 in full, on the model.**  For every history of API calls and close-and-reopen steps, starting
    from any state that satisfies the representation invariant and the ghost invariant: the observations
    are those of the abstract log — the block list with its held set, unchanged by a reopen — and both
    invariants hold again at the end. -/
theorem full_refinement_from (C : Crypto) (hC : HashWF C) (hS : SignWF C) (hTw : TreeWF C) (steps : List HStep) :
    ∀ (c : Core) (d : Disk) (a : Abs) (hf : Header) (a0 : Abs) (es : List Entry), Rep C c d a →
      Persist.Persist C c d hf a0 es a → AllOK a steps →
      (runC' C (c, d) steps).2 = (runA' a steps).2 := by
  induction steps with
  | nil => intro c d a hf a0 es _ _ _; rfl
  | cons st rest ih =>
    intro c d a hf a0 es h hp hok
    cases st with
    | call op =>
      obtain ⟨h1, h2⟩ := step_refines C hC c d a h op hok.1
      obtain ⟨hf', a0', es', hp2⟩ := Persist.persist_step C hC hS hTw c d hf a0 a es h hp op hok.1 hok.2.1
      have := ih _ _ _ hf' a0' es' h2 hp2 hok.2.2
      simp only [runC', runA', stepC', Abs.step']
      rw [h1, this]
    | reopen =>
      obtain ⟨c', hopen, hrep', hp'⟩ := Persist.reopen_persist C hC hTw c d hf a0 a es h hp
      have := ih c' d a hf a0 es hrep' hp' hok
      simp only [runC', runA', stepC', Abs.step', hopen, LiveRefine.applyAll_nil]
      rw [this]

/-- … in particular from a freshly created core (32-byte key and seed) -/
theorem full_refinement (C : Crypto) (hC : HashWF C) (hS : SignWF C) (hTw : TreeWF C) (pk sk : Bytes)
    (hpk : pk.length = 32) (hsk : sk.length = 32) (steps : List HStep) (hok : AllOK {} steps) :
    ∃ c j, Core.openCore C (some (pk, some sk)) {} = .ok (c, j)
      ∧ (runC' C (c, ({} : Disk).applyAll j) steps).2 = (runA' {} steps).2 := by
  obtain ⟨c, j, h1, h2, h3⟩ := Persist.init_both C pk sk hpk hsk
  exact ⟨c, j, h1, full_refinement_from C hC hS hTw steps c _ {} _ {} [] h2 h3 hok⟩

/-- non-vacuity: a history with two reopen steps is within the quantifier -/
example : AllOK {} [.call (.append [[1, 2], []]), .reopen, .call (.clear 0 1), .call (.get 0), .reopen, .call (.append [[3]]), .call .info] := by
  simp [AllOK, Valid, Persist.Limits, Abs.step, totalBytes]

/-- non-vacuity: `make_read_only` in the middle of a history; the abstract log then refuses appends and reports
    `writeable = false`, also after a reopen -/
example : AllOK {} [.call (.append [[1]]), .call .makeReadOnly, .call (.append [[2]]), .reopen, .call .info, .call (.clear 0 1)] := by
  simp [AllOK, Valid, Persist.Limits, Abs.step, totalBytes]
example : (runA' {} [.call (.append [[1]]), .call .makeReadOnly, .call (.append [[2]]), .reopen, .call .info]).2
    = [.appended 1 1, .readOnly true, .failed .err, .reopened, .info 1 1 1 false] := by
  simp [runA', Abs.step', Abs.step, totalBytes, firstMissing]

/-- non-vacuity of the hypothesis on the hash functions: a record with constant non-zero 32-byte digests -/
example : HashWF { leaf := fun _ => List.replicate 32 1, parent := fun _ _ _ => List.replicate 32 2, tree := fun _ => [],
                   publicKey := id, sign := fun _ _ => [], verify := fun _ _ _ => true } :=
  ⟨fun _ => by simp, fun _ _ _ => by simp, fun _ => by simp, fun _ _ _ => by simp⟩

/-- non-vacuity: a concrete history is within the quantifier, and the abstract log answers it -/
example : AllValid {} [.append [[1, 2], []], .clear 0 1, .get 0, .get 1, .append [[3]], .info] := by
  simp [AllValid, Valid, Abs.step, totalBytes]
example : (runA {} [.append [[1, 2], []], .clear 0 1, .has 0, .has 1]).2.length = 4 := rfl

theorem entry_reopen (e : Entry) (wf : e.WF) (rest : Bytes) : decEntry (encEntry e ++ rest) = some (e, rest) :=
  decEntry_enc e wf rest

theorem header_reopen (h : Header) (wf : h.WF) (rest : Bytes) : decHeader (encHeader h ++ rest) = .ok (h, rest) :=
  decHeader_enc h wf rest

theorem frame_reopen (payload rest : Bytes) (hb pb : Bool) (h0 : 0 < payload.length) (h30 : payload.length < 2 ^ 30) :
    validateLeader (frame payload hb pb ++ rest) = some ⟨hb, pb, payload.length, payload ++ rest⟩ :=
  validateLeader_frame payload rest hb pb h0 h30

theorem held_after (b : Bitfield) (start len : Nat) (v : Bool) (i : Nat) :
    (b.setRange start len v).get i = if start ≤ i ∧ i < start + len then v else b.get i :=
  Bitfield.get_setRange b start len v i

/-- an append entry followed by a clear entry, as the crate writes them, read back in sequence -/
theorem refines_partial (e1 e2 : Entry) (w1 : e1.WF) (w2 : e2.WF) (hb : Bool)
    (h1 : (encEntry e1).length < 2 ^ 30) (h2 : (encEntry e2).length < 2 ^ 30) (rest : Bytes) :
    ∃ l1 l2, validateLeader (frame (encEntry e1) hb false ++ (frame (encEntry e2) hb false ++ rest)) = some l1
      ∧ l1.headerBit = hb ∧ decEntry l1.state = some (e1, frame (encEntry e2) hb false ++ rest)
      ∧ validateLeader (frame (encEntry e2) hb false ++ rest) = some l2
      ∧ l2.headerBit = hb ∧ decEntry l2.state = some (e2, rest) := by
  have p1 : 0 < (encEntry e1).length := by simp [encEntry]
  have p2 : 0 < (encEntry e2).length := by simp [encEntry]
  refine ⟨_, _, validateLeader_frame _ _ hb false p1 h1, rfl, ?_, validateLeader_frame _ _ hb false p2 h2, rfl, ?_⟩
  · exact decEntry_enc e1 w1 _
  · exact decEntry_enc e2 w2 _

/-- non-vacuity: the entry of `clear(0,1)` and an upgrade entry are well-formed -/
example : ({ bitfield := some ⟨true, 0, 1⟩ } : Entry).WF :=
  ⟨⟨by decide, by simp⟩, ⟨by decide, by simp⟩, by simp, by intro b hb; cases hb; exact ⟨by decide, by decide⟩⟩

end HC.C01
