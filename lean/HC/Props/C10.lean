import HC.Props.C02
import HC.Model.Core
/-!
# C10 — a storage error surfaces as an error and is recoverable by reopening

In the model every operation returns the journal of storage operations it issues, in issue order.
A single I/O error at the `k`-th of them means: the first `k` reached the disk, the call stops and
answers with an error (`FaultOutcome`).

* `fault_is_crash`    : the disk after a fault at `k` is exactly the disk after a crash before the
  `k`-th operation (`Disk.applyAll (journal.take k)`) — so everything C02 proves about crash points
  (the oplog commit protocol: `C02.reopen_exact`, `C02.flush_atomic`) applies verbatim;
* `fault_prefix_step` : fault points are ordered: the state at `k+1` is the state at `k` plus one operation;
* `fault_before_any`  : a fault at the first operation leaves the disk untouched; a fault in a read
  (no journal entry) never changes the disk.

* `fault_recovers`    : hence, for a writer core after any history of calls and reopen steps, a fault at
  any storage operation of any further append_batch / clear / read leaves stores on which `Hypercore::new`
  succeeds and yields a core that represents the log before the failed call or the log after it
  (`C02.crash_atomic` applied to the fault's disk) — the write path, on the model.

Partial: that the Rust really stops issuing operations after the failing one and maps the error
instead of panicking (`flush_infos`, `map_random_access_err`, the `?` after every call) is modelled
glue; the run injects one error at every storage operation (writes, deletes, truncates, reads and
length queries, during calls and during open) of every call of every history and checks: the call
returns an error, never a panic or hang, and drop + reopen shows exactly the state the crash
enumeration (compared with this model) predicts for that prefix.
-/
namespace HC.C10
open HC

/-- outcome of an operation whose `k`-th storage operation fails -/
structure FaultOutcome where
  disk : Disk
  failed : Bool

def withFault (d : Disk) (journal : List SOp) (k : Nat) : FaultOutcome :=
  if k < journal.length then ⟨d.applyAll (journal.take k), true⟩ else ⟨d.applyAll journal, false⟩

theorem fault_is_crash (d : Disk) (journal : List SOp) (k : Nat) (hk : k < journal.length) :
    (withFault d journal k).disk = d.applyAll (journal.take k) ∧ (withFault d journal k).failed = true := by
  simp [withFault, hk]

theorem applyAll_append (d : Disk) (a b : List SOp) : d.applyAll (a ++ b) = (d.applyAll a).applyAll b := by
  simp [Disk.applyAll, List.foldl_append]

theorem fault_prefix_step (d : Disk) (journal : List SOp) (k : Nat) (hk : k < journal.length) :
    d.applyAll (journal.take (k + 1)) = (d.applyAll (journal.take k)).apply journal[k] := by
  rw [List.take_succ_eq_append_getElem hk, applyAll_append]
  simp [Disk.applyAll]

theorem fault_before_any (d : Disk) (journal : List SOp) (h : 0 < journal.length) :
    (withFault d journal 0).disk = d := by
  simp [withFault, h, Disk.applyAll]

theorem no_fault_complete (d : Disk) (journal : List SOp) (k : Nat) (hk : journal.length ≤ k) :
    (withFault d journal k).disk = d.applyAll journal ∧ (withFault d journal k).failed = false := by
  have : ¬ k < journal.length := by omega
  simp [withFault, this]

section Model
open HC.LogSpec HC.LiveRefine HC.TreeStore HC.Persist HC.C01

/-- a fault at the `k`-th storage operation of a call, after any history: reopening recovers the log before
    the call or the log after it -/
theorem fault_recovers (C : Crypto) (hC : HashWF C) (hS : SignWF C) (hTw : TreeWF C) (pk sk : Bytes)
    (hpk : pk.length = 32) (hsk : sk.length = 32) (steps : List HStep) (hok : AllOK {} steps) (op : Op)
    (hv : Valid (runA' {} steps).1 op) (hl : Limits (runA' {} steps).1 op) (k : Nat) :
    ∃ c j, Core.openCore C (some (pk, some sk)) {} = .ok (c, j) ∧
      ∃ c' jo, Core.openCore C none (withFault (runC' C (c, ({} : Disk).applyAll j) steps).1.2
            (journalC C (runC' C (c, ({} : Disk).applyAll j) steps).1 op) k).disk = .ok (c', jo)
        ∧ (Rep C c' ((withFault (runC' C (c, ({} : Disk).applyAll j) steps).1.2
              (journalC C (runC' C (c, ({} : Disk).applyAll j) steps).1 op) k).disk.applyAll jo) (runA' {} steps).1
          ∨ Rep C c' ((withFault (runC' C (c, ({} : Disk).applyAll j) steps).1.2
              (journalC C (runC' C (c, ({} : Disk).applyAll j) steps).1 op) k).disk.applyAll jo) ((runA' {} steps).1.step op).1) := by
  obtain ⟨c, j, h1, c', jo, h2, h3⟩ := C02.crash_atomic C hC hS hTw pk sk hpk hsk steps hok op hv hl k
  refine ⟨c, j, h1, c', jo, ?_⟩
  have hd : (withFault (runC' C (c, ({} : Disk).applyAll j) steps).1.2
      (journalC C (runC' C (c, ({} : Disk).applyAll j) steps).1 op) k).disk
      = crashDisk C (runC' C (c, ({} : Disk).applyAll j) steps).1 op k := by
    unfold withFault crashDisk
    split
    · rfl
    · rw [List.take_of_length_le (by omega)]
  rw [hd]
  exact ⟨h2, h3⟩

end Model

/-- **a storage error during a proof application on a replica**: for every replica state that satisfies the invariants
    (every state of `C02.replica_survives_crashes`), every honest act and every position `k` of the failing storage
    operation, dropping the instance and reopening the stores succeeds and shows the replica before the application or
    after it, with the invariants re-established -/
theorem replica_fault_recovers (C : Crypto) (hC : TreeStore.HashWF C) (hT : TreeStore.TreeWF C) (bs : Array Bytes) (m : Nat) (c : Core) (d : Disk)
    (held : Nat → Bool) (h : ReplicaReopen.RP C bs m c d held) (hm0 : 0 < m) (a : HashReq.Act)
    (hok : HashReq.OkActs C bs c.publicKey c.tree.fork m [a]) (k : Nat) :
    let df := (withFault d (c.verifyAndApply C d (HashReq.actProof C bs c d a)).journal k).disk
    ∃ c' j, Core.openCore C none df = .ok (c', j) ∧ c'.publicKey = c.publicKey
      ∧ ((C02.Shows bs m held c' (df.applyAll j) ∧ ReplicaReopen.RP C bs m c' (df.applyAll j) held)
        ∨ (C02.Shows bs (HashReq.lenAfter m [a]) (fun i => held i || HashReq.fetched [a] i) c' (df.applyAll j)
            ∧ ReplicaReopen.RP C bs (HashReq.lenAfter m [a]) c' (df.applyAll j) (fun i => held i || HashReq.fetched [a] i))) := by
  intro df
  have hd : df = d.applyAll ((c.verifyAndApply C d (HashReq.actProof C bs c d a)).journal.take k) := by
    show (withFault d _ k).disk = _
    unfold withFault
    split
    · rfl
    · rw [List.take_of_length_le (by omega)]
  obtain ⟨c', j, r1, r2, _, r4⟩ := C02.replica_crash_atomic C hC hT bs m c d held h hm0 a hok k
  try simp only [] at r1 r4
  rw [← hd] at r1 r4
  exact ⟨c', j, r1, r2, r4⟩

/-- the same for a proof that carries a block below the replica's length and an upgrade -/
theorem replica_blockgrow_fault_recovers (C : Crypto) (hC : TreeStore.HashWF C) (hT : TreeStore.TreeWF C) (bs : Array Bytes) (m n : Nat) (c : Core) (d : Disk)
    (held : Nat → Bool) (h : ReplicaReopen.RP C bs m c d held) (hm0 : 0 < m) (hmn : m < n) (hn : n ≤ bs.size) (us : List (Nat × Nat))
    (hup : Growth.Up m 0 (RefTree.rootsStack n).reverse us) (sig : Bytes) (hsl : sig.length = 64)
    (hver : C.verify c.publicKey (Growth.signableAt C bs n c.tree.fork) sig = true) (i : Nat) (hi : i < m) (k : Nat) :
    let df := (withFault d (c.verifyAndApply C d (BlockGrow.honestBlockGrowth C bs c d i m n us sig)).journal k).disk
    ∃ c' j, Core.openCore C none df = .ok (c', j) ∧ c'.publicKey = c.publicKey
      ∧ ((C02.Shows bs m held c' (df.applyAll j) ∧ ReplicaReopen.RP C bs m c' (df.applyAll j) held)
        ∨ (C02.Shows bs n (fun j => held j || j == i) c' (df.applyAll j)
            ∧ ReplicaReopen.RP C bs n c' (df.applyAll j) (fun j => held j || j == i))) := by
  intro df
  have hd : df = d.applyAll ((c.verifyAndApply C d (BlockGrow.honestBlockGrowth C bs c d i m n us sig)).journal.take k) := by
    show (withFault d _ k).disk = _
    unfold withFault
    split
    · rfl
    · rw [List.take_of_length_le (by omega)]
  obtain ⟨c', j, r1, r2, _, r4⟩ := C02.replica_blockgrow_crash_atomic C hC hT bs m n c d held h hm0 hmn hn us hup sig hsl hver i hi k
  try simp only [] at r1 r4
  rw [← hd] at r1 r4
  exact ⟨c', j, r1, r2, r4⟩

end HC.C10
