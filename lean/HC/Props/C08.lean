import HC.Proofs.Bitfield
import HC.Props.C02
import HC.Proofs.Replica
import HC.Proofs.ReplicaReopen
/-!
# C08 — has() and contiguous_length are exact

* `has_after_update` : after any range update the held set is exactly the old one with the range set
  (or cleared) — for every index, page and size (no bound on the number of pages).
* `contig_step`      : if the hint equals the first missing index before an update, the hint computed
  by `update_contiguous_length` equals the first missing index after it (set and drop, live and
  replayed — `clear`'s own rule is the drop branch, `clear_rule_eq`).
* `contig_reachable` : hence for every sequence of updates (appends, clears, out-of-order proof
  applications, replays) starting from the empty bitfield the hint is exact.

* `rep_exact`, `writer_exact`, `recovered_exact` : on the model of the whole crate — for a writer core after
  **any** history of appends, clears, reads and close-and-reopen steps, and after recovery from a crash at
  **any** storage operation of a further call (bitfield pages partly flushed, header hint older than the
  pages), `has(i)` is the abstract held set for every `i` and `contiguous_length` is exactly the smallest
  index that is not held (the length if none is missing).

* `replica_exact` : on a **replica**, after first contact and the honest answers for any list of block indices in
  any order (with repetitions), applied by `verify_and_apply_proof`: `has(i)` is true exactly for the fetched
  indices and `contiguous_length` is exactly the smallest index not fetched.

Not covered here (validated by the correspondence run only): replica reopen, that the Rust page/word/mask arithmetic
realises `setRange`, and the page (de)serialisation — see `C08.Full` and the evidence file.
-/
namespace HC.C08
open HC HC.Core HC.Oplog

theorem has_after_update (b : Bitfield) (u : BitfieldUpdate) (i : Nat) :
    (b.setRange u.start u.length (!u.drop)).get i =
      if u.start ≤ i ∧ i < u.start + u.length then !u.drop else b.get i :=
  Bitfield.get_setRange b u.start u.length (!u.drop) i

theorem contig_step (h : Header) (b : Bitfield) (u : BitfieldUpdate)
    (hc : FirstMissing b h.contiguous) (hl : 0 < u.length) :
    FirstMissing (b.setRange u.start u.length (!u.drop))
      (updateContiguous h (b.setRange u.start u.length (!u.drop)) u).contiguous :=
  updateContiguous_spec h b u hc hl

/-- what `clear` does to the hint is what replaying its entry does -/
theorem clear_rule_eq (h : Header) (b : Bitfield) (start len : Nat) :
    (updateContiguous h b ⟨true, start, len⟩).contiguous = if start < h.contiguous then start else h.contiguous := by
  simp [updateContiguous]
  split <;> rfl

/-- state after a sequence of updates: (bitfield, header) -/
def run (us : List BitfieldUpdate) (s : Bitfield × Header) : Bitfield × Header :=
  us.foldl (fun s u => let b := s.1.setRange u.start u.length (!u.drop); (b, updateContiguous s.2 b u)) s

theorem contig_reachable (us : List BitfieldUpdate) (b : Bitfield) (h : Header)
    (hpos : ∀ u ∈ us, 0 < u.length) (h0 : FirstMissing b h.contiguous) :
    FirstMissing (run us (b, h)).1 (run us (b, h)).2.contiguous := by
  induction us generalizing b h with
  | nil => exact h0
  | cons u us ih =>
    simp only [run, List.foldl_cons]
    exact ih _ _ (fun x hx => hpos x (by simp [hx])) (contig_step h b u h0 (hpos u (by simp)))

/-- the empty bitfield with hint 0 is a valid start -/
theorem start_ok (h : Header) (h0 : h.contiguous = 0) : FirstMissing ({} : Bitfield) h.contiguous := by
  rw [h0]; exact ⟨fun i hi => by omega, by simp [Bitfield.get]⟩

/-- non-vacuity: a concrete history (append 3, clear [1,2), append 2, refill 1) -/
example : (run [⟨false, 0, 3⟩, ⟨true, 1, 1⟩, ⟨false, 3, 2⟩, ⟨false, 1, 1⟩] ({}, Header.new [] none)).2.contiguous = 5 := by
  decide

/-- The full statement: for every reachable core, `has i ↔ i < length ∧ held i`, and the reported
    contiguous length is the first missing index, including after crashes and reopens.  The
    theorems above prove the bitfield/hint part for every update sequence; that reopen and crash
    recovery reproduce the same update sequence is part of C01/C02. -/
def Full : Prop :=
  ∀ (us : List BitfieldUpdate), (∀ u ∈ us, 0 < u.length) →
    FirstMissing (run us ({}, Header.new [] none)).1 (run us ({}, Header.new [] none)).2.contiguous

theorem full : Full := fun us hpos => contig_reachable us {} _ hpos (start_ok _ rfl)

/-! ### the whole crate (writer): histories, reopens, crash recovery -/

section Model
open HC.LogSpec HC.LiveRefine HC.TreeStore HC.Persist HC.C01

/-- what the representation invariant says about `has` and the hint -/
theorem rep_exact (C : Crypto) (c : Core) (d : Disk) (a : Abs) (h : Rep C c d a) :
    (∀ i, c.has i = a.held i) ∧ (∀ i, i < c.info.contiguous → a.held i = true) ∧ a.held c.info.contiguous = false
      ∧ c.info.contiguous ≤ a.blocks.size := by
  refine ⟨h.bits, fun i hi => ?_, ?_, contig_le C c d a h⟩
  · rw [← h.bits]; exact h.contig.1 i hi
  · rw [← h.bits]; exact h.contig.2

/-- along every history of a freshly created writer core, with any number of reopen steps -/
theorem writer_exact (C : Crypto) (hC : HashWF C) (hS : SignWF C) (hTw : TreeWF C) (pk sk : Bytes)
    (hpk : pk.length = 32) (hsk : sk.length = 32) (steps : List HStep) (hok : AllOK {} steps) :
    ∃ c j, Core.openCore C (some (pk, some sk)) {} = .ok (c, j) ∧
      (∀ i, (runC' C (c, ({} : Disk).applyAll j) steps).1.1.has i = (runA' {} steps).1.held i)
      ∧ (∀ i, i < (runC' C (c, ({} : Disk).applyAll j) steps).1.1.info.contiguous → (runA' {} steps).1.held i = true)
      ∧ (runA' {} steps).1.held (runC' C (c, ({} : Disk).applyAll j) steps).1.1.info.contiguous = false := by
  obtain ⟨c, j, h1, h2, h3⟩ := init_both C pk sk hpk hsk
  obtain ⟨hrep, _⟩ := C02.history_invariants_reopen C hC hS hTw steps c _ {} _ {} [] h2 h3 hok
  obtain ⟨e1, e2, e3, _⟩ := rep_exact C _ _ _ hrep
  exact ⟨c, j, h1, e1, e2, e3⟩

/-- after recovery from a crash at any storage operation of any further call -/
theorem recovered_exact (C : Crypto) (hC : HashWF C) (hS : SignWF C) (hTw : TreeWF C) (pk sk : Bytes)
    (hpk : pk.length = 32) (hsk : sk.length = 32) (steps : List HStep) (hok : AllOK {} steps) (op : Op)
    (hv : Valid (runA' {} steps).1 op) (hl : Limits (runA' {} steps).1 op) (k : Nat) :
    ∃ c j, Core.openCore C (some (pk, some sk)) {} = .ok (c, j) ∧
      ∃ c' jo, Core.openCore C none (crashDisk C (runC' C (c, ({} : Disk).applyAll j) steps).1 op k) = .ok (c', jo)
        ∧ ∃ a, (a = (runA' {} steps).1 ∨ a = ((runA' {} steps).1.step op).1)
            ∧ (∀ i, c'.has i = a.held i) ∧ (∀ i, i < c'.info.contiguous → a.held i = true) ∧ a.held c'.info.contiguous = false := by
  obtain ⟨c, j, h1, c', jo, h2, h3⟩ := C02.crash_atomic C hC hS hTw pk sk hpk hsk steps hok op hv hl k
  refine ⟨c, j, h1, c', jo, h2, ?_⟩
  rcases h3 with h3 | h3
  · obtain ⟨e1, e2, e3, _⟩ := rep_exact C _ _ _ h3
    exact ⟨_, Or.inl rfl, e1, e2, e3⟩
  · obtain ⟨e1, e2, e3, _⟩ := rep_exact C _ _ _ h3
    exact ⟨_, Or.inr rfl, e1, e2, e3⟩

end Model

/-- **replicas, blocks arriving in any order**: `has` is the set of fetched indices and the hint is the first index
    that was not fetched -/
theorem replica_exact (C : Crypto) (hC : TreeStore.HashWF C) (bs : Array Bytes) (c : Core) (d : Disk)
    (h : Replica.FreshR C bs c d) (h0 : 0 < bs.size) (sig : Bytes) (hsl : sig.length = 64)
    (hver : C.verify c.publicKey (RefTree.signableOf C bs c.tree.fork) sig = true)
    (is : List Nat) (his : ∀ i ∈ is, i < bs.size) :
    let st1 := c.verifyAndApply C d (Replica.honestUpgrade C bs c.tree.fork sig)
    let s2 := Replica.fetch C bs (st1.core, d.applyAll st1.journal) is
    (∀ i, s2.1.has i = is.contains i) ∧ (∀ i, i < s2.1.info.contiguous → i ∈ is) ∧ s2.1.info.contiguous ∉ is := by
  intro st1 s2
  obtain ⟨_, r2, _, _⟩ := Replica.apply_first_upgrade C hC bs c d h h0 sig hsl hver
  obtain ⟨r3, _⟩ := Replica.fetch_repr C hC bs is _ _ _ r2 his
  have hb : ∀ i, s2.1.has i = is.contains i := fun i => by
    have := r3.bits i
    simpa [Core.has] using this
  refine ⟨hb, fun i hi => ?_, ?_⟩
  · have := r3.contig.1 i hi
    have h2 := hb i
    simp only [Core.has] at h2
    rw [this] at h2
    simpa using h2.symm
  · have := r3.contig.2
    have h2 := hb s2.1.info.contiguous
    simp only [Core.has] at h2
    have e : s2.1.info.contiguous = s2.1.header.contiguous := rfl
    rw [e] at h2 ⊢
    rw [this] at h2
    simpa using h2.symm

/-- **replicas across growth rounds, hash requests and restarts**: from creation with the writer's public key, first
    contact, then upgrades, block and hash exchanges and close/reopen in any order — `has` is exactly the set of
    fetched indices (the bitfield survives every restart) and the contiguous hint is the first index not fetched -/
theorem replica_reopen_exact (C : Crypto) (hC : TreeStore.HashWF C) (hT : TreeStore.TreeWF C) (bs : Array Bytes)
    (hs : bs.size < 2 ^ 62 ∧ Offsets.psum bs bs.size < 2 ^ 64) (pk : Bytes) (hpk : pk.length = 32)
    (n₁ : Nat) (h0 : 0 < n₁) (hn : n₁ ≤ bs.size) (sig : Bytes) (hsl : sig.length = 64)
    (hver : C.verify pk (Growth.signableAt C bs n₁ 0) sig = true)
    (acts : List ReplicaReopen.ActR) (hok : HashReq.OkActs C bs pk 0 n₁ (ReplicaReopen.exchanges acts)) :
    ∃ c j, Core.openCore C (some (pk, none)) {} = .ok (c, j) ∧
      let d := ({} : Disk).applyAll j
      let st1 := c.verifyAndApply C d (Growth.honestFirst C bs 0 n₁ sig)
      let s2 := ReplicaReopen.playR C bs (st1.core, d.applyAll st1.journal) acts
      (∀ i, s2.1.has i = HashReq.fetched (ReplicaReopen.exchanges acts) i)
        ∧ (∀ i, i < s2.1.info.contiguous → HashReq.fetched (ReplicaReopen.exchanges acts) i = true)
        ∧ HashReq.fetched (ReplicaReopen.exchanges acts) s2.1.info.contiguous = false := by
  obtain ⟨c, j, e1, e2, e3, e4, e5, e6⟩ := ReplicaReopen.init_replica C pk hpk
  refine ⟨c, j, e1, ?_⟩
  intro d st1 s2
  have hsz := Growth.size_extract bs n₁ hn
  have hfresh := e4 (bs.extract 0 n₁) ⟨by rw [hsz]; omega, by
    rw [hsz, Growth.psum_extract bs n₁ hn n₁ (Nat.le_refl _)]
    have := Offsets.psum_mono bs hn; omega⟩
  have hver' : C.verify c.publicKey (Growth.signableAt C bs n₁ c.tree.fork) sig = true := by rw [e2, e3]; exact hver
  obtain ⟨_, r2, r3, r4⟩ := ReplicaReopen.rp_first C hC hT bs hs n₁ h0 hn c d hfresh ⟨_, _, e5, e6 bs⟩ sig hsl hver'
  rw [e3] at r2 r3 r4
  obtain ⟨q1, _⟩ := ReplicaReopen.playR_rp C hC hT bs pk 0 acts n₁ _ _ _ r2 h0 (by rw [r3, e2]) r4 hok
  have hb : ∀ i, s2.1.has i = HashReq.fetched (ReplicaReopen.exchanges acts) i := fun i => by
    have := q1.rep.bits i
    simpa [Core.has] using this
  refine ⟨hb, fun i hi => ?_, ?_⟩
  · have := q1.rep.contig.1 i hi
    have h2 := hb i
    simp only [Core.has] at h2
    rw [this] at h2
    exact h2.symm
  · have := q1.rep.contig.2
    have h2 := hb s2.1.info.contiguous
    simp only [Core.has] at h2
    have e : s2.1.info.contiguous = s2.1.header.contiguous := rfl
    rw [e] at h2 ⊢
    rw [this] at h2
    exact h2.symm

/-- **replicas across crashes**: in every state reachable from a created replica by first contact, honest exchanges
    (upgrade, block, hash, block + upgrade in one proof), close/reopen steps and crashes at any storage operation of any
    of these applications followed by a reopen (`ReplicaCrash.Reach`, unbounded), `has` is exactly the held set of a
    prefix of the writer's log and the contiguous hint is the first index not held — in particular after a crash between
    the bitfield pages and the header of a flush, where the bitfield store is ahead of the replayed hint -/
theorem replica_crash_exact (C : Crypto) (hC : TreeStore.HashWF C) (hT : TreeStore.TreeWF C) (bs : Array Bytes)
    (hs : bs.size < 2 ^ 62 ∧ Offsets.psum bs bs.size < 2 ^ 64) (pk : Bytes) (hpk : pk.length = 32) :
    ∃ c j, Core.openCore C (some (pk, none)) {} = .ok (c, j) ∧ ReplicaCrash.Reach C bs pk 0 (c, ({} : Disk).applyAll j)
      ∧ ∀ s, ReplicaCrash.Reach C bs pk 0 s →
          ∃ (m : Nat) (held : Nat → Bool), m ≤ bs.size ∧ (∀ i, s.1.has i = held i) ∧ (∀ i, held i = true → i < m)
            ∧ (∀ i, i < s.1.info.contiguous → s.1.has i = true) ∧ s.1.has s.1.info.contiguous = false := by
  obtain ⟨c, j, e1, e2, e3⟩ := C02.replica_survives_crashes C hC hT bs hs pk hpk
  refine ⟨c, j, e1, e2, fun s hs' => ?_⟩
  obtain ⟨m, held, hm, hsh, hrp, _, _⟩ := e3 s hs'
  obtain ⟨_, _, _, _, hhas, hfm⟩ := hsh
  exact ⟨m, held, hm, hhas, hrp.rep.heldLt, fun i hi => by simpa [Core.has] using hfm.1 i hi, by simpa [Core.has] using hfm.2⟩

end HC.C08
