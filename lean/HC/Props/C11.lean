import HC.Proofs.CodecMsgs
/-!
# C11 — wire messages round-trip exactly and match the compact-encoding spec

For each protocol type `T ∈ {Node, RequestBlock, RequestSeek, RequestUpgrade, DataBlock, DataHash,
DataSeek, DataUpgrade}` and every well-formed value (integers `< 2^64`, hashes 32 bytes):

* `T_roundtrip` : `dec (enc v ++ r) = some (v, r)` — decoding yields the original value and
  leaves exactly the bytes that followed (nothing left over when `r = []`);
* `T_size`      : `(enc v).length = size v` — encoding writes exactly the announced number of bytes;
* `T_prefix`    : every strict prefix of `enc v` decodes to an error;
* "compact-encoding of the fields in protocol order" is the *definition* of `enc` in
  `HC/Model/Codec.lean` (written from the compact-encoding spec, compared byte-for-byte with the
  crate by the correspondence run).

No theorem here is bounded: lists of nodes and byte strings have arbitrary length.
-/
namespace HC.C11
open HC.Codec

/-- A decoder/encoder pair satisfies C11 on a value. -/
structure Holds {α : Type} (enc : α → Bytes) (dec : Bytes → Option (α × Bytes)) (size : α → Nat) (v : α) : Prop where
  roundtrip : ∀ r, dec (enc v ++ r) = some (v, r)
  exact : dec (enc v) = some (v, [])
  size : (enc v).length = size v
  strictPrefix : ∀ q s, s ≠ [] → q ++ s = enc v → dec q = none

private theorem mk {α : Type} {enc : α → Bytes} {dec : Bytes → Option (α × Bytes)} {size : α → Nat} {v : α}
    (rt : ∀ r, dec (enc v ++ r) = some (v, r)) (sz : (enc v).length = size v)
    (mono : ∀ q s x r, dec q = some (x, r) → dec (q ++ s) = some (x, r ++ s)) : Holds enc dec size v :=
  have ex : dec (enc v) = some (v, []) := by simpa using rt []
  ⟨rt, ex, sz, fun q s hs h => prefix_none dec (enc v) v ex mono q s hs h⟩

theorem node (v : Node) (h : v.WF) : Holds encNode decNode sizeNode v :=
  mk (decNode_encNode v h) (encNode_length v h) decNode_mono

theorem requestBlock (v : RequestBlock) (h : v.WF) : Holds encRequestBlock decRequestBlock sizeRequestBlock v :=
  mk (decRequestBlock_enc v h) (encRequestBlock_length v) decRequestBlock_mono

theorem requestSeek (v : RequestSeek) (h : v.WF) : Holds encRequestSeek decRequestSeek sizeRequestSeek v :=
  mk (decRequestSeek_enc v h) (encRequestSeek_length v) decRequestSeek_mono

theorem requestUpgrade (v : RequestUpgrade) (h : v.WF) :
    Holds encRequestUpgrade decRequestUpgrade sizeRequestUpgrade v :=
  mk (decRequestUpgrade_enc v h) (encRequestUpgrade_length v) decRequestUpgrade_mono

theorem dataBlock (v : DataBlock) (h : v.WF) : Holds encDataBlock decDataBlock sizeDataBlock v :=
  mk (decDataBlock_enc v h) (encDataBlock_length v h) decDataBlock_mono

theorem dataHash (v : DataHash) (h : v.WF) : Holds encDataHash decDataHash sizeDataHash v :=
  mk (decDataHash_enc v h) (encDataHash_length v h) decDataHash_mono

theorem dataSeek (v : DataSeek) (h : v.WF) : Holds encDataSeek decDataSeek sizeDataSeek v :=
  mk (decDataSeek_enc v h) (encDataSeek_length v h) decDataSeek_mono

theorem dataUpgrade (v : DataUpgrade) (h : v.WF) : Holds encDataUpgrade decDataUpgrade sizeDataUpgrade v :=
  mk (decDataUpgrade_enc v h) (encDataUpgrade_length v h) decDataUpgrade_mono

/-! Non-vacuity: concrete non-trivial values meet the hypotheses, at varint boundaries. -/
example : (⟨65536, 2^64 - 1, List.replicate 32 7⟩ : Node).WF := by decide
example : (⟨253, 2^32, [⟨0, 252, List.replicate 32 1⟩, ⟨2^32 - 1, 65535, List.replicate 32 0⟩], [],
    List.replicate 64 9⟩ : DataUpgrade).WF := by decide
example : (⟨4, [1, 2, 3], [⟨10, 3, List.replicate 32 1⟩]⟩ : DataBlock).WF := by decide

/-! The uint encoding is the compact-encoding varint: spot values at every width (tests, labelled as such). -/
example : encUint 252 = [252] := by decide
example : encUint 253 = [0xfd, 253, 0] := by decide
example : encUint 65536 = [0xfe, 0, 0, 1, 0] := by decide
example : encUint (2^32) = [0xff, 0, 0, 0, 0, 1, 0, 0, 0] := by decide

end HC.C11
