import HC.Proofs.Verify
import HC.Proofs.LiveRefine
/-!
# C13 — replication events announce exactly the state changes that happened

`Step.events` is what the operation hands to the event channel (`Events::send`, in order).

* `append_events`   : a successful non-empty append emits exactly `[upgrade, have ancestors n]`;
* `append_empty`    : an empty batch emits nothing and writes nothing;
* `append_refused`  : an append on a core without secret key emits nothing and writes nothing;
* `get_events`      : a read emits `[get i]` exactly when block `i` is not held, nothing otherwise;
* `clear_events`    : a clear emits nothing;
* `apply_events`    : an accepted proof emits upgrade iff it carried an upgrade, then have(index,1)
  iff it carried a block (`HC.Core.appliedEvents`);
* `refused_events`  : a proof answered `false` emits nothing.

Fan-out ("every subscriber sees the same events in operation order") is a property of
`async-broadcast`, which is modelled: the driver hands each operation's event list to every
attached subscriber; the run compares one to three real receivers, drained after each call.
-/
namespace HC.C13
open HC HC.Core HC.Tree

theorem append_empty (C : Crypto) (c : Core) (seed : Bytes) (h : c.secret = some seed) :
    (c.appendBatch C []).events = [] ∧ (c.appendBatch C []).journal = [] := by
  simp [appendBatch, h]

theorem append_refused (C : Crypto) (c : Core) (batch : List Bytes) (h : c.secret = none) :
    (c.appendBatch C batch).events = [] ∧ (c.appendBatch C batch).journal = [] ∧ (c.appendBatch C batch).core = c := by
  simp [appendBatch, h]

theorem append_events (C : Crypto) (c : Core) (seed : Bytes) (batch : List Bytes) (hs : c.secret = some seed)
    (hne : batch ≠ []) (hok : (c.appendBatch C batch).result.isOk = true) :
    (c.appendBatch C batch).events =
      [Event.upgrade, Event.have ((batch.foldl (Tree.append C) c.tree.changeset).ancestors) ((batch.foldl (Tree.append C) c.tree.changeset).batchLength)] := by
  unfold appendBatch at hok ⊢
  have hb : batch.isEmpty = false := by cases batch <;> simp_all
  simp only [hs, hb] at hok ⊢
  simp only [Bool.false_eq_true, ite_false] at hok ⊢
  split
  · rename_i e he
    rw [he] at hok
    simp [Except.isOk, Except.toBool] at hok
  · simp [hashAndSign]

theorem get_events (c : Core) (d : Disk) (i : Nat) :
    (c.getBlock d i).events = if c.has i then [] else [Event.get i] := by
  unfold getBlock has
  cases hg : c.bitfield.get i with
  | false => simp
  | true =>
    simp only [Bool.not_true, Bool.false_eq_true, ite_false, ite_true]
    split
    · rfl
    · split
      · rfl
      · split <;> rfl

theorem clear_events (c : Core) (d : Disk) (s e : Nat) : (c.clear d s e).events = [] := by
  unfold clear
  by_cases h1 : s ≥ e
  · simp [h1]
  · simp only [h1, ite_false]
    generalize (if s < c.header.contiguous then { c.header with contiguous := s } else c.header) = hdr
    repeat' (first | rfl | split)

theorem apply_events (c : Core) (p : Proof) (cs : Changeset) (j0 : List SOp) (bu : Option Oplog.BitfieldUpdate)
    (h : (applyVerified c p cs j0 bu).result = .ok true) :
    (applyVerified c p cs j0 bu).events = appliedEvents p bu := by
  unfold applyVerified at h ⊢
  exact finishApply_events _ _ _ _ _ _ _ _ h

theorem refused_events (C : Crypto) (c : Core) (d : Disk) (p : Proof)
    (h : (c.verifyAndApply C d p).result = .ok false) : (c.verifyAndApply C d p).events = [] :=
  (apply_false_noop C c d p h).2.2

/-- the indices a list of events announces as available -/
def announced (evs : List Event) (i : Nat) : Bool :=
  evs.any fun e => match e with
    | .have s l => decide (s ≤ i ∧ i < s + l)
    | _ => false

theorem maybeFlush_bits (c : Core) (i : Nat) : c.maybeFlush.1.bitfield.get i = c.bitfield.get i := by
  rw [LiveRefine.maybeFlush_eq]
  split
  · simp [Core.flushAll, Bitfield.flush, Bitfield.get]
  · rfl

/-- **the announced ranges are exactly the blocks that became available (proofs)**: after an accepted proof a block is
    held iff it was held before or a `have` event of this call announces it — and every announced block is held -/
theorem apply_announces (C : Crypto) (c : Core) (d : Disk) (p : Proof)
    (h : (c.verifyAndApply C d p).result = .ok true) (i : Nat) :
    (c.verifyAndApply C d p).core.bitfield.get i = (c.bitfield.get i || announced (c.verifyAndApply C d p).events i) := by
  unfold Core.verifyAndApply at h ⊢
  by_cases hf : p.fork ≠ c.tree.fork
  · simp [hf] at h
  · simp only [hf, ite_false] at h ⊢
    cases hv : c.tree.verifyProof C d.tree p c.publicKey with
    | error e => simp [hv] at h
    | ok cs =>
      simp only [hv] at h ⊢
      by_cases hc : c.tree.commitable cs = true
      swap
      · simp [hc] at h
      simp only [hc, Bool.not_true, Bool.false_eq_true, ite_false] at h ⊢
      cases hd : Core.dataStep c d p cs with
      | error e => simp [hd] at h
      | ok pr =>
        obtain ⟨j0, bu⟩ := pr
        simp only [hd] at h ⊢
        by_cases he : Core.encodable cs = true
        swap
        · simp [he] at h
        simp only [he, ite_true] at h ⊢
        unfold Core.applyVerified at h ⊢
        simp only [] at h ⊢
        cases hcm : c.tree.commit cs with
        | error e => simp [hcm, Core.finishApply] at h
        | ok tr =>
          simp only [Core.finishApply]
          rw [maybeFlush_bits]
          cases bu with
          | none =>
            cases p.upgrade <;> simp [Core.appliedEvents, announced]
          | some u =>
            simp only [Core.appliedEvents, announced]
            rw [Bitfield.get_setRange]
            cases p.upgrade <;> simp <;> exact Bool.or_comm _ _

/-- … and for appends: after a successful append a block is held iff it was held before or the call's `have` event
    announces it -/
theorem append_announces (C : Crypto) (c : Core) (seed : Bytes) (batch : List Bytes) (hs : c.secret = some seed) (hne : batch ≠ [])
    (hok : ∃ o, (c.appendBatch C batch).result = .ok o) (i : Nat) :
    (c.appendBatch C batch).core.bitfield.get i = (c.bitfield.get i || announced (c.appendBatch C batch).events i) := by
  obtain ⟨o, hok⟩ := hok
  have hne' : batch.isEmpty = false := by cases batch with | nil => exact absurd rfl hne | cons a l => rfl
  unfold Core.appendBatch at hok ⊢
  simp only [hs, hne', Bool.false_eq_true, ite_false] at hok ⊢
  cases hcm : c.tree.commit (Tree.hashAndSign C (batch.foldl (Tree.append C) c.tree.changeset) seed) with
  | error e => simp [hcm] at hok
  | ok tr =>
    simp only []
    rw [maybeFlush_bits]
    simp only [announced, List.any_cons, List.any_nil, Bool.or_false, Bool.false_or]
    rw [Bitfield.get_setRange]
    split <;> simp_all

end HC.C13
