import HC.Proofs.Layout
import HC.Proofs.Bitfield
import HC.Proofs.OplogBytes
import HC.Proofs.BitfieldPages
import HC.Props.C02
/-!
# C06 — storage files are readable and writable per the JavaScript on-disk layout

`HC.Oplog.slot`, `HC.Oplog.entryRegion` and `HC.Oplog.frame` *are* the JavaScript layout (two
checksummed 4096-byte header slots, checksummed flag-encoded entries from byte 8192 carrying the
current header bit); `HC.Oplog.openLog` is the reader (`Oplog::open`).

* `frame`            : the leader round trip for every payload of 1 … 2^30−1 bytes, whatever follows;
* `entries_read_back`: an entry region of any length is read back entry by entry with its partial
  flags and its exact byte length, and reading stops at stale (other header bit) or invalid data;
* `read_write`       : a file with both header slots valid is opened to: bits = the two header bits,
  header = slot 0 iff the bits are equal, entries = those of the region minus trailing partial ones,
  bookkeeping = entry count and byte length of the region — for every well-formed header pair, every
  entry list (any flag combination), every tail;
* `header_round_trip`, `entry_round_trip`: the payload encodings.

* `read_any_slots`   : the same for **any** combination of valid and invalid header slots (either slot may
  fail `validate_leader`; a slot is "a header frame followed by anything"), any frames after them with any
  header bits and partial flags, and a tail that is no frame: the result is exactly the JavaScript reader's
  rule `Rotation.Log.open` (newest header = slot 1 iff the bits differ, single-slot bit rules, entries
  while they carry the current bit, trailing partial ones dropped), and whatever follows the entries read
  is cut off;
* `bitfield_pages`   : the bitfield store is read as 4096-byte little-endian pages: bit `i` is bit `i % 8` of
  byte `i / 8`, for every index.

* `node_slot`, `node_slot_inv` : the tree store holds node `i` in the 40 bytes at `40·i` as 8-byte little-endian
  size ‖ 32-byte hash; a slot is the encoding of the node it decodes to;
* `history_stores`   : on the model of the whole crate, after any history of calls and reopen steps: every
  reference node below the length is found at its slot (or still unflushed in memory), and every held block's
  bytes sit in the data store at the sum of the sizes of the blocks before it (the JavaScript data layout).

The hashes of the five-step interoperability
scenario are covered by the run: every dump of every history is read back by this reader in Lean and
compared with what the crate's API reports; the scenario's SHA-256 hashes (computed by the harness on
the real files and by Lean on the model's files) are compared with the constants certified against
the JavaScript implementation in `tests/js_interop.rs`; storages re-encoded in other JS-valid forms
(header in either slot only, stale entries, trailing garbage, trailing partial entries) are opened.
-/
namespace HC.C06
open HC HC.Oplog HC.Codec

theorem frame (payload rest : Bytes) (hb pb : Bool) (h0 : 0 < payload.length) (h30 : payload.length < 2 ^ 30) :
    validateLeader (Oplog.frame payload hb pb ++ rest) = some ⟨hb, pb, payload.length, payload ++ rest⟩ :=
  validateLeader_frame payload rest hb pb h0 h30

theorem header_round_trip (h : Header) (wf : h.WF) (rest : Bytes) : decHeader (encHeader h ++ rest) = .ok (h, rest) :=
  decHeader_enc h wf rest

theorem entry_round_trip (e : Entry) (wf : e.WF) (rest : Bytes) : decEntry (encEntry e ++ rest) = some (e, rest) :=
  decEntry_enc e wf rest

theorem entries_read_back (bit : Bool) (es : List (Entry × Bool)) (tail : Bytes)
    (wf : ∀ p ∈ es, p.1.WF ∧ (encEntry p.1).length < 2 ^ 30)
    (htail : validateLeader tail = none ∨ ∃ l, validateLeader tail = some l ∧ l.headerBit ≠ bit)
    (fuel : Nat) (hfuel : es.length < fuel) :
    readEntries bit fuel (entryRegion es bit ++ tail) = .ok (es, (entryRegion es bit).length) :=
  readEntries_region bit es tail wf htail fuel hfuel

theorem read_write (h0 h1 : Header) (b0 b1 : Bool) (es : List (Entry × Bool)) (tail : Bytes)
    (w0 : h0.WF) (w1 : h1.WF) (f0 : Fits h0) (f1 : Fits h1)
    (wf : ∀ p ∈ es, p.1.WF ∧ (encEntry p.1).length < 2 ^ 30)
    (htail : validateLeader tail = none ∨ ∃ l, validateLeader tail = some l ∧ l.headerBit ≠ Spec.currentBit b0 b1)
    (hne : es ≠ [] ∨ tail ≠ []) :
    openLog none (slot h0 b0 ++ slot h1 b1 ++ (entryRegion es (Spec.currentBit b0 b1) ++ tail)) =
      .ok ⟨{ bits := (b0, b1), entriesLength := es.length,
              entriesByteLength := (entryRegion es (Spec.currentBit b0 b1)).length },
            (if b0 == b1 then h0 else h1),
            (if tail.length > 0 then [.trunc .oplog (Spec.entriesOffset + (entryRegion es (Spec.currentBit b0 b1)).length)] else []),
            (dropTrailingPartial es).map (·.1)⟩ :=
  open_both_slots h0 h1 b0 b1 es tail w0 w1 f0 f1 wf htail hne

/-- bitfield pages: the held set after a range update is exact for every index -/
theorem bitfield_exact (b : Bitfield) (start len : Nat) (v : Bool) (i : Nat) :
    (b.setRange start len v).get i = if start ≤ i ∧ i < start + len then v else b.get i :=
  Bitfield.get_setRange b start len v i

/-- `Oplog::open` on any two slots (valid or not), any frames, any tail that is no frame: the reader's rule -/
theorem read_any_slots (s0 s1 : Bytes) (c0 c1 : Option (Bool × Header)) (fs : List (Rotation.Frame Entry))
    (l0 : s0.length = Spec.headerSize) (l1 : s1.length = Spec.headerSize)
    (h0 : OplogBytes.SlotIs s0 c0) (h1 : OplogBytes.SlotIs s1 c1) (hok : ∀ f ∈ fs, OplogBytes.EntryOK f.entry)
    (bits : Rotation.Bits) (h : Header) (es : List Entry)
    (hopen : (⟨c0, c1, fs⟩ : Rotation.Log Header Entry).open = some (bits, h, es))
    (tail : Bytes) (htail : validateLeader tail = none) :
    ∃ ost, openLog none (s0 ++ s1 ++ (OplogBytes.framesBytes fs ++ tail)) = .ok ⟨ost, h, OplogBytes.truncOpsT bits.cur fs tail.length, es⟩
      ∧ ost.bits = (bits.b0, bits.b1) ∧ ost.entriesByteLength = (OplogBytes.framesBytes (Rotation.takeBit bits.cur fs)).length :=
  OplogBytes.openLog_abs_tail s0 s1 c0 c1 fs l0 l1 h0 h1 hok bits h es hopen tail htail

/-- non-vacuity: a file whose first slot is invalid and whose second slot holds a header is within `read_any_slots` -/
example (hdr : Header) : (⟨none, some (true, hdr), []⟩ : Rotation.Log Header Entry).open = some (⟨false, true⟩, hdr, []) := by
  simp [Rotation.Log.open, Rotation.seen, Rotation.takeBit, Rotation.dropTrailingPartial]

/-- the bitfield store as little-endian pages -/
theorem bitfield_pages (f : File) (i : Nat) :
    (Bitfield.ofFile f).get i = (decide (i < (f.size - f.size % 4) * 8) && decide ((f.byte (i / 8)).toNat / 2 ^ (i % 8) % 2 = 1)) :=
  BitfieldPages.ofFile_get f i

/-- a tree-store slot: 8-byte little-endian size, then the 32-byte hash -/
theorem node_slot (n : Codec.Node) (h : n.length < 2 ^ 64) : HC.nodeOfBytes n.index (HC.nodeBytes n) = n :=
  TreeStore.nodeOfBytes_nodeBytes n h

theorem node_slot_inv (i : Nat) (bs : Bytes) (h : bs.length = 40) : HC.nodeBytes (HC.nodeOfBytes i bs) = bs :=
  TreeStore.nodeBytes_nodeOfBytes i bs h

section Model
open HC.LogSpec HC.LiveRefine HC.TreeStore HC.Persist HC.C01 HC.Offsets

/-- the tree and data stores along every history of a freshly created writer core -/
theorem history_stores (C : Crypto) (hC : HashWF C) (hS : SignWF C) (hTw : TreeWF C) (pk sk : Bytes)
    (hpk : pk.length = 32) (hsk : sk.length = 32) (steps : List HStep) (hok : AllOK {} steps) :
    ∃ c j, Core.openCore C (some (pk, some sk)) {} = .ok (c, j) ∧
      (∀ dd o, (o + 1) * 2 ^ dd ≤ (runA' {} steps).1.blocks.size →
          (runC' C (c, ({} : Disk).applyAll j) steps).1.1.tree.node? (runC' C (c, ({} : Disk).applyAll j) steps).1.2.tree (Flat.index dd o)
            = some (RefTree.nodeAt C (runA' {} steps).1.blocks dd o))
      ∧ (∀ i, (runA' {} steps).1.held i = true → ∀ k, k < sz (runA' {} steps).1.blocks i →
          psum (runA' {} steps).1.blocks i + k < (runC' C (c, ({} : Disk).applyAll j) steps).1.2.data.size
            ∧ (runC' C (c, ({} : Disk).applyAll j) steps).1.2.data.byte (psum (runA' {} steps).1.blocks i + k)
                = ((runA' {} steps).1.blocks.getD i []).getD k 0) := by
  obtain ⟨c, j, h1, h2, h3⟩ := init_both C pk sk hpk hsk
  obtain ⟨hrep, _⟩ := C02.history_invariants_reopen C hC hS hTw steps c _ {} _ {} [] h2 h3 hok
  exact ⟨c, j, h1, hrep.nodes, hrep.data⟩

end Model

end HC.C06
