import HC.Proofs.Verify
/-!
# C04 — forged or altered proofs never change what a replica believes

Proved (for every crypto record, every core, every disk, **every** proof):

* `refuse_fork`      : a proof for another fork is answered `false`; nothing is written, the core is
  unchanged, no event is emitted;
* `refuse_invalid`   : a proof that fails verification (bad hash path, bad signature, wrong node
  order, …) is answered with an error; nothing is written, the core is unchanged, no event;
* `refuse_noop`      : whenever the answer is `false`, the journal is empty and the core unchanged;
* `refuse_before_commit` : an error while locating the block's byte offset also changes nothing.

Partial (`sound_partial` is `refuse_noop`; the full `Sound` statement is below): that an *accepted*
proof only installs nodes/blocks/lengths the writer signed, up to an explicit hash collision or
signature forgery, is not proved yet.  It is checked on the implementation by the alteration run:
after every accepted proof every held block must equal the writer's and (length, byte length) must be
a prefix sum of the writer's log; refused proofs must leave all observations unchanged.
-/
namespace HC.C04
open HC HC.Core HC.Tree

theorem refuse_fork (C : Crypto) (c : Core) (d : Disk) (p : Proof) (h : p.fork ≠ c.tree.fork) :
    (c.verifyAndApply C d p).result = .ok false ∧ (c.verifyAndApply C d p).journal = []
      ∧ (c.verifyAndApply C d p).core = c ∧ (c.verifyAndApply C d p).events = [] :=
  apply_fork_mismatch C c d p h

theorem refuse_invalid (C : Crypto) (c : Core) (d : Disk) (p : Proof) (e : Fail)
    (h : c.tree.verifyProof C d.tree p c.publicKey = .error e) :
    (c.verifyAndApply C d p).result = (if p.fork ≠ c.tree.fork then .ok false else .error e)
      ∧ (c.verifyAndApply C d p).journal = [] ∧ (c.verifyAndApply C d p).core = c
      ∧ (c.verifyAndApply C d p).events = [] :=
  apply_verify_error C c d p e h

theorem refuse_noop (C : Crypto) (c : Core) (d : Disk) (p : Proof)
    (h : (c.verifyAndApply C d p).result = .ok false) :
    (c.verifyAndApply C d p).journal = [] ∧ (c.verifyAndApply C d p).core = c ∧ (c.verifyAndApply C d p).events = [] :=
  apply_false_noop C c d p h

theorem refuse_before_commit (C : Crypto) (c : Core) (d : Disk) (p : Proof) (cs : Changeset) (e : Fail)
    (hf : p.fork = c.tree.fork) (hv : c.tree.verifyProof C d.tree p c.publicKey = .ok cs)
    (hc : c.tree.commitable cs = true) (hd : dataStep c d p cs = .error e) :
    (c.verifyAndApply C d p).result = .error e ∧ (c.verifyAndApply C d p).journal = []
      ∧ (c.verifyAndApply C d p).core = c :=
  apply_dataStep_error C c d p cs e hf hv hc hd

end HC.C04
