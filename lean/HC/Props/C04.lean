import HC.Proofs.Verify
import HC.Proofs.Sound
import HC.Proofs.UpgradeSound
import HC.Proofs.UpgradeBytes
import HC.Proofs.SeekSound
import HC.Proofs.HashUpgradeSound
/-!
# C04 — forged or altered proofs never change what a replica believes

Proved (for every crypto record, every core, every disk, **every** proof):

* `refuse_fork`      : a proof for another fork is answered `false`; nothing is written, the core is
  unchanged, no event is emitted;
* `refuse_invalid`   : a proof that fails verification (bad hash path, bad signature, wrong node
  order, …) is answered with an error; nothing is written, the core is unchanged, no event;
* `refuse_noop`      : whenever the answer is `false`, the journal is empty and the core unchanged;
* `refuse_before_commit` : an error while locating the block's byte offset also changes nothing.

Soundness of acceptance, for every crypto record, as reductions to explicit collisions / forgeries:

* `sound_block`   : a proof carrying only a block section that passes `verify_proof` on a replica whose
  stored nodes are authentic delivers the writer's block, and every sibling node it carries is the
  reference node (index, size, hash) — or the run exhibits a collision of `leaf` or `parent`;
* `sound_upgrade` : whenever `verify_upgrade` accepts, under "the key verifies only what the writer
  signed" and "the writer signs only (reference roots of a prefix of its log, that length, its fork)",
  the adopted length is a signed length, the fork is the writer's and the adopted roots are exactly the
  reference roots of that length — or the run exhibits a collision of the root-list hash;
* `path_sound`    : the underlying statement about the hash climb for any start node (also covers
  hash-only sections: everything but the start node's own size is authenticated).

* `sound_first_contact` : the combination for the first proof a replica ever receives — a block **together
  with an upgrade from length 0** (no seek section, no additional nodes) on a replica without roots: if
  `verify_proof` accepts, the block is the writer's block, or the run exhibits a collision of `leaf`,
  `parent` or the root-list hash.  The proof shows that `verify_upgrade` walks positions that depend on the
  claimed length only (`UpgradeSound.fullRoot_canon`: canonical, aligned iterators), that nothing merges on
  the way, and that the root the block section climbed to is therefore *one of the adopted roots*, whose
  hashes the signature covers.

* `sound_first_contact_extra`, `sound_block_upgrade` : the same with additional nodes, and on **any** honest
  replica (its own roots sit at tree positions), including the `grow` branch of `verify_upgrade` where the
  replica's last roots are merged upwards into a larger signed root and the block's root may be consumed on
  the way: authenticity flows backwards from the signed roots through every merge (`mergeLoop_back`).

* `sound_upgrade_bytes` : the adopted length and byte length are signed ones (the byte length a replica keeps is
  the sum of its roots' sizes, an invariant of everything `verify_proof` does).

Partial (`sound_partial`): the seek section and hash sections next to an upgrade are not yet covered by theorems; the
alteration run checks them on the implementation (after every accepted proof every held block must
equal the writer's and (length, byte length) must be a prefix sum of the writer's log; refused proofs
must leave all observations unchanged).
-/
namespace HC.C04
open HC HC.Core HC.Tree

theorem refuse_fork (C : Crypto) (c : Core) (d : Disk) (p : Proof) (h : p.fork ≠ c.tree.fork) :
    (c.verifyAndApply C d p).result = .ok false ∧ (c.verifyAndApply C d p).journal = []
      ∧ (c.verifyAndApply C d p).core = c ∧ (c.verifyAndApply C d p).events = [] :=
  apply_fork_mismatch C c d p h

theorem refuse_invalid (C : Crypto) (c : Core) (d : Disk) (p : Proof) (e : Fail)
    (h : c.tree.verifyProof C d.tree p c.publicKey = .error e) :
    (c.verifyAndApply C d p).result = (if p.fork ≠ c.tree.fork then .ok false else .error e)
      ∧ (c.verifyAndApply C d p).journal = [] ∧ (c.verifyAndApply C d p).core = c
      ∧ (c.verifyAndApply C d p).events = [] :=
  apply_verify_error C c d p e h

theorem refuse_noop (C : Crypto) (c : Core) (d : Disk) (p : Proof)
    (h : (c.verifyAndApply C d p).result = .ok false) :
    (c.verifyAndApply C d p).journal = [] ∧ (c.verifyAndApply C d p).core = c ∧ (c.verifyAndApply C d p).events = [] :=
  apply_false_noop C c d p h

theorem refuse_before_commit (C : Crypto) (c : Core) (d : Disk) (p : Proof) (cs : Changeset) (e : Fail)
    (hf : p.fork = c.tree.fork) (hv : c.tree.verifyProof C d.tree p c.publicKey = .ok cs)
    (hc : c.tree.commitable cs = true) (hd : dataStep c d p cs = .error e) :
    (c.verifyAndApply C d p).result = .error e ∧ (c.verifyAndApply C d p).journal = []
      ∧ (c.verifyAndApply C d p).core = c :=
  apply_dataStep_error C c d p cs e hf hv hc hd

theorem sound_block (C : Crypto) (bs : Array Bytes) (t : Tree) (f : File) (pk : Bytes) (p : Proof) (b : Codec.DataBlock)
    (cs : Changeset) (hb : p.block = some b) (hs : p.seek = none) (hu : p.upgrade = none)
    (hauth : Sound.StoreAuthentic C bs t f) (hv : t.verifyProof C f p pk = .ok cs) :
    Sound.Collision C ∨ (b.value = bs.getD b.index [] ∧ ∀ n ∈ b.nodes, ∃ dn on, n = RefTree.nodeAt C bs dn on) :=
  Sound.block_proof_sound C bs t f pk p b cs hb hs hu hauth hv

theorem sound_upgrade (C : Crypto) (bs : Array Bytes) (wfork : Nat) (Signed : Bytes → Prop)
    (fork : Nat) (u : Codec.DataUpgrade) (blockRoot : Option Codec.Node) (pk : Bytes) (cs cs' : Changeset) (consumed : Bool)
    (hunf : ∀ m sig, C.verify pk m sig = true → Signed m)
    (hsig : ∀ m, Signed m → ∃ n, n ≤ bs.size ∧ m = RefTree.signableOf C (bs.extract 0 n) wfork)
    (hlen : ∀ x, (C.tree x).length = 32) (hsize : bs.size < 2 ^ 64) (hwf : wfork < 2 ^ 64)
    (hb1 : cs'.length < 2 ^ 64) (hb2 : fork < 2 ^ 64)
    (h : verifyUpgrade C fork u blockRoot pk cs = .ok (consumed, cs')) :
    Sound.TreeCollision C ∨ (cs'.length ≤ bs.size ∧ fork = wfork
      ∧ cs'.roots.map (fun n => (n.hash, n.index, n.length)) =
          (RefTree.roots C (bs.extract 0 cs'.length)).map (fun n => (n.hash, n.index, n.length))) :=
  Sound.upgrade_sound C bs wfork Signed fork u blockRoot pk cs cs' consumed hunf hsig hlen hsize hwf hb1 hb2 h

theorem path_sound (C : Crypto) (bs : Array Bytes) (nodes : List Codec.Node) (fuel d o : Nat) (cur : Codec.Node)
    (rn : List Codec.Node) (root : Codec.Node) (rn' : List Codec.Node)
    (h : climb C fuel (Sound.plainQueue nodes) (RefProof.iat d o) cur rn = .ok (root, rn'))
    (hc : cur.index = Flat.index d o) :
    root.index = Flat.index (d + nodes.length) (o / 2 ^ nodes.length) ∧
      (root.hash = (RefTree.node C bs (d + nodes.length) (o / 2 ^ nodes.length)).2 →
        Sound.Collision C ∨
          (cur.hash = (RefTree.node C bs d o).2 ∧
            (cur.length = (RefTree.node C bs d o).1 →
              root.length = (RefTree.node C bs (d + nodes.length) (o / 2 ^ nodes.length)).1 ∧
              ∀ n ∈ nodes, ∃ dn on, n = RefTree.nodeAt C bs dn on))) :=
  Sound.climb_sound C bs nodes fuel d o cur rn root rn' h hc

/-- first contact: block + upgrade on a replica without roots -/
theorem sound_first_contact (C : Crypto) (bs : Array Bytes) (wfork : Nat) (Signed : Bytes → Prop)
    (t : Tree) (f : File) (pk : Bytes) (p : Proof) (b : Codec.DataBlock) (u : Codec.DataUpgrade) (cs' : Changeset)
    (hb : p.block = some b) (hs : p.seek = none) (hu : p.upgrade = some u) (hadd : u.additionalNodes = [])
    (hfresh : t.changeset.roots = [])
    (hunf : ∀ m sig, C.verify pk m sig = true → Signed m)
    (hsig : ∀ m, Signed m → ∃ n, n ≤ bs.size ∧ m = RefTree.signableOf C (bs.extract 0 n) wfork)
    (hlen : ∀ x, (C.tree x).length = 32) (hsize : bs.size < 2 ^ 64) (hwf : wfork < 2 ^ 64)
    (hb1 : cs'.length < 2 ^ 64) (hb2 : p.fork < 2 ^ 64) (hT : u.start + u.length < 2 ^ 64)
    (hauth : Sound.StoreAuthentic C bs t f)
    (hv : t.verifyProof C f p pk = .ok cs') :
    Sound.Collision C ∨ Sound.TreeCollision C ∨ b.value = bs.getD b.index [] :=
  UpgradeSound.first_contact_sound C bs wfork Signed t f pk p b u cs' hb hs hu hadd hfresh hunf hsig hlen hsize hwf hb1 hb2 hT hauth hv

/-- … and with additional nodes (a partial upgrade from 0, completed by the writer up to its own length): the
    block is the writer's block at that index within the adopted length -/
theorem sound_first_contact_extra (C : Crypto) (bs : Array Bytes) (wfork : Nat) (Signed : Bytes → Prop)
    (t : Tree) (f : File) (pk : Bytes) (p : Proof) (b : Codec.DataBlock) (u : Codec.DataUpgrade) (cs' : Changeset)
    (hb : p.block = some b) (hs : p.seek = none) (hu : p.upgrade = some u)
    (hfresh : t.changeset.roots = [])
    (hunf : ∀ m sig, C.verify pk m sig = true → Signed m)
    (hsig : ∀ m, Signed m → ∃ n, n ≤ bs.size ∧ m = RefTree.signableOf C (bs.extract 0 n) wfork)
    (hlen : ∀ x, (C.tree x).length = 32) (hsize : bs.size < 2 ^ 64) (hwf : wfork < 2 ^ 64)
    (hb1 : cs'.length < 2 ^ 64) (hb2 : p.fork < 2 ^ 64) (hT : u.start + u.length < 2 ^ 64)
    (hauth : Sound.StoreAuthentic C bs t f)
    (hv : t.verifyProof C f p pk = .ok cs') :
    Sound.Collision C ∨ Sound.TreeCollision C ∨ b.value = bs.getD b.index [] ∨ b.value = (bs.extract 0 cs'.length).getD b.index [] :=
  UpgradeSound.first_contact_sound_extra C bs wfork Signed t f pk p b u cs' hb hs hu hfresh hunf hsig hlen hsize hwf hb1 hb2 hT hauth hv

/-- **block + upgrade on any honest replica**, including the `grow` branch: the replica's last roots are merged
    upwards into a larger signed root, and the block's root may be one of the nodes consumed on the way -/
theorem sound_block_upgrade (C : Crypto) (bs : Array Bytes) (wfork : Nat) (Signed : Bytes → Prop)
    (t : Tree) (f : File) (pk : Bytes) (p : Proof) (b : Codec.DataBlock) (u : Codec.DataUpgrade) (cs' : Changeset)
    (hb : p.block = some b) (hs : p.seek = none) (hu : p.upgrade = some u)
    (hcanon : ∀ l, t.changeset.roots.getLast? = some l → ∃ d o, l.index = Flat.index d o ∧ d ≤ 64)
    (hunf : ∀ m sig, C.verify pk m sig = true → Signed m)
    (hsig : ∀ m, Signed m → ∃ n, n ≤ bs.size ∧ m = RefTree.signableOf C (bs.extract 0 n) wfork)
    (hlen : ∀ x, (C.tree x).length = 32) (hsize : bs.size < 2 ^ 64) (hwf : wfork < 2 ^ 64)
    (hb1 : cs'.length < 2 ^ 64) (hb2 : p.fork < 2 ^ 64) (hT : u.start + u.length < 2 ^ 64)
    (hauth : Sound.StoreAuthentic C bs t f)
    (hv : t.verifyProof C f p pk = .ok cs') :
    Sound.Collision C ∨ Sound.TreeCollision C ∨ b.value = bs.getD b.index [] ∨ b.value = (bs.extract 0 cs'.length).getD b.index [] :=
  UpgradeSound.block_upgrade_sound C bs wfork Signed t f pk p b u cs' hb hs hu hcanon hunf hsig hlen hsize hwf hb1 hb2 hT hauth hv

/-- the adopted length and byte length are signed ones: on a replica whose byte length is the sum of its roots'
    sizes, an accepted upgrade adopts a length `L` the writer signed and, as byte length, the total size of the
    first `L` blocks of the writer's log -/
theorem sound_upgrade_bytes (C : Crypto) (bs : Array Bytes) (wfork : Nat) (Signed : Bytes → Prop)
    (fork : Nat) (u : Codec.DataUpgrade) (blockRoot : Option Codec.Node) (pk : Bytes) (cs cs' : Changeset) (consumed : Bool)
    (hunf : ∀ m sig, C.verify pk m sig = true → Signed m)
    (hsig : ∀ m, Signed m → ∃ n, n ≤ bs.size ∧ m = RefTree.signableOf C (bs.extract 0 n) wfork)
    (hlen : ∀ x, (C.tree x).length = 32) (hsize : bs.size < 2 ^ 64) (hwf : wfork < 2 ^ 64)
    (hb1 : cs'.length < 2 ^ 64) (hb2 : fork < 2 ^ 64) (hsum : UpgradeBytes.SumOK cs)
    (h : verifyUpgrade C fork u blockRoot pk cs = .ok (consumed, cs')) :
    Sound.TreeCollision C ∨ (cs'.length ≤ bs.size ∧ cs'.byteLength = LogSpec.totalBytes (bs.extract 0 cs'.length)) :=
  UpgradeBytes.upgrade_bytes_sound C bs wfork Signed fork u blockRoot pk cs cs' consumed hunf hsig hlen hsize hwf hb1 hb2 hsum h

/-- non-vacuity of `SumOK`: it holds for every changeset that satisfies the reference-roots invariant -/
example (C : Crypto) (bsn : Array Bytes) (cs : Changeset) (h : RefProof.RootsOK C bsn cs) : UpgradeBytes.SumOK cs := by
  unfold UpgradeBytes.SumOK
  rw [h.bytes, Reopen.roots_of_rootsOK C bsn cs h]
  exact (Reopen.refRoots_sum C bsn).symm

/-- non-vacuity of `hcanon`: the roots of a tree that satisfies the reference-roots invariant sit at tree positions
    of depth below 64 -/
example (C : Crypto) (bsn : Array Bytes) (cs : Changeset) (h : RefProof.RootsOK C bsn cs) (hn : bsn.size < 2 ^ 64) :
    ∀ l, cs.roots.getLast? = some l → ∃ d o, l.index = Flat.index d o ∧ d ≤ 64 := by
  intro l hl
  have hmem : l ∈ cs.roots := List.mem_of_getLast? hl
  have hr := congrArg List.reverse h.roots
  simp only [List.reverse_reverse] at hr
  rw [hr] at hmem
  simp only [List.mem_reverse, List.mem_map] at hmem
  obtain ⟨pos, hpos, rfl⟩ := hmem
  refine ⟨pos.1, pos.2, rfl, ?_⟩
  have hb := RefProof.rootsStack_bound _ pos hpos
  by_cases hle : pos.1 ≤ 64
  · exact hle
  · exfalso
    have h1 : 2 ^ 64 ≤ 2 ^ pos.1 := Nat.pow_le_pow_right (by decide) (by omega)
    have h2 : 1 * 2 ^ pos.1 ≤ (pos.2 + 1) * 2 ^ pos.1 := Nat.mul_le_mul_right _ (by omega)
    omega

/-- non-vacuity: an empty tree has no roots and an empty store is trivially authentic -/
example (C : Crypto) (bs : Array Bytes) : ({} : Tree).changeset.roots = [] ∧ Sound.StoreAuthentic C bs {} File.empty := by
  refine ⟨rfl, ?_⟩
  intro d o n h
  have h40 : 0 < Spec.nodeSize := by decide
  simp [Tree.node?, File.read, File.empty, File.size, h40] at h

/-- **hash-only proofs** (no block, no seek, no upgrade): what an accepted proof stores is the writer's — the requested
    node carries the writer's hash, and if its size is the writer's, every other node of the section is the writer's node
    (index, size, hash).  The sizes of the two bottom nodes are only authenticated as a sum: the one alteration C04's
    quantifier excludes. -/
theorem sound_hash (C : Crypto) (bs : Array Bytes) (t : Tree) (f : File) (pk : Bytes) (p : Proof) (hsec : Codec.DataHash)
    (cs : Changeset) (hb : p.block = none) (hh : p.hash = some hsec) (hs : p.seek = none) (hu : p.upgrade = none)
    (hcan : hsec.index < 2 ^ 64) (hauth : Sound.StoreAuthentic C bs t f) (hv : t.verifyProof C f p pk = .ok cs) :
    Sound.Collision C ∨ ∃ n0 rest d o, hsec.nodes = n0 :: rest ∧ hsec.index = Flat.index d o ∧ n0.index = hsec.index
      ∧ n0.hash = (RefTree.node C bs d o).2
      ∧ (n0.length = (RefTree.node C bs d o).1 → ∀ n ∈ rest, ∃ dn on, n = RefTree.nodeAt C bs dn on) :=
  SeekSound.hash_proof_sound C bs t f pk p hsec cs hb hh hs hu (CreateTotal.canon_of_lt _ (by omega)) hauth hv

/-- **block + seek proofs** (no upgrade): the block is the writer's, every node of the block section is the writer's,
    and the seek section is authenticated through its root, which the block climb must consume as a sibling before it
    ends: its bottom node carries the writer's hash, and if that node's size is the writer's, every node of the seek
    section is the writer's node. -/
theorem sound_block_seek (C : Crypto) (bs : Array Bytes) (t : Tree) (f : File) (pk : Bytes) (p : Proof) (b : Codec.DataBlock) (s : Codec.DataSeek)
    (n0 : Codec.Node) (srest : List Codec.Node) (cs : Changeset) (hb : p.block = some b) (hs : p.seek = some s) (hsn : s.nodes = n0 :: srest)
    (hu : p.upgrade = none) (hcan : n0.index < 2 ^ 64) (hauth : Sound.StoreAuthentic C bs t f) (hv : t.verifyProof C f p pk = .ok cs) :
    Sound.Collision C ∨ (b.value = bs.getD b.index [] ∧ (∀ n ∈ b.nodes, ∃ dn on, n = RefTree.nodeAt C bs dn on)
      ∧ ∃ d o, n0.index = Flat.index d o ∧ n0.hash = (RefTree.node C bs d o).2
        ∧ (n0.length = (RefTree.node C bs d o).1 → ∀ n ∈ srest, ∃ dn on, n = RefTree.nodeAt C bs dn on)) :=
  SeekSound.block_seek_sound C bs t f pk p b s n0 srest cs hb hs hsn hu (CreateTotal.canon_of_lt _ (by omega)) hauth hv

/-- **hash + seek proofs** (no upgrade; the hash section starts with the requested node or the seek root is the requested
    node): the requested node carries the writer's hash; if its size is the writer's, the rest of the hash section and
    the seek root are the writer's, hence the bottom node of the seek section carries the writer's hash, and if its size
    is the writer's too, so is every node of the seek section. -/
theorem sound_hash_seek (C : Crypto) (bs : Array Bytes) (t : Tree) (f : File) (pk : Bytes) (p : Proof) (hsec : Codec.DataHash) (s : Codec.DataSeek)
    (m0 : Codec.Node) (hrest : List Codec.Node) (n0 : Codec.Node) (srest : List Codec.Node) (cs : Changeset) (hb : p.block = none) (hh : p.hash = some hsec)
    (hhn : hsec.nodes = m0 :: hrest) (hs : p.seek = some s) (hsn : s.nodes = n0 :: srest) (hu : p.upgrade = none)
    (hcan : n0.index < 2 ^ 64) (hcanh : hsec.index < 2 ^ 64) (hauth : Sound.StoreAuthentic C bs t f) (hv : t.verifyProof C f p pk = .ok cs) :
    Sound.Collision C ∨ ∃ dh oh d o, hsec.index = Flat.index dh oh ∧ n0.index = Flat.index d o ∧
      ((∃ sroot : Codec.Node, sroot.index = hsec.index ∧ sroot.hash = (RefTree.node C bs dh oh).2 ∧ n0.hash = (RefTree.node C bs d o).2
          ∧ (n0.length = (RefTree.node C bs d o).1 → ∀ n ∈ srest, ∃ dn on, n = RefTree.nodeAt C bs dn on))
        ∨ (m0.index = hsec.index ∧ m0.hash = (RefTree.node C bs dh oh).2
          ∧ (m0.length = (RefTree.node C bs dh oh).1 → (∀ n ∈ hrest, ∃ dn on, n = RefTree.nodeAt C bs dn on)
              ∧ (Sound.Collision C ∨ (n0.hash = (RefTree.node C bs d o).2
                ∧ (n0.length = (RefTree.node C bs d o).1 → ∀ n ∈ srest, ∃ dn on, n = RefTree.nodeAt C bs dn on)))))) :=
  SeekSound.hash_seek_sound C bs t f pk p hsec s m0 hrest n0 srest cs hb hh hhn hs hsn hu (CreateTotal.canon_of_lt _ (by omega))
    (CreateTotal.canon_of_lt _ (by omega)) hauth hv

/-- **hash section + upgrade in one proof** on any honest replica: the section's root waits in `verify_upgrade`'s queue
    as its extra node; either the upgrade consumes it — then it is one of the nodes that hash up to roots the writer
    signed (`HashUpgradeSound.upgrade_extra_auth`) — or it is compared with a stored node.  Either way the requested node
    carries the writer's hash (of the writer's log, or of its signed prefix of the adopted length), and if its size is
    the writer's, every other node of the section is the writer's node. -/
theorem sound_hash_upgrade (C : Crypto) (bs : Array Bytes) (wfork : Nat) (Signed : Bytes → Prop)
    (t : Tree) (f : File) (pk : Bytes) (p : Proof) (hsec : Codec.DataHash) (u : Codec.DataUpgrade) (cs' : Changeset)
    (hb : p.block = none) (hh : p.hash = some hsec) (hs : p.seek = none) (hu : p.upgrade = some u) (hcan : hsec.index < 2 ^ 64)
    (hcanon : ∀ l, t.changeset.roots.getLast? = some l → ∃ d o, l.index = Flat.index d o ∧ d ≤ 64)
    (hunf : ∀ m sig, C.verify pk m sig = true → Signed m)
    (hsig : ∀ m, Signed m → ∃ n, n ≤ bs.size ∧ m = RefTree.signableOf C (bs.extract 0 n) wfork)
    (hlen : ∀ x, (C.tree x).length = 32) (hsize : bs.size < 2 ^ 64) (hwf : wfork < 2 ^ 64)
    (hb1 : cs'.length < 2 ^ 64) (hb2 : p.fork < 2 ^ 64) (hT : u.start + u.length < 2 ^ 64)
    (hauth : Sound.StoreAuthentic C bs t f)
    (hv : t.verifyProof C f p pk = .ok cs') :
    Sound.Collision C ∨ Sound.TreeCollision C ∨ ∃ n0 rest d o, hsec.nodes = n0 :: rest ∧ hsec.index = Flat.index d o ∧ n0.index = hsec.index
      ∧ ((n0.hash = (RefTree.node C bs d o).2
          ∧ (n0.length = (RefTree.node C bs d o).1 → ∀ n ∈ rest, ∃ dn on, n = RefTree.nodeAt C bs dn on))
        ∨ (n0.hash = (RefTree.node C (bs.extract 0 cs'.length) d o).2
          ∧ (n0.length = (RefTree.node C (bs.extract 0 cs'.length) d o).1 → ∀ n ∈ rest, ∃ dn on, n = RefTree.nodeAt C (bs.extract 0 cs'.length) dn on))) :=
  HashUpgradeSound.hash_upgrade_sound C bs wfork Signed t f pk p hsec u cs' hb hh hs hu (CreateTotal.canon_of_lt _ (by omega)) hcanon hunf hsig hlen
    hsize hwf hb1 hb2 hT hauth hv

/-- **seek section + upgrade** (no block, no hash section): the seek root is `verify_upgrade`'s extra node; the bottom
    node of the seek section carries the writer's hash, and if its size is the writer's every node of the section is the
    writer's node -/
theorem sound_seek_upgrade (C : Crypto) (bs : Array Bytes) (wfork : Nat) (Signed : Bytes → Prop)
    (t : Tree) (f : File) (pk : Bytes) (p : Proof) (s : Codec.DataSeek) (n0 : Codec.Node) (srest : List Codec.Node) (u : Codec.DataUpgrade) (cs' : Changeset)
    (hb : p.block = none) (hh : p.hash = none) (hs : p.seek = some s) (hsn : s.nodes = n0 :: srest) (hu : p.upgrade = some u) (hcan : n0.index < 2 ^ 64)
    (hcanon : ∀ l, t.changeset.roots.getLast? = some l → ∃ d o, l.index = Flat.index d o ∧ d ≤ 64)
    (hunf : ∀ m sig, C.verify pk m sig = true → Signed m)
    (hsig : ∀ m, Signed m → ∃ n, n ≤ bs.size ∧ m = RefTree.signableOf C (bs.extract 0 n) wfork)
    (hlen : ∀ x, (C.tree x).length = 32) (hsize : bs.size < 2 ^ 64) (hwf : wfork < 2 ^ 64)
    (hb1 : cs'.length < 2 ^ 64) (hb2 : p.fork < 2 ^ 64) (hT : u.start + u.length < 2 ^ 64)
    (hauth : Sound.StoreAuthentic C bs t f)
    (hv : t.verifyProof C f p pk = .ok cs') :
    Sound.Collision C ∨ Sound.TreeCollision C ∨ ∃ d o, n0.index = Flat.index d o
      ∧ ((n0.hash = (RefTree.node C bs d o).2
          ∧ (n0.length = (RefTree.node C bs d o).1 → ∀ n ∈ srest, ∃ dn on, n = RefTree.nodeAt C bs dn on))
        ∨ (n0.hash = (RefTree.node C (bs.extract 0 cs'.length) d o).2
          ∧ (n0.length = (RefTree.node C (bs.extract 0 cs'.length) d o).1 → ∀ n ∈ srest, ∃ dn on, n = RefTree.nodeAt C (bs.extract 0 cs'.length) dn on))) :=
  HashUpgradeSound.seek_upgrade_sound C bs wfork Signed t f pk p s n0 srest u cs' hb hh hs hsn hu (CreateTotal.canon_of_lt _ (by omega)) hcanon hunf hsig
    hlen hsize hwf hb1 hb2 hT hauth hv

/-- **block + seek + upgrade in one proof**: the block is the writer's, every node of the block section is the writer's,
    and the seek section is authenticated through its root (`HashUpgradeSound.SecOK`) — with respect to the writer's
    log, or to its signed prefix of the adopted length when the upgrade consumed the block's root -/
theorem sound_block_seek_upgrade (C : Crypto) (bs : Array Bytes) (wfork : Nat) (Signed : Bytes → Prop)
    (t : Tree) (f : File) (pk : Bytes) (p : Proof) (b : Codec.DataBlock) (s : Codec.DataSeek) (n0 : Codec.Node) (srest : List Codec.Node)
    (u : Codec.DataUpgrade) (cs' : Changeset)
    (hb : p.block = some b) (hs : p.seek = some s) (hsn : s.nodes = n0 :: srest) (hu : p.upgrade = some u) (hcan : n0.index < 2 ^ 64)
    (hcanon : ∀ l, t.changeset.roots.getLast? = some l → ∃ d o, l.index = Flat.index d o ∧ d ≤ 64)
    (hunf : ∀ m sig, C.verify pk m sig = true → Signed m)
    (hsig : ∀ m, Signed m → ∃ n, n ≤ bs.size ∧ m = RefTree.signableOf C (bs.extract 0 n) wfork)
    (hlen : ∀ x, (C.tree x).length = 32) (hsize : bs.size < 2 ^ 64) (hwf : wfork < 2 ^ 64)
    (hb1 : cs'.length < 2 ^ 64) (hb2 : p.fork < 2 ^ 64) (hT : u.start + u.length < 2 ^ 64)
    (hauth : Sound.StoreAuthentic C bs t f)
    (hv : t.verifyProof C f p pk = .ok cs') :
    Sound.Collision C ∨ Sound.TreeCollision C
      ∨ (b.value = bs.getD b.index [] ∧ (∀ n ∈ b.nodes, ∃ dn on, n = RefTree.nodeAt C bs dn on)
          ∧ ∃ d o, n0.index = Flat.index d o ∧ n0.hash = (RefTree.node C bs d o).2
            ∧ (n0.length = (RefTree.node C bs d o).1 → ∀ n ∈ srest, ∃ dn on, n = RefTree.nodeAt C bs dn on))
      ∨ (b.value = (bs.extract 0 cs'.length).getD b.index [] ∧ (∀ n ∈ b.nodes, ∃ dn on, n = RefTree.nodeAt C (bs.extract 0 cs'.length) dn on)
          ∧ ∃ d o, n0.index = Flat.index d o ∧ n0.hash = (RefTree.node C (bs.extract 0 cs'.length) d o).2
            ∧ (n0.length = (RefTree.node C (bs.extract 0 cs'.length) d o).1 → ∀ n ∈ srest, ∃ dn on, n = RefTree.nodeAt C (bs.extract 0 cs'.length) dn on)) :=
  HashUpgradeSound.block_seek_upgrade_sound C bs wfork Signed t f pk p b s n0 srest u cs' hb hs hsn hu (CreateTotal.canon_of_lt _ (by omega)) hcanon hunf
    hsig hlen hsize hwf hb1 hb2 hT hauth hv

/-- **seek-only proofs** (no block, no hash section, no upgrade): the seek root is compared with a stored node -/
theorem sound_seek (C : Crypto) (bs : Array Bytes) (t : Tree) (f : File) (pk : Bytes) (p : Proof) (s : Codec.DataSeek) (n0 : Codec.Node)
    (srest : List Codec.Node) (cs' : Changeset) (hb : p.block = none) (hh : p.hash = none) (hs : p.seek = some s) (hsn : s.nodes = n0 :: srest)
    (hu : p.upgrade = none) (hcan : n0.index < 2 ^ 64) (hauth : Sound.StoreAuthentic C bs t f) (hv : t.verifyProof C f p pk = .ok cs') :
    Sound.Collision C ∨ ∃ d o, n0.index = Flat.index d o ∧ n0.hash = (RefTree.node C bs d o).2
      ∧ (n0.length = (RefTree.node C bs d o).1 → ∀ n ∈ srest, ∃ dn on, n = RefTree.nodeAt C bs dn on) :=
  HashUpgradeSound.seek_only_sound C bs t f pk p s n0 srest cs' hb hh hs hsn hu (CreateTotal.canon_of_lt _ (by omega)) hauth hv

/-- a seek section without nodes is treated exactly like no seek section (so the theorems stated for `p.seek = none` cover
    it) -/
theorem empty_seek_is_no_seek (C : Crypto) (t : Tree) (f : File) (p : Proof) (pk : Bytes) (s : Codec.DataSeek) (hp : p.seek = some s) (hs : s.nodes = []) :
    t.verifyProof C f p pk = t.verifyProof C f { p with seek := none } pk :=
  HashUpgradeSound.verifyProof_empty_seek C t f p pk s hp hs

/-- **hash + seek + upgrade in one proof**: the conclusion of `sound_hash_seek` (`HashUpgradeSound.HSOK`: the requested node
    carries the writer's hash; if its size is the writer's, the rest of the hash section and the seek root are the
    writer's, hence the bottom node of the seek section carries the writer's hash, and with its size every seek node is
    the writer's) with respect to the writer's log, or to its signed prefix of the adopted length when the upgrade
    consumed the section's root.  With `sound_block`, `sound_upgrade`, `sound_block_upgrade`, `sound_hash`,
    `sound_seek`, `sound_block_seek`, `sound_hash_seek`, `sound_hash_upgrade`, `sound_seek_upgrade` and `sound_block_seek_upgrade` (and
    `empty_seek_is_no_seek`; a block section takes precedence over a hash section) this
    covers every combination of sections `verify_proof` accepts. -/
theorem sound_hash_seek_upgrade (C : Crypto) (bs : Array Bytes) (wfork : Nat) (Signed : Bytes → Prop)
    (t : Tree) (f : File) (pk : Bytes) (p : Proof) (hsec : Codec.DataHash) (s : Codec.DataSeek) (m0 : Codec.Node) (hrest : List Codec.Node)
    (n0 : Codec.Node) (srest : List Codec.Node) (u : Codec.DataUpgrade) (cs' : Changeset)
    (hb : p.block = none) (hh : p.hash = some hsec) (hhn : hsec.nodes = m0 :: hrest) (hs : p.seek = some s) (hsn : s.nodes = n0 :: srest)
    (hu : p.upgrade = some u) (hcan : n0.index < 2 ^ 64) (hcanh : hsec.index < 2 ^ 64)
    (hcanon : ∀ l, t.changeset.roots.getLast? = some l → ∃ d o, l.index = Flat.index d o ∧ d ≤ 64)
    (hunf : ∀ m sig, C.verify pk m sig = true → Signed m)
    (hsig : ∀ m, Signed m → ∃ n, n ≤ bs.size ∧ m = RefTree.signableOf C (bs.extract 0 n) wfork)
    (hlen : ∀ x, (C.tree x).length = 32) (hsize : bs.size < 2 ^ 64) (hwf : wfork < 2 ^ 64)
    (hb1 : cs'.length < 2 ^ 64) (hb2 : p.fork < 2 ^ 64) (hT : u.start + u.length < 2 ^ 64)
    (hauth : Sound.StoreAuthentic C bs t f)
    (hv : t.verifyProof C f p pk = .ok cs') :
    Sound.Collision C ∨ Sound.TreeCollision C ∨ HashUpgradeSound.HSOK C bs hsec m0 hrest n0 srest
      ∨ HashUpgradeSound.HSOK C (bs.extract 0 cs'.length) hsec m0 hrest n0 srest :=
  HashUpgradeSound.hash_seek_upgrade_sound C bs wfork Signed t f pk p hsec s m0 hrest n0 srest u cs' hb hh hhn hs hsn hu
    (CreateTotal.canon_of_lt _ (by omega)) (CreateTotal.canon_of_lt _ (by omega)) hcanon hunf hsig hlen hsize hwf hb1 hb2 hT hauth hv

/-- `HSOK` is the conclusion of `sound_hash_seek` -/
example (C : Crypto) (B : Array Bytes) (hsec : Codec.DataHash) (m0 : Codec.Node) (hrest : List Codec.Node) (n0 : Codec.Node) (srest : List Codec.Node) :
    HashUpgradeSound.HSOK C B hsec m0 hrest n0 srest ↔ ∃ dh oh d o, hsec.index = Flat.index dh oh ∧ n0.index = Flat.index d o ∧
      ((∃ sroot : Codec.Node, sroot.index = hsec.index ∧ sroot.hash = (RefTree.node C B dh oh).2 ∧ n0.hash = (RefTree.node C B d o).2
          ∧ (n0.length = (RefTree.node C B d o).1 → ∀ n ∈ srest, ∃ dn on, n = RefTree.nodeAt C B dn on))
        ∨ (m0.index = hsec.index ∧ m0.hash = (RefTree.node C B dh oh).2
          ∧ (m0.length = (RefTree.node C B dh oh).1 → (∀ n ∈ hrest, ∃ dn on, n = RefTree.nodeAt C B dn on)
              ∧ (Sound.Collision C ∨ (n0.hash = (RefTree.node C B d o).2
                ∧ (n0.length = (RefTree.node C B d o).1 → ∀ n ∈ srest, ∃ dn on, n = RefTree.nodeAt C B dn on)))))) := Iff.rfl

end HC.C04
