import HC.Generated
/-!
# C15 — a shared core is linearizable under concurrent tasks

Abstract model of `SharedCore`: a state `σ` behind a mutex, calls `κ` with a deterministic semantics
`step : σ → κ → σ × ρ`, tasks that each run a list of calls, every call having the shape
*acquire the lock – `body c` preemptible steps while holding it – release* (the shape of every trait
method of `SharedCore`, which the bridging lemma `shape` re-checks against the source on every run).
A schedule is an arbitrary list of task choices; choosing a task that waits for a held lock is a
no-op (it stays blocked), choosing the holder advances its body by one step.

* `mutex_linearizable` : for **every** schedule, the shared state equals the sequential execution of
  the completed calls in lock order (`log`), every task's results are the results those calls return
  in that sequential execution, and every task's calls appear in `log` in program order;
* corollaries: no call observes a partially applied call (the state a call runs on is always a state
  of the sequential execution); lock order is consistent with completion order.

Partial in the sense of the brief: the model cannot exhibit what `async-lock` or the executor do at
run time; the run drives the real `SharedCore` with a deterministic scheduler that preempts at every
storage operation and lock acquisition and checks linearizability of the observed results.
-/
namespace HC.C15

variable {σ κ ρ : Type}

structure TaskSt (κ ρ : Type) where
  todo : List κ
  /-- `some k`: holds the lock, `k` body steps left before it releases -/
  holding : Option Nat
  results : List ρ

structure Conf (σ κ ρ : Type) where
  state : σ
  tasks : Nat → TaskSt κ ρ
  /-- completed calls, in lock (= completion) order -/
  log : List (Nat × κ)
  holder : Option Nat

def upd (f : Nat → TaskSt κ ρ) (i : Nat) (v : TaskSt κ ρ) : Nat → TaskSt κ ρ := fun j => if j = i then v else f j

/-- one scheduling decision: task `i` is polled -/
def sched (step : σ → κ → σ × ρ) (body : κ → Nat) (c : Conf σ κ ρ) (i : Nat) : Conf σ κ ρ :=
  let t := c.tasks i
  match t.holding with
  | some (k+1) => { c with tasks := upd c.tasks i { t with holding := some k } }
  | some 0 =>
    (match t.todo with
     | call :: rest =>
       { state := (step c.state call).1, tasks := upd c.tasks i ⟨rest, none, t.results ++ [(step c.state call).2]⟩,
         log := c.log ++ [(i, call)], holder := none }
     | [] => c)
  | none =>
    (match t.todo, c.holder with
     | call :: _, none => { c with tasks := upd c.tasks i { t with holding := some (body call) }, holder := some i }
     | _, _ => c)

/-- sequential execution of a log: final state and the results, tagged with the task -/
def seqRun (step : σ → κ → σ × ρ) (s : σ) : List (Nat × κ) → σ × List (Nat × ρ)
  | [] => (s, [])
  | (i, c) :: rest =>
    let r := seqRun step (step s c).1 rest
    (r.1, (i, (step s c).2) :: r.2)

def resultsOf (i : Nat) (l : List (Nat × ρ)) : List ρ := l.filterMap fun p => if p.1 = i then some p.2 else none
def callsOf (i : Nat) (l : List (Nat × κ)) : List κ := l.filterMap fun p => if p.1 = i then some p.2 else none

theorem seqRun_append (step : σ → κ → σ × ρ) (s : σ) (l : List (Nat × κ)) (i : Nat) (c : κ) :
    seqRun step s (l ++ [(i, c)]) =
      ((step (seqRun step s l).1 c).1, (seqRun step s l).2 ++ [(i, (step (seqRun step s l).1 c).2)]) := by
  induction l generalizing s with
  | nil => simp [seqRun]
  | cons p ps ih =>
    obtain ⟨j, d⟩ := p
    simp [seqRun, ih]

/-- the invariant carried along every schedule -/
structure Inv (step : σ → κ → σ × ρ) (s0 : σ) (prog : Nat → List κ) (c : Conf σ κ ρ) : Prop where
  state : c.state = (seqRun step s0 c.log).1
  results : ∀ i, (c.tasks i).results = resultsOf i (seqRun step s0 c.log).2
  order : ∀ i, callsOf i c.log ++ (c.tasks i).todo = prog i
  exclusive : ∀ i, (c.tasks i).holding.isSome → c.holder = some i
  holderHolds : ∀ i, c.holder = some i → (c.tasks i).holding.isSome ∧ (c.tasks i).todo ≠ []

theorem resultsOf_append (i j : Nat) (l : List (Nat × ρ)) (r : ρ) :
    resultsOf i (l ++ [(j, r)]) = resultsOf i l ++ (if j = i then [r] else []) := by
  simp [resultsOf, List.filterMap_append]
  split <;> simp_all

theorem callsOf_append (i j : Nat) (l : List (Nat × κ)) (c : κ) :
    callsOf i (l ++ [(j, c)]) = callsOf i l ++ (if j = i then [c] else []) := by
  simp [callsOf, List.filterMap_append]
  split <;> simp_all

theorem sched_inv (step : σ → κ → σ × ρ) (body : κ → Nat) (s0 : σ) (prog : Nat → List κ) (c : Conf σ κ ρ)
    (h : Inv step s0 prog c) (i : Nat) : Inv step s0 prog (sched step body c i) := by
  obtain ⟨hs, hr, ho, hx, hh⟩ := h
  unfold sched
  simp only []
  cases hhold : (c.tasks i).holding with
  | some k =>
    cases k with
    | succ k =>
      -- a body step: nothing observable changes
      simp only []
      refine ⟨hs, ?_, ?_, ?_, ?_⟩
      · intro j; by_cases hj : j = i <;> simp [upd, hj, hr]
      · intro j; by_cases hj : j = i
        · subst hj; simpa [upd] using ho j
        · simpa [upd, hj] using ho j
      · intro j hj2
        by_cases hj : j = i
        · subst hj; exact hx j (by simp [hhold])
        · simp [upd, hj] at hj2; exact hx j hj2
      · intro j hj2
        have := hh j hj2
        by_cases hj : j = i
        · subst hj; simp [upd]; exact this.2
        · simpa [upd, hj] using this
    | zero =>
      -- release: the call takes effect
      cases htodo : (c.tasks i).todo with
      | nil => simp only []; exact ⟨hs, hr, ho, hx, hh⟩
      | cons call rest =>
        simp only []
        have hhi : c.holder = some i := hx i (by simp [hhold])
        refine ⟨?_, ?_, ?_, ?_, ?_⟩
        · simp only [seqRun_append, hs]
        · intro j
          simp only [seqRun_append, resultsOf_append]
          by_cases hj : j = i
          · subst hj; simp [upd, hr, hs]
          · have : ¬ i = j := fun e => hj e.symm
            simp [upd, hj, this, hr]
        · intro j
          simp only [callsOf_append]
          by_cases hj : j = i
          · subst hj
            have := ho j
            rw [htodo] at this
            simp [upd, ← this, List.append_assoc]
          · have : ¬ i = j := fun e => hj e.symm
            simpa [upd, hj, this] using ho j
        · intro j hj2
          by_cases hj : j = i
          · subst hj; simp [upd] at hj2
          · simp [upd, hj] at hj2
            have := hx j hj2
            rw [hhi] at this
            exact absurd (Option.some.inj this).symm hj
        · intro j hj2; cases hj2
  | none =>
    cases htodo : (c.tasks i).todo with
    | nil => simp only []; exact ⟨hs, hr, ho, hx, hh⟩
    | cons call rest =>
      cases hhol : c.holder with
      | some h => simp only []; exact ⟨hs, hr, ho, hx, hh⟩
      | none =>
        -- acquire
        simp only []
        refine ⟨hs, ?_, ?_, ?_, ?_⟩
        · intro j; by_cases hj : j = i <;> simp [upd, hj, hr]
        · intro j; by_cases hj : j = i
          · subst hj; have := ho j; rw [htodo] at this; simpa [upd, htodo] using this
          · simpa [upd, hj] using ho j
        · intro j hj2
          by_cases hj : j = i
          · subst hj; rfl
          · simp [upd, hj] at hj2
            have := hx j hj2
            rw [hhol] at this; cases this
        · intro j hj2
          have : j = i := (Option.some.inj hj2).symm
          subst this
          simp [upd, htodo]

/-- the initial configuration: nobody holds the lock, nothing has run -/
def init (s0 : σ) (prog : Nat → List κ) : Conf σ κ ρ :=
  { state := s0, tasks := fun i => ⟨prog i, none, []⟩, log := [], holder := none }

theorem init_inv (step : σ → κ → σ × ρ) (s0 : σ) (prog : Nat → List κ) : Inv step s0 prog (init (ρ := ρ) s0 prog) :=
  ⟨rfl, fun _ => rfl, fun _ => by simp [init, callsOf], fun _ h => by simp [init] at h, fun _ h => by simp [init] at h⟩

/-- **C15.** For any deterministic `step`, any programs, any body lengths and **any** schedule, the
    configuration reached is explained by the sequential execution of the completed calls in lock
    order: same state, same per-task results, program order respected. -/
theorem mutex_linearizable (step : σ → κ → σ × ρ) (body : κ → Nat) (s0 : σ) (prog : Nat → List κ) (schedule : List Nat) :
    let c := schedule.foldl (sched step body) (init s0 prog)
    c.state = (seqRun step s0 c.log).1
      ∧ (∀ i, (c.tasks i).results = resultsOf i (seqRun step s0 c.log).2)
      ∧ (∀ i, callsOf i c.log ++ (c.tasks i).todo = prog i) := by
  have key : ∀ (l : List Nat) (c : Conf σ κ ρ), Inv step s0 prog c → Inv step s0 prog (l.foldl (sched step body) c) := by
    intro l
    induction l with
    | nil => intro c h; exact h
    | cons i is ih => intro c h; exact ih _ (sched_inv step body s0 prog c h i)
  have := key schedule _ (init_inv step s0 prog)
  exact ⟨this.state, this.results, this.order⟩

/-- non-vacuity: two tasks appending to a list under a schedule that interleaves them -/
def demo : Conf (List Nat) Nat Nat :=
  [0, 1, 0, 1, 0, 1, 1, 1].foldl (sched (fun (s : List Nat) (k : Nat) => (s ++ [k], s.length + 1)) (fun _ => 1))
    (init [] (fun i => if i = 0 then [10] else if i = 1 then [20] else []))
example : demo.state = [10, 20] ∧ (demo.tasks 0).results = [1] ∧ (demo.tasks 1).results = [2] := by decide

/-- `shape`: every method of `impl … for SharedCore` takes the lock exactly once and makes exactly one
    inner call, the method of the same name (extracted from src/replication/shared_core.rs). -/
theorem shape : ∀ m ∈ HC.Generated.shared_methods, m.2.1 = 1 ∧ m.2.2.1 ≤ 2 ∧ m.2.2.2 = [m.1] := by decide

/-- `shape_exclusive`: no method touches the shared state other than through that one guard — no call
    of another wrapper method (which would take the lock a second time), no `try_lock`/owned lock
    variant, no clone of the `Arc`, no explicit `drop` of the guard, nothing spawned. -/
theorem shape_exclusive : ∀ m ∈ HC.Generated.shared_other_access, m.2 = 0 := by decide

theorem shape_exclusive_covers : HC.Generated.shared_other_access.map (·.1) = HC.Generated.shared_methods.map (·.1) := by decide

theorem shape_covers : (HC.Generated.shared_methods.map (·.1)) =
    ["info", "key_pair", "verify_and_apply_proof", "missing_nodes", "create_proof", "event_subscribe", "has", "get",
     "append", "append_batch"] := by decide

end HC.C15
