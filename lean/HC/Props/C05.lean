import HC.Proofs.RefTree
import HC.Props.C02
/-!
# C05 — Merkle tree, root hash and signature match an independent reference

`HC.RefTree` is the specification: node values by structural recursion on (depth, offset) over the
block list (leaf = `C.leaf data`, parent = `C.parent (sum of sizes) left right`), flat in-order
numbering, roots by the recursive binary decomposition of the length, signed message = namespace ‖
hash of the roots ‖ length ‖ fork.  All theorems hold for **every** crypto record `C`, every block
list and every split into appends; `Crypto.real` (BLAKE2b-256 / Ed25519 written in Lean from the
scheme's description) is what the correspondence run instantiates and compares byte-for-byte with
the crate and with a third reference in the harness.

* `nodes_eq_ref`     : appending one block to a changeset whose roots are the reference roots of `bs`
  gives the reference roots of `bs ++ [b]`, every node it creates (the leaf and each merged
  parent — exactly what is persisted and logged) equals the reference node at its flat index, and
  conversely every reference node whose span ends with the new block is among the created ones;
* `batch_roots`      : the same for any batch;
* `commit_keeps`     : committing such a changeset gives a tree whose roots/length/byte length are the
  reference ones — so the invariant holds across any sequence of `append_batch` calls (`history`);
* `batch_independent`: the roots after appending a block list do not depend on how it was split;
* `root_hash_and_signature` : the hash stored in the header and the signature are
  `C.tree (reference roots)` and `C.sign seed (signableOf …)`; `signature_verifies`: it verifies under
  the public key whenever `verify (publicKey seed) m (sign seed m)` holds.

* `history_tree` / `recovered_tree` : on the model of the whole crate — after **any** history of calls and
  close-and-reopen steps (the roots are then reloaded from the tree store and rebuilt by the replay), and
  after recovery from a crash at any storage operation of a further call, the tree's roots, length and byte
  length are the reference ones and every node lookup below the length (unflushed map, then the store)
  returns the reference node.

Not covered by theorems (validated by the run): that proofs carry persisted nodes (`proof_nodes`), and the
signature stored in the header after a reopen.
-/
namespace HC.C05
open HC HC.Codec HC.Tree HC.RefTree HC.RefProof

theorem nodes_eq_ref (C : Crypto) (bs : Array Bytes) (cs : Changeset) (b : Bytes) (h : RootsOK C bs cs) :
    RootsOK C (bs.push b) (Tree.append C cs b)
      ∧ ∃ added, (Tree.append C cs b).rnodes = added ++ cs.rnodes
          ∧ (∀ n ∈ added, ∃ d o, n = nodeAt C (bs.push b) d o ∧ (o + 1) * 2 ^ d ≤ bs.size + 1)
          ∧ (∀ d o, (o + 1) * 2 ^ d = bs.size + 1 → nodeAt C (bs.push b) d o ∈ added) :=
  append_ref C bs cs b h

theorem batch_roots (C : Crypto) (batch : List Bytes) (bs : Array Bytes) (cs : Changeset) (h : RootsOK C bs cs) :
    RootsOK C (bs ++ batch.toArray) (batch.foldl (Tree.append C) cs) := appendMany_ref C batch bs cs h

/-- the invariant pins the roots down completely -/
theorem roots_determined (C : Crypto) (bs : Array Bytes) (cs : Changeset) (h : RootsOK C bs cs) :
    cs.roots = RefTree.roots C bs := by
  have := congrArg List.reverse h.roots
  simpa [RefTree.roots, List.map_reverse] using this

/-- the tree (not a changeset) carries the reference roots of `bs` -/
def TreeOK (C : Crypto) (bs : Array Bytes) (t : Tree) : Prop := RootsOK C bs t.changeset

theorem hashAndSign_roots (C : Crypto) (cs : Changeset) (seed : Bytes) :
    (hashAndSign C cs seed).roots = cs.roots ∧ (hashAndSign C cs seed).length = cs.length
      ∧ (hashAndSign C cs seed).byteLength = cs.byteLength := ⟨rfl, rfl, rfl⟩

/-- committing the changeset of a non-empty batch keeps the invariant, for the extended block list -/
theorem commit_keeps (C : Crypto) (bs : Array Bytes) (t : Tree) (batch : List Bytes) (seed : Bytes)
    (hne : batch ≠ []) (h : TreeOK C bs t) :
    ∃ t', t.commit (hashAndSign C (batch.foldl (Tree.append C) t.changeset) seed) = .ok t'
      ∧ TreeOK C (bs ++ batch.toArray) t' := commit_ref C bs t batch seed hne h

/-- the empty tree -/
theorem treeOK_empty (C : Crypto) : TreeOK C #[] ({} : Tree) := by
  simp only [TreeOK, Tree.changeset]
  exact ⟨rfl, by simp [rootsStack_zero], rfl⟩

/-- any two ways of splitting a block list into batches give the same roots -/
theorem batch_independent (C : Crypto) (bs : Array Bytes) (cs1 cs2 : Changeset)
    (h1 : RootsOK C bs cs1) (h2 : RootsOK C bs cs2) : cs1.roots = cs2.roots ∧ cs1.length = cs2.length
      ∧ cs1.byteLength = cs2.byteLength :=
  ⟨(roots_determined C bs cs1 h1).trans (roots_determined C bs cs2 h2).symm, h1.length.trans h2.length.symm,
   h1.bytes.trans h2.bytes.symm⟩

theorem root_hash_and_signature (C : Crypto) (bs : Array Bytes) (cs : Changeset) (seed : Bytes) (h : RootsOK C bs cs) :
    (hashAndSign C cs seed).hash = some (C.tree ((RefTree.roots C bs).map fun n => (n.hash, n.index, n.length)))
      ∧ (hashAndSign C cs seed).signature = some (C.sign seed (RefTree.signableOf C bs cs.fork)) := by
  have hr := roots_determined C bs cs h
  simp [hashAndSign, rootsHash, hr, RefTree.signableOf, h.length]

theorem signature_verifies (C : Crypto) (bs : Array Bytes) (cs : Changeset) (seed : Bytes) (h : RootsOK C bs cs)
    (hsig : ∀ m, C.verify (C.publicKey seed) m (C.sign seed m) = true) :
    ∃ sig, (hashAndSign C cs seed).signature = some sig
      ∧ C.verify (C.publicKey seed) (RefTree.signableOf C bs cs.fork) sig = true :=
  ⟨_, (root_hash_and_signature C bs cs seed h).2, hsig _⟩

/-- non-vacuity: three blocks appended as 1 + 2 satisfy the invariant (any crypto record) -/
example (C : Crypto) : RootsOK C (#[[1], [2, 3], []] : Array Bytes)
    ([[2, 3], []].foldl (Tree.append C) (Tree.append C ({} : Tree).changeset [1])) := by
  have h0 := treeOK_empty C
  have h1 := (append_ref C #[] ({} : Tree).changeset [1] h0).1
  exact appendMany_ref C [[2, 3], []] _ _ h1

/-! ### the whole crate: histories, reopens, crash recovery -/

section Model
open HC.LogSpec HC.LiveRefine HC.TreeStore HC.Persist HC.C01 HC.Offsets

/-- what the representation invariant says about the tree -/
theorem rep_tree (C : Crypto) (c : Core) (d : Disk) (a : Abs) (h : Rep C c d a) :
    RootsOK C a.blocks c.tree.changeset
      ∧ ∀ dd o, (o + 1) * 2 ^ dd ≤ a.blocks.size → c.tree.node? d.tree (Flat.index dd o) = some (nodeAt C a.blocks dd o) :=
  ⟨h.tree, h.nodes⟩

/-- along every history of a freshly created writer core, with any number of reopen steps -/
theorem history_tree (C : Crypto) (hC : HashWF C) (hS : SignWF C) (hTw : TreeWF C) (pk sk : Bytes)
    (hpk : pk.length = 32) (hsk : sk.length = 32) (steps : List HStep) (hok : AllOK {} steps) :
    ∃ c j, Core.openCore C (some (pk, some sk)) {} = .ok (c, j) ∧
      RootsOK C (runA' {} steps).1.blocks (runC' C (c, ({} : Disk).applyAll j) steps).1.1.tree.changeset
      ∧ ∀ dd o, (o + 1) * 2 ^ dd ≤ (runA' {} steps).1.blocks.size →
          (runC' C (c, ({} : Disk).applyAll j) steps).1.1.tree.node? (runC' C (c, ({} : Disk).applyAll j) steps).1.2.tree (Flat.index dd o)
            = some (nodeAt C (runA' {} steps).1.blocks dd o) := by
  obtain ⟨c, j, h1, h2, h3⟩ := init_both C pk sk hpk hsk
  obtain ⟨hrep, _⟩ := C02.history_invariants_reopen C hC hS hTw steps c _ {} _ {} [] h2 h3 hok
  exact ⟨c, j, h1, hrep.tree, hrep.nodes⟩

/-- after recovery from a crash at any storage operation of any further call -/
theorem recovered_tree (C : Crypto) (hC : HashWF C) (hS : SignWF C) (hTw : TreeWF C) (pk sk : Bytes)
    (hpk : pk.length = 32) (hsk : sk.length = 32) (steps : List HStep) (hok : AllOK {} steps) (op : Op)
    (hv : Valid (runA' {} steps).1 op) (hl : Limits (runA' {} steps).1 op) (k : Nat) :
    ∃ c j, Core.openCore C (some (pk, some sk)) {} = .ok (c, j) ∧
      ∃ c' jo, Core.openCore C none (crashDisk C (runC' C (c, ({} : Disk).applyAll j) steps).1 op k) = .ok (c', jo)
        ∧ ∃ a, (a = (runA' {} steps).1 ∨ a = ((runA' {} steps).1.step op).1) ∧ RootsOK C a.blocks c'.tree.changeset := by
  obtain ⟨c, j, h1, c', jo, h2, h3⟩ := C02.crash_atomic C hC hS hTw pk sk hpk hsk steps hok op hv hl k
  refine ⟨c, j, h1, c', jo, h2, ?_⟩
  rcases h3 with h3 | h3
  · exact ⟨_, Or.inl rfl, h3.tree⟩
  · exact ⟨_, Or.inr rfl, h3.tree⟩

end Model

/-- **replicas hold the reference tree too**: in every replica state reached from creation by first contact, honest
    exchanges, reopens and crashes (`ReplicaCrash.Reach`), the roots are the reference roots of the replica's length, and
    every node a lookup finds — in the unflushed map or in the tree store — is the reference node of its position
    (index, size, hash), inside the replica's length -/
theorem replica_tree_is_reference (C : Crypto) (hC : TreeStore.HashWF C) (hT : TreeStore.TreeWF C) (bs : Array Bytes) (pk : Bytes) (fork : Nat)
    (s : Core × Disk) (h : ReplicaCrash.Reach C bs pk fork s) :
    s.1.tree.roots = Growth.rootsAt C bs s.1.tree.length ∧ s.1.tree.length ≤ bs.size
      ∧ ∀ i n, s.1.tree.node? s.2.tree i = some n →
          ∃ d o, i = Flat.index d o ∧ n = RefTree.nodeAt C bs d o ∧ (o + 1) * 2 ^ d ≤ s.1.tree.length := by
  obtain ⟨m, held, hrp, _, _⟩ := ReplicaCrash.reach_rp C hC hT bs pk fork s h
  have hl : s.1.tree.length = m := hrp.rep.closed.sparse.length
  rw [hl]
  exact ⟨hrp.rep.roots, hrp.rep.le, hrp.rep.closed.sparse.sound⟩

end HC.C05
