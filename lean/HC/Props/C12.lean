import HC.Proofs.Verify
import HC.Props.C07
/-!
# C12 — secret key hygiene

* `not_writable`   : a core without secret key refuses appends: error result, empty journal, unchanged
  core, no event;
* `ro_idempotent`  : `make_read_only` on a read-only core answers `false` and does nothing;
* `ro_result`      : on a writable core it answers `true` and the resulting core has no secret, neither
  in the key pair nor in the in-memory header;
* `ro_journal`     : its oplog operations are exactly: header slot write, truncate to 8192, other
  header slot write — both writes are full 4096-byte slots (zero padded), both encode the header
  **without** the secret, so no byte of an earlier key-bearing header survives in either slot and no
  entry survives the truncate;
* `header_without_secret` : the encoding of a header without secret key is a function of public data
  only — it is the same for any two cores that differ only in their (erased) secret.

* `ro_in_histories` : `make_read_only` is one of the calls of the refinement theorems (`C01.full_refinement`,
  `C02.crash_refinement`, `C07.torn_atomic`): in every history the crate's model answers like the abstract
  log, and in the abstract log a core that was made read-only **stays** read-only — every later append is
  refused, `info().writeable` is false, across any number of reopens and crash recoveries
  (`readonly_forever`);
* `ro_crash_atomic` : a crash at any storage operation of `make_read_only` (also with that write torn,
  `ro_torn_atomic`) leaves stores that reopen to the writable log or to the same log read-only — never to
  a core that has lost blocks, and never to an unopenable store.

`C12.crash` is the instance of C02's protocol theorem for this three-step flush (the truncate sits
between the two header writes; see `known-findings.json` for the defect that was repaired there); all
crash points inside the call are enumerated by the run, which also scans the raw bytes of all four
stores for the seed, its halves and the expanded secret.
-/
namespace HC.C12
open HC HC.Core HC.Oplog

theorem not_writable (C : Crypto) (c : Core) (batch : List Bytes) (h : c.secret = none) :
    (c.appendBatch C batch).result = .error .err ∧ (c.appendBatch C batch).journal = []
      ∧ (c.appendBatch C batch).core = c ∧ (c.appendBatch C batch).events = [] := by
  simp [appendBatch, h]

theorem ro_idempotent (c : Core) (h : c.secret = none) :
    c.makeReadOnly.result = .ok false ∧ c.makeReadOnly.journal = [] ∧ c.makeReadOnly.core = c := by
  simp [makeReadOnly, h]

theorem ro_result (c : Core) (seed : Bytes) (h : c.secret = some seed) :
    c.makeReadOnly.result = .ok true ∧ c.makeReadOnly.core.secret = none ∧ c.makeReadOnly.core.header.secret = none := by
  simp [makeReadOnly, h, flushAll]

/-- the bytes of a header slot written by `flush(clear_traces)` -/
def slotBytes (h : Header) (bit : Bool) : Bytes :=
  let fr := frame (encHeader h) bit false
  fr ++ List.replicate (Spec.headerSize - fr.length) 0

/-- slot offset and header bit of the first and second header write of `flush(clear_traces)` -/
def firstWrite (bits : Bool × Bool) : Nat × Bool :=
  ((if (Spec.nextSlot bits.1 bits.2).1 then Spec.headerSize else 0), (Spec.nextSlot bits.1 bits.2).2)
def bitsAfter (bits : Bool × Bool) : Bool × Bool :=
  if (Spec.nextSlot bits.1 bits.2).1 then (bits.1, (Spec.nextSlot bits.1 bits.2).2) else ((Spec.nextSlot bits.1 bits.2).2, bits.2)
def secondWrite (bits : Bool × Bool) : Nat × Bool := firstWrite (bitsAfter bits)

theorem ro_journal (c : Core) (seed : Bytes) (h : c.secret = some seed) :
    c.makeReadOnly.journal = (c.bitfield.flush).2 ++ (c.tree.flush).2 ++
      [SOp.write .oplog (firstWrite c.oplog.bits).1 (slotBytes { c.header with secret := none } (firstWrite c.oplog.bits).2),
       SOp.trunc .oplog Spec.entriesOffset,
       SOp.write .oplog (secondWrite c.oplog.bits).1 (slotBytes { c.header with secret := none } (secondWrite c.oplog.bits).2)] := by
  simp only [makeReadOnly, h, Option.isSome_some, ite_true, flushAll, Oplog.flush, insertHeader,
    firstWrite, secondWrite, bitsAfter, slotBytes]
  rcases c.oplog.bits with ⟨b0, b1⟩
  cases b0 <;> cases b1 <;> simp [Spec.nextSlot, Spec.headerSize, Spec.entriesOffset]

/-- the two header writes go to the two different slots -/
theorem ro_both_slots (bits : Bool × Bool) :
    ((firstWrite bits).1 = 0 ∧ (secondWrite bits).1 = Spec.headerSize)
      ∨ ((firstWrite bits).1 = Spec.headerSize ∧ (secondWrite bits).1 = 0) := by
  rcases bits with ⟨b0, b1⟩
  cases b0 <;> cases b1 <;> simp [firstWrite, secondWrite, bitsAfter, Spec.nextSlot, Spec.headerSize]

/-- everything before the header writes goes to the bitfield and tree stores only -/
theorem ro_prefix_stores (c : Core) :
    ∀ op ∈ (c.bitfield.flush).2 ++ (c.tree.flush).2, ∃ s off bs, op = SOp.write s off bs ∧ s ≠ .oplog ∧ s ≠ .data := by
  intro op hop
  simp only [List.mem_append] at hop
  rcases hop with hop | hop
  · simp only [Bitfield.flush, List.mem_map] at hop
    obtain ⟨p, _, rfl⟩ := hop
    exact ⟨_, _, _, rfl, by decide, by decide⟩
  · simp only [Tree.flush, List.mem_map] at hop
    obtain ⟨n, _, rfl⟩ := hop
    exact ⟨_, _, _, rfl, by decide, by decide⟩

/-- a written slot is a full 4096-byte slot whenever the header frame fits -/
theorem slot_full (h : Header) (bit : Bool) (hfit : (frame (encHeader h) bit false).length ≤ Spec.headerSize) :
    (slotBytes h bit).length = Spec.headerSize := by
  simp [slotBytes]; omega

/-- what is written for a header without secret does not depend on the secret that was erased -/
theorem header_without_secret (h : Header) (s1 s2 : Option Bytes) :
    encHeader { { h with secret := s1 } with secret := none } = encHeader { { h with secret := s2 } with secret := none } := rfl

/-! ### `make_read_only` inside the refinement -/

section Model
open HC.LogSpec HC.LiveRefine HC.TreeStore HC.Persist HC.C01

/-- in the abstract log, read-only is for good: no call makes the log writable again, appends are refused -/
theorem readonly_forever (a : Abs) (h : a.writable = false) (steps : List XStep) :
    ∀ obs, AbsX a steps obs → ∀ o ∈ obs, (∀ n b, o ≠ Obs.appended n b) ∧ (∀ l b c w, o = Obs.info l b c w → w = false) := by
  induction steps generalizing a with
  | nil => intro obs hx o ho; cases hx; cases ho
  | cons st rest ih =>
    intro obs hx o ho
    have hstep : ∀ op, (a.step op).1.writable = false := by
      intro op
      cases op <;> simp [Abs.step, h]
      all_goals (try split) <;> simp [h]
    cases hx with
    | call _ op _ obs' hrest =>
      rcases List.mem_cons.mp ho with rfl | ho'
      · cases op <;> simp [Abs.step, h]
        all_goals (try split) <;> simp [h]
      · exact ih (a.step op).1 (hstep op) obs' hrest o ho'
    | reopen _ _ obs' hrest =>
      rcases List.mem_cons.mp ho with rfl | ho'
      · exact ⟨(fun n b hh => by cases hh), (fun l b c w hh => by cases hh)⟩
      · exact ih a h obs' hrest o ho'
    | crashBefore _ op k _ obs' hrest =>
      rcases List.mem_cons.mp ho with rfl | ho'
      · exact ⟨(fun n b hh => by cases hh), (fun l b c w hh => by cases hh)⟩
      · exact ih a h obs' hrest o ho'
    | crashAfter _ op k _ obs' hrest =>
      rcases List.mem_cons.mp ho with rfl | ho'
      · exact ⟨(fun n b hh => by cases hh), (fun l b c w hh => by cases hh)⟩
      · exact ih (a.step op).1 (hstep op) obs' hrest o ho'

/-- `make_read_only` interrupted at any storage operation: the recovered core represents the writable log or
    the same log read-only -/
theorem ro_crash_atomic (C : Crypto) (hC : HashWF C) (hS : SignWF C) (hTw : TreeWF C) (pk sk : Bytes)
    (hpk : pk.length = 32) (hsk : sk.length = 32) (steps : List HStep) (hok : AllOK {} steps) (k : Nat) :
    ∃ c j, Core.openCore C (some (pk, some sk)) {} = .ok (c, j) ∧
      ∃ c' jo, Core.openCore C none (crashDisk C (runC' C (c, ({} : Disk).applyAll j) steps).1 .makeReadOnly k) = .ok (c', jo)
        ∧ (Rep C c' ((crashDisk C (runC' C (c, ({} : Disk).applyAll j) steps).1 .makeReadOnly k).applyAll jo) (runA' {} steps).1
          ∨ Rep C c' ((crashDisk C (runC' C (c, ({} : Disk).applyAll j) steps).1 .makeReadOnly k).applyAll jo)
              ((runA' {} steps).1.step .makeReadOnly).1) :=
  C02.crash_atomic C hC hS hTw pk sk hpk hsk steps hok .makeReadOnly trivial trivial k

/-- … and with the write in progress torn after `t` bytes (header writes: under the checksum assumption) -/
theorem ro_torn_atomic (C : Crypto) (hC : HashWF C) (hS : SignWF C) (hTw : TreeWF C) (pk sk : Bytes)
    (hpk : pk.length = 32) (hsk : sk.length = 32) (steps : List HStep) (hok : AllOK {} steps) (k t : Nat) :
    ∃ c j, Core.openCore C (some (pk, some sk)) {} = .ok (c, j) ∧
      (C07.CrcDetects C (runC' C (c, ({} : Disk).applyAll j) steps).1 .makeReadOnly k t →
        ∃ c' jo, Core.openCore C none (tornDisk C (runC' C (c, ({} : Disk).applyAll j) steps).1 .makeReadOnly k t) = .ok (c', jo)
          ∧ (Rep C c' ((tornDisk C (runC' C (c, ({} : Disk).applyAll j) steps).1 .makeReadOnly k t).applyAll jo) (runA' {} steps).1
            ∨ Rep C c' ((tornDisk C (runC' C (c, ({} : Disk).applyAll j) steps).1 .makeReadOnly k t).applyAll jo)
                ((runA' {} steps).1.step .makeReadOnly).1)) :=
  C07.torn_atomic C hC hS hTw pk sk hpk hsk steps hok .makeReadOnly trivial trivial k t

end Model

end HC.C12
