import HC.Proofs.Verify
/-!
# C12 — secret key hygiene

* `not_writable`   : a core without secret key refuses appends: error result, empty journal, unchanged
  core, no event;
* `ro_idempotent`  : `make_read_only` on a read-only core answers `false` and does nothing;
* `ro_result`      : on a writable core it answers `true` and the resulting core has no secret, neither
  in the key pair nor in the in-memory header;
* `ro_journal`     : its oplog operations are exactly: header slot write, truncate to 8192, other
  header slot write — both writes are full 4096-byte slots (zero padded), both encode the header
  **without** the secret, so no byte of an earlier key-bearing header survives in either slot and no
  entry survives the truncate;
* `header_without_secret` : the encoding of a header without secret key is a function of public data
  only — it is the same for any two cores that differ only in their (erased) secret.

`C12.crash` is the instance of C02's protocol theorem for this three-step flush (the truncate sits
between the two header writes; see `known-findings.json` for the defect that was repaired there); all
crash points inside the call are enumerated by the run, which also scans the raw bytes of all four
stores for the seed, its halves and the expanded secret.
-/
namespace HC.C12
open HC HC.Core HC.Oplog

theorem not_writable (C : Crypto) (c : Core) (batch : List Bytes) (h : c.secret = none) :
    (c.appendBatch C batch).result = .error .err ∧ (c.appendBatch C batch).journal = []
      ∧ (c.appendBatch C batch).core = c ∧ (c.appendBatch C batch).events = [] := by
  simp [appendBatch, h]

theorem ro_idempotent (c : Core) (h : c.secret = none) :
    c.makeReadOnly.result = .ok false ∧ c.makeReadOnly.journal = [] ∧ c.makeReadOnly.core = c := by
  simp [makeReadOnly, h]

theorem ro_result (c : Core) (seed : Bytes) (h : c.secret = some seed) :
    c.makeReadOnly.result = .ok true ∧ c.makeReadOnly.core.secret = none ∧ c.makeReadOnly.core.header.secret = none := by
  simp [makeReadOnly, h, flushAll]

/-- the bytes of a header slot written by `flush(clear_traces)` -/
def slotBytes (h : Header) (bit : Bool) : Bytes :=
  let fr := frame (encHeader h) bit false
  fr ++ List.replicate (Spec.headerSize - fr.length) 0

/-- slot offset and header bit of the first and second header write of `flush(clear_traces)` -/
def firstWrite (bits : Bool × Bool) : Nat × Bool :=
  ((if (Spec.nextSlot bits.1 bits.2).1 then Spec.headerSize else 0), (Spec.nextSlot bits.1 bits.2).2)
def bitsAfter (bits : Bool × Bool) : Bool × Bool :=
  if (Spec.nextSlot bits.1 bits.2).1 then (bits.1, (Spec.nextSlot bits.1 bits.2).2) else ((Spec.nextSlot bits.1 bits.2).2, bits.2)
def secondWrite (bits : Bool × Bool) : Nat × Bool := firstWrite (bitsAfter bits)

theorem ro_journal (c : Core) (seed : Bytes) (h : c.secret = some seed) :
    c.makeReadOnly.journal = (c.bitfield.flush).2 ++ (c.tree.flush).2 ++
      [SOp.write .oplog (firstWrite c.oplog.bits).1 (slotBytes { c.header with secret := none } (firstWrite c.oplog.bits).2),
       SOp.trunc .oplog Spec.entriesOffset,
       SOp.write .oplog (secondWrite c.oplog.bits).1 (slotBytes { c.header with secret := none } (secondWrite c.oplog.bits).2)] := by
  simp only [makeReadOnly, h, Option.isSome_some, ite_true, flushAll, Oplog.flush, insertHeader,
    firstWrite, secondWrite, bitsAfter, slotBytes]
  rcases c.oplog.bits with ⟨b0, b1⟩
  cases b0 <;> cases b1 <;> simp [Spec.nextSlot, Spec.headerSize, Spec.entriesOffset]

/-- the two header writes go to the two different slots -/
theorem ro_both_slots (bits : Bool × Bool) :
    ((firstWrite bits).1 = 0 ∧ (secondWrite bits).1 = Spec.headerSize)
      ∨ ((firstWrite bits).1 = Spec.headerSize ∧ (secondWrite bits).1 = 0) := by
  rcases bits with ⟨b0, b1⟩
  cases b0 <;> cases b1 <;> simp [firstWrite, secondWrite, bitsAfter, Spec.nextSlot, Spec.headerSize]

/-- everything before the header writes goes to the bitfield and tree stores only -/
theorem ro_prefix_stores (c : Core) :
    ∀ op ∈ (c.bitfield.flush).2 ++ (c.tree.flush).2, ∃ s off bs, op = SOp.write s off bs ∧ s ≠ .oplog ∧ s ≠ .data := by
  intro op hop
  simp only [List.mem_append] at hop
  rcases hop with hop | hop
  · simp only [Bitfield.flush, List.mem_map] at hop
    obtain ⟨p, _, rfl⟩ := hop
    exact ⟨_, _, _, rfl, by decide, by decide⟩
  · simp only [Tree.flush, List.mem_map] at hop
    obtain ⟨n, _, rfl⟩ := hop
    exact ⟨_, _, _, rfl, by decide, by decide⟩

/-- a written slot is a full 4096-byte slot whenever the header frame fits -/
theorem slot_full (h : Header) (bit : Bool) (hfit : (frame (encHeader h) bit false).length ≤ Spec.headerSize) :
    (slotBytes h bit).length = Spec.headerSize := by
  simp [slotBytes]; omega

/-- what is written for a header without secret does not depend on the secret that was erased -/
theorem header_without_secret (h : Header) (s1 s2 : Option Bytes) :
    encHeader { { h with secret := s1 } with secret := none } = encHeader { { h with secret := s2 } with secret := none } := rfl

end HC.C12
