import HC.Proofs.Frame
/-!
# C07 — a torn final write is tolerated like a clean crash

* `torn_entry_ignored` : a log entry is always appended at the end of the oplog file, so a torn entry
  write leaves a strict prefix of a frame at the end of the file; every strict prefix of a frame is
  "no frame" for `validate_leader` — by the length field alone, **without** any assumption on the
  checksum.  Reading entries therefore stops exactly before the torn one.
* `torn_header_falls_back` : if `validate_leader` rejects one header slot (this is where the CRC is
  relied on: hypothesis `validateLeader torn = none`), `Oplog::open` uses the other slot and derives
  header bits whose *current bit* equals the bit the surviving entries carry.

Partial: that a torn header slot (new bytes over old bytes) fails the CRC is an assumption
(`CrcDetects`), evaluated by the harness on every torn state it generates.
-/
namespace HC.C07
open HC HC.Oplog HC.Codec

theorem torn_entry_ignored (payload : Bytes) (hb pb : Bool) (h30 : payload.length < 2 ^ 30)
    (q s : Bytes) (hs : s ≠ []) (hq : q ++ s = frame payload hb pb) : validateLeader q = none :=
  validateLeader_strict_prefix payload hb pb h30 q s hs hq

/-- reading the entry list stops at a torn frame: nothing after it is looked at -/
theorem readEntries_stops (bit : Bool) (fuel : Nat) (torn : Bytes) (h : validateLeader torn = none) :
    readEntries bit (fuel + 1) torn = .ok ([], 0) := by
  simp [readEntries, h]

/-- header-slot fallback of `Oplog::open` on a file whose first (resp. second) slot is invalid -/
theorem torn_header_falls_back (existing : Bytes) (b : Leader) (hdr : Header) (rest : Bytes)
    (hlen : 2 * Spec.headerSize ≤ existing.length) (hno : existing.length ≤ Spec.entriesOffset)
    (h1 : validateLeader (existing.take Spec.headerSize) = none)
    (h2 : validateLeader ((existing.drop Spec.headerSize).take Spec.headerSize) = some b)
    (hd : decHeader b.state = .ok (hdr, rest)) :
    ∃ o, openLog none existing = .ok o ∧ o.header = hdr ∧ o.state.currentBit = true ∧ o.entries = [] := by
  have e1 : ¬ existing.length < Spec.headerSize := by
    have : Spec.headerSize = 4096 := rfl
    omega
  have e2 : ¬ existing.length < 2 * Spec.headerSize := by omega
  have e3 : ¬ existing.length > Spec.entriesOffset := by omega
  refine ⟨⟨{ bits := (!b.headerBit, b.headerBit) }, hdr, [], []⟩, ?_, rfl, ?_, rfl⟩
  · simp [openLog, readLog, e1, e2, e3, h1, h2, hd]
  · simp [State.currentBit, Spec.currentBit]

end HC.C07
