import HC.Proofs.Frame
import HC.Proofs.Torn
import HC.Props.C02
import HC.Proofs.ReplicaTorn
/-!
# C07 — a torn final write is tolerated like a clean crash

* `torn_entry_ignored` : a log entry is always appended at the end of the oplog file, so a torn entry
  write leaves a strict prefix of a frame at the end of the file; every strict prefix of a frame is
  "no frame" for `validate_leader` — by the length field alone, **without** any assumption on the
  checksum.  Reading entries therefore stops exactly before the torn one.
* `torn_header_falls_back` : if `validate_leader` rejects one header slot (this is where the CRC is
  relied on: hypothesis `validateLeader torn = none`), `Oplog::open` uses the other slot and derives
  header bits whose *current bit* equals the bit the surviving entries carry.

* **`torn_atomic`** (the property itself, on the model of the crate, for a writer): after any history of
  calls and reopen steps, take any further call (append_batch, clear, make_read_only or a read), any storage operation `k`
  of it and any number `t` of bytes — the stores as they are when the process dies during operation `k`
  and, if it is a write, only its first `t` bytes arrive (`LogSpec.tornDisk`).  `Hypercore::new` on these
  stores succeeds and the recovered core represents the log before the call or the log after it, for torn
  data, bitfield-page, tree-node and log-entry writes **without any assumption** (a half-written page
  decodes, bit by bit, to the old or the new value and the replay tolerates that; a half-written node slot
  is shadowed by the entry that carries the node, or rewrites bytes that were already there; a strict
  prefix of an entry frame is no frame, and `Oplog::open` cuts it off), and for a torn header write under
  the one assumption the format itself relies on: the checksum rejects the half-written slot (`hcrc`).
  `torn_then_continue`: the recovered core stays usable.

Partial: that a torn header slot (new bytes over old bytes) fails the CRC is an assumption
(`CrcDetects`), evaluated by the harness on every torn state it generates.
-/
namespace HC.C07
open HC HC.Oplog HC.Codec

theorem torn_entry_ignored (payload : Bytes) (hb pb : Bool) (h30 : payload.length < 2 ^ 30)
    (q s : Bytes) (hs : s ≠ []) (hq : q ++ s = frame payload hb pb) : validateLeader q = none :=
  validateLeader_strict_prefix payload hb pb h30 q s hs hq

/-- reading the entry list stops at a torn frame: nothing after it is looked at -/
theorem readEntries_stops (bit : Bool) (fuel : Nat) (torn : Bytes) (h : validateLeader torn = none) :
    readEntries bit (fuel + 1) torn = .ok ([], 0) := by
  simp [readEntries, h]

/-- header-slot fallback of `Oplog::open` on a file whose first (resp. second) slot is invalid -/
theorem torn_header_falls_back (existing : Bytes) (b : Leader) (hdr : Header) (rest : Bytes)
    (hlen : 2 * Spec.headerSize ≤ existing.length) (hno : existing.length ≤ Spec.entriesOffset)
    (h1 : validateLeader (existing.take Spec.headerSize) = none)
    (h2 : validateLeader ((existing.drop Spec.headerSize).take Spec.headerSize) = some b)
    (hd : decHeader b.state = .ok (hdr, rest)) :
    ∃ o, openLog none existing = .ok o ∧ o.header = hdr ∧ o.state.currentBit = true ∧ o.entries = [] := by
  have e1 : ¬ existing.length < Spec.headerSize := by
    have : Spec.headerSize = 4096 := rfl
    omega
  have e2 : ¬ existing.length < 2 * Spec.headerSize := by omega
  have e3 : ¬ existing.length > Spec.entriesOffset := by omega
  refine ⟨⟨{ bits := (!b.headerBit, b.headerBit) }, hdr, [], []⟩, ?_, rfl, ?_, rfl⟩
  · simp [openLog, readLog, e1, e2, e3, h1, h2, hd]
  · simp [State.currentBit, Spec.currentBit]

/-! ### the crate's model: every torn write of every call -/

section Model
open HC.LogSpec HC.LiveRefine HC.TreeStore HC.Persist HC.Crash HC.Torn HC.C01

/-- the assumption on the checksum: if operation `k` of the call is a header write (an oplog write inside the
    two header slots), the slot it leaves half written does not validate -/
def CrcDetects (C : Crypto) (s : Core × Disk) (op : Op) (k t : Nat) : Prop :=
  ∀ off bs, (journalC C s op)[k]? = some (.write .oplog off bs) → off < Spec.entriesOffset →
    validateLeader (((tornDisk C s op k t).oplog.toList.drop off).take Spec.headerSize) = none

/-- **C07**, from any state that satisfies the representation and ghost invariants -/
theorem torn_atomic_from (C : Crypto) (hC : HashWF C) (hS : SignWF C) (hTw : TreeWF C) (c : Core) (d : Disk) (hf : Header)
    (a0 a : Abs) (es : List Entry) (hrep : Rep C c d a) (hp : Persist C c d hf a0 es a) (op : Op) (hv : Valid a op)
    (hl : Limits a op) (k t : Nat) (hcrc : CrcDetects C (c, d) op k t) :
    ∃ c' jo, Core.openCore C none (tornDisk C (c, d) op k t) = .ok (c', jo)
      ∧ (Rep C c' ((tornDisk C (c, d) op k t).applyAll jo) a ∨ Rep C c' ((tornDisk C (c, d) op k t).applyAll jo) (a.step op).1) := by
  rcases torn_step C hC hS hTw c d hf a0 a es hrep hp op hv hl k t hcrc with ⟨hf', a0', es', hd⟩ | ⟨hf', a0', es', hd⟩
  · obtain ⟨c', jo, ho, hr⟩ := durable_open C hC hTw _ hf' a0' es' _ hd
    exact ⟨c', jo, ho, Or.inl hr⟩
  · obtain ⟨c', jo, ho, hr⟩ := durable_open C hC hTw _ hf' a0' es' _ hd
    exact ⟨c', jo, ho, Or.inr hr⟩

/-- **C07.**  Any history of a freshly created core, any further call, any of its storage operations torn
    after any number of bytes: reopening succeeds and the recovered core represents the log before the call
    or the log after it. -/
theorem torn_atomic (C : Crypto) (hC : HashWF C) (hS : SignWF C) (hTw : TreeWF C) (pk sk : Bytes)
    (hpk : pk.length = 32) (hsk : sk.length = 32) (steps : List HStep) (hok : AllOK {} steps) (op : Op)
    (hv : Valid (runA' {} steps).1 op) (hl : Limits (runA' {} steps).1 op) (k t : Nat) :
    ∃ c j, Core.openCore C (some (pk, some sk)) {} = .ok (c, j) ∧
      (CrcDetects C (runC' C (c, ({} : Disk).applyAll j) steps).1 op k t →
        ∃ c' jo, Core.openCore C none (tornDisk C (runC' C (c, ({} : Disk).applyAll j) steps).1 op k t) = .ok (c', jo)
          ∧ (Rep C c' ((tornDisk C (runC' C (c, ({} : Disk).applyAll j) steps).1 op k t).applyAll jo) (runA' {} steps).1
            ∨ Rep C c' ((tornDisk C (runC' C (c, ({} : Disk).applyAll j) steps).1 op k t).applyAll jo) ((runA' {} steps).1.step op).1)) := by
  obtain ⟨c, j, h1, h2, h3⟩ := init_both C pk sk hpk hsk
  obtain ⟨hrep, hf, a0, es, hp⟩ := C02.history_invariants_reopen C hC hS hTw steps c _ {} _ {} [] h2 h3 hok
  exact ⟨c, j, h1, fun hcrc => torn_atomic_from C hC hS hTw _ _ hf a0 _ es hrep hp op hv hl k t hcrc⟩

/-- the core recovered from a torn write stays usable: every further sequence of calls behaves like the
    abstract log it recovered to -/
theorem torn_then_continue (C : Crypto) (hC : HashWF C) (hS : SignWF C) (hTw : TreeWF C) (c : Core) (d : Disk) (hf : Header)
    (a0 a : Abs) (es : List Entry) (hrep : Rep C c d a) (hp : Persist C c d hf a0 es a) (op : Op) (hv : Valid a op)
    (hl : Limits a op) (k t : Nat) (hcrc : CrcDetects C (c, d) op k t) (more : List Op) :
    ∃ c' jo, Core.openCore C none (tornDisk C (c, d) op k t) = .ok (c', jo)
      ∧ ((AllValid a more → (runC C (c', (tornDisk C (c, d) op k t).applyAll jo) more).2 = (runA a more).2)
        ∨ (AllValid (a.step op).1 more → (runC C (c', (tornDisk C (c, d) op k t).applyAll jo) more).2 = (runA (a.step op).1 more).2)) := by
  obtain ⟨c', jo, h2, h3⟩ := torn_atomic_from C hC hS hTw c d hf a0 a es hrep hp op hv hl k t hcrc
  refine ⟨c', jo, h2, ?_⟩
  rcases h3 with h3 | h3
  · exact Or.inl fun hvm => (live_refinement C hC more c' _ _ h3 hvm).1
  · exact Or.inr fun hvm => (live_refinement C hC more c' _ _ h3 hvm).1

/-- the checksum assumption only concerns header writes: for every operation that is not an oplog write inside
    the header slots it holds vacuously (e.g. the data write that opens an append) -/
example (C : Crypto) (s : Core × Disk) (op : Op) (t : Nat) (h : ∀ off bs, (journalC C s op)[0]? ≠ some (.write .oplog off bs)) :
    CrcDetects C s op 0 t := fun off bs hget _ => absurd hget (h off bs)

end Model

/-! ### proof applications on a replica -/

/-- **the entry write is the commit point of a proof application (partial: data and entry writes).**  For every replica
    state that satisfies the invariants (every state of `C02.replica_survives_crashes`) and every honest act: if the
    write of the block's bytes, or the write of the oplog entry, is torn after any number of bytes, `Hypercore::new`
    succeeds and shows the replica exactly as it was before the application, with the invariants re-established — a
    strict prefix of a frame is no frame (no checksum assumption), and the bytes of a block that is not yet recorded as
    held are not observable.  Torn writes *inside the periodic flush* of a replica (pages, nodes, header) are covered by
    the runs only. -/
theorem replica_torn_commit_point_partial (C : Crypto) (hC : TreeStore.HashWF C) (hT : TreeStore.TreeWF C) (bs : Array Bytes) (m : Nat) (c : Core) (d : Disk)
    (held : Nat → Bool) (h : ReplicaReopen.RP C bs m c d held) (hm0 : 0 < m) (a : HashReq.Act)
    (hok : HashReq.OkActs C bs c.publicKey c.tree.fork m [a]) :
    ∃ (e : Oplog.Entry) (j0 : List SOp), (∃ j2, (c.verifyAndApply C d (HashReq.actProof C bs c d a)).journal = (j0 ++ (Oplog.appendEntry c.oplog e).2) ++ j2)
      ∧ (∀ op ∈ j0, ∃ off bytes, op = SOp.write .data off bytes ∧ ∀ t, ∃ c' j, Core.openCore C none (d.apply (SOp.write .data off (bytes.take t))) = .ok (c', j)
          ∧ C02.Shows bs m held c' ((d.apply (SOp.write .data off (bytes.take t))).applyAll j)
          ∧ ReplicaReopen.RP C bs m c' ((d.apply (SOp.write .data off (bytes.take t))).applyAll j) held)
      ∧ (∀ t, t < (Oplog.frame (Oplog.encEntry e) c.oplog.currentBit false).length →
          let dt := (d.applyAll j0).apply (SOp.write .oplog (Spec.entriesOffset + c.oplog.entriesByteLength) ((Oplog.frame (Oplog.encEntry e) c.oplog.currentBit false).take t))
          ∃ c' j, Core.openCore C none dt = .ok (c', j) ∧ C02.Shows bs m held c' (dt.applyAll j) ∧ ReplicaReopen.RP C bs m c' (dt.applyAll j) held) := by
  obtain ⟨c1, e, j0, hk⟩ := ReplicaCrash.act_ok C hC hT bs m c d held h hm0 a hok
  obtain ⟨t1, t2⟩ := ReplicaCrash.torn_ok C bs m _ c c1 d held _ _ e j0 h hk
  refine ⟨e, j0, ⟨_, hk.shape.2⟩, fun op hop => ?_, fun t ht => ?_⟩
  · obtain ⟨off, bytes, hop', hdur⟩ := t1 op hop
    refine ⟨off, bytes, hop', fun t => ?_⟩
    obtain ⟨c', j, r1, r2, _, _⟩ := ReplicaCrash.durR_open C bs m held _ _ _ (hdur t)
    exact ⟨c', j, r1, C02.shows_of_rp C bs m c' _ held r2, r2⟩
  · obtain ⟨c', j, r1, r2, _, _⟩ := ReplicaCrash.durR_open C bs m held _ _ _ (t2 t ht)
    exact ⟨c', j, r1, C02.shows_of_rp C bs m c' _ held r2, r2⟩

/-- **the header write of a replica's periodic flush, torn** (with the checksum assumption of `torn_atomic`): `c1` is the
    core right after the act's entry has been logged, `d1` its stores; when the periodic flush that follows has written
    all dirty pages and all unflushed nodes and its header write reaches the store only as a prefix that does not
    validate, `Hypercore::new` succeeds and shows the replica as the completed application leaves it (the old header
    and all entries are replayed over stores that are ahead), with the invariants re-established -/
theorem replica_torn_header (C : Crypto) (hC : TreeStore.HashWF C) (hT : TreeStore.TreeWF C) (bs : Array Bytes) (m : Nat) (c : Core) (d : Disk)
    (held : Nat → Bool) (h : ReplicaReopen.RP C bs m c d held) (hm0 : 0 < m) (a : HashReq.Act)
    (hok : HashReq.OkActs C bs c.publicKey c.tree.fork m [a]) :
    ∃ (c1 : Core) (e : Oplog.Entry) (j0 : List SOp),
      (c.verifyAndApply C d (HashReq.actProof C bs c d a)).journal = (j0 ++ (Oplog.appendEntry c.oplog e).2) ++ c1.maybeFlush.2
      ∧ ∀ (off : Nat) (bytes : Bytes) (t : Nat),
          (Oplog.insertHeader c1.header 0 c1.oplog.bits false).2.head? = some (.write .oplog off bytes) →
          Oplog.validateLeader (((d.applyAll (j0 ++ (Oplog.appendEntry c.oplog e).2)).oplog.write off (bytes.take t)).toList.drop off |>.take Spec.headerSize) = none →
          let dt := ((d.applyAll (j0 ++ (Oplog.appendEntry c.oplog e).2)).applyAll (c1.bitfield.flush.2 ++ c1.tree.flush.2)).apply (.write .oplog off (bytes.take t))
          ∃ c' j, Core.openCore C none dt = .ok (c', j)
            ∧ C02.Shows bs (HashReq.lenAfter m [a]) (fun i => held i || HashReq.fetched [a] i) c' (dt.applyAll j)
            ∧ ReplicaReopen.RP C bs (HashReq.lenAfter m [a]) c' (dt.applyAll j) (fun i => held i || HashReq.fetched [a] i) := by
  obtain ⟨c1, e, j0, hk⟩ := ReplicaCrash.act_ok C hC hT bs m c d held h hm0 a hok
  have hmid := ReplicaReopen.ok_mid C bs m _ c c1 d held _ _ e j0 h hk
  obtain ⟨hf1, es1, hp1, hx1⟩ := hmid.per
  refine ⟨c1, e, j0, hk.shape.2, fun off bytes t hop hcrc => ?_⟩
  have hdur := ReplicaCrash.torn_headerR C bs _ c1 _ _ hf1 es1 hmid.rep hp1 hx1 h.size off bytes hop t hcrc
  obtain ⟨c', j, r1, r2, _, _⟩ := ReplicaCrash.durR_open C bs _ _ _ _ _ hdur
  exact ⟨c', j, r1, C02.shows_of_rp C bs _ c' _ _ r2, r2⟩

/-- the same commit point for a proof that carries a block below the replica's length **and an upgrade**: a torn write of
    the block's bytes or of the single oplog entry (nodes + upgrade + bitfield update) recovers to the replica of length
    `m` without the block -/
theorem replica_blockgrow_torn_commit_point (C : Crypto) (hC : TreeStore.HashWF C) (hT : TreeStore.TreeWF C) (bs : Array Bytes) (m n : Nat) (c : Core) (d : Disk)
    (held : Nat → Bool) (h : ReplicaReopen.RP C bs m c d held) (hm0 : 0 < m) (hmn : m < n) (hn : n ≤ bs.size) (us : List (Nat × Nat))
    (hup : Growth.Up m 0 (RefTree.rootsStack n).reverse us) (sig : Bytes) (hsl : sig.length = 64)
    (hver : C.verify c.publicKey (Growth.signableAt C bs n c.tree.fork) sig = true) (i : Nat) (hi : i < m) :
    ∃ (e : Oplog.Entry) (j0 : List SOp), (∃ j2, (c.verifyAndApply C d (BlockGrow.honestBlockGrowth C bs c d i m n us sig)).journal = (j0 ++ (Oplog.appendEntry c.oplog e).2) ++ j2)
      ∧ (∀ op ∈ j0, ∃ off bytes, op = SOp.write .data off bytes ∧ ∀ t, ∃ c' j, Core.openCore C none (d.apply (SOp.write .data off (bytes.take t))) = .ok (c', j)
          ∧ C02.Shows bs m held c' ((d.apply (SOp.write .data off (bytes.take t))).applyAll j)
          ∧ ReplicaReopen.RP C bs m c' ((d.apply (SOp.write .data off (bytes.take t))).applyAll j) held)
      ∧ (∀ t, t < (Oplog.frame (Oplog.encEntry e) c.oplog.currentBit false).length →
          let dt := (d.applyAll j0).apply (SOp.write .oplog (Spec.entriesOffset + c.oplog.entriesByteLength) ((Oplog.frame (Oplog.encEntry e) c.oplog.currentBit false).take t))
          ∃ c' j, Core.openCore C none dt = .ok (c', j) ∧ C02.Shows bs m held c' (dt.applyAll j) ∧ ReplicaReopen.RP C bs m c' (dt.applyAll j) held) := by
  obtain ⟨c1, e, j0, hk⟩ := BlockGrow.blockgrow_ok C hC hT bs m n c d held h hm0 hmn hn us hup sig hsl hver i hi
  obtain ⟨t1, t2⟩ := ReplicaCrash.torn_ok C bs m _ c c1 d held _ _ e j0 h hk
  refine ⟨e, j0, ⟨_, hk.shape.2⟩, fun op hop => ?_, fun t ht => ?_⟩
  · obtain ⟨off, bytes, hop', hdur⟩ := t1 op hop
    refine ⟨off, bytes, hop', fun t => ?_⟩
    obtain ⟨c', j, r1, r2, _, _⟩ := ReplicaCrash.durR_open C bs m held _ _ _ (hdur t)
    exact ⟨c', j, r1, C02.shows_of_rp C bs m c' _ held r2, r2⟩
  · obtain ⟨c', j, r1, r2, _, _⟩ := ReplicaCrash.durR_open C bs m held _ _ _ (t2 t ht)
    exact ⟨c', j, r1, C02.shows_of_rp C bs m c' _ held r2, r2⟩

theorem shows_of_showsR (bs : Array Bytes) (m : Nat) (held : Nat → Bool) (c : Core) (d : Disk) (h : ReplicaTorn.ShowsR bs m held c d) :
    C02.Shows bs m held c d :=
  ⟨h.length, h.bytes, h.get, h.miss, fun i => by simpa [Core.has] using h.has i, h.contig⟩

/-- what `replica_torn_flush*` say about a step `st` of a replica (`c`, `d`) that logs the entry `e` after the data-store
    operations `j0`, reaches the core `c1` and then runs the periodic flush, when the completed step leaves length `m'` and
    held set `held'`: the journal's shape, and for the `k1`-th page write / (all pages written) the `k2`-th node write of
    the flush reaching the store only as a prefix of `t` bytes, `Hypercore::new` succeeds and shows the state after -/
def TornFlushShows (C : Crypto) (bs : Array Bytes) (m' : Nat) (held' : Nat → Bool) (c c1 : Core) (d : Disk) (st : Step Bool) (e : Oplog.Entry) (j0 : List SOp) : Prop :=
  st.journal = (j0 ++ (Oplog.appendEntry c.oplog e).2) ++ c1.maybeFlush.2
    ∧ ((c1.skipFlush = 0 ∨ c1.oplog.entriesByteLength ≥ Spec.maxEntriesBytes) →
        c1.maybeFlush.2 = c1.bitfield.flush.2 ++ c1.tree.flush.2 ++ (Oplog.flush c1.oplog c1.header false).2)
    ∧ (∀ (k1 p t : Nat),
        let dt := ((d.applyAll (j0 ++ (Oplog.appendEntry c.oplog e).2)).applyAll (c1.bitfield.flush.2.take k1)).apply
          (.write .bitfield (p * Spec.pageBytes) ((c1.bitfield.pageBytes p).take t))
        ∃ c' j, Core.openCore C none dt = .ok (c', j) ∧ C02.Shows bs m' held' c' (dt.applyAll j))
    ∧ (∀ (k2 : Nat) (n : Codec.Node) (t : Nat), (Crash.flushList c1.tree)[k2]? = some n →
        let dt := (((d.applyAll (j0 ++ (Oplog.appendEntry c.oplog e).2)).applyAll c1.bitfield.flush.2).applyAll (c1.tree.flush.2.take k2)).apply
          (.write .tree (n.index * Spec.nodeSize) ((HC.nodeBytes n).take t))
        ∃ c' j, Core.openCore C none dt = .ok (c', j) ∧ C02.Shows bs m' held' c' (dt.applyAll j))

/-- every exchange step (`ReplicaReopen.StepOK`) has the property -/
theorem torn_flush_of_ok (C : Crypto) (bs : Array Bytes) (m m' : Nat) (c c1 : Core) (d : Disk) (held held' : Nat → Bool) (st : Step Bool)
    (e : Oplog.Entry) (j0 : List SOp) (h : ReplicaReopen.RP C bs m c d held) (hk : ReplicaReopen.StepOK C bs m m' c c1 d held held' st e j0) :
    TornFlushShows C bs m' held' c c1 d st e j0 := by
  have hmid := ReplicaReopen.ok_mid C bs m m' c c1 d held held' st e j0 h hk
  obtain ⟨hf1, es1, hp1, hx1⟩ := hmid.per
  refine ⟨hk.shape.2, ?_, ?_, ?_⟩
  · intro hdue
    rw [LiveRefine.maybeFlush_eq]
    simp only [hdue, ite_true, Core.flushAll]
  · intro k1 p t
    obtain ⟨c', j, r1, r2, _, _⟩ := ReplicaTorn.torn_flush_pageR C bs _ c1 _ _ hf1 es1 hmid.rep hp1 hx1 h.size k1 p t
    exact ⟨c', j, r1, shows_of_showsR bs _ _ c' _ r2⟩
  · intro k2 n t hn
    obtain ⟨c', j, r1, r2, _, _⟩ := ReplicaTorn.torn_flush_slotR C bs _ c1 _ _ hf1 es1 hmid.rep hp1 hx1 h.size k2 n t hn
    exact ⟨c', j, r1, shows_of_showsR bs _ _ c' _ r2⟩

/-- **torn page and node writes inside the periodic flush of a replica.**  `c1` is the core right after the act's entry has
    been logged; when the periodic flush is due its journal is the dirty bitfield pages, then the unflushed tree nodes
    in index order, then the header write and the truncation.  If the `k1`-th page write, or (all pages written) the
    `k2`-th node write, reaches the store only as a prefix of `t` bytes, `Hypercore::new` succeeds and shows the
    replica exactly as the completed application leaves it: length, byte length, every held block byte-identical, every
    other index not held, `has` and the contiguous length exact (`TornFlushShows`).  (A half-written page holds, bit by
    bit, the old or the new value, and the replay of the old header's entries tolerates both; a half-written node is
    one the replayed entries put back into the unflushed map, which shadows the store.)  The stores are then no longer
    whole pages / whole slots, so — unlike `replica_torn_commit_point_partial` and `replica_torn_header` — the ghost
    invariant for *further* crashes is not re-established by this theorem. -/
theorem replica_torn_flush (C : Crypto) (hC : TreeStore.HashWF C) (hT : TreeStore.TreeWF C) (bs : Array Bytes) (m : Nat) (c : Core) (d : Disk)
    (held : Nat → Bool) (h : ReplicaReopen.RP C bs m c d held) (hm0 : 0 < m) (a : HashReq.Act)
    (hok : HashReq.OkActs C bs c.publicKey c.tree.fork m [a]) :
    ∃ (c1 : Core) (e : Oplog.Entry) (j0 : List SOp),
      TornFlushShows C bs (HashReq.lenAfter m [a]) (fun i => held i || HashReq.fetched [a] i) c c1 d (c.verifyAndApply C d (HashReq.actProof C bs c d a)) e j0 := by
  obtain ⟨c1, e, j0, hk⟩ := ReplicaCrash.act_ok C hC hT bs m c d held h hm0 a hok
  exact ⟨c1, e, j0, torn_flush_of_ok C bs m _ c c1 d held _ _ e j0 h hk⟩

/-- the same for first contact -/
theorem replica_torn_flush_first (C : Crypto) (hC : TreeStore.HashWF C) (hT : TreeStore.TreeWF C) (bs : Array Bytes) (c : Core) (d : Disk)
    (held : Nat → Bool) (h : ReplicaReopen.RP C bs 0 c d held) (n : Nat) (h0 : 0 < n) (hn : n ≤ bs.size) (sig : Bytes) (hsl : sig.length = 64)
    (hver : C.verify c.publicKey (Growth.signableAt C bs n c.tree.fork) sig = true) :
    ∃ (c1 : Core) (e : Oplog.Entry) (j0 : List SOp),
      TornFlushShows C bs n (fun _ => false) c c1 d (c.verifyAndApply C d (Growth.honestFirst C bs c.tree.fork n sig)) e j0 := by
  obtain ⟨rfl, c1, e, j0, hk⟩ := ReplicaCrash.first_ok0 C hC hT bs c d held h n h0 hn sig hsl hver
  exact ⟨c1, e, j0, torn_flush_of_ok C bs 0 n c c1 d _ _ _ e j0 h hk⟩

/-- the same for a block below the replica's length and an upgrade in one proof -/
theorem replica_torn_flush_blockgrow (C : Crypto) (hC : TreeStore.HashWF C) (hT : TreeStore.TreeWF C) (bs : Array Bytes) (m n : Nat) (c : Core) (d : Disk)
    (held : Nat → Bool) (h : ReplicaReopen.RP C bs m c d held) (hm0 : 0 < m) (hmn : m < n) (hn : n ≤ bs.size) (us : List (Nat × Nat))
    (hup : Growth.Up m 0 (RefTree.rootsStack n).reverse us) (sig : Bytes) (hsl : sig.length = 64)
    (hver : C.verify c.publicKey (Growth.signableAt C bs n c.tree.fork) sig = true) (i : Nat) (hi : i < m) :
    ∃ (c1 : Core) (e : Oplog.Entry) (j0 : List SOp),
      TornFlushShows C bs n (fun j => held j || j == i) c c1 d (c.verifyAndApply C d (BlockGrow.honestBlockGrowth C bs c d i m n us sig)) e j0 := by
  obtain ⟨c1, e, j0, hk⟩ := BlockGrow.blockgrow_ok C hC hT bs m n c d held h hm0 hmn hn us hup sig hsl hver i hi
  exact ⟨c1, e, j0, torn_flush_of_ok C bs m n c c1 d held _ _ e j0 h hk⟩

/-- the header write of the periodic flush torn, for every exchange step (`ReplicaReopen.StepOK`): what
    `replica_torn_header` says, with the state after the step as `m'`, `held'` -/
theorem torn_header_of_ok (C : Crypto) (bs : Array Bytes) (m m' : Nat) (c c1 : Core) (d : Disk) (held held' : Nat → Bool) (st : Step Bool)
    (e : Oplog.Entry) (j0 : List SOp) (h : ReplicaReopen.RP C bs m c d held) (hk : ReplicaReopen.StepOK C bs m m' c c1 d held held' st e j0) :
    ∀ (off : Nat) (bytes : Bytes) (t : Nat),
      (Oplog.insertHeader c1.header 0 c1.oplog.bits false).2.head? = some (.write .oplog off bytes) →
      Oplog.validateLeader (((d.applyAll (j0 ++ (Oplog.appendEntry c.oplog e).2)).oplog.write off (bytes.take t)).toList.drop off |>.take Spec.headerSize) = none →
      let dt := ((d.applyAll (j0 ++ (Oplog.appendEntry c.oplog e).2)).applyAll (c1.bitfield.flush.2 ++ c1.tree.flush.2)).apply (.write .oplog off (bytes.take t))
      ∃ c' j, Core.openCore C none dt = .ok (c', j) ∧ C02.Shows bs m' held' c' (dt.applyAll j) ∧ ReplicaReopen.RP C bs m' c' (dt.applyAll j) held' := by
  intro off bytes t hop hcrc
  have hmid := ReplicaReopen.ok_mid C bs m m' c c1 d held held' st e j0 h hk
  obtain ⟨hf1, es1, hp1, hx1⟩ := hmid.per
  have hdur := ReplicaCrash.torn_headerR C bs _ c1 _ _ hf1 es1 hmid.rep hp1 hx1 h.size off bytes hop t hcrc
  obtain ⟨c', j, r1, r2, _, _⟩ := ReplicaCrash.durR_open C bs _ _ _ _ _ hdur
  exact ⟨c', j, r1, C02.shows_of_rp C bs _ c' _ _ r2, r2⟩

/-- the data and entry writes torn, for every exchange step: what `replica_torn_commit_point_partial` says -/
theorem torn_commit_of_ok (C : Crypto) (bs : Array Bytes) (m m' : Nat) (c c1 : Core) (d : Disk) (held held' : Nat → Bool) (st : Step Bool)
    (e : Oplog.Entry) (j0 : List SOp) (h : ReplicaReopen.RP C bs m c d held) (hk : ReplicaReopen.StepOK C bs m m' c c1 d held held' st e j0) :
    (∀ op ∈ j0, ∃ off bytes, op = SOp.write .data off bytes ∧ ∀ t, ∃ c' j, Core.openCore C none (d.apply (SOp.write .data off (bytes.take t))) = .ok (c', j)
        ∧ C02.Shows bs m held c' ((d.apply (SOp.write .data off (bytes.take t))).applyAll j)
        ∧ ReplicaReopen.RP C bs m c' ((d.apply (SOp.write .data off (bytes.take t))).applyAll j) held)
    ∧ (∀ t, t < (Oplog.frame (Oplog.encEntry e) c.oplog.currentBit false).length →
        let dt := (d.applyAll j0).apply (SOp.write .oplog (Spec.entriesOffset + c.oplog.entriesByteLength) ((Oplog.frame (Oplog.encEntry e) c.oplog.currentBit false).take t))
        ∃ c' j, Core.openCore C none dt = .ok (c', j) ∧ C02.Shows bs m held c' (dt.applyAll j) ∧ ReplicaReopen.RP C bs m c' (dt.applyAll j) held) := by
  obtain ⟨t1, t2⟩ := ReplicaCrash.torn_ok C bs m _ c c1 d held _ _ e j0 h hk
  refine ⟨fun op hop => ?_, fun t ht => ?_⟩
  · obtain ⟨off, bytes, hop', hdur⟩ := t1 op hop
    refine ⟨off, bytes, hop', fun t => ?_⟩
    obtain ⟨c', j, r1, r2, _, _⟩ := ReplicaCrash.durR_open C bs m held _ _ _ (hdur t)
    exact ⟨c', j, r1, C02.shows_of_rp C bs m c' _ held r2, r2⟩
  · obtain ⟨c', j, r1, r2, _, _⟩ := ReplicaCrash.durR_open C bs m held _ _ _ (t2 t ht)
    exact ⟨c', j, r1, C02.shows_of_rp C bs m c' _ held r2, r2⟩

/-- **first contact, torn**: a torn entry write of the first upgrade recovers to the fresh replica; a torn header write of
    its flush recovers to the replica at length `n` -/
theorem replica_first_torn (C : Crypto) (hC : TreeStore.HashWF C) (hT : TreeStore.TreeWF C) (bs : Array Bytes) (c : Core) (d : Disk)
    (held : Nat → Bool) (h : ReplicaReopen.RP C bs 0 c d held) (n : Nat) (h0 : 0 < n) (hn : n ≤ bs.size) (sig : Bytes) (hsl : sig.length = 64)
    (hver : C.verify c.publicKey (Growth.signableAt C bs n c.tree.fork) sig = true) :
    ∃ (c1 : Core) (e : Oplog.Entry) (j0 : List SOp),
      (c.verifyAndApply C d (Growth.honestFirst C bs c.tree.fork n sig)).journal = (j0 ++ (Oplog.appendEntry c.oplog e).2) ++ c1.maybeFlush.2
      ∧ (∀ t, t < (Oplog.frame (Oplog.encEntry e) c.oplog.currentBit false).length →
          let dt := (d.applyAll j0).apply (SOp.write .oplog (Spec.entriesOffset + c.oplog.entriesByteLength) ((Oplog.frame (Oplog.encEntry e) c.oplog.currentBit false).take t))
          ∃ c' j, Core.openCore C none dt = .ok (c', j) ∧ C02.Shows bs 0 (fun _ => false) c' (dt.applyAll j))
      ∧ (∀ (off : Nat) (bytes : Bytes) (t : Nat),
          (Oplog.insertHeader c1.header 0 c1.oplog.bits false).2.head? = some (.write .oplog off bytes) →
          Oplog.validateLeader (((d.applyAll (j0 ++ (Oplog.appendEntry c.oplog e).2)).oplog.write off (bytes.take t)).toList.drop off |>.take Spec.headerSize) = none →
          let dt := ((d.applyAll (j0 ++ (Oplog.appendEntry c.oplog e).2)).applyAll (c1.bitfield.flush.2 ++ c1.tree.flush.2)).apply (.write .oplog off (bytes.take t))
          ∃ c' j, Core.openCore C none dt = .ok (c', j) ∧ C02.Shows bs n (fun _ => false) c' (dt.applyAll j)) := by
  obtain ⟨rfl, c1, e, j0, hk⟩ := ReplicaCrash.first_ok0 C hC hT bs c d held h n h0 hn sig hsl hver
  refine ⟨c1, e, j0, hk.shape.2, fun t ht => ?_, fun off bytes t hop hcrc => ?_⟩
  · obtain ⟨c', j, r1, r2, _⟩ := (torn_commit_of_ok C bs 0 n c c1 d _ _ _ e j0 h hk).2 t ht
    exact ⟨c', j, r1, r2⟩
  · obtain ⟨c', j, r1, r2, _⟩ := torn_header_of_ok C bs 0 n c c1 d _ _ _ e j0 h hk off bytes t hop hcrc
    exact ⟨c', j, r1, r2⟩

/-- the header write of the flush after **a block + upgrade proof**, torn: recovery shows the replica of length `n` with the
    block -/
theorem replica_blockgrow_torn_header (C : Crypto) (hC : TreeStore.HashWF C) (hT : TreeStore.TreeWF C) (bs : Array Bytes) (m n : Nat) (c : Core) (d : Disk)
    (held : Nat → Bool) (h : ReplicaReopen.RP C bs m c d held) (hm0 : 0 < m) (hmn : m < n) (hn : n ≤ bs.size) (us : List (Nat × Nat))
    (hup : Growth.Up m 0 (RefTree.rootsStack n).reverse us) (sig : Bytes) (hsl : sig.length = 64)
    (hver : C.verify c.publicKey (Growth.signableAt C bs n c.tree.fork) sig = true) (i : Nat) (hi : i < m) :
    ∃ (c1 : Core) (e : Oplog.Entry) (j0 : List SOp),
      (c.verifyAndApply C d (BlockGrow.honestBlockGrowth C bs c d i m n us sig)).journal = (j0 ++ (Oplog.appendEntry c.oplog e).2) ++ c1.maybeFlush.2
      ∧ ∀ (off : Nat) (bytes : Bytes) (t : Nat),
          (Oplog.insertHeader c1.header 0 c1.oplog.bits false).2.head? = some (.write .oplog off bytes) →
          Oplog.validateLeader (((d.applyAll (j0 ++ (Oplog.appendEntry c.oplog e).2)).oplog.write off (bytes.take t)).toList.drop off |>.take Spec.headerSize) = none →
          let dt := ((d.applyAll (j0 ++ (Oplog.appendEntry c.oplog e).2)).applyAll (c1.bitfield.flush.2 ++ c1.tree.flush.2)).apply (.write .oplog off (bytes.take t))
          ∃ c' j, Core.openCore C none dt = .ok (c', j) ∧ C02.Shows bs n (fun j => held j || j == i) c' (dt.applyAll j)
            ∧ ReplicaReopen.RP C bs n c' (dt.applyAll j) (fun j => held j || j == i) := by
  obtain ⟨c1, e, j0, hk⟩ := BlockGrow.blockgrow_ok C hC hT bs m n c d held h hm0 hmn hn us hup sig hsl hver i hi
  exact ⟨c1, e, j0, hk.shape.2, torn_header_of_ok C bs m n c c1 d held _ _ e j0 h hk⟩

/-- a block of the new part + upgrade, torn: entry / data writes recover to before, the flush's header write to after
    (`torn_commit_of_ok`, `torn_header_of_ok` apply to the `StepOK` step), page and node writes of the flush show the state
    after -/
theorem replica_newblock_torn (C : Crypto) (hC : TreeStore.HashWF C) (hT : TreeStore.TreeWF C) (bs : Array Bytes) (m n : Nat) (c : Core) (d : Disk)
    (held : Nat → Bool) (h : ReplicaReopen.RP C bs m c d held) (hm0 : 0 < m) (hmn : m < n) (hn : n ≤ bs.size) (us : List (Nat × Nat))
    (hup : Growth.Up m 0 (RefTree.rootsStack n).reverse us) (sig : Bytes) (hsl : sig.length = 64)
    (hver : C.verify c.publicKey (Growth.signableAt C bs n c.tree.fork) sig = true) (i : Nat) (hmi : m ≤ i) (hi : i < n)
    (a b : List (Nat × Nat)) (k : Nat) (hsplit : us = a ++ (k, i / 2 ^ k) :: b) :
    ∃ (c1 : Core) (e : Oplog.Entry) (j0 : List SOp),
      ReplicaReopen.StepOK C bs m n c c1 d held (fun j => held j || j == i) (c.verifyAndApply C d (BlockGrowGen.honestNewBlock C bs c.tree.fork i m n a b k sig)) e j0
      ∧ TornFlushShows C bs n (fun j => held j || j == i) c c1 d (c.verifyAndApply C d (BlockGrowGen.honestNewBlock C bs c.tree.fork i m n a b k sig)) e j0 := by
  obtain ⟨c1, e, j0, hk⟩ := BlockGrowGen.newblock_ok C hC hT bs m n c d held h hm0 hmn hn us hup sig hsl hver i hmi hi a b k hsplit
  exact ⟨c1, e, j0, hk, torn_flush_of_ok C bs m n c c1 d held _ _ e j0 h hk⟩

end HC.C07
