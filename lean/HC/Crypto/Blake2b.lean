namespace Blake2b

def iv : Array UInt64 := #[
  0x6a09e667f3bcc908, 0xbb67ae8584caa73b, 0x3c6ef372fe94f82b, 0xa54ff53a5f1d36f1,
  0x510e527fade682d1, 0x9b05688c2b3e6c1f, 0x1f83d9abfb41bd6b, 0x5be0cd19137e2179]

def sigma : Array (Array Nat) := #[
  #[0,1,2,3,4,5,6,7,8,9,10,11,12,13,14,15],
  #[14,10,4,8,9,15,13,6,1,12,0,2,11,7,5,3],
  #[11,8,12,0,5,2,15,13,10,14,3,6,7,1,9,4],
  #[7,9,3,1,13,12,11,14,2,6,5,10,4,0,15,8],
  #[9,0,5,7,2,4,10,15,14,1,11,12,6,8,3,13],
  #[2,12,6,10,0,11,8,3,4,13,7,5,15,14,1,9],
  #[12,5,1,15,14,13,4,10,0,7,6,3,9,2,8,11],
  #[13,11,7,14,12,1,3,9,5,0,15,4,8,6,2,10],
  #[6,15,14,9,11,3,0,8,12,2,13,7,1,4,10,5],
  #[10,2,8,4,7,6,1,5,15,11,9,14,3,12,13,0],
  #[0,1,2,3,4,5,6,7,8,9,10,11,12,13,14,15],
  #[14,10,4,8,9,15,13,6,1,12,0,2,11,7,5,3]]

@[inline] def rotr (x : UInt64) (n : UInt64) : UInt64 := (x >>> n) ||| (x <<< (64 - n))

@[inline] def g (v : Array UInt64) (a b c d : Nat) (x y : UInt64) : Array UInt64 :=
  let va := v[a]! + v[b]! + x
  let vd := rotr (v[d]! ^^^ va) 32
  let vc := v[c]! + vd
  let vb := rotr (v[b]! ^^^ vc) 24
  let va := va + vb + y
  let vd := rotr (vd ^^^ va) 16
  let vc := vc + vd
  let vb := rotr (vb ^^^ vc) 63
  (((v.set! a va).set! b vb).set! c vc).set! d vd

def le64 (bs : List UInt8) : UInt64 :=
  bs.foldr (fun b acc => (acc <<< 8) ||| b.toUInt64) 0

def words (block : List UInt8) : Array UInt64 := Id.run do
  let mut out := #[]
  let mut rest := block
  for _ in [0:16] do
    out := out.push (le64 (rest.take 8))
    rest := rest.drop 8
  return out

def compress (h : Array UInt64) (block : List UInt8) (t : Nat) (last : Bool) : Array UInt64 := Id.run do
  let m := words block
  let mut v := h ++ iv
  v := v.set! 12 (v[12]! ^^^ (UInt64.ofNat (t % 2^64)))
  v := v.set! 13 (v[13]! ^^^ (UInt64.ofNat (t / 2^64)))
  if last then v := v.set! 14 (v[14]! ^^^ 0xFFFFFFFFFFFFFFFF)
  for r in [0:12] do
    let s := sigma[r]!
    v := g v 0 4 8 12 m[s[0]!]! m[s[1]!]!
    v := g v 1 5 9 13 m[s[2]!]! m[s[3]!]!
    v := g v 2 6 10 14 m[s[4]!]! m[s[5]!]!
    v := g v 3 7 11 15 m[s[6]!]! m[s[7]!]!
    v := g v 0 5 10 15 m[s[8]!]! m[s[9]!]!
    v := g v 1 6 11 12 m[s[10]!]! m[s[11]!]!
    v := g v 2 7 8 13 m[s[12]!]! m[s[13]!]!
    v := g v 3 4 9 14 m[s[14]!]! m[s[15]!]!
  let mut h' := h
  for i in [0:8] do
    h' := h'.set! i (h[i]! ^^^ v[i]! ^^^ v[i+8]!)
  return h'

def pad (bs : List UInt8) : List UInt8 := bs ++ List.replicate (128 - bs.length) 0

/-- fuel-recursive over blocks -/
def loop : Nat → Array UInt64 → List UInt8 → Nat → Array UInt64
  | 0, h, _, _ => h
  | fuel+1, h, msg, t =>
    if msg.length ≤ 128 then compress h (pad msg) (t + msg.length) true
    else loop fuel (compress h (msg.take 128) (t + 128) false) (msg.drop 128) (t + 128)

def toBytes (h : Array UInt64) (n : Nat) : List UInt8 :=
  (h.toList.flatMap fun w => (List.range 8).map fun i => (w >>> (UInt64.ofNat (8*i))).toUInt8).take n

def hash256 (msg : List UInt8) : List UInt8 :=
  let h := iv.set! 0 (iv[0]! ^^^ 0x01010020)
  toBytes (loop (msg.length / 128 + 1) h msg 0) 32

end Blake2b
