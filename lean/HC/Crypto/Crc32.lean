/-! CRC-32 (IEEE 802.3, reflected, polynomial 0xEDB88320) — what `crc32fast::hash` computes. -/
namespace Crc32

def tableEntry (n : UInt32) : UInt32 := Id.run do
  let mut c := n
  for _ in [0:8] do
    c := if c &&& 1 == 1 then (c >>> 1) ^^^ 0xEDB88320 else c >>> 1
  return c

def table : Array UInt32 := (Array.range 256).map fun i => tableEntry (UInt32.ofNat i)

def update (crc : UInt32) (bs : List UInt8) : UInt32 :=
  bs.foldl (fun c b => table[((c ^^^ b.toUInt32) &&& 0xFF).toNat]! ^^^ (c >>> 8)) crc

def hash (bs : List UInt8) : UInt32 := (update 0xFFFFFFFF bs) ^^^ 0xFFFFFFFF

end Crc32
