namespace Sha512
def k : Array UInt64 := #[
0x428a2f98d728ae22,0x7137449123ef65cd,0xb5c0fbcfec4d3b2f,0xe9b5dba58189dbbc,0x3956c25bf348b538,0x59f111f1b605d019,0x923f82a4af194f9b,0xab1c5ed5da6d8118,
0xd807aa98a3030242,0x12835b0145706fbe,0x243185be4ee4b28c,0x550c7dc3d5ffb4e2,0x72be5d74f27b896f,0x80deb1fe3b1696b1,0x9bdc06a725c71235,0xc19bf174cf692694,
0xe49b69c19ef14ad2,0xefbe4786384f25e3,0x0fc19dc68b8cd5b5,0x240ca1cc77ac9c65,0x2de92c6f592b0275,0x4a7484aa6ea6e483,0x5cb0a9dcbd41fbd4,0x76f988da831153b5,
0x983e5152ee66dfab,0xa831c66d2db43210,0xb00327c898fb213f,0xbf597fc7beef0ee4,0xc6e00bf33da88fc2,0xd5a79147930aa725,0x06ca6351e003826f,0x142929670a0e6e70,
0x27b70a8546d22ffc,0x2e1b21385c26c926,0x4d2c6dfc5ac42aed,0x53380d139d95b3df,0x650a73548baf63de,0x766a0abb3c77b2a8,0x81c2c92e47edaee6,0x92722c851482353b,
0xa2bfe8a14cf10364,0xa81a664bbc423001,0xc24b8b70d0f89791,0xc76c51a30654be30,0xd192e819d6ef5218,0xd69906245565a910,0xf40e35855771202a,0x106aa07032bbd1b8,
0x19a4c116b8d2d0c8,0x1e376c085141ab53,0x2748774cdf8eeb99,0x34b0bcb5e19b48a8,0x391c0cb3c5c95a63,0x4ed8aa4ae3418acb,0x5b9cca4f7763e373,0x682e6ff3d6b2b8a3,
0x748f82ee5defb2fc,0x78a5636f43172f60,0x84c87814a1f0ab72,0x8cc702081a6439ec,0x90befffa23631e28,0xa4506cebde82bde9,0xbef9a3f7b2c67915,0xc67178f2e372532b,
0xca273eceea26619c,0xd186b8c721c0c207,0xeada7dd6cde0eb1e,0xf57d4f7fee6ed178,0x06f067aa72176fba,0x0a637dc5a2c898a6,0x113f9804bef90dae,0x1b710b35131c471b,
0x28db77f523047d84,0x32caab7b40c72493,0x3c9ebe0a15c9bebc,0x431d67c49c100d4c,0x4cc5d4becb3e42b6,0x597f299cfc657e2a,0x5fcb6fab3ad6faec,0x6c44198c4a475817]
def h0 : Array UInt64 := #[0x6a09e667f3bcc908,0xbb67ae8584caa73b,0x3c6ef372fe94f82b,0xa54ff53a5f1d36f1,0x510e527fade682d1,0x9b05688c2b3e6c1f,0x1f83d9abfb41bd6b,0x5be0cd19137e2179]
@[inline] def rotr (x n : UInt64) : UInt64 := (x >>> n) ||| (x <<< (64 - n))
def be64 (bs : List UInt8) : UInt64 := bs.foldl (fun acc b => (acc <<< 8) ||| b.toUInt64) 0
def block (h : Array UInt64) (bs : List UInt8) : Array UInt64 := Id.run do
  let mut w : Array UInt64 := #[]
  let mut rest := bs
  for _ in [0:16] do
    w := w.push (be64 (rest.take 8)); rest := rest.drop 8
  for i in [16:80] do
    let s0 := rotr w[i-15]! 1 ^^^ rotr w[i-15]! 8 ^^^ (w[i-15]! >>> 7)
    let s1 := rotr w[i-2]! 19 ^^^ rotr w[i-2]! 61 ^^^ (w[i-2]! >>> 6)
    w := w.push (w[i-16]! + s0 + w[i-7]! + s1)
  let mut a := h[0]!; let mut b := h[1]!; let mut c := h[2]!; let mut d := h[3]!
  let mut e := h[4]!; let mut f := h[5]!; let mut g := h[6]!; let mut hh := h[7]!
  for i in [0:80] do
    let s1 := rotr e 14 ^^^ rotr e 18 ^^^ rotr e 41
    let ch := (e &&& f) ^^^ ((~~~ e) &&& g)
    let t1 := hh + s1 + ch + k[i]! + w[i]!
    let s0 := rotr a 28 ^^^ rotr a 34 ^^^ rotr a 39
    let mj := (a &&& b) ^^^ (a &&& c) ^^^ (b &&& c)
    let t2 := s0 + mj
    hh := g; g := f; f := e; e := d + t1; d := c; c := b; b := a; a := t1 + t2
  return #[h[0]!+a, h[1]!+b, h[2]!+c, h[3]!+d, h[4]!+e, h[5]!+f, h[6]!+g, h[7]!+hh]
def beBytes (n : Nat) (k : Nat) : List UInt8 := (List.range k).reverse.map fun i => UInt8.ofNat ((n >>> (8*i)) % 256)
def pad (msg : List UInt8) : List UInt8 :=
  let l := msg.length
  let z := (128 - ((l + 17) % 128)) % 128
  msg ++ [0x80] ++ List.replicate z 0 ++ beBytes (l*8) 16
def blocks : Nat → Array UInt64 → List UInt8 → Array UInt64
  | 0, h, _ => h
  | n+1, h, bs => if bs.isEmpty then h else blocks n (block h (bs.take 128)) (bs.drop 128)
def hash (msg : List UInt8) : List UInt8 :=
  let p := pad msg
  (blocks (p.length / 128 + 1) h0 p).toList.flatMap fun w => beBytes w.toNat 8
end Sha512

namespace Ed25519
def p : Nat := 2^255 - 19
def L : Nat := 2^252 + 27742317777372353535851937790883648493
def powmod (b e m : Nat) : Nat := Id.run do
  let mut r := 1; let mut b := b % m; let mut e := e
  for _ in [0:256] do
    if e % 2 == 1 then r := r * b % m
    b := b * b % m; e := e / 2
  return r
def inv (x : Nat) : Nat := powmod x (p - 2) p
def d : Nat := (p - 121665) * inv 121666 % p   -- -121665/121666
def sqrtm1 : Nat := powmod 2 ((p-1)/4) p
structure Pt where (x y z t : Nat)
def add (a b : Pt) : Pt :=
  let A := ((a.y + p - a.x) % p) * ((b.y + p - b.x) % p) % p
  let B := (a.y + a.x) * (b.y + b.x) % p
  let C := 2 * a.t * b.t % p * d % p
  let D := 2 * a.z * b.z % p
  let E := (B + p - A) % p; let F := (D + p - C) % p; let G := (D + C) % p; let H := (B + A) % p
  ⟨E*F % p, G*H % p, F*G % p, E*H % p⟩
def zero : Pt := ⟨0,1,1,0⟩
def mul (s : Nat) (P : Pt) : Pt := Id.run do
  let mut q := zero; let mut P := P; let mut s := s
  for _ in [0:256] do
    if s % 2 == 1 then q := add q P
    P := add P P; s := s / 2
  return q
def recoverX (y : Nat) (sign : Nat) : Option Nat :=
  if y ≥ p then none else
  let x2 := (y*y + p - 1) % p * inv ((d*y % p *y + 1) % p) % p
  if x2 == 0 then (if sign == 1 then none else some 0) else
  let x := powmod x2 ((p+3)/8) p
  let x := if (x*x + p - x2) % p != 0 then x * sqrtm1 % p else x
  if (x*x + p - x2) % p != 0 then none else
  some (if x % 2 != sign then p - x else x)
def gy : Nat := 4 * inv 5 % p
def G : Pt := match recoverX gy 0 with | some x => ⟨x, gy, 1, x*gy % p⟩ | none => zero
def leNat (bs : List UInt8) : Nat := bs.foldr (fun b acc => acc * 256 + b.toNat) 0
def natLe (n k : Nat) : List UInt8 := (List.range k).map fun i => UInt8.ofNat ((n >>> (8*i)) % 256)
def compress (P : Pt) : List UInt8 :=
  let zi := inv P.z; let x := P.x * zi % p; let y := P.y * zi % p
  natLe (y ||| ((x % 2) <<< 255)) 32
def decompress (bs : List UInt8) : Option Pt :=
  if bs.length != 32 then none else
  let n := leNat bs; let y := n % 2^255; let sign := n >>> 255
  (recoverX y sign).map fun x => ⟨x, y, 1, x*y % p⟩
def expand (seed : List UInt8) : Nat × List UInt8 :=
  let h := Sha512.hash seed
  let a := leNat (h.take 32)
  let a := (a &&& ((1 <<< 254) - 8)) ||| (1 <<< 254)
  (a, h.drop 32)
def publicKey (seed : List UInt8) : List UInt8 := compress (mul (expand seed).1 G)
def sign (seed msg : List UInt8) : List UInt8 :=
  let (a, prefix_) := expand seed
  let A := compress (mul a G)
  let r := leNat (Sha512.hash (prefix_ ++ msg)) % L
  let R := compress (mul r G)
  let h := leNat (Sha512.hash (R ++ A ++ msg)) % L
  R ++ natLe ((r + h * a) % L) 32
def verify (pk msg sig : List UInt8) : Bool :=
  if sig.length != 64 then false else
  match decompress pk with
  | none => false
  | some A =>
    let Rb := sig.take 32; let s := leNat (sig.drop 32)
    if s ≥ L then false else
    let h := leNat (Sha512.hash (Rb ++ pk ++ msg)) % L
    -- R' = sB - hA ; -A = (p-x, y)
    let negA : Pt := ⟨(p - A.x) % p, A.y, 1, (p - A.t) % p⟩
    compress (add (mul s G) (mul h negA)) == Rb
end Ed25519
