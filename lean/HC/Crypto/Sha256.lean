/-! SHA-256 (FIPS 180-4) — only used to compare storage files with the golden hashes of the
    JavaScript interoperability scenario. -/
namespace Sha256

def k : Array UInt32 := #[
  0x428a2f98,0x71374491,0xb5c0fbcf,0xe9b5dba5,0x3956c25b,0x59f111f1,0x923f82a4,0xab1c5ed5,
  0xd807aa98,0x12835b01,0x243185be,0x550c7dc3,0x72be5d74,0x80deb1fe,0x9bdc06a7,0xc19bf174,
  0xe49b69c1,0xefbe4786,0x0fc19dc6,0x240ca1cc,0x2de92c6f,0x4a7484aa,0x5cb0a9dc,0x76f988da,
  0x983e5152,0xa831c66d,0xb00327c8,0xbf597fc7,0xc6e00bf3,0xd5a79147,0x06ca6351,0x14292967,
  0x27b70a85,0x2e1b2138,0x4d2c6dfc,0x53380d13,0x650a7354,0x766a0abb,0x81c2c92e,0x92722c85,
  0xa2bfe8a1,0xa81a664b,0xc24b8b70,0xc76c51a3,0xd192e819,0xd6990624,0xf40e3585,0x106aa070,
  0x19a4c116,0x1e376c08,0x2748774c,0x34b0bcb5,0x391c0cb3,0x4ed8aa4a,0x5b9cca4f,0x682e6ff3,
  0x748f82ee,0x78a5636f,0x84c87814,0x8cc70208,0x90befffa,0xa4506ceb,0xbef9a3f7,0xc67178f2]

def h0 : Array UInt32 := #[0x6a09e667,0xbb67ae85,0x3c6ef372,0xa54ff53a,0x510e527f,0x9b05688c,0x1f83d9ab,0x5be0cd19]

@[inline] def rotr (x : UInt32) (n : UInt32) : UInt32 := (x >>> n) ||| (x <<< (32 - n))

def be32 (bs : List UInt8) : UInt32 := bs.foldl (fun acc b => (acc <<< 8) ||| b.toUInt32) 0

def block (h : Array UInt32) (bs : List UInt8) : Array UInt32 := Id.run do
  let mut w : Array UInt32 := #[]
  let mut rest := bs
  for _ in [0:16] do
    w := w.push (be32 (rest.take 4)); rest := rest.drop 4
  for i in [16:64] do
    let s0 := rotr w[i-15]! 7 ^^^ rotr w[i-15]! 18 ^^^ (w[i-15]! >>> 3)
    let s1 := rotr w[i-2]! 17 ^^^ rotr w[i-2]! 19 ^^^ (w[i-2]! >>> 10)
    w := w.push (w[i-16]! + s0 + w[i-7]! + s1)
  let mut a := h[0]!; let mut b := h[1]!; let mut c := h[2]!; let mut d := h[3]!
  let mut e := h[4]!; let mut f := h[5]!; let mut g := h[6]!; let mut hh := h[7]!
  for i in [0:64] do
    let s1 := rotr e 6 ^^^ rotr e 11 ^^^ rotr e 25
    let ch := (e &&& f) ^^^ ((~~~ e) &&& g)
    let t1 := hh + s1 + ch + k[i]! + w[i]!
    let s0 := rotr a 2 ^^^ rotr a 13 ^^^ rotr a 22
    let mj := (a &&& b) ^^^ (a &&& c) ^^^ (b &&& c)
    let t2 := s0 + mj
    hh := g; g := f; f := e; e := d + t1; d := c; c := b; b := a; a := t1 + t2
  return #[h[0]!+a, h[1]!+b, h[2]!+c, h[3]!+d, h[4]!+e, h[5]!+f, h[6]!+g, h[7]!+hh]

def beBytes (n : Nat) (k : Nat) : List UInt8 := (List.range k).reverse.map fun i => UInt8.ofNat ((n >>> (8*i)) % 256)

def pad (msg : List UInt8) : List UInt8 :=
  let l := msg.length
  let z := (64 - ((l + 9) % 64)) % 64
  msg ++ [0x80] ++ List.replicate z 0 ++ beBytes (l*8) 8

def blocks : Nat → Array UInt32 → List UInt8 → Array UInt32
  | 0, h, _ => h
  | n+1, h, bs => if bs.isEmpty then h else blocks n (block h (bs.take 64)) (bs.drop 64)

def hash (msg : List UInt8) : List UInt8 :=
  let p := pad msg
  (blocks (p.length / 64 + 1) h0 p).toList.flatMap fun w => beBytes w.toNat 4

end Sha256
