import HC.Proofs.Layout
import HC.Proofs.Rotation
import HC.Proofs.FileList
/-!
The byte layer of the oplog: a file `slot0 ++ slot1 ++ frames` *abstracts to* a `Rotation.Log`, and
`Oplog::open` on the bytes is the reader's rule `Rotation.Log.open` on the abstraction.  This composes
the protocol theorems (`Rotation.Inv`: appends and flushes keep the reader's view exact) with the
encodings (`Frame`, `OplogCodec`).
-/
namespace HC.OplogBytes
open HC HC.Codec HC.Oplog HC.Rotation

/-- the entry frames, one after the other, each with its own header bit and partial flag -/
def framesBytes (fs : List (Rotation.Frame Entry)) : Bytes :=
  (fs.map fun f => frame (encEntry f.entry) f.bit f.partial_).flatten

/-- a 4096-byte slot that holds header `h` with bit `b` (followed by anything), or does not validate -/
def SlotIs (s : Bytes) : Option (Bool × Header) → Prop
  | some (b, h) => (∃ rest, s = frame (encHeader h) b false ++ rest) ∧ h.WF ∧ (encHeader h).length < 2 ^ 30
  | none => validateLeader s = none

def EntryOK (e : Entry) : Prop := e.WF ∧ (encEntry e).length < 2 ^ 30

theorem validateLeader_nil : validateLeader [] = none := by simp [validateLeader]

theorem slot_validate (s : Bytes) (b : Bool) (h : Header) (hs : SlotIs s (some (b, h))) :
    ∃ rest, validateLeader s = some ⟨b, false, (encHeader h).length, encHeader h ++ rest⟩ := by
  obtain ⟨⟨rest, rfl⟩, _, hlen⟩ := hs
  exact ⟨rest, validateLeader_frame _ _ b false (encHeader_pos h) hlen⟩

/-- reading entries: the frames that carry the current bit, up to the first one that does not; a tail that is
    no frame (nothing, or a torn frame) ends the reading too -/
theorem readEntries_frames_tail (cur : Bool) (fs : List (Rotation.Frame Entry)) (hok : ∀ f ∈ fs, EntryOK f.entry)
    (tail : Bytes) (ht : validateLeader tail = none) :
    ∀ fuel, fs.length < fuel →
      ∃ n, readEntries cur fuel (framesBytes fs ++ tail) = .ok ((takeBit cur fs).map (fun f => (f.entry, f.partial_)), n)
        ∧ n = (framesBytes (takeBit cur fs)).length := by
  induction fs with
  | nil =>
    intro fuel hf
    obtain ⟨fuel, rfl⟩ : ∃ x, fuel = x + 1 := ⟨fuel - 1, by omega⟩
    exact ⟨0, by simp [framesBytes, readEntries, ht, takeBit], by simp [framesBytes, takeBit]⟩
  | cons f rest ih =>
    intro fuel hf
    obtain ⟨fuel, rfl⟩ : ∃ x, fuel = x + 1 := ⟨fuel - 1, by omega⟩
    have hw := hok f (by simp)
    have hpos : 0 < (encEntry f.entry).length := by simp [encEntry]
    have hreg : framesBytes (f :: rest) ++ tail = frame (encEntry f.entry) f.bit f.partial_ ++ (framesBytes rest ++ tail) := by
      simp [framesBytes]
    rw [hreg]
    simp only [readEntries]
    rw [validateLeader_frame _ _ f.bit f.partial_ hpos hw.2]
    by_cases hb : f.bit = cur
    · simp only [hb, ne_eq, not_true_eq_false, ite_false]
      rw [decEntry_enc f.entry hw.1]
      simp only []
      obtain ⟨n, hn, hnl⟩ := ih (fun g hg => hok g (by simp [hg])) fuel (by simp at hf; omega)
      rw [hn]
      refine ⟨n + ((frame (encEntry f.entry) f.bit f.partial_ ++ (framesBytes rest ++ tail)).length - (framesBytes rest ++ tail).length), ?_, ?_⟩
      · simp [takeBit, hb]
      · have hb' : (f.bit == cur) = true := by simpa using hb
        simp only [takeBit, hb', ite_true, framesBytes, List.map_cons, List.flatten_cons, List.length_append] at hnl ⊢
        rw [hnl, ← hb]; omega
    · have hne : (f.bit == cur) = false := by simpa using hb
      refine ⟨0, ?_, ?_⟩
      · simp [hb, takeBit, hne]
      · simp [takeBit, hne, framesBytes]

theorem readEntries_frames (cur : Bool) (fs : List (Rotation.Frame Entry)) (hok : ∀ f ∈ fs, EntryOK f.entry) :
    ∀ fuel, fs.length < fuel →
      ∃ n, readEntries cur fuel (framesBytes fs) = .ok ((takeBit cur fs).map (fun f => (f.entry, f.partial_)), n)
        ∧ n = (framesBytes (takeBit cur fs)).length := by
  intro fuel hf
  have := readEntries_frames_tail cur fs hok [] validateLeader_nil fuel hf
  simpa using this

theorem frames_length_le (fs : List (Rotation.Frame Entry)) : fs.length ≤ (framesBytes fs).length := by
  induction fs with
  | nil => simp
  | cons f rest ih =>
    simp only [framesBytes, List.map_cons, List.flatten_cons, List.length_append, frame_length, List.length_cons] at ih ⊢
    omega

theorem dropTP_map (l : List (Rotation.Frame Entry)) :
    (Oplog.dropTrailingPartial (l.map fun f => (f.entry, f.partial_))).map (·.1)
      = (Rotation.dropTrailingPartial l).map (·.entry) := by
  induction l with
  | nil => rfl
  | cons f rest ih =>
    simp only [List.map_cons, Oplog.dropTrailingPartial, Rotation.dropTrailingPartial]
    cases h1 : Oplog.dropTrailingPartial (rest.map fun f => (f.entry, f.partial_)) with
    | nil =>
      rw [h1] at ih
      cases h2 : Rotation.dropTrailingPartial rest with
      | nil => simp only []; split <;> simp
      | cons x xs => rw [h2] at ih; simp at ih
    | cons y ys =>
      rw [h1] at ih
      cases h2 : Rotation.dropTrailingPartial rest with
      | nil => rw [h2] at ih; simp at ih
      | cons x xs => rw [h2] at ih; simp only [List.map_cons] at ih ⊢; rw [ih]

/-- what `Oplog::open` cuts off: everything behind the entries that carry the current header bit -/
def truncOpsT (cur : Bool) (fs : List (Rotation.Frame Entry)) (extra : Nat) : List SOp :=
  if (framesBytes fs).length + extra > (framesBytes (takeBit cur fs)).length
  then [SOp.trunc .oplog (Spec.entriesOffset + (framesBytes (takeBit cur fs)).length)] else []

def truncOps (cur : Bool) (fs : List (Rotation.Frame Entry)) : List SOp :=
  if (framesBytes fs).length > (framesBytes (takeBit cur fs)).length
  then [SOp.trunc .oplog (Spec.entriesOffset + (framesBytes (takeBit cur fs)).length)] else []

theorem truncOpsT_zero (cur : Bool) (fs : List (Rotation.Frame Entry)) : truncOpsT cur fs 0 = truncOps cur fs := by
  simp [truncOpsT, truncOps]

theorem truncOpsT_store (cur : Bool) (fs : List (Rotation.Frame Entry)) (extra : Nat) : ∀ op ∈ truncOpsT cur fs extra, op.store = .oplog := by
  intro op hop
  unfold truncOpsT at hop
  split at hop
  · simp at hop; subst hop; rfl
  · cases hop

theorem truncOps_store (cur : Bool) (fs : List (Rotation.Frame Entry)) : ∀ op ∈ truncOps cur fs, op.store = .oplog := by
  rw [← truncOpsT_zero]; exact truncOpsT_store cur fs 0

theorem truncOps_all (b : Bool) (es : List Entry) : truncOps b (es.map (mk b)) = [] := by
  simp [truncOps, Rotation.takeBit_all]

/-- **`Oplog::open` on the bytes is the reader's rule on the abstraction.** -/
theorem openLog_abs_tail (s0 s1 : Bytes) (c0 c1 : Option (Bool × Header)) (fs : List (Rotation.Frame Entry))
    (l0 : s0.length = Spec.headerSize) (l1 : s1.length = Spec.headerSize)
    (h0 : SlotIs s0 c0) (h1 : SlotIs s1 c1) (hok : ∀ f ∈ fs, EntryOK f.entry)
    (bits : Bits) (h : Header) (es : List Entry)
    (hopen : (⟨c0, c1, fs⟩ : Rotation.Log Header Entry).open = some (bits, h, es))
    (tail : Bytes) (htail : validateLeader tail = none) :
    ∃ ost, openLog none (s0 ++ s1 ++ (framesBytes fs ++ tail)) = .ok ⟨ost, h, truncOpsT bits.cur fs tail.length, es⟩
      ∧ ost.bits = (bits.b0, bits.b1) ∧ ost.entriesByteLength = (framesBytes (takeBit bits.cur fs)).length := by
  have hs : Spec.headerSize = 4096 := rfl
  have hE : Spec.entriesOffset = 8192 := rfl
  generalize hR : framesBytes fs ++ tail = Rg
  have t0 : (s0 ++ s1 ++ Rg).take Spec.headerSize = s0 := by
    rw [List.append_assoc, List.take_append_of_le_length (by omega)]
    simp [List.take_of_length_le, l0]
  have d0 : (s0 ++ s1 ++ Rg).drop Spec.headerSize = s1 ++ Rg := by
    rw [List.append_assoc, List.drop_append_of_le_length (by omega)]
    simp [List.drop_of_length_le, l0]
  have t1 : (s1 ++ Rg).take Spec.headerSize = s1 := by
    rw [List.take_append_of_le_length (by omega)]
    simp [List.take_of_length_le, l1]
  have dE : (s0 ++ s1 ++ Rg).drop Spec.entriesOffset = Rg := by
    have : Spec.entriesOffset = Spec.headerSize + Spec.headerSize := rfl
    rw [this, ← List.drop_drop, d0, List.drop_append_of_le_length (by omega)]
    simp [List.drop_of_length_le, l1]
  have hlen : (s0 ++ s1 ++ Rg).length = 8192 + Rg.length := by simp only [List.length_append, l0, l1, hs]
  have c1' : ¬ (s0 ++ s1 ++ Rg).length < Spec.headerSize := by rw [hlen, hs]; omega
  have c2' : ¬ (s0 ++ s1 ++ Rg).length < 2 * Spec.headerSize := by rw [hlen, hs]; omega
  -- the entries part, for a given current bit
  have hentries : ∀ (st : Oplog.State) (hh : Header), es = seen st.currentBit fs → st.entriesByteLength = 0 →
      ∃ ost, readLog ⟨st, hh, [], []⟩ (s0 ++ s1 ++ Rg) = .ok ⟨ost, hh, truncOpsT st.currentBit fs tail.length, es⟩
        ∧ ost.bits = st.bits ∧ ost.entriesByteLength = (framesBytes (takeBit st.currentBit fs)).length := by
    intro st hh hes hz
    unfold readLog
    by_cases hgt : (s0 ++ s1 ++ Rg).length > Spec.entriesOffset
    · simp only [hgt, ite_true, dE]
      have hflen : fs.length < (s0 ++ s1 ++ Rg).length := by
        have := frames_length_le fs
        rw [hlen, ← hR]; simp only [List.length_append]; omega
      obtain ⟨n, hn, hnl⟩ := readEntries_frames_tail st.currentBit fs hok tail htail (s0 ++ s1 ++ (framesBytes fs ++ tail)).length (by rw [hR]; exact hflen)
      rw [← hR, hn]
      subst hnl
      refine ⟨{ st with entriesLength := ((takeBit st.currentBit fs).map fun f => (f.entry, f.partial_)).length, entriesByteLength := (framesBytes (takeBit st.currentBit fs)).length }, ?_, rfl, rfl⟩
      have hcond : ((s0 ++ s1 ++ (framesBytes fs ++ tail)).length > Spec.entriesOffset + (framesBytes (takeBit st.currentBit fs)).length)
          ↔ ((framesBytes fs).length + tail.length > (framesBytes (takeBit st.currentBit fs)).length) := by
        rw [hR, hlen, hE, ← hR]; simp only [List.length_append]; omega
      simp only [dropTP_map, hes, List.nil_append, truncOpsT, hcond]
      rfl
    · have hR0 : Rg.length = 0 := by rw [hlen, hE] at hgt; omega
      have hR0' : (framesBytes fs).length = 0 ∧ tail.length = 0 := by
        rw [← hR] at hR0; simp only [List.length_append] at hR0; omega
      have hfs : fs = [] := by
        cases fs with
        | nil => rfl
        | cons f rest =>
          exfalso
          have := frames_length_le (f :: rest)
          rw [hR0'.1] at this
          simp at this
      refine ⟨st, ?_, rfl, ?_⟩
      · simp only [hgt, ite_false]
        rw [hes, hfs]
        simp [truncOpsT, takeBit, framesBytes, hR0'.2, seen, Rotation.dropTrailingPartial]
      · rw [hz, hfs]; simp [takeBit, framesBytes]
  unfold openLog
  simp only [c1', c2', ite_false, t0, d0, t1]
  cases c0 with
  | none =>
    cases c1 with
    | none => simp [Rotation.Log.open] at hopen
    | some p1 =>
      obtain ⟨b1, hh1⟩ := p1
      obtain ⟨r1, hv1⟩ := slot_validate s1 b1 hh1 h1
      have hv0 : validateLeader s0 = none := h0
      simp only [Rotation.Log.open, Option.some.injEq, Prod.mk.injEq] at hopen
      obtain ⟨hbits, rfl, hes⟩ := hopen
      simp only [hv0, hv1, decode_slot hh1 h1.2.1]
      obtain ⟨ost, e1, e2, e3⟩ := hentries ⟨(!b1, b1), 0, 0⟩ hh1 hes.symm rfl
      exact ⟨ost, by rw [← hbits]; exact e1, by rw [e2, ← hbits], by rw [e3, ← hbits]; rfl⟩
  | some p0 =>
    obtain ⟨b0, hh0⟩ := p0
    obtain ⟨r0, hv0⟩ := slot_validate s0 b0 hh0 h0
    cases c1 with
    | none =>
      have hv1 : validateLeader s1 = none := h1
      simp only [Rotation.Log.open, Option.some.injEq, Prod.mk.injEq] at hopen
      obtain ⟨hbits, rfl, hes⟩ := hopen
      simp only [hv0, hv1, decode_slot hh0 h0.2.1]
      obtain ⟨ost, e1, e2, e3⟩ := hentries ⟨(b0, b0), 0, 0⟩ hh0 hes.symm rfl
      exact ⟨ost, by rw [← hbits]; exact e1, by rw [e2, ← hbits], by rw [e3, ← hbits]; rfl⟩
    | some p1 =>
      obtain ⟨b1, hh1⟩ := p1
      obtain ⟨r1, hv1⟩ := slot_validate s1 b1 hh1 h1
      simp only [Rotation.Log.open, Option.some.injEq, Prod.mk.injEq] at hopen
      obtain ⟨hbits, hhd, hes⟩ := hopen
      simp only [hv0, hv1]
      by_cases hb : b0 = b1
      · subst hb
        simp only [beq_self_eq_true, ite_true] at hhd ⊢
        rw [← hhd]
        simp only [decode_slot hh0 h0.2.1]
        obtain ⟨ost, e1, e2, e3⟩ := hentries ⟨(b0, b0), 0, 0⟩ hh0 hes.symm rfl
        exact ⟨ost, by rw [← hbits]; exact e1, by rw [e2, ← hbits], by rw [e3, ← hbits]; rfl⟩
      · have hbe : (b0 == b1) = false := by simpa using hb
        simp only [hbe, Bool.false_eq_true, ite_false] at hhd ⊢
        rw [← hhd]
        simp only [decode_slot hh1 h1.2.1]
        obtain ⟨ost, e1, e2, e3⟩ := hentries ⟨(b0, b1), 0, 0⟩ hh1 hes.symm rfl
        exact ⟨ost, by rw [← hbits]; exact e1, by rw [e2, ← hbits], by rw [e3, ← hbits]; rfl⟩

theorem openLog_abs (s0 s1 : Bytes) (c0 c1 : Option (Bool × Header)) (fs : List (Rotation.Frame Entry))
    (l0 : s0.length = Spec.headerSize) (l1 : s1.length = Spec.headerSize)
    (h0 : SlotIs s0 c0) (h1 : SlotIs s1 c1) (hok : ∀ f ∈ fs, EntryOK f.entry)
    (bits : Bits) (h : Header) (es : List Entry)
    (hopen : (⟨c0, c1, fs⟩ : Rotation.Log Header Entry).open = some (bits, h, es)) :
    ∃ ost, openLog none (s0 ++ s1 ++ framesBytes fs) = .ok ⟨ost, h, truncOps bits.cur fs, es⟩
      ∧ ost.bits = (bits.b0, bits.b1) ∧ ost.entriesByteLength = (framesBytes (takeBit bits.cur fs)).length := by
  have := openLog_abs_tail s0 s1 c0 c1 fs l0 l1 h0 h1 hok bits h es hopen [] validateLeader_nil
  simpa [truncOpsT_zero] using this

/-! ### the invariant on the bytes -/

/-- a header that can be written to a slot: well-formed, and leader + twice the payload fits 4096 bytes -/
def HeaderOK (h : Header) : Prop := h.WF ∧ Spec.leaderSize + 2 * (encHeader h).length ≤ Spec.headerSize

/-- the oplog store abstracts to a log that satisfies the protocol invariant for the in-memory state `st`,
    the last flushed header `hf` and the entries `es` logged since -/
def OpInv (st : Oplog.State) (bytes : Bytes) (hf : Header) (es : List Entry) : Prop :=
  ∃ (s0 s1 : Bytes) (l : Rotation.Log Header Entry),
    bytes = s0 ++ s1 ++ framesBytes l.entries ∧ s0.length = Spec.headerSize ∧ s1.length = Spec.headerSize
      ∧ SlotIs s0 l.s0 ∧ SlotIs s1 l.s1 ∧ Rotation.Inv ⟨st.bits.1, st.bits.2⟩ hf es l
      ∧ st.entriesByteLength = (framesBytes l.entries).length ∧ (∀ e ∈ es, EntryOK e)

/-- under the protocol invariant the reader derives exactly the in-memory header bits -/
theorem open_bits_exact {bits : Bits} {h : Header} {es : List Entry} {l : Rotation.Log Header Entry}
    (inv : Rotation.Inv bits h es l) (b' : Bits) (h' : Header) (es' : List Entry) (hopen : l.open = some (b', h', es')) :
    b' = bits := by
  obtain ⟨c0, c1, fs⟩ := l
  obtain ⟨b0, b1⟩ := bits
  have hn := inv.newest
  have ho0 := inv.older0
  have ho1 := inv.older1
  simp only at hn ho0 ho1
  by_cases hb : b0 = b1
  · subst hb
    simp only [beq_self_eq_true, ite_true] at hn
    have h1 := ho1 (by simp)
    rw [hn] at hopen
    rcases h1 with h1 | ⟨hh, h1⟩
    · rw [h1] at hopen
      simp only [Rotation.Log.open, Option.some.injEq, Prod.mk.injEq] at hopen
      exact hopen.1.symm
    · rw [h1] at hopen
      simp only [Rotation.Log.open, Option.some.injEq, Prod.mk.injEq] at hopen
      exact hopen.1.symm
  · have hbe : (b0 == b1) = false := by simpa using hb
    simp only [hbe, Bool.false_eq_true, ite_false] at hn
    have h0 := ho0 (by simp [bne, hbe])
    rw [hn] at hopen
    rcases h0 with h0 | ⟨hh, h0⟩
    · rw [h0] at hopen
      simp only [Rotation.Log.open, Option.some.injEq, Prod.mk.injEq] at hopen
      have : (!b1) = b0 := by cases b0 <;> cases b1 <;> simp_all
      rw [← hopen.1, this]
    · rw [h0] at hopen
      simp only [Rotation.Log.open, Option.some.injEq, Prod.mk.injEq] at hopen
      exact hopen.1.symm

/-- under the invariant, `Oplog::open` returns the last flushed header and exactly the entries logged
    since, and the reader's bookkeeping equals the writer's -/
theorem opinv_open (st : Oplog.State) (bytes : Bytes) (hf : Header) (es : List Entry) (h : OpInv st bytes hf es) :
    ∃ ost, openLog none bytes = .ok ⟨ost, hf, [], es⟩ ∧ ost.bits = st.bits ∧ ost.entriesByteLength = st.entriesByteLength := by
  obtain ⟨s0, s1, l, rfl, l0, l1, h0, h1, inv, hebl, hok⟩ := h
  obtain ⟨b', hopen, _, _⟩ := Rotation.open_of_inv inv
  have hbits := open_bits_exact inv b' hf es hopen
  have hfr : ∀ f ∈ l.entries, EntryOK f.entry := by
    intro f hf'
    rw [inv.ents] at hf'
    obtain ⟨e, he, rfl⟩ := List.mem_map.mp hf'
    exact hok e he
  have hents := inv.ents
  obtain ⟨c0, c1, fs⟩ := l
  obtain ⟨ost, e1, e2, e3⟩ := openLog_abs s0 s1 c0 c1 fs l0 l1 h0 h1 hfr b' hf es hopen
  simp only at hents
  refine ⟨ost, by rw [e1, hbits, hents, truncOps_all], by rw [e2, hbits], ?_⟩
  rw [e3, hebl, hbits]
  rw [hents, Rotation.takeBit_all]

theorem opinv_congr (st st' : Oplog.State) (bytes : Bytes) (hf : Header) (es : List Entry) (h : OpInv st bytes hf es)
    (hb : st'.bits = st.bits) (he : st'.entriesByteLength = st.entriesByteLength) : OpInv st' bytes hf es := by
  obtain ⟨s0, s1, l, e1, l0, l1, h0, h1, inv, hebl, hok⟩ := h
  exact ⟨s0, s1, l, e1, l0, l1, h0, h1, by rw [hb]; exact inv, by rw [he]; exact hebl, hok⟩

theorem framesBytes_append (fs : List (Rotation.Frame Entry)) (f : Rotation.Frame Entry) :
    framesBytes (fs ++ [f]) = framesBytes fs ++ frame (encEntry f.entry) f.bit f.partial_ := by
  simp [framesBytes]

theorem opinv_size (st : Oplog.State) (f : File) (hf : Header) (es : List Entry) (h : OpInv st f.toList hf es) :
    f.size = Spec.entriesOffset + st.entriesByteLength := by
  obtain ⟨s0, s1, l, hb, l0, l1, _, _, _, hebl, _⟩ := h
  have := congrArg List.length hb
  rw [File.toList_length] at this
  simp only [List.length_append, l0, l1] at this
  rw [hebl, this]; rfl

/-- appending an entry keeps the invariant -/
theorem opinv_append (st : Oplog.State) (f : File) (hf : Header) (es : List Entry) (e : Entry)
    (h : OpInv st f.toList hf es) (he : EntryOK e) :
    OpInv (Oplog.appendEntry st e).1
      (f.write (Spec.entriesOffset + st.entriesByteLength) (frame (encEntry e) st.currentBit false)).toList hf (es ++ [e]) := by
  have hsz := opinv_size st f hf es h
  obtain ⟨s0, s1, l, hb, l0, l1, h0, h1, inv, hebl, hok⟩ := h
  have hw : (f.write (Spec.entriesOffset + st.entriesByteLength) (frame (encEntry e) st.currentBit false)).toList
      = f.toList ++ frame (encEntry e) st.currentBit false := by
    rw [← hsz, File.toList_write f f.size _ (Nat.le_refl _)]
    have e1 : f.toList.take f.size = f.toList := List.take_of_length_le (Nat.le_of_eq (File.toList_length f))
    have e2 : f.toList.drop (f.size + (frame (encEntry e) st.currentBit false).length) = [] :=
      List.drop_of_length_le (by rw [File.toList_length]; omega)
    rw [e1, e2, List.append_nil]
  have hcur : st.currentBit = (⟨st.bits.1, st.bits.2⟩ : Bits).cur := rfl
  refine ⟨s0, s1, { l with entries := l.entries ++ [mk (⟨st.bits.1, st.bits.2⟩ : Bits).cur e] }, ?_, l0, l1, h0, h1,
    Rotation.append_inv inv e, ?_, ?_⟩
  · rw [hw, hb, framesBytes_append]
    simp only [mk, hcur, List.append_assoc]
  · simp only [Oplog.appendEntry, framesBytes_append, List.length_append, hebl, mk, hcur]
  · intro x hx
    rcases List.mem_append.mp hx with hx | hx
    · exact hok x hx
    · simp at hx; subst hx; exact he

/-- the slot a header write produces: the frame, the zero padding, the tail of the old slot -/
theorem slot_overwrite (s : Bytes) (h : Header) (bit : Bool) (hl : s.length = Spec.headerSize) (hok : HeaderOK h)
    (fr buf : Bytes) (sz : Nat) (hsz1 : 8 + (encHeader h).length ≤ sz) (hsz2 : sz ≤ Spec.headerSize)
    (hfr : frame (encHeader h) bit false = fr) (hbuf : fr ++ List.replicate (sz - fr.length) 0 = buf) :
    (buf ++ s.drop buf.length).length = Spec.headerSize ∧ SlotIs (buf ++ s.drop buf.length) (some (bit, h)) := by
  have hfl : fr.length = 8 + (encHeader h).length := by rw [← hfr]; exact frame_length _ _ _
  have hbl : buf.length = sz := by
    rw [← hbuf]
    simp only [List.length_append, List.length_replicate, hfl]; omega
  have hfit := hok.2
  refine ⟨?_, ⟨List.replicate (sz - fr.length) 0 ++ s.drop buf.length, ?_⟩, hok.1, ?_⟩
  · simp only [List.length_append, List.length_drop, hbl, hl]; omega
  · rw [← hbuf, hfr, List.append_assoc]
  · simp only [Spec.leaderSize, Spec.headerSize] at hfit; omega

/-- the size of the buffer a header write issues: a full slot when traces are cleared -/
def hdrSize (ct : Bool) (h : Header) : Nat := if ct then Spec.headerSize else Spec.leaderSize + 2 * (encHeader h).length

theorem hdrSize_def (ct : Bool) (h : Header) : hdrSize ct h = if ct then Spec.headerSize else Spec.leaderSize + 2 * (encHeader h).length := rfl

theorem hdrSize_bounds (ct : Bool) (h : Header) (hok : HeaderOK h) : 8 + (encHeader h).length ≤ hdrSize ct h ∧ hdrSize ct h ≤ Spec.headerSize := by
  have := hok.2
  unfold hdrSize
  simp only [Spec.leaderSize, Spec.headerSize] at this ⊢
  split <;> omega

/-- a header insertion (header write to the next slot — a full slot when traces are cleared —, truncate to 8192)
    keeps the invariant, for the new header and an empty entry list -/
theorem opinv_insert (st : Oplog.State) (f : File) (hf : Header) (es : List Entry) (h' : Header) (ct : Bool)
    (h : OpInv st f.toList hf es) (hok : HeaderOK h') :
    OpInv ({ bits := (Oplog.insertHeader h' 0 st.bits ct).1, entriesLength := 0, entriesByteLength := 0 } : Oplog.State)
      ((Oplog.insertHeader h' 0 st.bits ct).2.foldl (fun g op => op.onFile g) f).toList h' [] := by
  have hsz := opinv_size st f hf es h
  obtain ⟨s0, s1, l, hb, l0, l1, h0, h1, inv, hebl, _⟩ := h
  have hS : Spec.headerSize = 4096 := rfl
  have hE : Spec.entriesOffset = 8192 := rfl
  obtain ⟨hinv1, hinv2⟩ := Rotation.switch_atomic (h' := h') inv
  generalize hfr : frame (encHeader h') (Spec.nextSlot st.bits.1 st.bits.2).2 false = fr
  generalize hbuf : fr ++ List.replicate (hdrSize ct h' - fr.length) 0 = buf
  obtain ⟨hsb1, hsb2⟩ := hdrSize_bounds ct h' hok
  have hbl : buf.length = hdrSize ct h' := by
    rw [← hbuf, ← hfr]
    simp only [List.length_append, List.length_replicate, frame_length]; omega
  have hfit : buf.length ≤ 4096 := by rw [hbl]; exact hsb2
  have hflen : f.toList.length = 8192 + (framesBytes l.entries).length := by
    rw [hb]; simp only [List.length_append, l0, l1, hS]
  cases hsec : (Spec.nextSlot st.bits.1 st.bits.2).1 with
  | true =>
    -- second slot
    have hso := slot_overwrite s1 h' (Spec.nextSlot st.bits.1 st.bits.2).2 l1 hok fr buf (hdrSize ct h') hsb1 hsb2 hfr hbuf
    have hfile : ((Oplog.insertHeader h' 0 st.bits ct).2.foldl (fun g op => op.onFile g) f).toList
        = s0 ++ (buf ++ s1.drop buf.length) := by
      simp only [Oplog.insertHeader, ← hdrSize_def, Bool.false_eq_true, ite_false, hsec, ite_true, hfr, hbuf,
        List.foldl_cons, List.foldl_nil, SOp.onFile, Nat.add_zero]
      rw [File.toList_truncate_le _ _ (by rw [File.size_write, hsz, hE, hS]; omega),
        File.toList_write f Spec.headerSize buf (by rw [hsz, hE, hS]; omega), hb]
      have t0 : (s0 ++ s1 ++ framesBytes l.entries).take Spec.headerSize = s0 := by
        rw [List.append_assoc, List.take_append_of_le_length (by omega)]
        simp [List.take_of_length_le, l0]
      have d0 : (s0 ++ s1 ++ framesBytes l.entries).drop (Spec.headerSize + buf.length)
          = s1.drop buf.length ++ framesBytes l.entries := by
        rw [List.append_assoc, ← List.drop_drop, List.drop_append_of_le_length (by omega)]
        simp only [List.drop_of_length_le (Nat.le_of_eq l0), List.nil_append]
        rw [List.drop_append_of_le_length (by omega)]
      rw [t0, d0, hE]
      have hlen2 : (s0 ++ buf ++ (s1.drop buf.length ++ framesBytes l.entries)).take 8192
          = s0 ++ (buf ++ s1.drop buf.length) := by
        have : s0 ++ buf ++ (s1.drop buf.length ++ framesBytes l.entries)
            = (s0 ++ (buf ++ s1.drop buf.length)) ++ framesBytes l.entries := by simp [List.append_assoc]
        rw [this, List.take_append_of_le_length (by simp [l0, l1, hS]; omega)]
        exact List.take_of_length_le (by simp [l0, l1, hS]; omega)
      exact hlen2
    refine ⟨s0, buf ++ s1.drop buf.length, { (l.writeNext ⟨st.bits.1, st.bits.2⟩ h') with entries := [] }, ?_, l0, hso.1, ?_, ?_, ?_, ?_, ?_⟩
    · rw [hfile]; simp [framesBytes]
    · simpa [Rotation.Log.writeNext, hsec] using h0
    · simpa [Rotation.Log.writeNext, hsec] using hso.2
    · have : ({ bits := (Oplog.insertHeader h' 0 st.bits ct).1, entriesLength := 0, entriesByteLength := 0 } : Oplog.State).bits = ((Bits.next ⟨st.bits.1, st.bits.2⟩).b0, (Bits.next ⟨st.bits.1, st.bits.2⟩).b1) := by
        simp only [Oplog.insertHeader, ← hdrSize_def, Bool.false_eq_true, ite_false, hsec, ite_true, Bits.next]
      rw [this]; exact hinv2
    · simp [Oplog.flush, framesBytes]
    · intro e he; cases he
  | false =>
    have hso := slot_overwrite s0 h' (Spec.nextSlot st.bits.1 st.bits.2).2 l0 hok fr buf (hdrSize ct h') hsb1 hsb2 hfr hbuf
    have hfile : ((Oplog.insertHeader h' 0 st.bits ct).2.foldl (fun g op => op.onFile g) f).toList
        = (buf ++ s0.drop buf.length) ++ s1 := by
      simp only [Oplog.insertHeader, ← hdrSize_def, Bool.false_eq_true, ite_false, hsec, hfr, hbuf,
        List.foldl_cons, List.foldl_nil, SOp.onFile, Nat.add_zero]
      rw [File.toList_truncate_le _ _ (by rw [File.size_write, hsz, hE]; omega),
        File.toList_write f 0 buf (Nat.zero_le _), hb]
      simp only [List.take_zero, List.nil_append, Nat.zero_add]
      have d0 : (s0 ++ s1 ++ framesBytes l.entries).drop buf.length
          = s0.drop buf.length ++ s1 ++ framesBytes l.entries := by
        rw [List.append_assoc, List.drop_append_of_le_length (by omega), List.append_assoc]
      rw [d0, hE]
      have : buf ++ (s0.drop buf.length ++ s1 ++ framesBytes l.entries)
          = ((buf ++ s0.drop buf.length) ++ s1) ++ framesBytes l.entries := by simp [List.append_assoc]
      rw [this, List.take_append_of_le_length (by simp [l0, l1, hS]; omega)]
      exact List.take_of_length_le (by simp [l0, l1, hS]; omega)
    refine ⟨buf ++ s0.drop buf.length, s1, { (l.writeNext ⟨st.bits.1, st.bits.2⟩ h') with entries := [] }, ?_, hso.1, l1, ?_, ?_, ?_, ?_, ?_⟩
    · rw [hfile]; simp [framesBytes]
    · simpa [Rotation.Log.writeNext, hsec] using hso.2
    · simpa [Rotation.Log.writeNext, hsec] using h1
    · have : ({ bits := (Oplog.insertHeader h' 0 st.bits ct).1, entriesLength := 0, entriesByteLength := 0 } : Oplog.State).bits = ((Bits.next ⟨st.bits.1, st.bits.2⟩).b0, (Bits.next ⟨st.bits.1, st.bits.2⟩).b1) := by
        simp only [Oplog.insertHeader, ← hdrSize_def, Bool.false_eq_true, ite_false, hsec, Bits.next]
      rw [this]; exact hinv2
    · simp [Oplog.flush, framesBytes]
    · intro e he; cases he

/-- a flush (header write to the next slot, truncate to 8192) keeps the invariant, for the new header and
    an empty entry list -/
theorem opinv_flush (st : Oplog.State) (f : File) (hf : Header) (es : List Entry) (h' : Header)
    (h : OpInv st f.toList hf es) (hok : HeaderOK h') :
    OpInv (Oplog.flush st h' false).1
      ((Oplog.flush st h' false).2.foldl (fun g op => op.onFile g) f).toList h' [] := by
  have := opinv_insert st f hf es h' false h hok
  simpa [Oplog.flush] using this

/-- the header write of a flush torn after `t` bytes, under the assumption that the checksum rejects the
    half-written slot: the invariant still holds — same in-memory state, same header, same entries -/
theorem opinv_torn_header (st : Oplog.State) (f : File) (hf : Header) (es : List Entry) (h' : Header) (ct : Bool) (t : Nat)
    (h : OpInv st f.toList hf es) (hok : HeaderOK h') (off : Nat) (bs : Bytes)
    (hop : (Oplog.insertHeader h' 0 st.bits ct).2.head? = some (.write .oplog off bs))
    (hcrc : validateLeader (((f.write off (bs.take t)).toList.drop off).take Spec.headerSize) = none) :
    OpInv st (f.write off (bs.take t)).toList hf es := by
  have hsz := opinv_size st f hf es h
  obtain ⟨s0, s1, l, hb, l0, l1, h0, h1, inv, hebl, hoks⟩ := h
  have hS : Spec.headerSize = 4096 := rfl
  have hE : Spec.entriesOffset = 8192 := rfl
  have hinvT := Rotation.tear_inv inv
  generalize hfr : frame (encHeader h') (Spec.nextSlot st.bits.1 st.bits.2).2 false = fr at hop
  generalize hbuf : fr ++ List.replicate (hdrSize ct h' - fr.length) 0 = buf at hop
  obtain ⟨hsb1, hsb2⟩ := hdrSize_bounds ct h' hok
  have hbl : buf.length = hdrSize ct h' := by
    rw [← hbuf, ← hfr]
    simp only [List.length_append, List.length_replicate, frame_length]; omega
  have hfit : buf.length ≤ 4096 := by rw [hbl]; exact hsb2
  cases hsec : (Spec.nextSlot st.bits.1 st.bits.2).1 with
  | true =>
    simp only [Oplog.insertHeader, ← hdrSize_def, Bool.false_eq_true, ite_false, hsec, ite_true, hfr, hbuf, List.head?_cons,
      Option.some.injEq, SOp.write.injEq, true_and] at hop
    obtain ⟨rfl, rfl⟩ := hop
    generalize hq : buf.take t = q at hcrc ⊢
    have hql : q.length ≤ 4096 := by rw [← hq, List.length_take]; omega
    have hfile : (f.write Spec.headerSize q).toList = s0 ++ (q ++ s1.drop q.length) ++ framesBytes l.entries := by
      rw [File.toList_write f Spec.headerSize q (by rw [hsz, hE, hS]; omega), hb]
      have t0 : (s0 ++ s1 ++ framesBytes l.entries).take Spec.headerSize = s0 := by
        rw [List.append_assoc, List.take_append_of_le_length (by omega)]
        simp [List.take_of_length_le, l0]
      have d0 : (s0 ++ s1 ++ framesBytes l.entries).drop (Spec.headerSize + q.length)
          = s1.drop q.length ++ framesBytes l.entries := by
        rw [List.append_assoc, ← List.drop_drop, List.drop_append_of_le_length (by omega)]
        simp only [List.drop_of_length_le (Nat.le_of_eq l0), List.nil_append]
        rw [List.drop_append_of_le_length (by omega)]
      rw [t0, d0]
      simp only [List.append_assoc]
    have hslotlen : (q ++ s1.drop q.length).length = Spec.headerSize := by
      simp only [List.length_append, List.length_drop, l1]; omega
    have hslot : ((f.write Spec.headerSize q).toList.drop Spec.headerSize).take Spec.headerSize = q ++ s1.drop q.length := by
      rw [hfile, List.append_assoc, List.drop_append_of_le_length (by omega)]
      simp only [List.drop_of_length_le (Nat.le_of_eq l0), List.nil_append]
      rw [List.take_append_of_le_length (by omega)]
      exact List.take_of_length_le (by omega)
    rw [hslot] at hcrc
    refine ⟨s0, q ++ s1.drop q.length, l.tearNext ⟨st.bits.1, st.bits.2⟩, ?_, l0, hslotlen, ?_, ?_, hinvT, ?_, hoks⟩
    · rw [hfile]; simp [Rotation.Log.tearNext, hsec]
    · simpa [Rotation.Log.tearNext, hsec] using h0
    · simpa [Rotation.Log.tearNext, hsec, SlotIs] using hcrc
    · simpa [Rotation.Log.tearNext, hsec] using hebl
  | false =>
    simp only [Oplog.insertHeader, ← hdrSize_def, Bool.false_eq_true, ite_false, hsec, hfr, hbuf, List.head?_cons,
      Option.some.injEq, SOp.write.injEq, true_and] at hop
    obtain ⟨rfl, rfl⟩ := hop
    generalize hq : buf.take t = q at hcrc ⊢
    have hql : q.length ≤ 4096 := by rw [← hq, List.length_take]; omega
    have hfile : (f.write 0 q).toList = (q ++ s0.drop q.length) ++ s1 ++ framesBytes l.entries := by
      rw [File.toList_write f 0 q (Nat.zero_le _), hb]
      simp only [List.take_zero, List.nil_append, Nat.zero_add]
      have d0 : (s0 ++ s1 ++ framesBytes l.entries).drop q.length
          = s0.drop q.length ++ s1 ++ framesBytes l.entries := by
        rw [List.append_assoc, List.drop_append_of_le_length (by omega), List.append_assoc]
      rw [d0]
      simp only [List.append_assoc]
    have hslotlen : (q ++ s0.drop q.length).length = Spec.headerSize := by
      simp only [List.length_append, List.length_drop, l0]; omega
    have hslot : ((f.write 0 q).toList.drop 0).take Spec.headerSize = q ++ s0.drop q.length := by
      rw [hfile, List.drop_zero, List.append_assoc, List.take_append_of_le_length (by omega)]
      exact List.take_of_length_le (by omega)
    rw [hslot] at hcrc
    refine ⟨q ++ s0.drop q.length, s1, l.tearNext ⟨st.bits.1, st.bits.2⟩, ?_, hslotlen, l1, ?_, ?_, hinvT, ?_, hoks⟩
    · rw [hfile]; simp [Rotation.Log.tearNext, hsec]
    · simpa [Rotation.Log.tearNext, hsec, SlotIs] using hcrc
    · simpa [Rotation.Log.tearNext, hsec] using h1
    · simpa [Rotation.Log.tearNext, hsec] using hebl

theorem next_cur_ne (b : Bits) : b.next.cur ≠ b.cur := by
  obtain ⟨b0, b1⟩ := b
  cases b0 <;> cases b1 <;> decide

theorem open_drop_entries {l : Rotation.Log Header Entry} {b : Bits} {h : Header} {es : List Entry}
    (ho : l.open = some (b, h, es)) : ({ l with entries := [] } : Rotation.Log Header Entry).open = some (b, h, []) := by
  obtain ⟨c0, c1, fs⟩ := l
  cases c0 with
  | none =>
    cases c1 with
    | none => simp [Rotation.Log.open] at ho
    | some p => obtain ⟨b1, h1⟩ := p; simp [Rotation.Log.open, seen, takeBit, Rotation.dropTrailingPartial] at ho ⊢; exact ⟨ho.1, ho.2.1⟩
  | some p0 =>
    obtain ⟨b0, h0⟩ := p0
    cases c1 with
    | none => simp [Rotation.Log.open, seen, takeBit, Rotation.dropTrailingPartial] at ho ⊢; exact ⟨ho.1, ho.2.1⟩
    | some p => obtain ⟨b1, h1⟩ := p; simp [Rotation.Log.open, seen, takeBit, Rotation.dropTrailingPartial] at ho ⊢; exact ⟨ho.1, ho.2.1⟩

/-- opening the image "header written, entry region not yet truncated": the new header, no entries, the
    stale region cut off — and the protocol invariant holds for what is left -/
theorem mid_open (S0 S1 : Bytes) (l' : Rotation.Log Header Entry) (g : File) (bits : Bits) (h' : Header) (es : List Entry)
    (hg : g.toList = S0 ++ S1 ++ framesBytes l'.entries) (l0 : S0.length = Spec.headerSize) (l1 : S1.length = Spec.headerSize)
    (hs0 : SlotIs S0 l'.s0) (hs1 : SlotIs S1 l'.s1) (hents : l'.entries = es.map (mk bits.cur)) (hoks : ∀ e ∈ es, EntryOK e)
    (b' : Bits) (hopen : l'.open = some (b', h', [])) (hcur : b'.cur = bits.next.cur)
    (hinv2 : Rotation.Inv bits.next h' ([] : List Entry) { l' with entries := [] }) :
    ∃ ost ops, openLog none g.toList = .ok ⟨ost, h', ops, []⟩ ∧ (∀ op ∈ ops, op.store = .oplog)
      ∧ OpInv ost (ops.foldl (fun g op => op.onFile g) g).toList h' [] := by
  have hS : Spec.headerSize = 4096 := rfl
  have hE : Spec.entriesOffset = 8192 := rfl
  have hfr' : ∀ fr ∈ l'.entries, EntryOK fr.entry := by
    intro fr hfr
    rw [hents] at hfr
    obtain ⟨e, he, rfl⟩ := List.mem_map.mp hfr
    exact hoks e he
  obtain ⟨c0, c1, fs⟩ := l'
  simp only at hg hs0 hs1 hents hfr' hinv2
  obtain ⟨ost, e1, e2, e3⟩ := openLog_abs S0 S1 c0 c1 fs l0 l1 hs0 hs1 hfr' b' h' [] hopen
  have htb : takeBit b'.cur fs = [] := by
    rw [hents, hcur]; exact Rotation.takeBit_none _ _ (next_cur_ne bits) es
  have hbexact : b' = bits.next := open_bits_exact hinv2 b' h' [] (open_drop_entries hopen)
  have hglen : g.size = 8192 + (framesBytes fs).length := by
    rw [← File.toList_length, hg]; simp only [List.length_append, l0, l1, hS]
  refine ⟨ost, truncOps b'.cur fs, by rw [hg]; exact e1, truncOps_store _ _, ?_⟩
  have hfinal : ((truncOps b'.cur fs).foldl (fun g op => op.onFile g) g).toList = S0 ++ S1 ++ framesBytes ([] : List (Rotation.Frame Entry)) := by
    unfold truncOps
    rw [htb]
    by_cases hpos : (framesBytes fs).length > (framesBytes ([] : List (Rotation.Frame Entry))).length
    · simp only [hpos, ite_true, List.foldl_cons, List.foldl_nil, SOp.onFile]
      have : Spec.entriesOffset + (framesBytes ([] : List (Rotation.Frame Entry))).length = 8192 := by simp [framesBytes, hE]
      rw [this, File.toList_truncate_le _ _ (by omega), hg]
      have : (S0 ++ S1 ++ framesBytes fs).take 8192 = S0 ++ S1 := by
        rw [List.take_append_of_le_length (by simp [l0, l1, hS])]
        exact List.take_of_length_le (by simp [l0, l1, hS])
      rw [this]; simp [framesBytes]
    · simp only [hpos, ite_false, List.foldl_nil]
      have hz : (framesBytes fs).length = 0 := by simp [framesBytes] at hpos ⊢; omega
      have : framesBytes fs = [] := List.eq_nil_of_length_eq_zero hz
      rw [hg, this]; simp [framesBytes]
  rw [hfinal]
  refine ⟨S0, S1, { s0 := c0, s1 := c1, entries := [] }, rfl, l0, l1, hs0, hs1, ?_, ?_, fun e he => by cases he⟩
  · have : (⟨ost.bits.1, ost.bits.2⟩ : Bits) = bits.next := by rw [e2, ← hbexact]
    rw [this]; exact hinv2
  · rw [e3, htb]

/-- the crash point inside a flush: the header is written to the next slot, the entry region is not yet
    truncated.  `Oplog::open` returns the **new** header and no entries (the stale frames carry the
    other header bit) and cuts the stale region off; the protocol invariant holds for what is left. -/
theorem opinv_flush_mid (st : Oplog.State) (f : File) (hf : Header) (es : List Entry) (h' : Header) (ct : Bool)
    (h : OpInv st f.toList hf es) (hok : HeaderOK h') :
    ∃ ost ops, openLog none (((Oplog.insertHeader h' 0 st.bits ct).2.take 1).foldl (fun g op => op.onFile g) f).toList = .ok ⟨ost, h', ops, []⟩
      ∧ (∀ op ∈ ops, op.store = .oplog)
      ∧ OpInv ost (ops.foldl (fun g op => op.onFile g) (((Oplog.insertHeader h' 0 st.bits ct).2.take 1).foldl (fun g op => op.onFile g) f)).toList h' [] := by
  have hsz := opinv_size st f hf es h
  obtain ⟨s0, s1, l, hb, l0, l1, h0, h1, inv, hebl, hoks⟩ := h
  have hS : Spec.headerSize = 4096 := rfl
  have hE : Spec.entriesOffset = 8192 := rfl
  obtain ⟨⟨b', hopen, hcur, _⟩, hinv2⟩ := Rotation.switch_atomic (h' := h') inv
  generalize hfr : frame (encHeader h') (Spec.nextSlot st.bits.1 st.bits.2).2 false = fr
  generalize hbuf : fr ++ List.replicate (hdrSize ct h' - fr.length) 0 = buf
  obtain ⟨hsb1, hsb2⟩ := hdrSize_bounds ct h' hok
  have hbl : buf.length = hdrSize ct h' := by
    rw [← hbuf, ← hfr]
    simp only [List.length_append, List.length_replicate, frame_length]; omega
  have hfit : buf.length ≤ 4096 := by rw [hbl]; exact hsb2
  cases hsec : (Spec.nextSlot st.bits.1 st.bits.2).1 with
  | true =>
    have hso := slot_overwrite s1 h' (Spec.nextSlot st.bits.1 st.bits.2).2 l1 hok fr buf (hdrSize ct h') hsb1 hsb2 hfr hbuf
    have hfile : (((Oplog.insertHeader h' 0 st.bits ct).2.take 1).foldl (fun g op => op.onFile g) f).toList
        = s0 ++ (buf ++ s1.drop buf.length) ++ framesBytes l.entries := by
      simp only [Oplog.insertHeader, ← hdrSize_def, Bool.false_eq_true, ite_false, hsec, ite_true, hfr, hbuf,
        List.take_succ_cons, List.take_zero, List.foldl_cons, List.foldl_nil, SOp.onFile]
      rw [File.toList_write f Spec.headerSize buf (by rw [hsz, hE, hS]; omega), hb]
      have t0 : (s0 ++ s1 ++ framesBytes l.entries).take Spec.headerSize = s0 := by
        rw [List.append_assoc, List.take_append_of_le_length (by omega)]
        simp [List.take_of_length_le, l0]
      have d0 : (s0 ++ s1 ++ framesBytes l.entries).drop (Spec.headerSize + buf.length)
          = s1.drop buf.length ++ framesBytes l.entries := by
        rw [List.append_assoc, ← List.drop_drop, List.drop_append_of_le_length (by omega)]
        simp only [List.drop_of_length_le (Nat.le_of_eq l0), List.nil_append]
        rw [List.drop_append_of_le_length (by omega)]
      rw [t0, d0]
      simp only [List.append_assoc]
    have hw : l.writeNext ⟨st.bits.1, st.bits.2⟩ h' = ⟨l.s0, some ((Spec.nextSlot st.bits.1 st.bits.2).2, h'), l.entries⟩ := by
      simp [Rotation.Log.writeNext, hsec]
    rw [hw] at hopen hinv2
    exact mid_open s0 (buf ++ s1.drop buf.length) ⟨l.s0, some ((Spec.nextSlot st.bits.1 st.bits.2).2, h'), l.entries⟩ _
      ⟨st.bits.1, st.bits.2⟩ h' es hfile l0 hso.1 h0 hso.2 inv.ents hoks b' hopen hcur hinv2
  | false =>
    have hso := slot_overwrite s0 h' (Spec.nextSlot st.bits.1 st.bits.2).2 l0 hok fr buf (hdrSize ct h') hsb1 hsb2 hfr hbuf
    have hfile : (((Oplog.insertHeader h' 0 st.bits ct).2.take 1).foldl (fun g op => op.onFile g) f).toList
        = (buf ++ s0.drop buf.length) ++ s1 ++ framesBytes l.entries := by
      simp only [Oplog.insertHeader, ← hdrSize_def, Bool.false_eq_true, ite_false, hsec, hfr, hbuf,
        List.take_succ_cons, List.take_zero, List.foldl_cons, List.foldl_nil, SOp.onFile]
      rw [File.toList_write f 0 buf (Nat.zero_le _), hb]
      simp only [List.take_zero, List.nil_append, Nat.zero_add]
      have d0 : (s0 ++ s1 ++ framesBytes l.entries).drop buf.length
          = s0.drop buf.length ++ s1 ++ framesBytes l.entries := by
        rw [List.append_assoc, List.drop_append_of_le_length (by omega), List.append_assoc]
      rw [d0]
      simp only [List.append_assoc]
    have hw : l.writeNext ⟨st.bits.1, st.bits.2⟩ h' = ⟨some ((Spec.nextSlot st.bits.1 st.bits.2).2, h'), l.s1, l.entries⟩ := by
      simp [Rotation.Log.writeNext, hsec]
    rw [hw] at hopen hinv2
    exact mid_open (buf ++ s0.drop buf.length) s1 ⟨some ((Spec.nextSlot st.bits.1 st.bits.2).2, h'), l.s1, l.entries⟩ _
      ⟨st.bits.1, st.bits.2⟩ h' es hfile hso.1 l1 hso.2 h1 inv.ents hoks b' hopen hcur hinv2

/-- a header write without the truncate, on a log that has no entries: the invariant holds for the new header
    (the second header write of `make_read_only`) -/
theorem opinv_header_only (st : Oplog.State) (f : File) (hf : Header) (h' : Header) (ct : Bool)
    (h : OpInv st f.toList hf []) (hok : HeaderOK h') :
    OpInv ({ bits := (Oplog.insertHeader h' 0 st.bits ct).1, entriesLength := 0, entriesByteLength := 0 } : Oplog.State)
      (((Oplog.insertHeader h' 0 st.bits ct).2.take 1).foldl (fun g op => op.onFile g) f).toList h' [] := by
  have hsz := opinv_size st f hf [] h
  obtain ⟨s0, s1, l, hb, l0, l1, h0, h1, inv, hebl, hoks⟩ := h
  have hS : Spec.headerSize = 4096 := rfl
  have hE : Spec.entriesOffset = 8192 := rfl
  obtain ⟨_, hinv2⟩ := Rotation.switch_atomic (h' := h') inv
  have hents : l.entries = [] := by rw [inv.ents]; rfl
  rw [hents] at hb
  have hebl0 : st.entriesByteLength = 0 := by rw [hebl, hents]; simp [framesBytes]
  generalize hfr : frame (encHeader h') (Spec.nextSlot st.bits.1 st.bits.2).2 false = fr
  generalize hbuf : fr ++ List.replicate (hdrSize ct h' - fr.length) 0 = buf
  obtain ⟨hsb1, hsb2⟩ := hdrSize_bounds ct h' hok
  have hbl : buf.length = hdrSize ct h' := by
    rw [← hbuf, ← hfr]
    simp only [List.length_append, List.length_replicate, frame_length]; omega
  have hfit : buf.length ≤ 4096 := by rw [hbl]; exact hsb2
  have hfb : framesBytes ([] : List (Rotation.Frame Entry)) = [] := by simp [framesBytes]
  rw [hfb, List.append_nil] at hb
  cases hsec : (Spec.nextSlot st.bits.1 st.bits.2).1 with
  | true =>
    have hso := slot_overwrite s1 h' (Spec.nextSlot st.bits.1 st.bits.2).2 l1 hok fr buf (hdrSize ct h') hsb1 hsb2 hfr hbuf
    have hfile : (((Oplog.insertHeader h' 0 st.bits ct).2.take 1).foldl (fun g op => op.onFile g) f).toList
        = s0 ++ (buf ++ s1.drop buf.length) := by
      simp only [Oplog.insertHeader, ← hdrSize_def, hsec, ite_true, hfr, hbuf,
        List.take_succ_cons, List.take_zero, List.foldl_cons, List.foldl_nil, SOp.onFile]
      rw [File.toList_write f Spec.headerSize buf (by rw [hsz, hE, hS]; omega), hb]
      have t0 : (s0 ++ s1).take Spec.headerSize = s0 := by
        rw [List.take_append_of_le_length (by omega)]
        exact List.take_of_length_le (by omega)
      have d0 : (s0 ++ s1).drop (Spec.headerSize + buf.length) = s1.drop buf.length := by
        rw [← List.drop_drop, List.drop_append_of_le_length (by omega)]
        simp only [List.drop_of_length_le (Nat.le_of_eq l0), List.nil_append]
      rw [t0, d0]
      simp only [List.append_assoc]
    refine ⟨s0, buf ++ s1.drop buf.length, { (l.writeNext ⟨st.bits.1, st.bits.2⟩ h') with entries := [] }, ?_, l0, hso.1, ?_, ?_, ?_, ?_, ?_⟩
    · rw [hfile]; simp [framesBytes]
    · simpa [Rotation.Log.writeNext, hsec] using h0
    · simpa [Rotation.Log.writeNext, hsec] using hso.2
    · have : (Oplog.insertHeader h' 0 st.bits ct).1 = ((Bits.next ⟨st.bits.1, st.bits.2⟩).b0, (Bits.next ⟨st.bits.1, st.bits.2⟩).b1) := by
        simp only [Oplog.insertHeader, hsec, ite_true, Bits.next]
      rw [this]; exact hinv2
    · simp [framesBytes]
    · intro e he; cases he
  | false =>
    have hso := slot_overwrite s0 h' (Spec.nextSlot st.bits.1 st.bits.2).2 l0 hok fr buf (hdrSize ct h') hsb1 hsb2 hfr hbuf
    have hfile : (((Oplog.insertHeader h' 0 st.bits ct).2.take 1).foldl (fun g op => op.onFile g) f).toList
        = (buf ++ s0.drop buf.length) ++ s1 := by
      simp only [Oplog.insertHeader, ← hdrSize_def, hsec, Bool.false_eq_true, ite_false, hfr, hbuf,
        List.take_succ_cons, List.take_zero, List.foldl_cons, List.foldl_nil, SOp.onFile]
      rw [File.toList_write f 0 buf (Nat.zero_le _), hb]
      simp only [List.take_zero, List.nil_append, Nat.zero_add]
      rw [List.drop_append_of_le_length (by omega)]
      simp only [List.append_assoc]
    refine ⟨buf ++ s0.drop buf.length, s1, { (l.writeNext ⟨st.bits.1, st.bits.2⟩ h') with entries := [] }, ?_, hso.1, l1, ?_, ?_, ?_, ?_, ?_⟩
    · rw [hfile]; simp [framesBytes]
    · simpa [Rotation.Log.writeNext, hsec] using hso.2
    · simpa [Rotation.Log.writeNext, hsec] using h1
    · have : (Oplog.insertHeader h' 0 st.bits ct).1 = ((Bits.next ⟨st.bits.1, st.bits.2⟩).b0, (Bits.next ⟨st.bits.1, st.bits.2⟩).b1) := by
        simp only [Oplog.insertHeader, hsec, Bool.false_eq_true, ite_false, Bits.next]
      rw [this]; exact hinv2
    · simp [framesBytes]
    · intro e he; cases he

/-- `make_read_only`'s flush (header, truncate, header again — both slots rewritten as full slots) keeps the invariant -/
theorem opinv_flush_traces (st : Oplog.State) (f : File) (hf : Header) (es : List Entry) (h' : Header)
    (h : OpInv st f.toList hf es) (hok : HeaderOK h') :
    OpInv (Oplog.flush st h' true).1 ((Oplog.flush st h' true).2.foldl (fun g op => op.onFile g) f).toList h' [] := by
  have h1 := opinv_insert st f hf es h' true h hok
  have h2 := opinv_header_only _ _ h' h' true h1 hok
  simp only [Oplog.flush, ite_true, List.foldl_append]
  exact h2

/-- opening a store that satisfies the invariant up to a tail that is no frame (nothing, or the prefix of an
    entry whose write was torn): the tail is cut off and the invariant holds for what is left -/
theorem opinv_open_tail (st : Oplog.State) (f : File) (base tail : Bytes) (hf : Header) (es : List Entry)
    (h : OpInv st base hf es) (hb : f.toList = base ++ tail) (ht : validateLeader tail = none) :
    ∃ ost ops, openLog none f.toList = .ok ⟨ost, hf, ops, es⟩ ∧ (∀ op ∈ ops, op.store = .oplog)
      ∧ OpInv ost (ops.foldl (fun g op => op.onFile g) f).toList hf es := by
  have hS : Spec.headerSize = 4096 := rfl
  have hE : Spec.entriesOffset = 8192 := rfl
  have h' := h
  obtain ⟨s0, s1, l, hbase, l0, l1, h0, h1, inv, hebl, hok⟩ := h
  obtain ⟨b', hopen, _, _⟩ := Rotation.open_of_inv inv
  have hbits := open_bits_exact inv b' hf es hopen
  have hfr : ∀ fr ∈ l.entries, EntryOK fr.entry := by
    intro fr hfr
    rw [inv.ents] at hfr
    obtain ⟨e, he, rfl⟩ := List.mem_map.mp hfr
    exact hok e he
  have hents := inv.ents
  obtain ⟨c0, c1, fs⟩ := l
  simp only at hents hbase hfr
  obtain ⟨ost, e1, e2, e3⟩ := openLog_abs_tail s0 s1 c0 c1 fs l0 l1 h0 h1 hfr b' hf es hopen tail ht
  have htb : takeBit b'.cur fs = fs := by rw [hbits, hents, Rotation.takeBit_all]
  have hbytes : f.toList = s0 ++ s1 ++ (framesBytes fs ++ tail) := by rw [hb, hbase]; simp [List.append_assoc]
  refine ⟨ost, truncOpsT b'.cur fs tail.length, by rw [hbytes]; exact e1, truncOpsT_store _ _ _, ?_⟩
  have hfinal : ((truncOpsT b'.cur fs tail.length).foldl (fun g op => op.onFile g) f).toList = base := by
    unfold truncOpsT
    rw [htb]
    by_cases hpos : tail.length > 0
    · have hc : (framesBytes fs).length + tail.length > (framesBytes fs).length := by omega
      simp only [hc, ite_true, List.foldl_cons, List.foldl_nil, SOp.onFile]
      have hblen : base.length = Spec.entriesOffset + (framesBytes fs).length := by
        rw [hbase]; simp only [List.length_append, l0, l1, hS, hE]
      have hfsz : f.size = base.length + tail.length := by rw [← File.toList_length, hb]; simp
      rw [File.toList_truncate_le _ _ (by omega), hb, ← hblen]
      simp
    · have : tail = [] := List.eq_nil_of_length_eq_zero (by omega)
      have hc : ¬ ((framesBytes fs).length + tail.length > (framesBytes fs).length) := by omega
      simp only [hc, ite_false, List.foldl_nil]
      rw [hb, this, List.append_nil]
  rw [hfinal]
  exact opinv_congr st ost base hf es h' (by rw [e2, hbits]) (by rw [e3, htb, hebl])

/-- the oplog store of a crash image: the protocol invariant holds for some in-memory state up to a tail that
    is no frame (nothing, or the prefix of an entry whose write was torn), or a flush was cut between its
    header write and its truncate -/
def OpImage (f : File) (hf : Header) (es : List Entry) : Prop :=
  (∃ st base tail, OpInv st base hf es ∧ f.toList = base ++ tail ∧ validateLeader tail = none)
    ∨ (∃ st f0 hf0 es0 ct, OpInv st f0.toList hf0 es0 ∧ HeaderOK hf ∧ es = []
        ∧ f = ((Oplog.insertHeader hf 0 st.bits ct).2.take 1).foldl (fun g op => op.onFile g) f0)

theorem opimage_of_inv (st : Oplog.State) (f : File) (hf : Header) (es : List Entry) (h : OpInv st f.toList hf es) : OpImage f hf es :=
  Or.inl ⟨st, f.toList, [], h, by simp, validateLeader_nil⟩

/-- the entry write torn after `t` bytes: the store is the old one followed by a strict prefix of a frame, which
    is no frame (by its length field alone — no assumption on the checksum) -/
theorem opimage_torn_entry (st : Oplog.State) (f : File) (hf : Header) (es : List Entry) (e : Entry) (t : Nat)
    (h : OpInv st f.toList hf es) (he : EntryOK e) (ht : t < (frame (encEntry e) st.currentBit false).length) :
    OpImage (f.write (Spec.entriesOffset + st.entriesByteLength) ((frame (encEntry e) st.currentBit false).take t)) hf es := by
  have hsz := opinv_size st f hf es h
  refine Or.inl ⟨st, f.toList, (frame (encEntry e) st.currentBit false).take t, h, ?_, ?_⟩
  · rw [← hsz, File.toList_write f f.size _ (Nat.le_refl _)]
    have e1 : f.toList.take f.size = f.toList := List.take_of_length_le (Nat.le_of_eq (File.toList_length f))
    have e2 : f.toList.drop (f.size + ((frame (encEntry e) st.currentBit false).take t).length) = [] :=
      List.drop_of_length_le (by rw [File.toList_length]; omega)
    rw [e1, e2, List.append_nil]
  · apply validateLeader_strict_prefix (encEntry e) st.currentBit false he.2 _ ((frame (encEntry e) st.currentBit false).drop t)
    · intro hnil
      have := congrArg List.length hnil
      simp only [List.length_drop, List.length_nil] at this
      omega
    · exact List.take_append_drop t _

/-- opening a crash image: the header and entries it stands for, and the invariant for the store as
    `Oplog::open` leaves it -/
theorem opimage_open (f : File) (hf : Header) (es : List Entry) (h : OpImage f hf es) :
    ∃ ost ops, openLog none f.toList = .ok ⟨ost, hf, ops, es⟩ ∧ (∀ op ∈ ops, op.store = .oplog)
      ∧ OpInv ost (ops.foldl (fun g op => op.onFile g) f).toList hf es := by
  rcases h with ⟨st, base, tail, hi, hb, ht⟩ | ⟨st, f0, hf0, es0, ct, hi, hok, rfl, rfl⟩
  · exact opinv_open_tail st f base tail hf es hi hb ht
  · exact opinv_flush_mid st f0 hf0 es0 hf ct hi hok

theorem leVal_zeros (k : Nat) : leVal (List.replicate k (0 : UInt8)) = 0 := by
  induction k with
  | zero => rfl
  | succ k ih => simp [List.replicate_succ, leVal, ih]

theorem validateLeader_zeros (k : Nat) : validateLeader (List.replicate k (0 : UInt8)) = none := by
  unfold validateLeader
  split
  · rfl
  · have h4 : ((List.replicate k (0 : UInt8)).drop 4).take 4 = List.replicate (min 4 (k - 4)) 0 := by
      simp [List.drop_replicate, List.take_replicate]
    simp only [h4, leVal_zeros]
    simp

/-- the oplog store of a freshly created core -/
theorem opinv_create (h : Header) (hok : HeaderOK h) :
    OpInv { bits := (Oplog.insertHeader h 0 Spec.initialBits false).1 }
      ((Oplog.insertHeader h 0 Spec.initialBits false).2.foldl (fun g op => op.onFile g) File.empty).toList h [] := by
  have hS : Spec.headerSize = 4096 := rfl
  have hns : Spec.nextSlot Spec.initialBits.1 Spec.initialBits.2 = (false, false) := by decide
  generalize hfr : frame (encHeader h) false false = fr
  generalize hbuf : fr ++ List.replicate (Spec.leaderSize + 2 * (encHeader h).length - fr.length) 0 = buf
  have hbl : buf.length = Spec.leaderSize + 2 * (encHeader h).length := by
    rw [← hbuf, ← hfr]
    simp only [List.length_append, List.length_replicate, frame_length, Spec.leaderSize]; omega
  have hfit : buf.length ≤ Spec.headerSize := by rw [hbl]; exact hok.2
  -- the two slots
  obtain ⟨P, hP⟩ : ∃ P, P = List.replicate (Spec.headerSize - buf.length) (0 : UInt8) := ⟨_, rfl⟩
  obtain ⟨Z, hZ⟩ : ∃ Z, Z = List.replicate Spec.headerSize (0 : UInt8) := ⟨_, rfl⟩
  have hPl : P.length = Spec.headerSize - buf.length := by rw [hP, List.length_replicate]
  have hZl : Z.length = Spec.headerSize := by rw [hZ, List.length_replicate]
  have hZv : validateLeader Z = none := by rw [hZ]; exact validateLeader_zeros _
  have hfile : ((Oplog.insertHeader h 0 Spec.initialBits false).2.foldl (fun g op => op.onFile g) File.empty).toList
      = (buf ++ P) ++ Z := by
    simp only [Oplog.insertHeader, hns, Bool.false_eq_true, ite_false, hfr, hbuf, List.foldl_cons, List.foldl_nil,
      SOp.onFile, Nat.add_zero]
    have hw : (File.empty.write 0 buf).toList = buf := by
      rw [File.toList_write _ 0 buf (Nat.zero_le _)]
      simp [File.empty, File.toList]
    have hwsz : (File.empty.write 0 buf).size = buf.length := by rw [← File.toList_length, hw]
    have hEo : Spec.entriesOffset = Spec.headerSize + Spec.headerSize := rfl
    rw [File.toList_truncate_ge _ _ (by rw [hwsz, hEo]; omega), hw, hwsz]
    have : Spec.entriesOffset - buf.length = (Spec.headerSize - buf.length) + Spec.headerSize := by rw [hEo]; omega
    rw [this, ← List.replicate_append_replicate, ← hP, ← hZ, List.append_assoc]
  have hinv := Rotation.fresh_inv (E := Entry) h
  have hslot : SlotIs (buf ++ P) (some (false, h)) := by
    refine ⟨⟨List.replicate (Spec.leaderSize + 2 * (encHeader h).length - fr.length) 0 ++ P, ?_⟩, hok.1, ?_⟩
    · rw [← hbuf, hfr, List.append_assoc]
    · have := hok.2; simp only [Spec.leaderSize, Spec.headerSize] at this; omega
  have hwn : ({ s0 := none, s1 := none, entries := [] } : Rotation.Log Header Entry).writeNext ⟨Spec.initialBits.1, Spec.initialBits.2⟩ h
      = { s0 := some (false, h), s1 := none, entries := [] } := by
    simp only [Rotation.Log.writeNext, hns, Bool.false_eq_true, ite_false]
  refine ⟨buf ++ P, Z, { s0 := some (false, h), s1 := none, entries := [] }, ?_, ?_, hZl, hslot, hZv, ?_, ?_, ?_⟩
  · rw [hfile]; simp [framesBytes]
  · rw [List.length_append, hPl]; omega
  · have : (Oplog.insertHeader h 0 Spec.initialBits false).1
        = ((Bits.next ⟨Spec.initialBits.1, Spec.initialBits.2⟩).b0, (Bits.next ⟨Spec.initialBits.1, Spec.initialBits.2⟩).b1) := by
      simp [Oplog.insertHeader, hns, Bits.next]
    rw [this, ← hwn]; exact hinv
  · simp [framesBytes]
  · intro e he; cases he

end HC.OplogBytes
