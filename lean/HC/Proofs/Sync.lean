import HC.Proofs.Complete
import HC.Proofs.UpgradeComplete
/-!
Tree-level synchronisation (C03): a replica that knew nothing, after the writer's first upgrade answer and
any sequence of honest block answers, each verified *and committed*, is a `Sparse` replica of the writer's
log at the writer's length — so the next honest block answer is accepted again (`honest_block_accepted`
needs exactly `Sparse`).  This closes the induction that `honest_block_accepted` alone leaves open: the
state after applying an honest answer is again a state on which honest answers are accepted.
-/
namespace HC.Sync
open HC HC.Codec HC.Flat HC.Tree HC.RefTree HC.RefProof HC.Sound HC.Offsets HC.TreeStore HC.Complete HC.UpgradeSound

/-- inserting reference nodes inside the first `m'` blocks keeps a replica sparse (and lets it grow) -/
theorem sparse_insert (C : Crypto) (hC : HashWF C) (bs : Array Bytes) (m m' : Nat) (t t' : Tree) (f : File)
    (hS : Sparse C bs m t f) (hm : m ≤ m') (l : List Node)
    (hl : ∀ n ∈ l, ∃ d o, n = nodeAt C bs d o ∧ (o + 1) * 2 ^ d ≤ m')
    (hu : t'.unflushed = insertAll t.unflushed l) (hlen : t'.length = m')
    (hroots : ∀ p ∈ rootsStack m', (∃ n ∈ l, n.index = Flat.index p.1 p.2)
        ∨ t.node? f (Flat.index p.1 p.2) = some (nodeAt C bs p.1 p.2)) :
    Sparse C bs m' t' f := by
  have hlook : ∀ i, (∃ d o, i = Flat.index d o ∧ (o + 1) * 2 ^ d ≤ m' ∧ t'.node? f i = some (nodeAt C bs d o))
      ∨ t'.node? f i = t.node? f i := by
    intro i
    by_cases hex : ∃ n ∈ l, n.index = i
    · obtain ⟨x, hx, hxi, hget⟩ := insertAll_hit l t.unflushed i hex
      obtain ⟨d, o, rfl, hb⟩ := hl x hx
      refine Or.inl ⟨d, o, hxi.symm, hb, ?_⟩
      exact node?_of_unflushed t' f i _ (by rw [hu]; exact hget) (nodeAt_not_blank C hC bs d o)
    · refine Or.inr (node?_congr t t' f i ?_)
      rw [hu]; exact insertAll_miss l t.unflushed i (fun x hx e => hex ⟨x, hx, e⟩)
  refine ⟨hlen, ?_, ?_⟩
  · intro i n hn
    rcases hlook i with ⟨d, o, hi, hb, hget⟩ | he
    · rw [hget] at hn
      exact ⟨d, o, hi, (Option.some.inj hn).symm, hb⟩
    · rw [he] at hn
      obtain ⟨d, o, hi, e, hb⟩ := hS.sound i n hn
      exact ⟨d, o, hi, e, Nat.le_trans hb hm⟩
  · intro p hp
    rcases hlook (Flat.index p.1 p.2) with ⟨d, o, hi, _, hget⟩ | he
    · obtain ⟨rfl, rfl⟩ := index_inj p.1 p.2 d o hi
      exact hget
    · rcases hroots p hp with hex | hold
      · obtain ⟨x, hx, hxi⟩ := hex
        obtain ⟨y, hy, hyi, hget⟩ := insertAll_hit l t.unflushed _ ⟨x, hx, hxi⟩
        obtain ⟨d, o, rfl, _⟩ := hl y hy
        have hidx : Flat.index d o = Flat.index p.1 p.2 := hyi
        obtain ⟨rfl, rfl⟩ := index_inj d o p.1 p.2 hidx
        exact node?_of_unflushed t' f _ _ (by rw [hu]; exact hget) (nodeAt_not_blank C hC bs _ _)
      · rw [he]; exact hold

/-- committing an accepted block answer keeps the replica sparse -/
theorem block_commit_sparse (C : Crypto) (hC : HashWF C) (bs : Array Bytes) (m : Nat) (t : Tree) (f : File)
    (hS : Sparse C bs m t f) (cs : Changeset)
    (hall : ∀ n ∈ cs.rnodes, ∃ d o, n = nodeAt C bs d o ∧ (o + 1) * 2 ^ d ≤ m)
    (hu : cs.upgraded = false) (ho1 : cs.origLength = t.length) (ho2 : cs.origFork = t.fork) :
    ∃ t', t.commit cs = .ok t' ∧ Sparse C bs m t' f ∧ t'.roots = t.roots ∧ t'.fork = t.fork := by
  have hcm : t.commitable cs = true := by simp [Tree.commitable, hu, ho1, ho2]
  refine ⟨{ t with unflushed := insertAll t.unflushed cs.nodes }, ?_, ?_, rfl, rfl⟩
  · simp only [Tree.commit, hcm, hu, Bool.not_true, Bool.false_eq_true, ite_false, Bool.false_and, insertAll]
  · refine sparse_insert C hC bs m m t _ f hS (Nat.le_refl _) cs.nodes ?_ rfl hS.length (fun p hp => Or.inr (hS.roots p hp))
    intro n hn
    exact hall n (by simpa [Changeset.nodes] using hn)

/-- committing the accepted first upgrade makes the replica a sparse replica at the writer's length -/
theorem upgrade_commit_sparse (C : Crypto) (hC : HashWF C) (bs : Array Bytes) (t : Tree) (f : File)
    (hS : Sparse C bs 0 t f) (cs : Changeset)
    (hroots : cs.roots = RefTree.roots C bs) (hlen : cs.length = bs.size)
    (hrn : cs.rnodes = (RefTree.roots C bs).reverse) (hu : cs.upgraded = true)
    (ho1 : cs.origLength = t.length) (ho2 : cs.origFork = t.fork) (ha : cs.ancestors = t.length) :
    ∃ t', t.commit cs = .ok t' ∧ Sparse C bs bs.size t' f ∧ t'.roots = RefTree.roots C bs ∧ t'.fork = cs.fork
      ∧ t'.signature = cs.signature := by
  have hcm : t.commitable cs = true := by simp [Tree.commitable, hu, ho1, ho2]
  have hnl : ¬ (cs.ancestors < cs.origLength) := by omega
  refine ⟨{ t with roots := cs.roots, length := cs.length, byteLength := cs.byteLength, fork := cs.fork, signature := cs.signature, unflushed := insertAll t.unflushed cs.nodes }, ?_, ?_, hroots, rfl, rfl⟩
  · simp only [Tree.commit, hcm, hu, Bool.not_true, Bool.false_eq_true, ite_false, Bool.true_and, decide_eq_true_eq, hnl, ite_true, insertAll]
  · have hnodes : cs.nodes = (rootsStack bs.size).reverse.map (fun p => nodeAt C bs p.1 p.2) := by
      simp [Changeset.nodes, hrn, RefTree.roots]
    refine sparse_insert C hC bs 0 bs.size t _ f hS (Nat.zero_le _) cs.nodes ?_ rfl hlen ?_
    · intro n hn
      rw [hnodes] at hn
      obtain ⟨p, hp, rfl⟩ := List.mem_map.mp hn
      exact ⟨p.1, p.2, rfl, rootsStack_bound bs.size p (List.mem_reverse.mp hp)⟩
    · intro p hp
      refine Or.inl ⟨nodeAt C bs p.1 p.2, ?_, rfl⟩
      rw [hnodes]
      exact List.mem_map.mpr ⟨p, List.mem_reverse.mpr hp, rfl⟩

/-- what the replica's tree can be after first contact and any number of honest block exchanges, each
    answer produced by the writer's `create_valueless_proof`, checked by the replica's `verify_proof` and
    committed -/
inductive Reach (C : Crypto) (bs : Array Bytes) (tw : Tree) (fw : File) (pk : Bytes) (fr : File) : Tree → Prop
  | first (tr : Tree) (vp : ValuelessProof) (cs : Changeset) (tr' : Tree) :
      Sparse C bs 0 tr fr → tr.roots = [] →
      tw.createValuelessProof fw none none none (some ⟨0, bs.size⟩) = .ok vp →
      tr.verifyProof C fr ⟨vp.fork, none, none, none, vp.upgrade⟩ pk = .ok cs →
      tr.commit cs = .ok tr' → Reach C bs tw fw pk fr tr'
  | block (tr : Tree) (i : Nat) (nodes : List Node) (cs : Changeset) (tr' : Tree) :
      Reach C bs tw fw pk fr tr → i < bs.size →
      tw.createValuelessProof fw (some ⟨i, tr.missingNodes fr (2 * i)⟩) none none none
        = .ok ⟨tw.fork, some ⟨i, nodes⟩, none, none, none⟩ →
      tr.verifyProof C fr ⟨tw.fork, some ⟨i, bs.getD i [], nodes⟩, none, none, none⟩ pk = .ok cs →
      tr.commit cs = .ok tr' → Reach C bs tw fw pk fr tr'

/-- the writer-side facts the exchange relies on (what `C01.live_refinement` maintains) -/
structure Writer (C : Crypto) (bs : Array Bytes) (tw : Tree) (fw : File) (pk sig : Bytes) : Prop where
  roots : RootsOK C bs tw.changeset
  nodes : NodesOK C bs tw fw
  small : bs.size < 2 ^ 64
  nonempty : 0 < bs.size
  hsig : tw.signature = some sig
  siglen : sig.length = 64
  verifies : C.verify pk (RefTree.signableOf C bs tw.fork) sig = true

/-- **First contact never gets stuck**: the writer answers, the replica accepts and commits, and what it
    then holds is a sparse replica of the writer's log at the writer's length, with the writer's roots,
    fork and signature. -/
theorem first_contact (C : Crypto) (hC : HashWF C) (bs : Array Bytes) (tw : Tree) (fw : File) (pk sig : Bytes)
    (hW : Writer C bs tw fw pk sig) (tr : Tree) (fr : File) (hS : Sparse C bs 0 tr fr) (hr : tr.roots = []) :
    ∃ vp cs tr', tw.createValuelessProof fw none none none (some ⟨0, bs.size⟩) = .ok vp
      ∧ tr.verifyProof C fr ⟨vp.fork, none, none, none, vp.upgrade⟩ pk = .ok cs
      ∧ tr.commit cs = .ok tr'
      ∧ Sparse C bs bs.size tr' fr ∧ tr'.roots = RefTree.roots C bs ∧ tr'.fork = tw.fork ∧ tr'.signature = some sig := by
  have hw := UpgradeComplete.create_upgrade_from0 C bs tw fw hW.roots hW.nodes hW.small hW.nonempty sig hW.hsig
  obtain ⟨cs, h1, h2, h3, h4, h5, h6, h7, h8, h9, h10, _⟩ := UpgradeComplete.fresh_upgrade_accepted C bs hW.small hW.nonempty tw.fork pk sig
    tr.changeset (by simp [Tree.changeset, hr]) (by simp [Tree.changeset, hS.length]) hW.siglen hW.verifies
  obtain ⟨tr', hc, hS', hr', hf', hs'⟩ := upgrade_commit_sparse C hC bs tr fr hS cs h2 h3 (by simpa [Tree.changeset] using h6) h7
    (by simpa [Tree.changeset] using h8) (by simpa [Tree.changeset] using h9) (by simpa [Tree.changeset] using h10)
  refine ⟨_, cs, tr', hw, ?_, hc, hS', hr', by rw [hf', h4], by rw [hs', h5]⟩
  simp [Tree.verifyProof, verifyTree, untrustedOf, noSeekOf, h1]

/-- everything reachable is a sparse replica at the writer's length -/
theorem reach_sparse (C : Crypto) (hC : HashWF C) (bs : Array Bytes) (tw : Tree) (fw : File) (pk sig : Bytes)
    (hW : Writer C bs tw fw pk sig) (fr : File) (tr : Tree) (h : Reach C bs tw fw pk fr tr) :
    Sparse C bs bs.size tr fr ∧ tr.roots = RefTree.roots C bs ∧ tr.fork = tw.fork := by
  induction h with
  | first tr vp cs tr' hS hr hw hv hc =>
    obtain ⟨vp2, cs2, tr2, e1, e2, e3, r1, r2, r3, _⟩ := first_contact C hC bs tw fw pk sig hW tr fr hS hr
    rw [hw] at e1
    cases e1
    rw [hv] at e2
    cases e2
    rw [hc] at e3
    cases e3
    exact ⟨r1, r2, r3⟩
  | block tr i nodes cs tr' _ hi hw hv hc ih =>
    obtain ⟨hS, hr, hf⟩ := ih
    obtain ⟨nodes2, cs2, e1, e2, hall, hu, ho1, ho2⟩ := honest_block_accepted C bs tw fw tr fr bs.size hW.roots hW.nodes hW.small hS
      (Nat.le_refl _) i hi pk
    rw [hw] at e1
    cases e1
    rw [hv] at e2
    cases e2
    obtain ⟨t2, e3, r1, r2, r3⟩ := block_commit_sparse C hC bs bs.size tr fr hS cs hall hu ho1 ho2
    rw [hc] at e3
    cases e3
    exact ⟨r1, by rw [r2, hr], by rw [r3, hf]⟩

/-- **Honest block exchanges never get stuck**: from every reachable replica state and for every block of
    the log, the replica's request is answered by the writer, the answer is accepted, and the commit
    succeeds — giving a reachable state again. -/
theorem block_progress (C : Crypto) (hC : HashWF C) (bs : Array Bytes) (tw : Tree) (fw : File) (pk sig : Bytes)
    (hW : Writer C bs tw fw pk sig) (fr : File) (tr : Tree) (h : Reach C bs tw fw pk fr tr) (i : Nat) (hi : i < bs.size) :
    ∃ nodes cs tr', tw.createValuelessProof fw (some ⟨i, tr.missingNodes fr (2 * i)⟩) none none none
        = .ok ⟨tw.fork, some ⟨i, nodes⟩, none, none, none⟩
      ∧ tr.verifyProof C fr ⟨tw.fork, some ⟨i, bs.getD i [], nodes⟩, none, none, none⟩ pk = .ok cs
      ∧ tr.commit cs = .ok tr' ∧ Reach C bs tw fw pk fr tr' := by
  obtain ⟨hS, _, _⟩ := reach_sparse C hC bs tw fw pk sig hW fr tr h
  obtain ⟨nodes, cs, e1, e2, hall, hu, ho1, ho2⟩ := honest_block_accepted C bs tw fw tr fr bs.size hW.roots hW.nodes hW.small hS
    (Nat.le_refl _) i hi pk
  obtain ⟨t2, e3, _⟩ := block_commit_sparse C hC bs bs.size tr fr hS cs hall hu ho1 ho2
  exact ⟨nodes, cs, t2, e1, e2, e3, Reach.block tr i nodes cs t2 h hi e1 e2 e3⟩

end HC.Sync
