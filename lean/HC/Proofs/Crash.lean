import HC.Proofs.Persist
/-!
Crash states.  `Durable C d hf a0 es a` says that the four stores `d` are a legitimate image of the
abstract log `a`: the oplog opens to the header `hf` of some flush and the entries `es` logged since, `es`
leads from the log `a0` of that flush to `a`, the tree store holds (at least) the nodes of `a0`, the
bitfield store holds `a0`'s bits *or whatever a partial flush of a later state may have left*, and the
data store holds every block `a` holds.  `durable_open`: opening such stores succeeds and yields a core
that represents `a`.  `crash_step`: for every call and **every prefix of its storage operations**, the
stores are `Durable` for the log before the call or for the log after it.
-/
namespace HC.Crash
open HC HC.Codec HC.Flat HC.Tree HC.RefTree HC.RefProof HC.Offsets HC.TreeStore HC.LogSpec HC.Core HC.Oplog HC.LiveRefine
  HC.BitfieldPages HC.OplogBytes HC.FormatLimits HC.Touch HC.Persist

/-- what a reopen needs (`durable_open`) -/
structure Durable0 (C : Crypto) (d : Disk) (hf : Header) (a0 : Abs) (es : List Entry) (a : Abs) : Prop where
  oplog : OpImage d.oplog hf es
  hfLen : hf.tree.length = a0.blocks.size
  hfSig : hf.tree.signature = [] ∨ hf.tree.signature.length = 64
  hfSecret : hf.secret.isSome = a.writable
  hfShape : HdrShape hf
  oks : ∀ e ∈ es, EntryOK e
  fileNodes : NodesOK C a0.blocks {} d.tree
  stable : ∀ i, (∀ e ∈ es, ¬ Touches e i) → (Bitfield.ofFile d.bitfield).get i = a0.held i
  kept : ∀ i, a0.held i = true → (Bitfield.ofFile d.bitfield).get i = true ∨ ∃ e ∈ es, Clears e i
  low : ∀ i, i < a0.blocks.size → a0.held i = false → (Bitfield.ofFile d.bitfield).get i = false
  below : ∀ i, (Bitfield.ofFile d.bitfield).get i = true → i < a.blocks.size
  held0Lt : ∀ i, a0.held i = true → i < a0.blocks.size
  contig : (∀ i, i < hf.contiguous → a0.held i = true) ∧ a0.held hf.contiguous = false
  small0 : Small a0
  trace : Trace C a0 es a
  data : ∀ i, a.held i = true → ∀ k, k < sz a.blocks i →
    psum a.blocks i + k < d.data.size ∧ d.data.byte (psum a.blocks i + k) = (a.blocks.getD i []).getD k 0

/-- … and what carrying on after the reopen needs in addition (`recover_persist`): the bitfield store consists
    of whole pages (a torn page write can break this until the page is written again) -/
structure Durable (C : Crypto) (d : Disk) (hf : Header) (a0 : Abs) (es : List Entry) (a : Abs) : Prop
    extends Durable0 C d hf a0 es a where
  fileSize : d.bitfield.size % Spec.pageBytes = 0

/-- **opening durable stores yields a core that represents the log** -/
theorem durable_open (C : Crypto) (hC : HashWF C) (hTw : TreeWF C) (d : Disk) (hf : Header) (a0 : Abs) (es : List Entry) (a : Abs)
    (h : Durable0 C d hf a0 es a) : ∃ c' j, Core.openCore C none d = .ok (c', j) ∧ Rep C c' (d.applyAll j) a := by
  obtain ⟨ost, ops, hlog, hops, _⟩ := opimage_open _ hf es h.oplog
  obtain ⟨c', ho, hr⟩ := Reopen.reopen_refines C hC hTw d ost hf es a0 a ops hops hlog h.hfLen h.hfSig h.hfSecret h.hfShape h.oks h.fileNodes h.stable h.kept
    h.low h.below h.held0Lt h.contig h.small0 h.trace h.data
  exact ⟨c', ops, ho, hr⟩

/-- only the four files matter, and of the data store only the held blocks -/
theorem durable_congr (C : Crypto) (d d' : Disk) (hf : Header) (a0 : Abs) (es : List Entry) (a : Abs)
    (h : Durable C d hf a0 es a) (ht : d'.tree = d.tree) (hb : d'.bitfield = d.bitfield) (ho : d'.oplog = d.oplog)
    (hdata : ∀ i, a.held i = true → ∀ k, k < sz a.blocks i →
      psum a.blocks i + k < d'.data.size ∧ d'.data.byte (psum a.blocks i + k) = (a.blocks.getD i []).getD k 0) :
    Durable C d' hf a0 es a :=
  { oplog := by rw [ho]; exact h.oplog
    hfLen := h.hfLen
    hfSig := h.hfSig
    hfSecret := h.hfSecret
    hfShape := h.hfShape
    oks := h.oks
    fileNodes := by rw [ht]; exact h.fileNodes
    fileSize := by rw [hb]; exact h.fileSize
    stable := by rw [hb]; exact h.stable
    kept := by rw [hb]; exact h.kept
    low := by rw [hb]; exact h.low
    below := by rw [hb]; exact h.below
    held0Lt := h.held0Lt
    contig := h.contig
    small0 := h.small0
    trace := h.trace
    data := hdata }

/-- the stores of a live core are durable -/
theorem persist_durable (C : Crypto) (c : Core) (d : Disk) (hf : Header) (a0 : Abs) (es : List Entry) (a : Abs)
    (hrep : Rep C c d a) (hp : Persist C c d hf a0 es a) : Durable C d hf a0 es a := by
  have hoks : ∀ e ∈ es, EntryOK e := by
    obtain ⟨_, _, _, _, _, _, _, _, _, _, hok⟩ := hp.oplog
    exact hok
  exact {
    oplog := opimage_of_inv c.oplog _ hf es hp.oplog
    hfLen := hp.hfLen
    hfSig := hp.hfSig
    hfSecret := by rw [hp.hfSecret]; exact hrep.writer
    hfShape := hp.hfShape
    oks := hoks
    fileNodes := hp.fileNodes
    fileSize := hp.fileSize
    stable := hp.stable
    kept := hp.kept
    low := hp.low
    below := hp.below
    held0Lt := hp.held0Lt
    contig := hp.hfContig
    small0 := hp.small0
    trace := hp.trace
    data := hrep.data }

/-- **recovery re-establishes both invariants**: opening durable stores yields a core that represents the
    log and satisfies the ghost invariant again (for the stores as `Hypercore::new` leaves them), so it
    can be used, closed, reopened and crashed again. -/
theorem recover_persist (C : Crypto) (hC : HashWF C) (hTw : TreeWF C) (d : Disk) (hf : Header) (a0 : Abs) (es : List Entry) (a : Abs)
    (h : Durable C d hf a0 es a) :
    ∃ c' j, Core.openCore C none d = .ok (c', j) ∧ Rep C c' (d.applyAll j) a ∧ Persist C c' (d.applyAll j) hf a0 es a := by
  obtain ⟨ost, ops, hlog, hops, hopinv⟩ := opimage_open _ hf es h.oplog
  obtain ⟨h', t', b', hopen, hinv, hs'⟩ := Reopen.reopen_full C hC hTw d ost hf es a0 a ops hops hlog h.hfLen h.hfSig
    h.hfShape h.oks h.fileNodes h.stable h.kept h.low h.below h.held0Lt h.contig h.small0 h.trace
  obtain ⟨hbits', hfm'⟩ := Reopen.rinv_final C t' b' h' d.tree d.bitfield a _ hinv
  have hd1t : (d.applyAll ops).tree = d.tree := tree_of_applyAll _ _ (fun op hop => by rw [hops op hop]; decide)
  have hd1d : (d.applyAll ops).data = d.data := data_of_applyAll _ _ (fun op hop => by rw [hops op hop]; decide)
  have hd1b : (d.applyAll ops).bitfield = d.bitfield := by
    have := Journal.applyAll_other d ops .bitfield (fun op hop => by rw [hops op hop]; decide)
    simpa [Disk.get] using this
  have hd1o : (d.applyAll ops).oplog = ops.foldl (fun g op => op.onFile g) d.oplog := by
    have := applyAll_last_only d [] ops .oplog (fun op hop => by cases hop) hops
    simpa [Disk.get] using this
  refine ⟨_, ops, hopen, ?_, ?_⟩
  · exact {
      writer := by
        show h'.secret.isSome = a.writable
        rw [hs']; exact h.hfSecret
      tree := hinv.tree
      nodes := by rw [hd1t]; exact hinv.nodes
      mapwf := hinv.mapwf
      bits := hbits'
      heldLt := hinv.heldLt
      contig := hfm'
      data := by rw [hd1d]; exact h.data
      small := trace_small C a0 a es h.trace h.small0 }
  · exact {
      trace := h.trace
      small0 := h.small0
      fileNodes := by rw [hd1t]; exact h.fileNodes
      stable := by rw [hd1b]; exact h.stable
      kept := by rw [hd1b]; exact h.kept
      low := by rw [hd1b]; exact h.low
      below := by rw [hd1b]; exact h.below
      fileSize := by rw [hd1b]; exact h.fileSize
      held0Lt := h.held0Lt
      hfLen := h.hfLen
      hfSig := h.hfSig
      hfSecret := hs'.symm
      hfContig := h.contig
      dirty := by rw [hd1b]; exact hinv.dirty
      hdrLen := hinv.hdrLen
      hdrSig := hinv.hdrSig
      hdrSecret := rfl
      oplog := by rw [hd1o]; exact hopinv
      shape := hinv.shape
      forkU := hinv.forkU
      hfShape := h.hfShape }

/-! ### a flush, cut anywhere -/

/-- some of the dirty bitfield pages written -/
theorem durable_pages (C : Crypto) (d d' : Disk) (hf : Header) (a0 : Abs) (es : List Entry) (a : Abs) (b : Bitfield) (ps : List Nat)
    (h : Durable C d hf a0 es a) (hb : ∀ i, b.get i = a.held i)
    (ht : d'.tree = d.tree) (hbf : d'.bitfield = writePages b d.bitfield ps) (ho : d'.oplog = d.oplog) (hd : d'.data = d.data) :
    Durable C d' hf a0 es a := by
  obtain ⟨g1, g2⟩ := writePages_bits b d.bitfield h.fileSize ps
  have hlt := trace_heldLt C a0 a es h.trace h.held0Lt
  exact {
    oplog := by rw [ho]; exact h.oplog
    hfLen := h.hfLen
    hfSig := h.hfSig
    hfSecret := h.hfSecret
    hfShape := h.hfShape
    oks := h.oks
    fileNodes := by rw [ht]; exact h.fileNodes
    fileSize := by rw [hbf]; exact g2
    stable := by
      intro i hu
      rw [hbf, g1]
      split
      · rw [hb]; exact trace_untouched C a0 a es h.trace i hu
      · exact h.stable i hu
    kept := by
      intro i hh
      rw [hbf, g1]
      split
      · rw [hb]; exact trace_kept C a0 a es h.trace i hh
      · exact h.kept i hh
    low := by
      intro i hi hh
      rw [hbf, g1]
      split
      · rw [hb]; exact trace_low C a0 a es h.trace i hi hh
      · exact h.low i hi hh
    below := by
      intro i hi
      rw [hbf, g1] at hi
      split at hi
      · rw [hb] at hi; exact hlt i hi
      · exact h.below i hi
    held0Lt := h.held0Lt
    contig := h.contig
    small0 := h.small0
    trace := h.trace
    data := by rw [hd]; exact h.data }

/-- some of the unflushed tree nodes written: the nodes of the last flush are still there -/
theorem nodesOK_slots (C : Crypto) (bs0 bs : Array Bytes) (t : Tree) (f : File) (L : List Node)
    (hwf : MapWF t.unflushed) (hN : NodesOK C bs t f) (hN0 : NodesOK C bs0 {} f)
    (hext : ∀ d o, (o + 1) * 2 ^ d ≤ bs0.size → (o + 1) * 2 ^ d ≤ bs.size ∧ nodeAt C bs d o = nodeAt C bs0 d o)
    (hmem : ∀ n ∈ L, t.unflushed[n.index]? = some n) (hdist : L.Pairwise (fun a b => a.index ≠ b.index)) :
    NodesOK C bs0 {} (writeSlots f L) := by
  have hwfL : ∀ n ∈ L, n.hash.length = 32 := fun n hn => (hwf _ _ (hmem n hn)).2.1
  obtain ⟨r1, r2⟩ := writeSlots_read L f hwfL hdist
  intro dd o hb
  have hold0 := hN0 dd o hb
  obtain ⟨hb', hsame⟩ := hext dd o hb
  by_cases hex : ∃ n ∈ L, n.index = Flat.index dd o
  · obtain ⟨n, hn, hidx⟩ := hex
    have hu := hmem n hn
    have hold := hN dd o hb'
    rw [← hidx] at hold
    simp only [Tree.node?, hu] at hold
    have hnb : n.blank = false := by
      cases hbk : n.blank with
      | true => simp [hbk] at hold
      | false => rfl
    have hn' : n = nodeAt C bs dd o := by simpa [hnb] using hold
    have hread := r1 n hn
    have hrt := nodeOfBytes_nodeBytes n (hwf _ _ hu).2.2
    rw [← hidx]
    simp only [Tree.node?, Std.HashMap.getElem?_empty, hread, hrt, hnb]
    rw [hn', hsame]
    simp
  · have hmiss : ∀ n ∈ L, n.index ≠ Flat.index dd o := fun n hn e => hex ⟨n, hn, e⟩
    simp only [Tree.node?, Std.HashMap.getElem?_empty] at hold0 ⊢
    cases hr : f.read (Flat.index dd o * Spec.nodeSize) Spec.nodeSize with
    | none => simp [hr] at hold0
    | some bytes =>
      rw [r2 _ _ hmiss hr]
      simpa [hr] using hold0

/-- the sorted list of unflushed nodes a tree flush writes -/
def flushList (t : Tree) : List Node := (t.unflushed.toList.map (·.2)).mergeSort (fun a b => a.index ≤ b.index)

theorem flush_journal (t : Tree) :
    t.flush.2 = (flushList t).map fun n => SOp.write .tree (n.index * Spec.nodeSize) (nodeBytes n) := rfl

theorem flushList_mem (t : Tree) (hwf : MapWF t.unflushed) (n : Node) (hn : n ∈ flushList t) : t.unflushed[n.index]? = some n := by
  rw [flushList, List.mem_mergeSort, List.mem_map] at hn
  obtain ⟨⟨k, v⟩, hkv, rfl⟩ := hn
  have := Std.HashMap.mem_toList_iff_getElem?_eq_some.mp hkv
  have hk := (hwf k v this).1
  simp only at hk ⊢
  rw [hk]; exact this

theorem flushList_distinct (t : Tree) (hwf : MapWF t.unflushed) : (flushList t).Pairwise (fun a b => a.index ≠ b.index) := by
  have hperm : (flushList t).Perm (t.unflushed.toList.map (·.2)) := List.mergeSort_perm _ _
  have hsym : ∀ {a b : Node}, a.index ≠ b.index → b.index ≠ a.index := fun h e => h e.symm
  apply hperm.pairwise_iff (fun h => hsym h) |>.mpr
  rw [List.pairwise_map]
  have := Std.HashMap.distinct_keys_toList (m := t.unflushed)
  apply this.imp_of_mem
  intro a b ha hb hab
  have ka := (hwf a.1 a.2 (Std.HashMap.mem_toList_iff_getElem?_eq_some.mp ha)).1
  have kb := (hwf b.1 b.2 (Std.HashMap.mem_toList_iff_getElem?_eq_some.mp hb)).1
  simp only [beq_eq_false_iff_ne, ne_eq] at hab
  omega

/-- a prefix of the tree writes -/
theorem durable_slots (C : Crypto) (d d' : Disk) (hf : Header) (a0 : Abs) (es : List Entry) (a : Abs) (t : Tree) (k : Nat)
    (h : Durable C d hf a0 es a) (hwf : MapWF t.unflushed) (hN : NodesOK C a.blocks t d.tree)
    (ht : d'.tree = writeSlots d.tree ((flushList t).take k)) (hbf : d'.bitfield = d.bitfield) (ho : d'.oplog = d.oplog)
    (hd : d'.data = d.data) : Durable C d' hf a0 es a := by
  obtain ⟨l, hl⟩ := trace_blocks C a0 a es h.trace
  have hsz := trace_size_le C a0 a es h.trace
  have hnodes : NodesOK C a0.blocks {} d'.tree := by
    rw [ht]
    apply nodesOK_slots C a0.blocks a.blocks t d.tree _ hwf hN h.fileNodes
    · intro dd o hb
      exact ⟨Nat.le_trans hb hsz, by rw [hl]; exact nodeAt_append C a0.blocks l dd o hb⟩
    · intro n hn
      exact flushList_mem t hwf n (List.mem_of_mem_take hn)
    · exact (flushList_distinct t hwf).sublist (List.take_sublist k _)
  exact {
    oplog := by rw [ho]; exact h.oplog
    hfLen := h.hfLen
    hfSig := h.hfSig
    hfSecret := h.hfSecret
    hfShape := h.hfShape
    oks := h.oks
    fileNodes := hnodes
    fileSize := by rw [hbf]; exact h.fileSize
    stable := by rw [hbf]; exact h.stable
    kept := by rw [hbf]; exact h.kept
    low := by rw [hbf]; exact h.low
    below := by rw [hbf]; exact h.below
    held0Lt := h.held0Lt
    contig := h.contig
    small0 := h.small0
    trace := h.trace
    data := by rw [hd]; exact h.data }

/-- `take` of a concatenation, as a case split on the crash point -/
theorem take_append_cases {α : Type} (l1 l2 : List α) (k : Nat) :
    (k ≤ l1.length ∧ (l1 ++ l2).take k = l1.take k) ∨ (l1.length < k ∧ (l1 ++ l2).take k = l1 ++ l2.take (k - l1.length)) := by
  by_cases h : k ≤ l1.length
  · left
    refine ⟨h, ?_⟩
    rw [List.take_append]
    have : k - l1.length = 0 := by omega
    simp [this]
  · right
    refine ⟨by omega, ?_⟩
    rw [List.take_append, List.take_of_length_le (by omega)]

/-- **a flush cut at any point leaves durable stores for the same log** -/
theorem crash_flush (C : Crypto) (hC : HashWF C) (c : Core) (d : Disk) (hf : Header) (a0 a : Abs) (es : List Entry)
    (hrep : Rep C c d a) (hp : Persist C c d hf a0 es a) (k : Nat) :
    ∃ hf' a0' es', Durable C (d.applyAll (c.maybeFlush.2.take k)) hf' a0' es' a := by
  have hdur := persist_durable C c d hf a0 es a hrep hp
  rw [maybeFlush_eq]
  split
  · -- the journal of the flush: pages, nodes, header, truncate
    simp only [Core.flushAll]
    have hj1 := Journal.bitfieldFlush_store c.bitfield
    have hj2 := Journal.treeFlush_store c.tree
    have hj3 := Journal.oplogFlush_store c.oplog c.header false
    generalize hP : c.bitfield.flush.2 = P at hj1
    generalize hT : c.tree.flush.2 = T at hj2
    generalize hO : (Oplog.flush c.oplog c.header false).2 = O at hj3
    have hPdef : P = c.bitfield.dirty.map fun p => SOp.write .bitfield (p * Spec.pageBytes) (c.bitfield.pageBytes p) := by
      rw [← hP]; rfl
    have hTdef : T = (flushList c.tree).map fun n => SOp.write .tree (n.index * Spec.nodeSize) (nodeBytes n) := by
      rw [← hT]; exact flush_journal c.tree
    -- the disk after all page writes
    have hdP : ∀ ps : List Nat, (d.applyAll (ps.map fun p => SOp.write .bitfield (p * Spec.pageBytes) (c.bitfield.pageBytes p)))
        = { d with bitfield := writePages c.bitfield d.bitfield ps } := by
      intro ps
      have hs : ∀ op ∈ (ps.map fun p => SOp.write .bitfield (p * Spec.pageBytes) (c.bitfield.pageBytes p)), op.store = .bitfield := by
        intro op hop; obtain ⟨p, _, rfl⟩ := List.mem_map.mp hop; rfl
      have e1 := applyAll_bitfield_writes c.bitfield d ps
      have e2 := Journal.applyAll_other d _ .tree (fun op hop => by rw [hs op hop]; decide)
      have e3 := Journal.applyAll_other d _ .data (fun op hop => by rw [hs op hop]; decide)
      have e4 := Journal.applyAll_other d _ .oplog (fun op hop => by rw [hs op hop]; decide)
      simp only [Disk.get] at e2 e3 e4
      generalize d.applyAll (ps.map fun p => SOp.write .bitfield (p * Spec.pageBytes) (c.bitfield.pageBytes p)) = dd at *
      obtain ⟨t1, da1, b1, o1⟩ := dd
      obtain ⟨t0, da0, b0, o0⟩ := d
      simp only at e1 e2 e3 e4
      rw [e1, e2, e3, e4]
    rcases take_append_cases (P ++ T) O k with ⟨hk1, e1⟩ | ⟨hk1, e1⟩
    · rw [e1]
      rcases take_append_cases P T k with ⟨hk2, e2⟩ | ⟨hk2, e2⟩
      · -- inside the page writes
        rw [e2, hPdef, ← List.map_take, hdP]
        exact ⟨hf, a0, es, durable_pages C d _ hf a0 es a c.bitfield _ hdur hrep.bits rfl rfl rfl rfl⟩
      · -- inside the node writes
        rw [e2, Journal.applyAll_append, hPdef, hdP, hTdef, ← List.map_take, applyAll_tree_writes]
        have hd1 := durable_pages C d { d with bitfield := writePages c.bitfield d.bitfield c.bitfield.dirty } hf a0 es a
          c.bitfield c.bitfield.dirty hdur hrep.bits rfl rfl rfl rfl
        exact ⟨hf, a0, es, durable_slots C _ _ hf a0 es a c.tree _ hd1 hrep.mapwf hrep.nodes rfl rfl rfl rfl⟩
    · -- all pages and nodes written
      rw [e1, Journal.applyAll_append]
      have hfull := maybeFlush_persist C hC c d hf a0 a es hrep hp
      have hrepf := maybeFlush_rep C hC c d a hrep
      rw [maybeFlush_eq] at hfull hrepf
      rename_i hcond
      simp only [hcond, ite_true, Core.flushAll, hP, hT, hO] at hfull hrepf
      by_cases hk2 : 2 ≤ k - (P ++ T).length
      · -- header written and entries truncated: the flush is complete
        have hO2 : O.length = 2 := by rw [← hO]; simp [Oplog.flush, Oplog.insertHeader]
        rw [List.take_of_length_le (by omega), ← Journal.applyAll_append]
        obtain ⟨hf', a0', es', hp'⟩ := hfull
        exact ⟨hf', a0', es', persist_durable C _ _ hf' a0' es' a hrepf hp'⟩
      · -- the header is written, the entry region not yet truncated
        have hk3 : k - (P ++ T).length = 1 := by omega
        rw [hk3]
        -- the stores after pages and nodes
        generalize hd2 : d.applyAll (P ++ T) = d2
        have hd2tree : d2.tree = (d.applyAll (P ++ T ++ O)).tree := by
          rw [← hd2, Journal.applyAll_append d (P ++ T) O]
          exact (tree_of_applyAll _ _ (fun op hop => by rw [hj3 op hop]; decide)).symm
        have hd2bf : d2.bitfield = (d.applyAll (P ++ T ++ O)).bitfield := by
          rw [← hd2, Journal.applyAll_append d (P ++ T) O]
          have := Journal.applyAll_other (d.applyAll (P ++ T)) O .bitfield (fun op hop => by rw [hj3 op hop]; decide)
          simp only [Disk.get] at this
          exact this.symm
        have hd2data : d2.data = d.data := by
          rw [← hd2]
          exact data_of_applyAll _ _ (fun op hop => by
            rcases List.mem_append.mp hop with h | h
            · rw [hj1 op h]; decide
            · rw [hj2 op h]; decide)
        have hd2op : d2.oplog = d.oplog := by
          rw [← hd2]
          have := Journal.applyAll_other d (P ++ T) .oplog (fun op hop => by
            rcases List.mem_append.mp hop with h | h
            · rw [hj1 op h]; decide
            · rw [hj2 op h]; decide)
          simpa [Disk.get] using this
        -- the header write
        have hOs : ∀ op ∈ O.take 1, op.store = .oplog := fun op hop => hj3 op (List.mem_of_mem_take hop)
        have hd3tree : (d2.applyAll (O.take 1)).tree = d2.tree := tree_of_applyAll _ _ (fun op hop => by rw [hOs op hop]; decide)
        have hd3data : (d2.applyAll (O.take 1)).data = d2.data := data_of_applyAll _ _ (fun op hop => by rw [hOs op hop]; decide)
        have hd3bf : (d2.applyAll (O.take 1)).bitfield = d2.bitfield := by
          have := Journal.applyAll_other d2 (O.take 1) .bitfield (fun op hop => by rw [hOs op hop]; decide)
          simpa [Disk.get] using this
        have hd3op : (d2.applyAll (O.take 1)).oplog = (O.take 1).foldl (fun g op => op.onFile g) d.oplog := by
          have := applyAll_last_only d2 [] (O.take 1) .oplog (fun op hop => by cases hop) hOs
          simp only [List.nil_append, Disk.get] at this
          rw [this, hd2op]
        obtain ⟨hf', a0', es', hp'⟩ := hfull
        -- after a complete flush the side stores hold the current log; the header write does not touch them
        have hdurf := persist_durable C _ _ hf' a0' es' a hrepf hp'
        refine ⟨c.header, a, [], ?_⟩
        have hbitsf : ∀ i, (Bitfield.ofFile (d2.applyAll (O.take 1)).bitfield).get i = a.held i := by
          intro i
          rw [hd3bf, hd2bf]
          have := flush_bits c.bitfield d.bitfield hp.fileSize hp.dirty
          have hbfile : (d.applyAll (P ++ T ++ O)).bitfield = writePages c.bitfield d.bitfield c.bitfield.dirty := by
            rw [List.append_assoc, Journal.applyAll_append]
            have e2 := Journal.applyAll_other (d.applyAll P) (T ++ O) .bitfield (fun op hop => by
              rcases List.mem_append.mp hop with h | h
              · rw [hj2 op h]; decide
              · rw [hj3 op h]; decide)
            simp only [Disk.get] at e2
            rw [e2, hPdef]
            exact applyAll_bitfield_writes c.bitfield d c.bitfield.dirty
          rw [hbfile, this.1 i]
          exact hrep.bits i
        have hnodesf : NodesOK C a.blocks {} (d2.applyAll (O.take 1)).tree := by
          rw [hd3tree, hd2tree]
          obtain ⟨f1, _, _⟩ := nodesOK_flush C hC a.blocks c.tree (d.applyAll c.bitfield.flush.2) hrep.mapwf
            (by rw [tree_of_applyAll _ _ (fun op hop => by rw [Journal.bitfieldFlush_store c.bitfield op hop]; decide)]; exact hrep.nodes)
          have htree : (d.applyAll (P ++ T ++ O)).tree = ((d.applyAll c.bitfield.flush.2).applyAll c.tree.flush.2).tree := by
            rw [← hP, ← hT, ← hO]
            have := applyAll_get_only d c.bitfield.flush.2 c.tree.flush.2 (Oplog.flush c.oplog c.header false).2 .tree
              (fun op hop => by rw [Journal.bitfieldFlush_store c.bitfield op hop]; decide)
              (fun op hop => by rw [Journal.oplogFlush_store c.oplog c.header false op hop]; decide)
            simpa [Disk.get] using this
          rw [htree]
          intro dd o hb
          rw [← f1 dd o hb]
          exact node?_congr _ _ _ _ rfl
        exact {
          oplog := Or.inr ⟨c.oplog, d.oplog, hf, es, false, hp.oplog, headerOK_of_shape _ hp.shape, rfl, by rw [hd3op, ← hO]; simp [Oplog.flush]⟩
          hfLen := hp.hdrLen
          hfSig := hp.hdrSig
          hfSecret := by rw [hp.hdrSecret]; exact hrep.writer
          hfShape := hp.shape
          oks := fun e he => by cases he
          fileNodes := hnodesf
          fileSize := by rw [hd3bf, hd2bf]; exact hdurf.fileSize
          stable := fun i _ => hbitsf i
          kept := fun i hh => Or.inl (by rw [hbitsf]; exact hh)
          low := fun i _ hh => by rw [hbitsf]; exact hh
          below := fun i hi => by rw [hbitsf] at hi; exact hrep.heldLt i hi
          held0Lt := hrep.heldLt
          contig := ⟨fun i hi => by rw [← hrep.bits]; exact hrep.contig.1 i hi, by rw [← hrep.bits]; exact hrep.contig.2⟩
          small0 := hrep.small
          trace := Trace.nil a
          data := by rw [hd3data, hd2data]; exact hrep.data }
  · -- no flush
    simp only [List.take_nil, applyAll_nil]
    exact ⟨hf, a0, es, hdur⟩

/-! ### the calls, cut anywhere -/

/-- a non-empty append up to its flush decision, with both invariants for the state in between -/
theorem append_mid (C : Crypto) (hC : HashWF C) (hS : SignWF C) (hTw : TreeWF C) (c : Core) (d : Disk) (hf : Header) (a0 a : Abs)
    (es : List Entry) (hrep : Rep C c d a) (hp : Persist C c d hf a0 es a) (batch : List Bytes) (hne : batch ≠ [])
    (hv : Valid a (.append batch)) (hl : Limits a (.append batch)) (hw : a.writable = true) :
    ∃ (c1 : Core) (entry : Entry) (ow : SOp),
      ow = SOp.write .oplog (Spec.entriesOffset + c.oplog.entriesByteLength) (frame (encEntry entry) c.oplog.currentBit false)
      ∧ EntryOK entry
      ∧ (c.appendBatch C batch).journal = [SOp.write .data (totalBytes a.blocks) batch.flatten, ow] ++ c1.maybeFlush.2
      ∧ Rep C c1 (d.applyAll [SOp.write .data (totalBytes a.blocks) batch.flatten, ow]) (a.step (.append batch)).1
      ∧ Persist C c1 (d.applyAll [SOp.write .data (totalBytes a.blocks) batch.flatten, ow]) hf a0 (es ++ [entry]) (a.step (.append batch)).1 := by
  obtain ⟨c1, j01, entry, _, hrep1, ht, hb, hbits, hentry, hlen, hsig, hsec, hsec2, hop, hdop, hfork,
      ⟨rh, sg, cc, hhdr, ⟨l, hrh⟩, hsg⟩, hentOK, hjournal, hj01⟩ :=
    append_shape C hC c d a hrep batch hne hv hw
  have hcc : cc = c1.header.contiguous := by rw [hhdr]
  have hshape : HdrShape c1.header := by
    rw [hhdr]
    apply hdrShape_set _ hp.shape
    · rw [hrh, hTw l]
    · rw [hsg hS]
    · unfold U64; have := hl.1; omega
    · have := contig_le C c1 _ _ hrep1
      rw [← hcc] at this
      have hsz := hrep1.small.1
      unfold U64; omega
  have hp1 := persist_append_pre C c c1 d (d.applyAll j01) hf a0 a es batch entry hp hrep1 hne hw ht hb hbits
    (hentry hS) hlen (hsig hS) hsec hsec2 hop hdop (hentOK hS hl.1 hl.2 hp.forkU) hshape hfork
  rw [hj01] at hjournal hrep1 hp1
  exact ⟨c1, entry, _, rfl, hentOK hS hl.1 hl.2 hp.forkU, hjournal, hrep1, hp1⟩

theorem clear_mid (C : Crypto) (c : Core) (d : Disk) (hf : Header) (a0 a : Abs)
    (es : List Entry) (hrep : Rep C c d a) (hp : Persist C c d hf a0 es a) (s e : Nat) (hse : s < e)
    (hv : Valid a (.clear s e)) (hl : Limits a (.clear s e)) :
    ∃ (c1 : Core) (ow : SOp) (j2 : List SOp),
      ow = SOp.write .oplog (Spec.entriesOffset + c.oplog.entriesByteLength) (frame (encEntry { bitfield := some ⟨true, s, e - s⟩ }) c.oplog.currentBit false)
      ∧ EntryOK { bitfield := some ⟨true, s, e - s⟩ }
      ∧ (c.clear d s e).journal = ow :: j2 ++ c1.maybeFlush.2 ∧ ow.store = .oplog ∧ (∀ op ∈ j2, op.store = .data) ∧ j2.length ≤ 1
      ∧ (∀ op ∈ j2, ∀ st o b, op ≠ SOp.write st o b)
      ∧ Rep C c1 (d.applyAll (ow :: j2)) (a.step (.clear s e)).1
      ∧ Persist C c1 (d.applyAll (ow :: j2)) hf a0 (es ++ [{ bitfield := some ⟨true, s, e - s⟩ }]) (a.step (.clear s e)).1 := by
  obtain ⟨c1, j01, _, hrep1, ht, hb, hbits, hhdr, hsec, hsec2, hop, hdop, hctree, ⟨cc, hcc⟩, hjournal, ⟨j2, hj01, hj2s, hj2l, hj2w⟩⟩ :=
    clear_shape C c d a hrep s e hse hv
  have hsn : s < a.blocks.size := hv hse
  have hU : U64 s ∧ U64 (e - s) := by
    have := hrep.small.1
    have he : e < 2 ^ 64 := hl
    unfold U64; omega
  have hshape : HdrShape c1.header := by
    rw [hcc]
    apply hdrShape_contig _ hp.shape
    have hc2 : cc = c1.header.contiguous := by rw [hcc]
    have := contig_le C c1 _ _ hrep1
    rw [← hc2] at this
    have hsz := hrep1.small.1
    unfold U64; omega
  have hp1 := persist_clear_pre C c c1 d (d.applyAll j01) hf a0 a es s e hse hp hrep1 ht hb hbits hhdr hsec hsec2
    hop hdop (clearEntry_ok s (e - s) hU.1 hU.2) hshape hctree
  rw [hj01] at hjournal hrep1 hp1
  exact ⟨c1, _, j2, rfl, clearEntry_ok s (e - s) hU.1 hU.2, hjournal, rfl, hj2s, hj2l, hj2w, hrep1, hp1⟩

/-- the stores after the first `k` operations of a journal `pre ++ fj`, for `k` beyond `pre` -/
theorem take_beyond {α : Type} (pre fj : List α) (k : Nat) (h : pre.length ≤ k) :
    (pre ++ fj).take k = pre ++ fj.take (k - pre.length) := by
  rw [List.take_append, List.take_of_length_le h]

/-- a clear whose entry is logged but whose data deletion has not happened: durable for the log after it -/
theorem clear_logged (C : Crypto) (c c1 : Core) (d : Disk) (hf : Header) (a0 a : Abs) (es : List Entry) (s e : Nat) (hge : ¬ s ≥ e)
    (ow : SOp) (j2 : List SOp) (hows : ow.store = .oplog) (hj2s : ∀ op ∈ j2, op.store = .data)
    (hrep : Rep C c d a) (hrep1 : Rep C c1 (d.applyAll (ow :: j2)) (a.step (.clear s e)).1)
    (hp1 : Persist C c1 (d.applyAll (ow :: j2)) hf a0 (es ++ [{ bitfield := some ⟨true, s, e - s⟩ }]) (a.step (.clear s e)).1) :
    Durable C (d.apply ow) hf a0 (es ++ [{ bitfield := some ⟨true, s, e - s⟩ }]) (a.step (.clear s e)).1 := by
  have hdur1 := persist_durable C c1 _ hf a0 _ _ hrep1 hp1
  have hsplit : d.applyAll (ow :: j2) = (d.apply ow).applyAll j2 := rfl
  have hoth : ∀ st, st ≠ Store.data → (d.applyAll (ow :: j2)).get st = (d.apply ow).get st := by
    intro st hst
    rw [hsplit]
    exact Journal.applyAll_other _ _ st (fun op hop => by rw [hj2s op hop]; exact fun e => hst e.symm)
  apply durable_congr C _ (d.apply ow) hf a0 _ _ hdur1
  · have := hoth .tree (by decide); simpa [Disk.get] using this.symm
  · have := hoth .bitfield (by decide); simpa [Disk.get] using this.symm
  · have := hoth .oplog (by decide); simpa [Disk.get] using this.symm
  · have hdd : (d.apply ow).data = d.data := by
      have := Journal.apply_get d ow .data
      rw [hows] at this
      simpa [Disk.get] using this
    rw [hdd]
    have habs : (a.step (.clear s e)).1 = { a with held := fun i => a.held i && !(decide (s ≤ i) && decide (i < e)) } := by
      simp only [Abs.step, hge, ite_false]
    rw [habs]
    intro i hi kk hkk
    simp only [Bool.and_eq_true] at hi
    exact hrep.data i hi.1 kk hkk

/-- replacing the oplog store by another image of the same header and entries -/
theorem durable_oplogS (C : Crypto) (d d' : Disk) (hf : Header) (a0 : Abs) (es : List Entry) (a : Abs)
    (h : Durable C d hf a0 es a) (ht : d'.tree = d.tree) (hb : d'.bitfield = d.bitfield) (hd : d'.data = d.data)
    (ho : OpImage d'.oplog hf es) : Durable C d' hf a0 es a :=
  { oplog := ho
    hfLen := h.hfLen
    hfSig := h.hfSig
    hfSecret := h.hfSecret
    hfShape := h.hfShape
    oks := h.oks
    fileNodes := by rw [ht]; exact h.fileNodes
    fileSize := by rw [hb]; exact h.fileSize
    stable := by rw [hb]; exact h.stable
    kept := by rw [hb]; exact h.kept
    low := by rw [hb]; exact h.low
    below := by rw [hb]; exact h.below
    held0Lt := h.held0Lt
    contig := h.contig
    small0 := h.small0
    trace := h.trace
    data := by rw [hd]; exact h.data }

/-- **`make_read_only` cut anywhere**: the stores are durable for the writable log (until the first header write
    reaches the store) or for the same log, read-only (from then on) -/
theorem crash_ro (C : Crypto) (hC : HashWF C) (c : Core) (d : Disk) (hf : Header) (a0 a : Abs) (es : List Entry)
    (hrep : Rep C c d a) (hp : Persist C c d hf a0 es a) (hw : a.writable = true) (k : Nat) :
    (∃ hf' a0' es', Durable C (d.applyAll (c.makeReadOnly.journal.take k)) hf' a0' es' a)
      ∨ (∃ hf' a0' es', Durable C (d.applyAll (c.makeReadOnly.journal.take k)) hf' a0' es' { a with writable := false }) := by
  have hsome : c.secret.isSome = true := by rw [hrep.writer]; exact hw
  have hrep1 := rep_drop_secret C c d a hrep
  generalize hc1 : ({ c with secret := none, header := { c.header with secret := none } } : Core) = c1 at hrep1
  have hj : c.makeReadOnly.journal = (c1.flushAll true).2 := by simp only [Core.makeReadOnly, hsome, ite_true, hc1]
  have c1b : c1.bitfield = c.bitfield := by rw [← hc1]
  have c1t : c1.tree = c.tree := by rw [← hc1]
  have c1o : c1.oplog = c.oplog := by rw [← hc1]
  have c1h : c1.header = { c.header with secret := none } := by rw [← hc1]
  have c1s : c1.header.secret = c1.secret := by rw [← hc1]
  -- the complete call
  have hPf := flushAll_persist C hC c1 d hf _ es true hrep1 (by rw [c1o]; exact hp.oplog) hp.fileSize (by rw [c1b]; exact hp.dirty)
    (by rw [c1h]; exact hdrShape_nosecret _ hp.shape) (by rw [c1h]; exact hp.hdrLen) (by rw [c1h]; exact hp.hdrSig) c1s
    (by rw [c1t]; exact hp.forkU)
  obtain ⟨k1, k2, k3, k4, k5, k6, k7⟩ := flushAll_keeps C hC a.blocks c1 d true (by rw [c1t]; exact hrep.nodes) (by rw [c1t]; exact hrep.mapwf)
  have hRf : Rep C (c1.flushAll true).1 (d.applyAll (c1.flushAll true).2) { a with writable := false } := {
    writer := by rw [k6]; exact hrep1.writer
    tree := by show RootsOK C a.blocks _; rw [k1]; exact hrep1.tree
    nodes := k2
    mapwf := k3
    bits := by intro i; rw [k4]; exact hrep1.bits i
    heldLt := hrep.heldLt
    contig := by rw [k5]; exact ⟨fun i hi => by rw [k4]; exact hrep1.contig.1 i hi, by rw [k4]; exact hrep1.contig.2⟩
    data := by rw [k7]; exact hrep.data
    small := hrep.small }
  have hDf := persist_durable C _ _ _ _ _ _ hRf hPf
  rw [hj]
  simp only [Core.flushAll] at hDf ⊢
  rw [c1b, c1t, c1o] at hDf ⊢
  -- the journal: pages, nodes, header, truncate, header
  have hj1 := Journal.bitfieldFlush_store c.bitfield
  have hj2 := Journal.treeFlush_store c.tree
  generalize hP : c.bitfield.flush.2 = P at hj1 hDf
  generalize hT : c.tree.flush.2 = T at hj2 hDf
  have hO3 : (Oplog.flush c.oplog c1.header true).2
      = (Oplog.insertHeader c1.header 0 c.oplog.bits true).2 ++ ((Oplog.insertHeader c1.header 0 (Oplog.insertHeader c1.header 0 c.oplog.bits true).1 true).2.take 1) := by
    simp [Oplog.flush]
  have hI : ∃ w t, (Oplog.insertHeader c1.header 0 c.oplog.bits true).2 = [w, t] := by
    simp only [Oplog.insertHeader]; exact ⟨_, _, rfl⟩
  have hI2 : ∃ w2, ((Oplog.insertHeader c1.header 0 (Oplog.insertHeader c1.header 0 c.oplog.bits true).1 true).2.take 1) = [w2] := by
    simp only [Oplog.insertHeader]; exact ⟨_, rfl⟩
  obtain ⟨w, t, hIe⟩ := hI
  obtain ⟨w2, hI2e⟩ := hI2
  have hOs : ∀ op ∈ (Oplog.flush c.oplog c1.header true).2, op.store = .oplog := Journal.oplogFlush_store c.oplog c1.header true
  generalize hO : (Oplog.flush c.oplog c1.header true).2 = O at hDf hO3 hOs
  have hOe : O = [w, t, w2] := by rw [hO3, hIe, hI2e]; rfl
  by_cases hk : k ≤ (P ++ T).length
  · -- before the first header write: the same stores as a flush of the writable core cut at `k`
    left
    have hcc : Rep C { c with skipFlush := 0 } d a := ⟨hrep.writer, hrep.tree, hrep.nodes, hrep.mapwf, hrep.bits, hrep.heldLt, hrep.contig, hrep.data, hrep.small⟩
    have hpc : Persist C { c with skipFlush := 0 } d hf a0 es a := { hp with }
    have := crash_flush C hC { c with skipFlush := 0 } d hf a0 a es hcc hpc k
    rw [maybeFlush_eq] at this
    simp only [true_or, ite_true, Core.flushAll, hP, hT] at this
    have e1 : (P ++ T ++ O).take k = (P ++ T).take k := by
      rw [List.take_append_of_le_length hk]
    have e2 : (P ++ T ++ (Oplog.flush c.oplog c.header false).2).take k = (P ++ T).take k := by
      rw [List.take_append_of_le_length hk]
    rw [e1]; rw [e2] at this
    exact this
  · -- from the first header write on: the read-only log
    right
    refine ⟨c1.header, { a with writable := false }, [], ?_⟩
    have hOst : ∀ m, ∀ op ∈ O.take m, op.store = .oplog := fun m op hop => hOs op (List.mem_of_mem_take hop)
    rw [take_beyond _ _ k (by omega), Journal.applyAll_append]
    generalize hm : k - (P ++ T).length = m
    have hm1 : 1 ≤ m := by omega
    -- the side stores no longer change
    have hside : ∀ st, st ≠ Store.oplog → ((d.applyAll (P ++ T)).applyAll (O.take m)).get st = (d.applyAll (P ++ T ++ O)).get st := by
      intro st hst
      rw [Journal.applyAll_append d (P ++ T) O, Journal.applyAll_other _ (O.take m) st (fun op hop => by rw [hOst m op hop]; exact fun e => hst e.symm),
        Journal.applyAll_other _ O st (fun op hop => by rw [hOs op hop]; exact fun e => hst e.symm)]
    have hopl : ((d.applyAll (P ++ T)).applyAll (O.take m)).oplog = (O.take m).foldl (fun g op => op.onFile g) d.oplog := by
      have h1 := applyAll_last_only (d.applyAll (P ++ T)) [] (O.take m) .oplog (fun op hop => by cases hop) (hOst m)
      have h2 := Journal.applyAll_other d (P ++ T) .oplog (fun op hop => by
        rcases List.mem_append.mp hop with h | h
        · rw [hj1 op h]; decide
        · rw [hj2 op h]; decide)
      simp only [List.nil_append, Disk.get] at h1 h2
      rw [h1, h2]
    apply durable_oplogS C _ _ c1.header _ [] _ hDf
    · have := hside .tree (by decide); simpa [Disk.get] using this
    · have := hside .bitfield (by decide); simpa [Disk.get] using this
    · have := hside .data (by decide); simpa [Disk.get] using this
    · rw [hopl]
      have hokh : HeaderOK c1.header := headerOK_of_shape _ (by rw [c1h]; exact hdrShape_nosecret _ hp.shape)
      by_cases hm1' : m = 1
      · -- header written, entries not yet truncated
        subst hm1'
        refine Or.inr ⟨c.oplog, d.oplog, hf, es, true, hp.oplog, hokh, rfl, ?_⟩
        rw [hOe, hIe]; rfl
      · by_cases hm2 : m = 2
        · subst hm2
          have := opinv_insert c.oplog d.oplog hf es c1.header true hp.oplog hokh
          rw [hIe] at this
          rw [hOe]
          exact opimage_of_inv _ _ _ _ this
        · have hm3 : O.take m = O := List.take_of_length_le (by rw [hOe]; simp; omega)
          rw [hm3]
          have := hDf.oplog
          have hfin : (d.applyAll (P ++ T ++ O)).oplog = O.foldl (fun g op => op.onFile g) d.oplog := by
            have h1 := applyAll_last_only d (P ++ T) O .oplog (fun op hop => by
              rcases List.mem_append.mp hop with h | h
              · rw [hj1 op h]; decide
              · rw [hj2 op h]; decide) hOs
            simpa [Disk.get] using h1
          rw [hfin] at this
          exact this

/-- **C02 on the model, one call.**  Whatever prefix of the call's storage operations reached the stores,
    they are durable for the log before the call or for the log after it. -/
theorem crash_step (C : Crypto) (hC : HashWF C) (hS : SignWF C) (hTw : TreeWF C) (c : Core) (d : Disk) (hf : Header) (a0 a : Abs)
    (es : List Entry) (hrep : Rep C c d a) (hp : Persist C c d hf a0 es a) (op : Op) (hv : Valid a op) (hl : Limits a op) (k : Nat) :
    (∃ hf' a0' es', Durable C (crashDisk C (c, d) op k) hf' a0' es' a)
      ∨ (∃ hf' a0' es', Durable C (crashDisk C (c, d) op k) hf' a0' es' (a.step op).1) := by
  have hdur := persist_durable C c d hf a0 es a hrep hp
  cases op with
  | has i => exact Or.inl ⟨hf, a0, es, by simpa [crashDisk, journalC, Disk.applyAll] using hdur⟩
  | info => exact Or.inl ⟨hf, a0, es, by simpa [crashDisk, journalC, Disk.applyAll] using hdur⟩
  | makeReadOnly =>
    by_cases hw : a.writable = true
    · have habs : (a.step .makeReadOnly).1 = { a with writable := false } := by simp [Abs.step, hw]
      rw [habs]
      exact crash_ro C hC c d hf a0 a es hrep hp hw k
    · have hwf : a.writable = false := by simpa using hw
      have hnone : c.secret.isSome = false := by rw [hrep.writer]; exact hwf
      have hj : c.makeReadOnly.journal = [] := by simp [Core.makeReadOnly, hnone]
      exact Or.inl ⟨hf, a0, es, by simpa [crashDisk, journalC, hj, Disk.applyAll] using hdur⟩
  | get i =>
    have hj : (c.getBlock d i).journal = [] := by
      unfold Core.getBlock
      split
      · rfl
      · split
        · rfl
        · split
          · rfl
          · split <;> rfl
    exact Or.inl ⟨hf, a0, es, by simpa [crashDisk, journalC, hj, Disk.applyAll] using hdur⟩
  | append batch =>
    by_cases hw : a.writable = true
    swap
    · have hwf : a.writable = false := by simpa using hw
      have hsec : c.secret = none := by
        have := hrep.writer; rw [hwf] at this
        cases hs : c.secret with
        | none => rfl
        | some x => rw [hs] at this; simp at this
      have hj : (c.appendBatch C batch).journal = [] := by simp [Core.appendBatch, hsec]
      exact Or.inl ⟨hf, a0, es, by simpa [crashDisk, journalC, hj, Disk.applyAll] using hdur⟩
    by_cases hemp : batch.isEmpty = true
    · obtain ⟨seed, hseed⟩ : ∃ seed, c.secret = some seed := Option.isSome_iff_exists.mp (by rw [hrep.writer]; exact hw)
      have hj : (c.appendBatch C batch).journal = [] := by simp [Core.appendBatch, hseed, hemp]
      exact Or.inl ⟨hf, a0, es, by simpa [crashDisk, journalC, hj, Disk.applyAll] using hdur⟩
    · have hne : batch ≠ [] := by intro e; apply hemp; simp [e]
      obtain ⟨c1, entry, ow, _, _, hjournal, hrep1, hp1⟩ := append_mid C hC hS hTw c d hf a0 a es hrep hp batch hne hv hl hw
      show (∃ hf' a0' es', Durable C (d.applyAll ((c.appendBatch C batch).journal.take k)) hf' a0' es' a) ∨ _
      show _ ∨ (∃ hf' a0' es', Durable C (d.applyAll ((c.appendBatch C batch).journal.take k)) hf' a0' es' (a.step (.append batch)).1)
      rw [hjournal]
      by_cases hk2 : 2 ≤ k
      · right
        rw [take_beyond _ _ k (by simpa using hk2), Journal.applyAll_append]
        exact crash_flush C hC c1 _ hf a0 _ _ hrep1 hp1 _
      · left
        refine ⟨hf, a0, es, ?_⟩
        by_cases hk0 : k = 0
        · subst hk0; simpa [Disk.applyAll] using hdur
        · have hk1 : k = 1 := by omega
          subst hk1
          simp only [List.cons_append, List.take_succ_cons, List.take_zero, applyAll_one]
          have hget := fun s => Journal.apply_get d (SOp.write .data (totalBytes a.blocks) batch.flatten) s
          apply durable_congr C d _ hf a0 es a hdur
          · have := hget .tree; simpa [SOp.store, Disk.get] using this
          · have := hget .bitfield; simpa [SOp.store, Disk.get] using this
          · have := hget .oplog; simpa [SOp.store, Disk.get] using this
          · have hdd : (d.apply (SOp.write .data (totalBytes a.blocks) batch.flatten)).data
                = d.data.write (totalBytes a.blocks) batch.flatten := by
              have := hget .data; simpa [SOp.store, SOp.onFile, Disk.get] using this
            rw [hdd]
            intro i hi kk hkk
            obtain ⟨o1, o2⟩ := hrep.data i hi kk hkk
            have hin := hrep.heldLt i hi
            have h1 := psum_succ_gt a.blocks i kk hkk
            have h2 := psum_mono a.blocks (show i + 1 ≤ a.blocks.size by omega)
            have h3 := psum_total a.blocks
            rw [File.size_write, File.byte_write]
            have : ¬ (totalBytes a.blocks ≤ psum a.blocks i + kk ∧ psum a.blocks i + kk < totalBytes a.blocks + batch.flatten.length) := by omega
            simp only [this, ite_false]
            exact ⟨by omega, o2⟩
  | clear s e =>
    by_cases hge : s ≥ e
    · have hj : (c.clear d s e).journal = [] := by simp [Core.clear, hge]
      exact Or.inl ⟨hf, a0, es, by simpa [crashDisk, journalC, hj, Disk.applyAll] using hdur⟩
    · obtain ⟨c1, ow, j2, _, _, hjournal, hows, hj2s, hj2l, _, hrep1, hp1⟩ := clear_mid C c d hf a0 a es hrep hp s e (by omega) hv hl
      show (∃ hf' a0' es', Durable C (d.applyAll ((c.clear d s e).journal.take k)) hf' a0' es' a) ∨ _
      show _ ∨ (∃ hf' a0' es', Durable C (d.applyAll ((c.clear d s e).journal.take k)) hf' a0' es' (a.step (.clear s e)).1)
      rw [hjournal]
      by_cases hk0 : k = 0
      · left; subst hk0; exact ⟨hf, a0, es, by simpa [Disk.applyAll] using hdur⟩
      · right
        by_cases hkj : (ow :: j2).length ≤ k
        · rw [take_beyond _ _ k hkj, Journal.applyAll_append]
          exact crash_flush C hC c1 _ hf a0 _ _ hrep1 hp1 _
        · -- the entry is logged, the data store not yet touched
          have hk1 : k = 1 := by simp only [List.length_cons] at hkj; omega
          subst hk1
          simp only [List.cons_append, List.take_succ_cons, List.take_zero, applyAll_one]
          have hdur1 := persist_durable C c1 _ hf a0 _ _ hrep1 hp1
          refine ⟨hf, a0, es ++ [{ bitfield := some ⟨true, s, e - s⟩ }], ?_⟩
          have hsplit : d.applyAll (ow :: j2) = (d.apply ow).applyAll j2 := rfl
          have hoth : ∀ st, st ≠ Store.data → (d.applyAll (ow :: j2)).get st = (d.apply ow).get st := by
            intro st hst
            rw [hsplit]
            exact Journal.applyAll_other _ _ st (fun op hop => by rw [hj2s op hop]; exact fun e => hst e.symm)
          apply durable_congr C _ (d.apply ow) hf a0 _ _ hdur1
          · have := hoth .tree (by decide); simpa [Disk.get] using this.symm
          · have := hoth .bitfield (by decide); simpa [Disk.get] using this.symm
          · have := hoth .oplog (by decide); simpa [Disk.get] using this.symm
          · have hdd : (d.apply ow).data = d.data := by
              have := Journal.apply_get d ow .data
              rw [hows] at this
              simpa [Disk.get] using this
            rw [hdd]
            have habs : (a.step (.clear s e)).1 = { a with held := fun i => a.held i && !(decide (s ≤ i) && decide (i < e)) } := by
              simp only [Abs.step, hge, ite_false]
            rw [habs]
            intro i hi kk hkk
            simp only [Bool.and_eq_true] at hi
            exact hrep.data i hi.1 kk hkk

end HC.Crash
