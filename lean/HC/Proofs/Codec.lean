import HC.Model.Codec
/-! Helper lemmas for the codec: round trips, sizes, and monotonicity of decoders under
    extension of the input (used for the strict-prefix theorem). -/
namespace HC.Codec

/-! ### takeN -/

theorem takeN_append (k : Nat) (a r : Bytes) (h : a.length = k) : takeN k (a ++ r) = some (a, r) := by
  simp [takeN, h]

theorem takeN_mono (k : Nat) (q s a r : Bytes) (h : takeN k q = some (a, r)) :
    takeN k (q ++ s) = some (a, r ++ s) := by
  unfold takeN at h ⊢
  split at h
  · exact absurd h (by simp)
  · rename_i hk
    have hk' : k ≤ q.length := by omega
    simp only [Option.some.injEq, Prod.mk.injEq] at h
    obtain ⟨rfl, rfl⟩ := h
    have : ¬ (q ++ s).length < k := by simp; omega
    rw [if_neg this]
    simp [List.take_append_of_le_length hk', List.drop_append_of_le_length hk']

/-! ### uint -/

theorem encUint_length (n : Nat) : (encUint n).length = sizeUint n := by
  unfold encUint sizeUint
  split
  · rfl
  · split
    · simp [leBytes_length]
    · split <;> simp [leBytes_length]

theorem decUint_encUint (n : Nat) (h : U64 n) (rest : Bytes) :
    decUint (encUint n ++ rest) = some (n, rest) := by
  unfold U64 at h
  unfold encUint
  split
  · rename_i h1
    have : (UInt8.ofNat n).toNat = n := by simp [UInt8.toNat_ofNat']; omega
    simp [decUint, this, h1]
  · split
    · simp [decUint, takeN_append _ _ _ (leBytes_length n 2)]
      exact leVal_leBytes 2 n (by omega)
    · split
      · simp [decUint, takeN_append _ _ _ (leBytes_length n 4)]
        exact leVal_leBytes 4 n (by omega)
      · simp [decUint, takeN_append _ _ _ (leBytes_length n 8)]
        exact leVal_leBytes 8 n (by omega)

theorem decUint_mono (q s : Bytes) (n : Nat) (r : Bytes) (h : decUint q = some (n, r)) :
    decUint (q ++ s) = some (n, r ++ s) := by
  cases q with
  | nil => simp [decUint] at h
  | cons b rest =>
    simp only [decUint, List.cons_append] at h ⊢
    split
    · rename_i hb; simp [hb] at h; simp [h]
    · rename_i hb
      simp only [hb, ite_false] at h
      split
      · rename_i h2
        simp only [h2, ite_true] at h
        cases ht : takeN 2 rest with
        | none => simp [ht] at h
        | some p =>
          obtain ⟨x, r'⟩ := p
          simp [ht] at h
          simp [takeN_mono _ _ s _ _ ht, h]
      · rename_i h2
        simp only [h2, ite_false] at h
        split
        · rename_i h3
          simp only [h3, ite_true] at h
          cases ht : takeN 4 rest with
          | none => simp [ht] at h
          | some p =>
            obtain ⟨x, r'⟩ := p
            simp [ht] at h
            simp [takeN_mono _ _ s _ _ ht, h]
        · rename_i h3
          simp only [h3, ite_false] at h
          cases ht : takeN 8 rest with
          | none => simp [ht] at h
          | some p =>
            obtain ⟨x, r'⟩ := p
            simp [ht] at h
            simp [takeN_mono _ _ s _ _ ht, h]

/-! ### buffers -/

theorem encBuf_length (b : Bytes) : (encBuf b).length = sizeBuf b := by
  simp [encBuf, sizeBuf, encUint_length]

theorem decBuf_encBuf (b : Bytes) (h : U64 b.length) (rest : Bytes) :
    decBuf (encBuf b ++ rest) = some (b, rest) := by
  simp [decBuf, encBuf, List.append_assoc, decUint_encUint _ h, takeN_append]

theorem decBuf_mono (q s b r : Bytes) (h : decBuf q = some (b, r)) :
    decBuf (q ++ s) = some (b, r ++ s) := by
  unfold decBuf at h ⊢
  cases hu : decUint q with
  | none => simp [hu] at h
  | some p =>
    obtain ⟨n, r1⟩ := p
    simp only [hu] at h
    simp only [decUint_mono _ s _ _ hu]
    exact takeN_mono _ _ _ _ _ h

/-! ### arrays -/

theorem decMany_enc {α : Type} (e : α → Bytes) (d : Bytes → Option (α × Bytes)) (l : List α)
    (h : ∀ a ∈ l, ∀ r, d (e a ++ r) = some (a, r)) (rest : Bytes) :
    decMany d l.length ((l.map e).flatten ++ rest) = some (l, rest) := by
  induction l with
  | nil => simp [decMany]
  | cons a as ih =>
    have ha := h a (by simp) ((as.map e).flatten ++ rest)
    have ih' := ih (fun x hx r => h x (by simp [hx]) r)
    simp [decMany, List.append_assoc, ha, ih']

theorem decMany_mono {α : Type} (d : Bytes → Option (α × Bytes))
    (hd : ∀ q s a r, d q = some (a, r) → d (q ++ s) = some (a, r ++ s))
    (n : Nat) (q s : Bytes) (l : List α) (r : Bytes) (h : decMany d n q = some (l, r)) :
    decMany d n (q ++ s) = some (l, r ++ s) := by
  induction n generalizing q l with
  | zero => simp [decMany] at h ⊢; obtain ⟨rfl, rfl⟩ := h; simp
  | succ n ih =>
    simp only [decMany] at h ⊢
    cases h1 : d q with
    | none => simp [h1] at h
    | some p =>
      obtain ⟨a, r1⟩ := p
      simp only [h1] at h
      simp only [hd _ s _ _ h1]
      cases h2 : decMany d n r1 with
      | none => simp [h2] at h
      | some p2 =>
        obtain ⟨as, r2⟩ := p2
        simp only [h2, Option.some.injEq, Prod.mk.injEq] at h
        obtain ⟨rfl, rfl⟩ := h
        simp [ih _ _ h2]

theorem encArr_length {α : Type} (e : α → Bytes) (sz : α → Nat) (l : List α)
    (h : ∀ a ∈ l, (e a).length = sz a) :
    (encArr e l).length = sizeUint l.length + (l.map sz).sum := by
  simp only [encArr, List.length_append, encUint_length, List.length_flatten, List.map_map]
  congr 2
  apply List.map_congr_left
  intro a ha; exact h a ha

theorem decArr_encArr {α : Type} (e : α → Bytes) (d : Bytes → Option (α × Bytes)) (l : List α)
    (hl : U64 l.length) (h : ∀ a ∈ l, ∀ r, d (e a ++ r) = some (a, r)) (rest : Bytes) :
    decArr d (encArr e l ++ rest) = some (l, rest) := by
  simp [decArr, encArr, List.append_assoc, decUint_encUint _ hl, decMany_enc e d l h]

theorem decArr_mono {α : Type} (d : Bytes → Option (α × Bytes))
    (hd : ∀ q s a r, d q = some (a, r) → d (q ++ s) = some (a, r ++ s))
    (q s : Bytes) (l : List α) (r : Bytes) (h : decArr d q = some (l, r)) :
    decArr d (q ++ s) = some (l, r ++ s) := by
  unfold decArr at h ⊢
  cases hu : decUint q with
  | none => simp [hu] at h
  | some p =>
    obtain ⟨n, r1⟩ := p
    simp only [hu] at h
    simp only [decUint_mono _ s _ _ hu]
    exact decMany_mono d hd _ _ _ _ _ h

/-! ### nodes -/

theorem encNode_length (n : Node) (h : n.WF) : (encNode n).length = sizeNode n := by
  simp [encNode, sizeNode, encUint_length, h.2.2]; omega

theorem decNode_encNode (n : Node) (h : n.WF) (rest : Bytes) :
    decNode (encNode n ++ rest) = some (n, rest) := by
  obtain ⟨h1, h2, h3⟩ := h
  simp [decNode, encNode, List.append_assoc, decUint_encUint _ h1, decUint_encUint _ h2,
    takeN_append _ _ _ h3]

theorem decNode_mono (q s : Bytes) (n : Node) (r : Bytes) (h : decNode q = some (n, r)) :
    decNode (q ++ s) = some (n, r ++ s) := by
  unfold decNode at h ⊢
  cases h1 : decUint q with
  | none => simp [h1] at h
  | some p1 =>
    obtain ⟨i, r1⟩ := p1
    simp only [h1] at h
    simp only [decUint_mono _ s _ _ h1]
    cases h2 : decUint r1 with
    | none => simp [h2] at h
    | some p2 =>
      obtain ⟨l, r2⟩ := p2
      simp only [h2] at h
      simp only [decUint_mono _ s _ _ h2]
      cases h3 : takeN 32 r2 with
      | none => simp [h3] at h
      | some p3 =>
        obtain ⟨hh, r3⟩ := p3
        simp only [h3, Option.some.injEq, Prod.mk.injEq] at h
        obtain ⟨rfl, rfl⟩ := h
        simp [takeN_mono _ _ s _ _ h3]

theorem encNodes_length (l : List Node) (h : NodesWF l) : (encNodes l).length = sizeNodes l :=
  encArr_length encNode sizeNode l (fun a ha => encNode_length a (h.2 a ha))

theorem decNodes_encNodes (l : List Node) (h : NodesWF l) (rest : Bytes) :
    decNodes (encNodes l ++ rest) = some (l, rest) :=
  decArr_encArr encNode decNode l h.1 (fun a ha r => decNode_encNode a (h.2 a ha) r) rest

theorem decNodes_mono (q s : Bytes) (l : List Node) (r : Bytes) (h : decNodes q = some (l, r)) :
    decNodes (q ++ s) = some (l, r ++ s) :=
  decArr_mono decNode decNode_mono q s l r h

/-! ### the generic strict-prefix argument -/

theorem prefix_none {α : Type} (dec : Bytes → Option (α × Bytes)) (e : Bytes) (v : α)
    (rt : dec e = some (v, []))
    (mono : ∀ q s x r, dec q = some (x, r) → dec (q ++ s) = some (x, r ++ s))
    (q s : Bytes) (hs : s ≠ []) (h : q ++ s = e) : dec q = none := by
  cases hq : dec q with
  | none => rfl
  | some p =>
    obtain ⟨x, r⟩ := p
    have := mono q s x r hq
    rw [h, rt] at this
    simp only [Option.some.injEq, Prod.mk.injEq] at this
    have h2 : r ++ s = [] := this.2.symm
    simp at h2
    exact absurd h2.2 hs

end HC.Codec
