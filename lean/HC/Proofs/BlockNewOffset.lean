import HC.Proofs.BlockNew
/-!
The byte offset of a block of the **new part** under the changeset of a block + upgrade proof (C03).  The changeset's node
list is the block's path (leaf, siblings and parents up to the node `R` of the upgrade's position list) followed by the
nodes the upgrade recorded — in which `R` occurs a second time.  `byte_offset_in_changeset` scans that list for the
block's ancestors; `scanS` is the scan with its full state, so that the two parts can be treated one after the other.
-/
namespace HC.BlockNewOffset
open HC HC.Codec HC.Flat HC.Tree HC.RefTree HC.RefProof HC.Sound HC.Offsets HC.TreeStore HC.Complete HC.UpgradeSound
  HC.Replica HC.Growth HC.HashReq HC.BlockUpgrade HC.BlockNew

/-- the scan of `byte_offset_in_changeset` with its full state -/
def scanS : List Node → Iter → Nat → Bool → Option Node → (Iter × Nat × Bool × Option Node)
  | [], it, off, ir, par => (it, off, ir, par)
  | n :: ns, it, off, ir, par =>
    if n.index = it.index then
      scanS ns it.parent (match ir, par with | true, some p => off + (n.length - p.length) | _, _ => off) it.isRight (some n)
    else scanS ns it off ir par

theorem scan_eq : ∀ (l : List Node) (it : Iter) (off : Nat) (ir : Bool) (par : Option Node),
    byteOffsetInChangeset.scan l it off ir par = ((scanS l it off ir par).2.1, (scanS l it off ir par).2.2.2) := by
  intro l
  induction l with
  | nil => intro it off ir par; rfl
  | cons n ns ih =>
    intro it off ir par
    simp only [byteOffsetInChangeset.scan, scanS]
    split
    · exact ih _ _ _ _
    · exact ih _ _ _ _

theorem scanS_append : ∀ (a b : List Node) (it : Iter) (off : Nat) (ir : Bool) (par : Option Node),
    scanS (a ++ b) it off ir par = scanS b (scanS a it off ir par).1 (scanS a it off ir par).2.1 (scanS a it off ir par).2.2.1 (scanS a it off ir par).2.2.2 := by
  intro a
  induction a with
  | nil => intro b it off ir par; rfl
  | cons n ns ih =>
    intro b it off ir par
    simp only [List.cons_append, scanS]
    split
    · exact ih b _ _ _ _
    · exact ih b _ _ _ _

/-- the scan follows the block's ancestors as far as they are in the list (with the full final state; no assumption on
    lower ancestors occurring again) -/
theorem scanS_chain (C : Crypto) (bs : Array Bytes) (i : Nat) (l : List Node) (href : ∀ x ∈ l, ∃ d o, x = nodeAt C bs d o)
    (hdist : ∀ a b x, l = a ++ x :: b → (∀ y ∈ a, y.index ≠ x.index) ∧ (∀ y ∈ b, y.index ≠ x.index))
    (hord : ∀ a b d o, l = a ++ nodeAt C bs (d + 1) o :: b → ∀ o', o' / 2 = o → nodeAt C bs d o' ∈ l → nodeAt C bs d o' ∈ a) :
    ∀ (r pre : List Node) (j off : Nat), l = pre ++ r →
      ∃ T off', j ≤ T
        ∧ scanS r (iat (j + 1) (i / 2 ^ (j + 1))) off (decide (i / 2 ^ j % 2 = 1)) (some (anc C bs i j))
            = (iat (T + 1) (i / 2 ^ (T + 1)), off', decide (i / 2 ^ T % 2 = 1), some (anc C bs i T))
        ∧ off' + psum bs (i / 2 ^ T * 2 ^ T) = off + psum bs (i / 2 ^ j * 2 ^ j)
        ∧ (∀ s, j < s → s ≤ T → anc C bs i s ∈ r) ∧ anc C bs i (T + 1) ∉ r := by
  intro r
  induction r with
  | nil =>
    intro pre j off _
    exact ⟨j, off, Nat.le_refl _, by simp [scanS], rfl, fun s h1 h2 => by omega, by simp⟩
  | cons n r' ih =>
    intro pre j off hl
    have hl' : l = (pre ++ [n]) ++ r' := by rw [hl]; simp
    have hnl : n ∈ l := by rw [hl]; simp
    by_cases hm : n.index = (iat (j + 1) (i / 2 ^ (j + 1))).index
    · obtain ⟨d, o, hn⟩ := href n hnl
      have hn' : n = anc C bs i (j + 1) := by
        rw [hn] at hm ⊢
        obtain ⟨e1, e2⟩ := index_inj _ _ _ _ (show Flat.index d o = Flat.index (j + 1) (i / 2 ^ (j + 1)) from hm)
        rw [e1, e2]; rfl
      have hir : (iat (j + 1) (i / 2 ^ (j + 1))).isRight = decide (i / 2 ^ (j + 1) % 2 = 1) := rfl
      have hdiv : i / 2 ^ j / 2 = i / 2 ^ (j + 1) := div_pow_succ' i j
      have hdiv2 : i / 2 ^ (j + 1) / 2 = i / 2 ^ (j + 1 + 1) := div_pow_succ' i (j + 1)
      obtain ⟨T, off', hT, hscan, hoff, hmemT, hnot⟩ := ih (pre ++ [n]) (j + 1)
        (match decide (i / 2 ^ j % 2 = 1), some (anc C bs i j) with
          | true, some p => off + (n.length - p.length)
          | _, _ => off) hl'
      refine ⟨T, off', by omega, ?_, ?_, ?_, ?_⟩
      · simp only [scanS, hm, ite_true, iat_parent, hir, hdiv2]
        rw [hn'] at hscan ⊢
        exact hscan
      · rw [hoff, hn']
        have := step_offset C bs j (i / 2 ^ j) off
        rw [hdiv] at this
        exact this
      · intro s h1 h2
        by_cases hs : s = j + 1
        · subst hs; rw [← hn']; simp
        · exact List.mem_cons_of_mem _ (hmemT s (by omega) h2)
      · intro hmem
        rcases List.mem_cons.mp hmem with h | h
        · rw [hn'] at h
          exact anc_index_ne C bs i (T + 1) (j + 1) (by omega) (congrArg Node.index h)
        · exact hnot h
    · obtain ⟨T, off', hT, hscan, hoff, hmemT, hnot⟩ := ih (pre ++ [n]) j off hl'
      refine ⟨T, off', hT, ?_, hoff, fun s h1 h2 => List.mem_cons_of_mem _ (hmemT s h1 h2), ?_⟩
      · simp only [scanS, hm, ite_false]
        exact hscan
      · intro hmem
        rcases List.mem_cons.mp hmem with h | h
        · by_cases hTj : T = j
          · subst hTj
            apply hm
            rw [← h]; rfl
          · have hTin : anc C bs i T ∈ r' := hmemT T (by omega) (Nat.le_refl _)
            have hTl : anc C bs i T ∈ l := by rw [hl]; exact List.mem_append.mpr (Or.inr (List.mem_cons_of_mem _ hTin))
            have hl2 : l = pre ++ nodeAt C bs (T + 1) (i / 2 ^ (T + 1)) :: r' := by rw [hl, ← h]; rfl
            have hpre := hord pre r' T (i / 2 ^ (T + 1)) hl2 (i / 2 ^ T) (div_pow_succ' i T) hTl
            obtain ⟨a', b', hsplit⟩ := List.append_of_mem hTin
            have hl3 : l = (pre ++ n :: a') ++ anc C bs i T :: b' := by rw [hl, hsplit]; simp
            exact (hdist _ _ _ hl3).1 _ (List.mem_append.mpr (Or.inl hpre)) rfl
        · exact hnot h

theorem anc_mem_downPath (C : Crypto) (bs : Array Bytes) (i k s : Nat) : anc C bs i s ∈ downPath C bs 0 i k ↔ 1 ≤ s ∧ s ≤ k := by
  rw [← upPath_reverse, List.mem_reverse, mem_upPath]
  constructor
  · rintro ⟨j, hj, h | h⟩
    · obtain ⟨e1, _⟩ := nodeAt_inj C bs _ _ _ _ h
      omega
    · obtain ⟨e1, e2⟩ := nodeAt_inj C bs _ _ _ _ h
      exfalso
      have e1' : s = j := by omega
      subst e1'
      have : sib (i / 2 ^ s) ≠ i / 2 ^ s := by unfold sib; split <;> omega
      exact this e2.symm
  · rintro ⟨h1, h2⟩
    refine ⟨s - 1, by omega, Or.inl ?_⟩
    have e : 0 + (s - 1) + 1 = s := by omega
    have e' : s - 1 + 1 = s := by omega
    rw [e, e']
    rfl

/-- **the scan over the block's path followed by an ordered list of reference nodes** -/
theorem scan_path_then (C : Crypto) (bs : Array Bytes) (i k : Nat) (G : List Node) (href : ∀ x ∈ G, ∃ d o, x = nodeAt C bs d o)
    (hdist : ∀ a b x, G = a ++ x :: b → (∀ y ∈ a, y.index ≠ x.index) ∧ (∀ y ∈ b, y.index ≠ x.index))
    (hord : ∀ a b d o, G = a ++ nodeAt C bs (d + 1) o :: b → ∀ o', o' / 2 = o → nodeAt C bs d o' ∈ G → nodeAt C bs d o' ∈ a) :
    ∃ T off', k ≤ T
      ∧ byteOffsetInChangeset.scan ((nodeAt C bs 0 i :: downPath C bs 0 i k) ++ G) (iat 0 i) 0 false none = (off', some (anc C bs i T))
      ∧ off' + psum bs (i / 2 ^ T * 2 ^ T) = psum bs i
      ∧ (∀ s, k < s → s ≤ T → anc C bs i s ∈ G) ∧ anc C bs i (T + 1) ∉ G := by
  -- the path part
  have hP := ordered_oldest C bs _ (ordered_path C bs k 0 i).1
  have hrev : (upPath C bs 0 i k ++ [nodeAt C bs 0 i]).reverse = nodeAt C bs 0 i :: downPath C bs 0 i k := by simp [upPath_reverse]
  rw [hrev] at hP
  have hPref : ∀ x ∈ (nodeAt C bs 0 i :: downPath C bs 0 i k), ∃ d o, x = nodeAt C bs d o := by
    intro x hx
    rcases (pathNodes_mem C bs 0 i k x).mp hx with rfl | hx
    · exact ⟨0, i, rfl⟩
    · obtain ⟨j, _, h | h⟩ := (mem_upPath C bs x k 0 i).mp hx
      · exact ⟨_, _, h⟩
      · exact ⟨_, _, h⟩
  obtain ⟨T1, off1, hT1, hs1, ho1, hm1, hn1⟩ := scanS_chain C bs i _ hPref hP.1 hP.2 (downPath C bs 0 i k) [nodeAt C bs 0 i] 0 0 rfl
  have hT1k : T1 = k := by
    by_cases hlt : T1 < k
    · exact absurd ((anc_mem_downPath C bs i k (T1 + 1)).mpr ⟨by omega, by omega⟩) hn1
    · by_cases hgt : k < T1
      · have := (anc_mem_downPath C bs i k (k + 1)).mp (hm1 (k + 1) (by omega) (by omega))
        omega
      · omega
  subst hT1k
  have hanc0 : anc C bs i 0 = nodeAt C bs 0 i := by simp [anc]
  simp only [Nat.pow_zero, Nat.div_one, Nat.mul_one, Nat.zero_add, Nat.pow_one, hanc0] at hs1 ho1
  -- the upgrade's nodes
  obtain ⟨T2, off2, hT2, hs2, ho2, hm2, hn2⟩ := scanS_chain C bs i G href hdist hord G [] T1 off1 rfl
  refine ⟨T2, off2, hT2, ?_, by rw [ho2, ho1], hm2, hn2⟩
  rw [scan_eq, scanS_append]
  have hfirst : scanS (nodeAt C bs 0 i :: downPath C bs 0 i T1) (iat 0 i) 0 false none
      = scanS (downPath C bs 0 i T1) (iat 1 (i / 2)) 0 (decide (i % 2 = 1)) (some (nodeAt C bs 0 i)) := by
    have hidx : (nodeAt C bs 0 i).index = (iat 0 i).index := rfl
    have hpar : (iat 0 i).parent = iat 1 (i / 2) := iat_parent 0 i
    have hir : (iat 0 i).isRight = decide (i % 2 = 1) := rfl
    simp only [scanS, hidx, ite_true, hpar, hir]
  rw [hfirst, hs1]
  simp only []
  rw [hs2]

/-! ### a root among the roots: its position and the sizes before it -/

theorem cover_find_root (C : Crypto) (bs : Array Bytes) : ∀ (l : List (Nat × Nat)) (s e : Nat), Cover l s e → ∀ p ∈ l,
    ∃ r, (l.map (fun q => nodeAt C bs q.1 q.2)).findIdx? (fun x => x.index = (nodeAt C bs p.1 p.2).index) = some r
      ∧ (((l.map (fun q => nodeAt C bs q.1 q.2)).take r).map (·.length)).sum + psum bs s = psum bs (p.2 * 2 ^ p.1) := by
  intro l s e hc
  induction hc with
  | nil a => intro p hp; cases hp
  | cons d o a b rest ha hrest ih =>
    intro p hp
    by_cases hpe : p = (d, o)
    · subst hpe
      refine ⟨0, by simp [List.findIdx?_cons], ?_⟩
      simp [ha]
    · have hp' : p ∈ rest := by
        rcases List.mem_cons.mp hp with h | h
        · exact absurd h hpe
        · exact h
      obtain ⟨r, hr1, hr2⟩ := ih p hp'
      have hne : ¬ (nodeAt C bs d o).index = (nodeAt C bs p.1 p.2).index := by
        intro e'
        obtain ⟨e1, e2⟩ := index_inj _ _ _ _ (show Flat.index d o = Flat.index p.1 p.2 from e')
        exact hpe (by cases p; simp only at e1 e2; rw [e1, e2])
      refine ⟨r + 1, ?_, ?_⟩
      · simp only [List.map_cons, List.findIdx?_cons, hne, decide_false, Bool.false_eq_true, ite_false, hr1, Option.map_some]
      · simp only [List.map_cons, List.take_succ_cons, List.sum_cons]
        have hlen := nodeAt_len C bs d o
        rw [← ha] at hlen
        omega

/-- **the byte offset of a block of the new part under the changeset of the block + upgrade proof** is the writer's -/
theorem offset_new_block (C : Crypto) (hC : HashWF C) (bs : Array Bytes) (m n : Nat) (c : Core) (d : Disk) (held : Nat → Bool)
    (h : RepRAt C bs m c d held) (hn : n ≤ bs.size) (csg : Changeset) (hinv : Inv C bs c.tree d.tree csg n)
    (i k : Nat) (hmi : m ≤ i) (hRin : nodeAt C bs k (i / 2 ^ k) ∈ csg.nodes) :
    c.tree.byteOffsetInChangeset d.tree i (addOld (upPath C bs 0 i k ++ [nodeAt C bs 0 i]) csg) = .ok (psum bs i) := by
  have hlen : c.tree.length = m := h.closed.sparse.length
  by_cases him : m = i
  · subst him
    simp only [Tree.byteOffsetInChangeset, hlen, ite_true]
    rw [h.bytes]
  have hnodes : (addOld (upPath C bs 0 i k ++ [nodeAt C bs 0 i]) csg).nodes = (nodeAt C bs 0 i :: downPath C bs 0 i k) ++ csg.nodes := by
    simp [Changeset.nodes, addOld, upPath_reverse]
  have hGref : ∀ x ∈ csg.nodes, ∃ dd oo, x = nodeAt C bs dd oo ∧ (oo + 1) * 2 ^ dd ≤ n := by
    intro x hx
    exact hinv.nodesRef x (by simpa [Changeset.nodes] using hx)
  have hord := ordered_oldest C bs csg.rnodes hinv.order
  obtain ⟨T, off', hT, hscan, hoff, hmem, hnot⟩ := scan_path_then C bs i k csg.nodes
    (fun x hx => by obtain ⟨dd, oo, e, _⟩ := hGref x hx; exact ⟨dd, oo, e⟩) hord.1 hord.2
  -- the last ancestor found is recorded by the upgrade
  have hTin : anc C bs i T ∈ csg.nodes := by
    by_cases hTk : T = k
    · subst hTk; exact hRin
    · exact hmem T (by omega) (Nat.le_refl _)
  obtain ⟨dd, oo, e, hbound⟩ := hGref _ hTin
  obtain ⟨e1, e2⟩ := nodeAt_inj C bs _ _ _ _ e
  subst e1; subst e2
  -- it is a root of `n`
  have hroot : (T, i / 2 ^ T) ∈ rootsStack n := by
    by_contra hnr
    have hpin := parent_inside n T (i / 2 ^ T) hbound hnr
    obtain ⟨hnew, _, honly⟩ := insert_lookup C hC bs c.tree (vt c.tree csg) d.tree csg.nodes
      (fun x hx => by obtain ⟨d1, o1, e, _⟩ := hGref x hx; exact ⟨d1, o1, e⟩) rfl
    have hst := hnew T (i / 2 ^ T) hTin
    have hpar := (hinv.closed.closed T (i / 2 ^ T) hst hpin).2
    rw [div_pow_succ' i T] at hpar
    rcases honly (T + 1) (i / 2 ^ (T + 1)) hpar with h1 | h1
    · exact hnot h1
    · obtain ⟨d1, o1, e1, e2, hb1⟩ := h.closed.sparse.sound _ _ h1
      obtain ⟨f1, f2⟩ := index_inj _ _ _ _ e1
      subst f1; subst f2
      have hlt : i < (i / 2 ^ (T + 1) + 1) * 2 ^ (T + 1) := by
        have := Nat.lt_succ_iff.mpr (Nat.le_refl (i / 2 ^ (T + 1)))
        exact (Nat.div_lt_iff_lt_mul (pow_pos' (T + 1))).mp this
      omega
  have hroots := inv_roots C bs c.tree d.tree csg n hinv
  obtain ⟨r, hr1, hr2⟩ := cover_find_root C bs (rootsStack n).reverse 0 n (cover_roots n) (T, i / 2 ^ T) (List.mem_reverse.mpr hroot)
  have hnew : Iter.new (2 * i) = iat 0 i := new_even i
  have hroots' : (addOld (upPath C bs 0 i k ++ [nodeAt C bs 0 i]) csg).roots = rootsAt C bs n := hroots
  have hne : ¬ c.tree.length = i := by rw [hlen]; exact him
  simp only [Tree.byteOffsetInChangeset, hne, ite_false, hnodes, hnew, hscan, hroots', rootsAt]
  have hanc : (anc C bs i T).index = (nodeAt C bs T (i / 2 ^ T)).index := rfl
  simp only [hanc, hr1]
  have hp0 : psum bs 0 = 0 := rfl
  rw [hp0, Nat.add_zero] at hr2
  rw [hr2, hoff]

end HC.BlockNewOffset
