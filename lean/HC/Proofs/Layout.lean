import HC.Proofs.Frame
/-! The oplog file as the JavaScript layout prescribes it, and what `Oplog::open` reads from it. -/
namespace HC.Oplog
open HC.Codec

/-- a header slot: checksummed frame of the header, zero padded to 4096 bytes -/
def slot (h : Header) (bit : Bool) : Bytes :=
  let fr := frame (encHeader h) bit false
  fr ++ List.replicate (Spec.headerSize - fr.length) 0

/-- the entry region: the frames of the entries, one after the other -/
def entryRegion (es : List (Entry × Bool)) (bit : Bool) : Bytes :=
  (es.map fun (e, p) => frame (encEntry e) bit p).flatten

def Fits (h : Header) : Prop := (encHeader h).length + 8 ≤ Spec.headerSize

theorem slot_length (h : Header) (bit : Bool) (hf : Fits h) : (slot h bit).length = Spec.headerSize := by
  simp only [slot, List.length_append, List.length_replicate, frame_length]
  unfold Fits at hf; omega

theorem encHeader_pos (h : Header) : 0 < (encHeader h).length := by
  simp [encHeader, versionFlags, Spec.headerVersionFlags]

theorem validate_slot (h : Header) (bit : Bool) (hf : Fits h) :
    validateLeader (slot h bit) =
      some ⟨bit, false, (encHeader h).length,
        encHeader h ++ List.replicate (Spec.headerSize - (frame (encHeader h) bit false).length) 0⟩ := by
  unfold slot
  exact validateLeader_frame _ _ bit false (encHeader_pos h) (by unfold Fits at hf; simp [Spec.headerSize] at hf; omega)

theorem decode_slot (h : Header) (wf : h.WF) (rest : Bytes) :
    decHeader (encHeader h ++ rest) = .ok (h, rest) := decHeader_enc h wf rest

/-- reading the entry region back: every entry, its partial flag, and the number of bytes -/
theorem readEntries_region (bit : Bool) (es : List (Entry × Bool)) (tail : Bytes)
    (wf : ∀ p ∈ es, p.1.WF ∧ (encEntry p.1).length < 2 ^ 30)
    (htail : validateLeader tail = none ∨ ∃ l, validateLeader tail = some l ∧ l.headerBit ≠ bit)
    (fuel : Nat) (hfuel : es.length < fuel) :
    readEntries bit fuel (entryRegion es bit ++ tail) = .ok (es, (entryRegion es bit).length) := by
  induction es generalizing fuel with
  | nil =>
    obtain ⟨fuel, rfl⟩ : ∃ f, fuel = f + 1 := ⟨fuel - 1, by simp at hfuel; omega⟩
    simp only [entryRegion, List.map_nil, List.flatten_nil, List.nil_append, readEntries, List.length_nil]
    rcases htail with h | ⟨l, h, hb⟩
    · simp [h]
    · simp [h, hb]
  | cons p rest ih =>
    obtain ⟨e, pb⟩ := p
    obtain ⟨fuel, rfl⟩ : ∃ f, fuel = f + 1 := ⟨fuel - 1, by simp at hfuel; omega⟩
    have hw := wf (e, pb) (by simp)
    have hpos : 0 < (encEntry e).length := by simp [encEntry]
    have hreg : entryRegion ((e, pb) :: rest) bit ++ tail =
        frame (encEntry e) bit pb ++ (entryRegion rest bit ++ tail) := by
      simp [entryRegion, List.append_assoc]
    rw [hreg]
    simp only [readEntries]
    rw [validateLeader_frame _ _ bit pb hpos hw.2]
    simp only [ne_eq, not_true_eq_false, ite_false]
    rw [decEntry_enc e hw.1]
    simp only []
    rw [ih (fun q hq => wf q (by simp [hq])) fuel (by simp at hfuel; omega)]
    simp only [entryRegion, List.map_cons, List.flatten_cons, List.length_append, frame_length]
    congr 2
    simp [frame_length, List.length_append]
    omega

/-- `Oplog::open` on a file laid out by the JavaScript rules with both header slots valid:
    the newest header is slot 1 iff the two header bits differ, the entries carrying the current
    header bit are read, trailing partial ones dropped, stale or invalid data after them ignored. -/
theorem open_both_slots (h0 h1 : Header) (b0 b1 : Bool) (es : List (Entry × Bool)) (tail : Bytes)
    (w0 : h0.WF) (w1 : h1.WF) (f0 : Fits h0) (f1 : Fits h1)
    (wf : ∀ p ∈ es, p.1.WF ∧ (encEntry p.1).length < 2 ^ 30)
    (htail : validateLeader tail = none ∨ ∃ l, validateLeader tail = some l ∧ l.headerBit ≠ Spec.currentBit b0 b1)
    (hne : es ≠ [] ∨ tail ≠ []) :
    openLog none (slot h0 b0 ++ slot h1 b1 ++ (entryRegion es (Spec.currentBit b0 b1) ++ tail)) =
      .ok ⟨{ bits := (b0, b1), entriesLength := es.length,
              entriesByteLength := (entryRegion es (Spec.currentBit b0 b1)).length },
            (if b0 == b1 then h0 else h1),
            (if tail.length > 0 then [.trunc .oplog (Spec.entriesOffset + (entryRegion es (Spec.currentBit b0 b1)).length)] else []),
            (dropTrailingPartial es).map (·.1)⟩ := by
  have l0 := slot_length h0 b0 f0
  have l1 := slot_length h1 b1 f1
  have hs : Spec.headerSize = 4096 := rfl
  have hE : Spec.entriesOffset = 8192 := rfl
  obtain ⟨E, hEdef⟩ : ∃ E, E = entryRegion es (Spec.currentBit b0 b1) ++ tail := ⟨_, rfl⟩
  rw [← hEdef]
  have hElen : 0 < E.length := by
    rcases hne with h | h
    · cases es with
      | nil => exact absurd rfl h
      | cons p ps =>
        obtain ⟨e, pb⟩ := p
        simp [hEdef, entryRegion, frame_length]
        omega
    · have : 0 < tail.length := List.length_pos_iff.mpr h
      simp [hEdef]; omega
  have t0 : (slot h0 b0 ++ slot h1 b1 ++ E).take Spec.headerSize = slot h0 b0 := by
    rw [List.append_assoc, List.take_append_of_le_length (by omega)]
    simp [List.take_of_length_le, l0]
  have d0 : (slot h0 b0 ++ slot h1 b1 ++ E).drop Spec.headerSize = slot h1 b1 ++ E := by
    rw [List.append_assoc, List.drop_append_of_le_length (by omega)]
    simp [List.drop_of_length_le, l0]
  have t1 : (slot h1 b1 ++ E).take Spec.headerSize = slot h1 b1 := by
    rw [List.take_append_of_le_length (by omega)]
    simp [List.take_of_length_le, l1]
  have dE : (slot h0 b0 ++ slot h1 b1 ++ E).drop Spec.entriesOffset = E := by
    have : Spec.entriesOffset = Spec.headerSize + Spec.headerSize := rfl
    rw [this, ← List.drop_drop, d0, List.drop_append_of_le_length (by omega)]
    simp [List.drop_of_length_le, l1]
  have hlen : (slot h0 b0 ++ slot h1 b1 ++ E).length = 8192 + E.length := by
    simp only [List.length_append, l0, l1, hs]
  unfold openLog
  have c1 : ¬ (slot h0 b0 ++ slot h1 b1 ++ E).length < Spec.headerSize := by rw [hlen, hs]; omega
  have c2 : ¬ (slot h0 b0 ++ slot h1 b1 ++ E).length < 2 * Spec.headerSize := by rw [hlen, hs]; omega
  have c3 : (slot h0 b0 ++ slot h1 b1 ++ E).length > Spec.entriesOffset := by rw [hlen, hE]; omega
  simp only [c1, c2, ite_false, t0, d0, t1, validate_slot h0 b0 f0, validate_slot h1 b1 f1]
  have hreglen : ∀ (l : List (Entry × Bool)) (bit : Bool), l.length ≤ (entryRegion l bit).length := by
    intro l bit
    induction l with
    | nil => simp
    | cons p ps ih =>
      simp only [entryRegion, List.map_cons, List.flatten_cons, List.length_append, frame_length, List.length_cons] at ih ⊢
      omega
  have hre := readEntries_region (Spec.currentBit b0 b1) es tail wf htail
    (slot h0 b0 ++ slot h1 b1 ++ E).length (by
      have := hreglen es (Spec.currentBit b0 b1)
      rw [hlen, hEdef]; simp only [List.length_append]; omega)
  by_cases hb : b0 = b1
  · subst hb
    simp only [beq_self_eq_true, ite_true, decode_slot h0 w0]
    simp only [readLog, c3, ite_true, dE, State.currentBit]
    rw [hEdef] at hre ⊢
    rw [hre]
    have hcond : ((slot h0 b0 ++ slot h1 b0 ++ (entryRegion es (Spec.currentBit b0 b0) ++ tail)).length
        > Spec.entriesOffset + (entryRegion es (Spec.currentBit b0 b0)).length) ↔ tail.length > 0 := by
      rw [← hEdef, hlen, hEdef, hE]; simp only [List.length_append]; omega
    simp only [hcond, List.nil_append]
  · have hbe : (b0 == b1) = false := by simpa using hb
    simp only [hbe, Bool.false_eq_true, ite_false, decode_slot h1 w1]
    simp only [readLog, c3, ite_true, dE, State.currentBit]
    rw [hEdef] at hre ⊢
    rw [hre]
    have hcond : ((slot h0 b0 ++ slot h1 b1 ++ (entryRegion es (Spec.currentBit b0 b1) ++ tail)).length
        > Spec.entriesOffset + (entryRegion es (Spec.currentBit b0 b1)).length) ↔ tail.length > 0 := by
      rw [← hEdef, hlen, hEdef, hE]; simp only [List.length_append]; omega
    simp only [hcond, List.nil_append]

end HC.Oplog
