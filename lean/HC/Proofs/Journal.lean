import HC.Model.Core
import HC.Proofs.File
/-!
Store-locality of journals: the effect of a journal on one store is the effect of the operations that
target that store; which stores the journals of the core's sub-operations target.  Plus the byte-level
laws of `truncate`, `del` needed for the data store.
-/
namespace HC

def SOp.store : SOp → Store
  | .write s _ _ => s
  | .del s _ _ => s
  | .trunc s _ => s

/-- effect of an operation on the file it targets -/
def SOp.onFile (op : SOp) (f : File) : File :=
  match op with
  | .write _ off bs => f.write off bs
  | .del _ off len => (f.del off len).getD f
  | .trunc _ len => f.truncate len

namespace Journal

theorem get_set (d : Disk) (s s' : Store) (f : File) : (d.set s f).get s' = if s = s' then f else d.get s' := by
  cases s <;> cases s' <;> simp [Disk.set, Disk.get]

theorem apply_get (d : Disk) (op : SOp) (s : Store) :
    (d.apply op).get s = if op.store = s then op.onFile (d.get s) else d.get s := by
  obtain ⟨t, da, b, o⟩ := d
  cases op with
  | write s' off bs => cases s' <;> cases s <;> simp [Disk.apply, Disk.get, SOp.store, SOp.onFile]
  | del s' off len =>
    simp only [Disk.apply, SOp.store, SOp.onFile]
    cases hdel : (Disk.get ⟨t, da, b, o⟩ s').del off len with
    | none =>
      by_cases h : s' = s
      · subst h; simp [hdel]
      · simp [h]
    | some f =>
      rw [get_set]
      by_cases h : s' = s
      · subst h; simp [hdel]
      · simp [h]
  | trunc s' len =>
    simp only [Disk.apply, SOp.store, SOp.onFile]
    rw [get_set]
    by_cases h : s' = s
    · subst h; simp
    · simp [h]

theorem applyAll_get (d : Disk) (ops : List SOp) (s : Store) :
    (d.applyAll ops).get s = (ops.filter fun op => op.store = s).foldl (fun f op => op.onFile f) (d.get s) := by
  induction ops generalizing d with
  | nil => rfl
  | cons op rest ih =>
    simp only [Disk.applyAll, List.foldl_cons]
    have := ih (d.apply op)
    simp only [Disk.applyAll] at this
    rw [this, apply_get]
    by_cases h : op.store = s
    · simp [List.filter_cons, h]
    · simp [List.filter_cons, h]

theorem applyAll_append (d : Disk) (a b : List SOp) : d.applyAll (a ++ b) = (d.applyAll a).applyAll b := by
  simp [Disk.applyAll, List.foldl_append]

/-- a journal that does not target `s` leaves it alone -/
theorem applyAll_other (d : Disk) (ops : List SOp) (s : Store) (h : ∀ op ∈ ops, op.store ≠ s) :
    (d.applyAll ops).get s = d.get s := by
  rw [applyAll_get]
  have : (ops.filter fun op => op.store = s) = [] := by
    apply List.filter_eq_nil_iff.mpr
    intro op hop
    simpa using h op hop
  rw [this]; rfl

/-! ### which store the sub-journals target -/

theorem appendEntry_store (s : Oplog.State) (e : Oplog.Entry) : ∀ op ∈ (Oplog.appendEntry s e).2, op.store = .oplog := by
  intro op hop
  simp [Oplog.appendEntry] at hop
  subst hop; rfl

theorem insertHeader_store (h : Oplog.Header) (n : Nat) (bits : Bool × Bool) (ct : Bool) :
    ∀ op ∈ (Oplog.insertHeader h n bits ct).2, op.store = .oplog := by
  intro op hop
  simp only [Oplog.insertHeader] at hop
  simp at hop
  rcases hop with rfl | rfl <;> rfl

theorem oplogFlush_store (s : Oplog.State) (h : Oplog.Header) (ct : Bool) : ∀ op ∈ (Oplog.flush s h ct).2, op.store = .oplog := by
  intro op hop
  unfold Oplog.flush at hop
  cases ct with
  | true =>
    simp only [ite_true] at hop
    rcases List.mem_append.mp hop with h1 | h1
    · exact insertHeader_store _ _ _ _ op h1
    · exact insertHeader_store _ _ _ _ op (List.mem_of_mem_take h1)
  | false =>
    simp only [Bool.false_eq_true, ite_false] at hop
    exact insertHeader_store _ _ _ _ op hop

theorem bitfieldFlush_store (b : Bitfield) : ∀ op ∈ b.flush.2, op.store = .bitfield := by
  intro op hop
  simp [Bitfield.flush] at hop
  obtain ⟨p, _, rfl⟩ := hop
  rfl

theorem treeFlush_store (t : Tree) : ∀ op ∈ t.flush.2, op.store = .tree := by
  intro op hop
  simp [Tree.flush] at hop
  obtain ⟨n, _, rfl⟩ := hop
  rfl

end Journal

/-! ### byte-level laws of truncate / del -/
namespace File

theorem getD_of_le (a : Array UInt8) (i : Nat) (h : a.size ≤ i) : a.getD i 0 = 0 := by
  have : a[i]? = none := by simp; omega
  simp [Array.getD_eq_getD_getElem?, this]

theorem getD_extract0 (a : Array UInt8) (n i : Nat) (hn : n ≤ a.size) :
    (a.extract 0 n).getD i 0 = if i < n then a.getD i 0 else 0 := by
  by_cases hi : i < n
  · have h1 : i < a.size := by omega
    have h2 : i < (a.extract 0 n).size := by simp; omega
    rw [Array.getD_eq_getD_getElem?, Array.getD_eq_getD_getElem?, Array.getElem?_eq_getElem h2, Array.getElem?_eq_getElem h1]
    simp [hi]
  · rw [getD_of_le _ _ (by simp; omega)]; simp [hi]

theorem size_truncate (f : File) (n : Nat) : (f.truncate n).size = n := by
  unfold truncate
  split
  · rename_i h; simp [size] at h ⊢; omega
  · rename_i h; simp only [size] at h ⊢; rw [extend_size]; omega

theorem byte_truncate (f : File) (n i : Nat) : (f.truncate n).byte i = if i < n then f.byte i else 0 := by
  unfold truncate
  split
  · rename_i h
    simp only [byte, size] at h ⊢
    exact getD_extract0 f.data n i h
  · rename_i h
    simp only [byte, size] at h ⊢
    rw [extend_getD]
    by_cases hi : i < n
    · simp [hi]
    · simp only [hi, ite_false]
      exact getD_of_le _ _ (by omega)

theorem zeroRange_size (a : Array UInt8) (off n : Nat) : (zeroRange a off n).size = a.size := by
  induction n generalizing a off with
  | zero => rfl
  | succ n ih => simp [zeroRange, ih]

theorem zeroRange_getD (a : Array UInt8) (off n i : Nat) :
    (zeroRange a off n).getD i 0 = if off ≤ i ∧ i < off + n then 0 else a.getD i 0 := by
  induction n generalizing a off with
  | zero =>
    have : ¬ (off ≤ i ∧ i < off + 0) := by omega
    simp only [zeroRange, this, ite_false]
  | succ n ih =>
    simp only [zeroRange]
    rw [ih, getD_setIfInBounds]
    by_cases h1 : off + 1 ≤ i ∧ i < off + 1 + n
    · have : off ≤ i ∧ i < off + (n + 1) := by omega
      simp only [h1, and_self, ite_true, this]
    · by_cases h2 : i = off
      · subst h2
        have h3 : i ≤ i ∧ i < i + (n + 1) := by omega
        simp only [h1, ite_false, h3, and_self, ite_true]
        by_cases h4 : i < a.size
        · simp [h4]
        · simp only [h4, and_false, ite_false]; exact getD_of_le _ _ (by omega)
      · have h3 : ¬ (off ≤ i ∧ i < off + (n + 1)) := by omega
        have h4 : ¬ (off = i ∧ off < a.size) := by omega
        simp only [h1, ite_false, h3, h4]

/-- `del`: bytes outside the range survive if they lie below the new size; the new size -/
theorem del_spec (f g : File) (off len : Nat) (h : f.del off len = some g) :
    (g.size ≤ f.size ∧ (∀ i, i < off → g.byte i = f.byte i) ∧ (∀ i, off + len ≤ i → g.byte i = f.byte i)
      ∧ (off + len < f.size → g.size = f.size) ∧ off ≤ g.size) ∨ (len = 0 ∧ g = f) := by
  unfold del at h
  split at h
  · cases h
  · rename_i h1
    split at h
    · rename_i h2; cases h; exact Or.inr ⟨h2, rfl⟩
    · rename_i h2
      split at h
      · rename_i h3
        cases h
        refine Or.inl ⟨by rw [size_truncate]; omega, fun i hi => ?_, fun i hi => ?_, fun hlt => by omega, by rw [size_truncate]; omega⟩
        · rw [byte_truncate]; simp [hi]
        · rw [byte_truncate]
          have : ¬ i < off := by omega
          simp only [this, ite_false]
          simp only [byte, size] at h3 ⊢
          exact (getD_of_le _ _ (by omega)).symm
      · rename_i h3
        cases h
        refine Or.inl ⟨by simp [size, zeroRange_size], fun i hi => ?_, fun i hi => ?_, fun _ => by simp [size, zeroRange_size], by simp [size, zeroRange_size] at h1 ⊢; omega⟩
        · simp only [byte]; rw [zeroRange_getD]
          have : ¬ (off ≤ i ∧ i < off + len) := by omega
          simp [this]
        · simp only [byte]; rw [zeroRange_getD]
          have : ¬ (off ≤ i ∧ i < off + len) := by omega
          simp [this]

end File
end HC
