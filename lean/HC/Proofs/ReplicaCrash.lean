import HC.Proofs.ReplicaReopen
import HC.Proofs.Crash
/-!
A replica that dies in the middle of a proof application (C02 "proof applications on a replica").

The journal of one application is: the block's data write (block proofs only), the oplog entry, and — when the
periodic flush is due — the dirty bitfield pages, the unflushed tree nodes, the header and the truncation of the
entry region.  `crash_act`: for **every prefix** of that journal the stores are `DurR` for the replica's state
before the application or for its state after it; `durR_open`: `Hypercore::new` on `DurR` stores succeeds and
yields a core that satisfies `RP` (replica invariant and ghost invariant) for that state, so the recovered
replica goes on, can be reopened, and can crash again.

What makes the middle states recoverable:
* a cut inside the page writes leaves a bitfield store that is *ahead* of the header (some pages hold bits the
  replay is going to set again); the replica's entries only set bits, so the replayed bitfield is the same, and
  the contiguous-length hint comes out exact because it is never stuck on a held bit (`bitRun_exact`);
* a cut inside the node writes leaves a tree store with more reference nodes than before (`FileExt`): every
  lookup the replay makes answers as before (`replay_ext`);
* a cut between the header write and the truncation is `OpImage`'s second case.
-/
namespace HC.ReplicaCrash
open HC HC.Codec HC.Flat HC.Tree HC.RefTree HC.RefProof HC.Sound HC.Offsets HC.TreeStore HC.Complete HC.UpgradeSound HC.CreateTotal
  HC.Replica HC.Growth HC.HashReq HC.Oplog HC.Core HC.OplogBytes HC.FormatLimits HC.BitfieldPages HC.ReplicaReopen HC.Touch

/-! ### the replay of one entry: a tree part and a bit part that do not see each other -/

/-- the tree part of `replayEntry`: the new tree and what it does to the header -/
def treePart (C : Crypto) (d : Disk) (t : Tree) (e : Entry) : R (Tree × (Header → Header)) :=
  let t := e.treeNodes.foldl Tree.addNode t
  match e.treeUpgrade with
  | none => .ok (t, id)
  | some u =>
    match t.truncate d.tree u.length u.fork with
    | .error x => .error x
    | .ok cs =>
      if u.signature.length ≠ 64 then .error .err else
      match t.commit { cs with ancestors := u.ancestors, hash := some (Tree.rootsHash C cs.roots), signature := some u.signature } with
      | .error x => .error x
      | .ok t' => .ok (t', fun h => (entryOf { cs with ancestors := u.ancestors, hash := some (Tree.rootsHash C cs.roots), signature := some u.signature } none h).2)

def bitOf (e : Entry) (b : Bitfield) : Bitfield :=
  match e.bitfield with
  | some u => b.setRange u.start u.length (!u.drop)
  | none => b

def hintOf (e : Entry) (h : Header) (b : Bitfield) : Header :=
  match e.bitfield with
  | some u => updateContiguous h (b.setRange u.start u.length (!u.drop)) u
  | none => h

theorem replayEntry_eq (C : Crypto) (d : Disk) (ol : Oplog.State) (h : Header) (t : Tree) (b : Bitfield) (e : Entry) :
    replayEntry C d (ol, h, t, b) e = (match treePart C d t e with
      | .error x => .error x
      | .ok (t', f) => .ok (ol, f (hintOf e h b), t', bitOf e b)) := by
  obtain ⟨ud, nodes, up, bf⟩ := e
  cases up with
  | none => cases bf <;> simp only [replayEntry, treePart, hintOf, bitOf, id]
  | some u =>
    cases bf <;> simp only [replayEntry, treePart, hintOf, bitOf]
    all_goals
      generalize List.foldl addNode t nodes = t0
      cases t0.truncate d.tree u.length u.fork with
      | error x => rfl
      | ok cs =>
        simp only []
        by_cases hs : u.signature.length ≠ 64
        · rw [if_pos hs, if_pos hs]
        · rw [if_neg hs, if_neg hs]
          cases t0.commit { cs with ancestors := u.ancestors, hash := some (Tree.rootsHash C cs.roots), signature := some u.signature } with
          | error x => rfl
          | ok t' => rfl

/-- the two headers agree except for the contiguous-length hint -/
def AgreeExc (h1 h2 : Header) : Prop := ({ h1 with contiguous := 0 } : Header) = { h2 with contiguous := 0 }

theorem agreeExc_refl (h : Header) : AgreeExc h h := rfl

theorem agreeExc_eq (h1 h2 : Header) (h : AgreeExc h1 h2) (hc : h1.contiguous = h2.contiguous) : h1 = h2 := by
  cases h1; cases h2
  simp only [AgreeExc, Header.mk.injEq] at h
  simp only at hc
  simp only [Header.mk.injEq]
  obtain ⟨a1, a2, a3, a4, a5, a6, a7, a8, _⟩ := h
  exact ⟨a1, a2, a3, a4, a5, a6, a7, a8, hc⟩

/-- a header update of `treePart` touches the tree section only -/
def HdrFun (f : Header → Header) : Prop := ∀ h1 h2, AgreeExc h1 h2 → AgreeExc (f h1) (f h2) ∧ (f h1).contiguous = h1.contiguous

theorem hdrFun_id : HdrFun id := fun _ _ h => ⟨h, rfl⟩

theorem hdrFun_entryOf (cs : Changeset) : HdrFun (fun h => (entryOf cs none h).2) := by
  intro h1 h2 h
  cases h1; cases h2
  simp only [AgreeExc, Header.mk.injEq] at h
  obtain ⟨a1, a2, a3, a4, a5, a6, a7, a8, _⟩ := h
  subst a1 a2 a3 a4 a5 a6 a7 a8
  simp only [entryOf]
  split <;> exact ⟨rfl, rfl⟩

theorem treePart_hdrFun (C : Crypto) (d : Disk) (t t' : Tree) (e : Entry) (f : Header → Header)
    (h : treePart C d t e = .ok (t', f)) : HdrFun f := by
  obtain ⟨ud, nodes, up, bf⟩ := e
  cases up with
  | none =>
    simp only [treePart] at h
    cases h; exact hdrFun_id
  | some u =>
    simp only [treePart] at h
    generalize List.foldl addNode t nodes = t0 at h
    cases htr : t0.truncate d.tree u.length u.fork with
    | error x => rw [htr] at h; cases h
    | ok cs =>
      rw [htr] at h
      simp only [] at h
      by_cases hs : u.signature.length ≠ 64
      · rw [if_pos hs] at h; cases h
      · rw [if_neg hs] at h
        cases hcm : t0.commit { cs with ancestors := u.ancestors, hash := some (Tree.rootsHash C cs.roots), signature := some u.signature } with
        | error x => rw [hcm] at h; cases h
        | ok t2 =>
          rw [hcm] at h
          cases h
          exact hdrFun_entryOf _

theorem hintOf_agree (e : Entry) (h1 h2 : Header) (b1 b2 : Bitfield) (h : AgreeExc h1 h2) : AgreeExc (hintOf e h1 b1) (hintOf e h2 b2) := by
  unfold hintOf
  cases e.bitfield with
  | none => exact h
  | some u =>
    simp only
    rw [Reopen.updateContiguous_eq h1, Reopen.updateContiguous_eq h2]
    exact h

/-- the hint as a function of the old hint -/
def contigOf (c : Nat) (b : Bitfield) (u : BitfieldUpdate) : Nat :=
  if u.drop then (if c > u.start then u.start else c)
  else if c ≤ u.start + u.length ∧ c ≥ u.start then updateContiguous.scan b (b.bits.size + 1) (u.start + u.length) else c

theorem updateContiguous_contig (h : Header) (b : Bitfield) (u : BitfieldUpdate) :
    (updateContiguous h b u).contiguous = contigOf h.contiguous b u := by
  simp only [updateContiguous, contigOf]
  split
  · split <;> rfl
  · split <;> rfl

def hintC (e : Entry) (c : Nat) (b : Bitfield) : Nat :=
  match e.bitfield with
  | some u => contigOf c (b.setRange u.start u.length (!u.drop)) u
  | none => c

theorem hintOf_contig (e : Entry) (h : Header) (b : Bitfield) : (hintOf e h b).contiguous = hintC e h.contiguous b := by
  unfold hintOf hintC
  cases e.bitfield with
  | none => rfl
  | some u => exact updateContiguous_contig h _ u

/-- the bit part of a whole replay -/
def bitRun : List Entry → Nat × Bitfield → Nat × Bitfield
  | [], s => s
  | e :: r, (c, b) => bitRun r (hintC e c b, bitOf e b)

/-- **two replays from the same tree**, over different bitfields and hints: the tree part is the same, the headers
    agree except for the hint, and bits and hint are those of the pure bit run -/
theorem replay_ahead (C : Crypto) (d : Disk) (ol : Oplog.State) : ∀ (es : List Entry) (h1 h2 : Header) (t : Tree) (b1 b2 : Bitfield)
    (h1' : Header) (t' : Tree) (b1' : Bitfield), AgreeExc h1 h2 →
    openCore.replay C d es (ol, h1, t, b1) = .ok (ol, h1', t', b1') →
    ∃ h2', openCore.replay C d es (ol, h2, t, b2) = .ok (ol, h2', t', (bitRun es (h2.contiguous, b2)).2) ∧ AgreeExc h1' h2'
      ∧ h2'.contiguous = (bitRun es (h2.contiguous, b2)).1
      ∧ h1'.contiguous = (bitRun es (h1.contiguous, b1)).1 ∧ b1' = (bitRun es (h1.contiguous, b1)).2 := by
  intro es
  induction es with
  | nil =>
    intro h1 h2 t b1 b2 h1' t' b1' hag hrun
    simp only [openCore.replay] at hrun
    cases hrun
    exact ⟨h2, rfl, hag, rfl, rfl, rfl⟩
  | cons e r ih =>
    intro h1 h2 t b1 b2 h1' t' b1' hag hrun
    simp only [openCore.replay, replayEntry_eq] at hrun ⊢
    cases htp : treePart C d t e with
    | error x => rw [htp] at hrun; cases hrun
    | ok p =>
      obtain ⟨t1, f⟩ := p
      rw [htp] at hrun
      simp only at hrun ⊢
      have hf := treePart_hdrFun C d t t1 e f htp
      have hag1 := (hf _ _ (hintOf_agree e h1 h2 b1 b2 hag)).1
      obtain ⟨h2', r1, r2, r3, r4, r5⟩ := ih (f (hintOf e h1 b1)) (f (hintOf e h2 b2)) t1 (bitOf e b1) (bitOf e b2) h1' t' b1' hag1 hrun
      have c1 : (f (hintOf e h1 b1)).contiguous = hintC e h1.contiguous b1 := by
        rw [(hf _ _ (agreeExc_refl _)).2, hintOf_contig]
      have c2 : (f (hintOf e h2 b2)).contiguous = hintC e h2.contiguous b2 := by
        rw [(hf _ _ (agreeExc_refl _)).2, hintOf_contig]
      rw [c1] at r4 r5
      rw [c2] at r1 r3
      exact ⟨h2', r1, r2, r3, r4, r5⟩

/-! ### the bit part: entries that only set bits tolerate a bitfield store that is ahead -/

/-- the entry makes `update_contiguous_length` look again when the hint is `c` -/
def Trig (e : Entry) (c : Nat) : Prop := ∃ u, e.bitfield = some u ∧ u.start ≤ c ∧ c ≤ u.start + u.length

theorem Touches.trig {e : Entry} {i : Nat} (h : Touches e i) : Trig e i := by
  obtain ⟨u, h1, h2, h3⟩ := h
  exact ⟨u, h1, h2, by omega⟩

theorem bitOf_get (e : Entry) (b : Bitfield) (hset : ∀ u, e.bitfield = some u → u.drop = false) (i : Nat) :
    (bitOf e b).get i = true ↔ b.get i = true ∨ Touches e i := by
  unfold bitOf
  cases hb : e.bitfield with
  | none =>
    simp only
    constructor
    · intro h; exact Or.inl h
    · rintro (h | ⟨u, hu, _⟩)
      · exact h
      · rw [hb] at hu; cases hu
  | some u =>
    simp only
    rw [Bitfield.get_setRange, hset u hb]
    constructor
    · intro h
      split at h
      · rename_i hin; exact Or.inr ⟨u, hb, hin.1, hin.2⟩
      · exact Or.inl h
    · rintro (h | ⟨u', hu', h1, h2⟩)
      · split
        · rfl
        · exact h
      · rw [hb] at hu'; cases hu'
        rw [if_pos ⟨h1, h2⟩]; rfl

theorem bitRun_bits : ∀ (es : List Entry), SetOnly es → ∀ (c : Nat) (b : Bitfield) (i : Nat),
    (bitRun es (c, b)).2.get i = true ↔ b.get i = true ∨ ∃ e ∈ es, Touches e i := by
  intro es
  induction es with
  | nil =>
    intro _ c b i
    simp only [bitRun]
    constructor
    · intro h; exact Or.inl h
    · rintro (h | ⟨e, he, _⟩)
      · exact h
      · cases he
  | cons e r ih =>
    intro hset c b i
    simp only [bitRun]
    rw [ih (fun x hx => hset x (by simp [hx])) _ _ i, bitOf_get e b (hset e (by simp)) i]
    constructor
    · rintro ((h | h) | ⟨x, hx, h⟩)
      · exact Or.inl h
      · exact Or.inr ⟨e, by simp, h⟩
      · exact Or.inr ⟨x, by simp [hx], h⟩
    · rintro (h | ⟨x, hx, h⟩)
      · exact Or.inl (Or.inl h)
      · rcases List.mem_cons.mp hx with rfl | hx
        · exact Or.inl (Or.inr h)
        · exact Or.inr ⟨x, hx, h⟩

/-- **the hint comes out exact**: if everything below the hint is held and the hint is not stuck — whenever its own
    bit is held, an entry still to come makes the scan start again — then after the run the hint is the first
    missing index -/
theorem bitRun_exact : ∀ (es : List Entry), SetOnly es → ∀ (c : Nat) (b : Bitfield),
    (∀ i, i < c → b.get i = true) → (b.get c = true → ∃ e ∈ es, Trig e c) →
    FirstMissing (bitRun es (c, b)).2 (bitRun es (c, b)).1 := by
  intro es
  induction es with
  | nil =>
    intro _ c b h1 h2
    simp only [bitRun]
    refine ⟨h1, ?_⟩
    cases hc : b.get c with
    | false => rfl
    | true => obtain ⟨e, he, _⟩ := h2 hc; cases he
  | cons e r ih =>
    intro hset c b h1 h2
    simp only [bitRun]
    have hsetr : SetOnly r := fun x hx => hset x (by simp [hx])
    apply ih hsetr
    · -- everything below the new hint is held
      intro i hi
      unfold hintC at hi
      unfold bitOf
      cases hb : e.bitfield with
      | none =>
        rw [hb] at hi
        exact h1 i hi
      | some u =>
        rw [hb] at hi
        simp only at hi ⊢
        have hd := hset e (by simp) u hb
        rw [hd] at hi ⊢
        simp only [Bool.not_false] at hi ⊢
        rw [Bitfield.get_setRange]
        unfold contigOf at hi
        rw [hd] at hi
        simp only [Bool.false_eq_true, ite_false] at hi
        split
        · rfl
        · rename_i hout
          split at hi
          · rename_i htr
            obtain ⟨s1, _, _⟩ := Core.scan_spec (b.setRange u.start u.length true) ((b.setRange u.start u.length true).bits.size + 1) (u.start + u.length) (by omega)
            by_cases hlt : i < u.start
            · exact h1 i (by omega)
            · have := s1 i (by omega) hi
              rw [Bitfield.get_setRange, if_neg hout] at this
              exact this
          · exact h1 i hi
    · -- the new hint is not stuck
      intro hheld
      unfold hintC at hheld ⊢
      unfold bitOf at hheld
      cases hb : e.bitfield with
      | none =>
        rw [hb] at hheld
        simp only at hheld ⊢
        obtain ⟨x, hx, ht⟩ := h2 hheld
        rcases List.mem_cons.mp hx with rfl | hx
        · obtain ⟨u, hu, _⟩ := ht
          rw [hb] at hu; cases hu
        · exact ⟨x, hx, ht⟩
      | some u =>
        rw [hb] at hheld
        simp only at hheld ⊢
        have hd := hset e (by simp) u hb
        rw [hd] at hheld ⊢
        simp only [Bool.not_false] at hheld ⊢
        unfold contigOf at hheld ⊢
        rw [hd] at hheld ⊢
        simp only [Bool.false_eq_true, ite_false] at hheld ⊢
        split at hheld
        · rename_i htr
          rw [if_pos htr]
          obtain ⟨_, s2, _⟩ := Core.scan_spec (b.setRange u.start u.length true) ((b.setRange u.start u.length true).bits.size + 1) (u.start + u.length) (by omega)
          rw [s2] at hheld; cases hheld
        · rename_i htr
          rw [if_neg htr]
          rw [Bitfield.get_setRange] at hheld
          split at hheld
          · rename_i hin; exfalso; apply htr; omega
          · obtain ⟨x, hx, ht⟩ := h2 hheld
            rcases List.mem_cons.mp hx with rfl | hx
            · obtain ⟨u', hu', t1, t2⟩ := ht
              rw [hb] at hu'; cases hu'
              exfalso; apply htr; omega
            · exact ⟨x, hx, ht⟩

/-! ### the tree part: a tree store that gained nodes answers every successful lookup as before -/

/-- every non-blank node of `f` is in `f'` at the same slot -/
def FileExt (f f' : File) : Prop := ∀ i n, ({} : Tree).node? f i = some n → ({} : Tree).node? f' i = some n

theorem fileExt_refl (f : File) : FileExt f f := fun _ _ h => h

theorem node?_split (t : Tree) (f : File) (i : Nat) :
    t.node? f i = (match t.unflushed[i]? with
      | some n => if n.blank then none else some n
      | none => ({} : Tree).node? f i) := by
  simp only [Tree.node?, Std.HashMap.getElem?_empty]
  cases t.unflushed[i]? <;> rfl

theorem node?_ext (t : Tree) (f f' : File) (h : FileExt f f') (i : Nat) (n : Node) (hn : t.node? f i = some n) : t.node? f' i = some n := by
  rw [node?_split] at hn ⊢
  cases hu : t.unflushed[i]? with
  | some x => rw [hu] at hn; exact hn
  | none => rw [hu] at hn; exact h i n hn

theorem requiredNode_ext (t : Tree) (f f' : File) (h : FileExt f f') (i : Nat) (n : Node) (hn : t.requiredNode f i = .ok n) :
    t.requiredNode f' i = .ok n := by
  unfold Tree.requiredNode at hn ⊢
  cases hl : t.node? f i with
  | none => rw [hl] at hn; cases hn
  | some x =>
    rw [hl] at hn
    rw [node?_ext t f f' h i x hl]
    exact hn

theorem truncate_go_ext (t : Tree) (f f' : File) (h : FileExt f f') : ∀ (rs : List Nat) (i : Nat) (acc out : List Node),
    Tree.truncate.go t f rs i acc = .ok out → Tree.truncate.go t f' rs i acc = .ok out := by
  intro rs
  induction rs with
  | nil => intro i acc out hgo; exact hgo
  | cons r rs ih =>
    intro i acc out hgo
    simp only [Tree.truncate.go] at hgo ⊢
    split
    · rename_i hc
      rw [if_pos hc] at hgo
      exact ih _ _ _ hgo
    · rename_i hc
      rw [if_neg hc] at hgo
      cases hr : t.requiredNode f r with
      | error x => rw [hr] at hgo; cases hgo
      | ok n =>
        rw [hr] at hgo
        rw [requiredNode_ext t f f' h r n hr]
        exact ih _ _ _ hgo

theorem truncate_ext (t : Tree) (f f' : File) (h : FileExt f f') (len fork : Nat) (cs : Changeset)
    (hcs : t.truncate f len fork = .ok cs) : t.truncate f' len fork = .ok cs := by
  unfold Tree.truncate at hcs ⊢
  cases hgo : Tree.truncate.go t f (fullRoots (len * 2)) 0 t.roots with
  | error x => simp only [hgo] at hcs; cases hcs
  | ok out =>
    simp only [hgo] at hcs
    simp only [truncate_go_ext t f f' h _ _ _ _ hgo]
    exact hcs

theorem treePart_ext (C : Crypto) (d d' : Disk) (h : FileExt d.tree d'.tree) (t : Tree) (e : Entry) (x : Tree × (Header → Header))
    (hx : treePart C d t e = .ok x) : treePart C d' t e = .ok x := by
  obtain ⟨ud, nodes, up, bf⟩ := e
  cases up with
  | none => exact hx
  | some u =>
    simp only [treePart] at hx ⊢
    generalize List.foldl addNode t nodes = t0 at hx ⊢
    cases htr : t0.truncate d.tree u.length u.fork with
    | error y => rw [htr] at hx; cases hx
    | ok cs =>
      rw [htr] at hx
      rw [truncate_ext t0 d.tree d'.tree h u.length u.fork cs htr]
      exact hx

theorem replay_ext (C : Crypto) (d d' : Disk) (h : FileExt d.tree d'.tree) : ∀ (es : List Entry) (st st' : Oplog.State × Header × Tree × Bitfield),
    openCore.replay C d es st = .ok st' → openCore.replay C d' es st = .ok st' := by
  intro es
  induction es with
  | nil => intro st st' hs; exact hs
  | cons e r ih =>
    intro st st' hs
    obtain ⟨ol, hh, t, b⟩ := st
    simp only [openCore.replay, replayEntry_eq] at hs ⊢
    cases htp : treePart C d t e with
    | error x => rw [htp] at hs; cases hs
    | ok p =>
      rw [htp] at hs
      rw [treePart_ext C d d' h t e p htp]
      obtain ⟨t1, f⟩ := p
      simp only at hs ⊢
      exact ih _ _ hs

/-! ### crash images of a replica -/

/-- the stores `d` are a crash image of a replica of the first `m` blocks that holds `held`: there is a (ghost) core
    `c` that represents that state over `d` and satisfies the ghost invariant with `OpImage` in place of `OpInv` -/
structure DurG (C : Crypto) (bs : Array Bytes) (m : Nat) (held : Nat → Bool) (d : Disk) (c : Core) (hf : Header) (es : List Entry) : Prop where
  rep : RepRAt C bs m c d held
  oplog : OpImage d.oplog hf es
  replay : Replays C c d hf es
  bfSize : d.bitfield.size % Spec.pageBytes = 0
  dirty : ∀ i, c.bitfield.get i ≠ (Bitfield.ofFile d.bitfield).get i → i / Spec.pageBits ∈ c.bitfield.dirty
  shape : HdrShape c.header
  hdrLen : c.header.tree.length = c.tree.length
  hdrFork : c.header.tree.fork = c.tree.fork
  hdrSig : c.tree.signature = (if c.header.tree.signature.isEmpty then none else some c.header.tree.signature)
  hdrSigLen : c.header.tree.signature = [] ∨ c.header.tree.signature.length = 64
  keys : c.header.publicKey = c.publicKey ∧ c.header.secret = c.secret
  extra : Extra C bs c d hf es
  size : bs.size < 2 ^ 62

def DurR (C : Crypto) (bs : Array Bytes) (m : Nat) (held : Nat → Bool) (d : Disk) (pk : Bytes) (fork : Nat) : Prop :=
  ∃ c hf es, DurG C bs m held d c hf es ∧ c.publicKey = pk ∧ c.tree.fork = fork

/-- the stores of a live replica are a crash image of its state -/
theorem rp_durR (C : Crypto) (bs : Array Bytes) (m : Nat) (c : Core) (d : Disk) (held : Nat → Bool) (h : RP C bs m c d held) :
    DurR C bs m held d c.publicKey c.tree.fork := by
  obtain ⟨hf, es, hp, hx⟩ := h.per
  exact ⟨c, hf, es, ⟨h.rep, opimage_of_inv c.oplog d.oplog hf es hp.oplog, hp.replay, hp.bfSize, hp.dirty, hp.shape, hp.hdrLen, hp.hdrFork,
    hp.hdrSig, hp.hdrSigLen, hp.keys, hx, h.size⟩, rfl, rfl⟩

/-- **recovery**: `Hypercore::new` on a crash image succeeds and yields a replica in that state, with all invariants -/
theorem durR_open (C : Crypto) (bs : Array Bytes) (m : Nat) (held : Nat → Bool) (d : Disk) (pk : Bytes) (fork : Nat)
    (h : DurR C bs m held d pk fork) :
    ∃ c' j, openCore C none d = .ok (c', j) ∧ RP C bs m c' (d.applyAll j) held ∧ c'.publicKey = pk ∧ c'.tree.fork = fork := by
  obtain ⟨c, hf, es, hg, hpk, hfk⟩ := h
  obtain ⟨ost, ops, hopen, hops, hinv⟩ := opimage_open d.oplog hf es hg.oplog
  obtain ⟨T0, hT0, hrep⟩ := hg.replay
  obtain ⟨b, hb1, hb2, hb3⟩ := hrep ost
  have hd1t : (d.applyAll ops).tree = d.tree := LiveRefine.tree_of_applyAll _ _ (fun op hop => by rw [hops op hop]; decide)
  have hd1d : (d.applyAll ops).data = d.data := LiveRefine.data_of_applyAll _ _ (fun op hop => by rw [hops op hop]; decide)
  have hd1b : (d.applyAll ops).bitfield = d.bitfield := by
    have := Journal.applyAll_other d ops .bitfield (fun op hop => by rw [hops op hop]; decide)
    simpa [Disk.get] using this
  have hd1o : (d.applyAll ops).oplog = ops.foldl (fun g op => op.onFile g) d.oplog := by
    have := Persist.applyAll_last_only d [] ops .oplog (fun op hop => by cases hop) hops
    simpa [Disk.get] using this
  have hr := hg.rep
  refine ⟨{ publicKey := c.header.publicKey, secret := c.header.secret, oplog := ost, header := c.header, tree := c.tree, bitfield := { b with dirty := b.dirty }, skipFlush := 0 }, ops, ?_, ⟨?_, ⟨hf, es, ?_, ?_⟩, hg.size⟩, ?_, hfk⟩
  · simp only [openCore, hopen, hd1t, hd1b, hT0]
    rw [replay_congr C d (d.applyAll ops) hd1t, hb1]
  · exact ⟨hr.le, by rw [hd1t]; exact hr.closed, hr.roots, hr.bytes, hr.mapwf, by rw [hd1t]; exact hr.aligned,
      fun i => by rw [← hr.bits i]; exact hb2 i, hr.heldLt, by rw [hd1t]; exact hr.leaf, by rw [hd1d]; exact hr.data,
      ⟨fun i hi => by show b.get i = true; rw [hb2]; exact hr.contig.1 i hi, by show b.get _ = false; rw [hb2]; exact hr.contig.2⟩, hr.small⟩
  · refine ⟨by rw [hd1o]; exact hinv, ⟨T0, by rw [hd1t]; exact hT0, fun ol => ?_⟩, by rw [hd1b]; exact hg.bfSize, by rw [hd1b]; exact hb3,
      hg.shape, hg.hdrLen, hg.hdrFork, hg.hdrSig, hg.hdrSigLen, ⟨rfl, rfl⟩⟩
    obtain ⟨b', e1, e2, e3⟩ := hrep ol
    rw [replay_congr C d (d.applyAll ops) hd1t, hd1b]
    exact ⟨b', e1, fun i => by rw [e2]; exact (hb2 i).symm, e3⟩
  · obtain ⟨B0, g1, g2, g3⟩ := hg.extra.ghost
    refine ⟨hg.extra.setOnly, ⟨B0, g1, by rw [hd1b]; exact g2, fun i hi => g3 i (by rw [← hb2 i]; exact hi)⟩,
      by rw [hd1t]; exact hg.extra.fileRef, hg.extra.unflRef, by rw [hd1t]; exact hg.extra.rootsStored⟩
  · rw [← hpk]; exact hg.keys.1

end HC.ReplicaCrash
