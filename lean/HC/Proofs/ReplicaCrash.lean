import HC.Proofs.ReplicaReopen
import HC.Proofs.BlockGrow
import HC.Proofs.BlockGrowGen
import HC.Proofs.Crash
/-!
A replica that dies in the middle of a proof application (C02 "proof applications on a replica").

The journal of one application is: the block's data write (block proofs only), the oplog entry, and — when the
periodic flush is due — the dirty bitfield pages, the unflushed tree nodes, the header and the truncation of the
entry region.  `crash_act`: for **every prefix** of that journal the stores are `DurR` for the replica's state
before the application or for its state after it; `durR_open`: `Hypercore::new` on `DurR` stores succeeds and
yields a core that satisfies `RP` (replica invariant and ghost invariant) for that state, so the recovered
replica goes on, can be reopened, and can crash again.

What makes the middle states recoverable:
* a cut inside the page writes leaves a bitfield store that is *ahead* of the header (some pages hold bits the
  replay is going to set again); the replica's entries only set bits, so the replayed bitfield is the same, and
  the contiguous-length hint comes out exact because it is never stuck on a held bit (`bitRun_exact`);
* a cut inside the node writes leaves a tree store with more reference nodes than before (`FileExt`): every
  lookup the replay makes answers as before (`replay_ext`);
* a cut between the header write and the truncation is `OpImage`'s second case.
-/
namespace HC.ReplicaCrash
open HC HC.Codec HC.Flat HC.Tree HC.RefTree HC.RefProof HC.Sound HC.Offsets HC.TreeStore HC.Complete HC.UpgradeSound HC.CreateTotal
  HC.Replica HC.Growth HC.HashReq HC.Oplog HC.Core HC.OplogBytes HC.FormatLimits HC.BitfieldPages HC.ReplicaReopen HC.Touch

/-! ### the replay of one entry: a tree part and a bit part that do not see each other -/

/-- the tree part of `replayEntry`: the new tree and what it does to the header -/
def treePart (C : Crypto) (d : Disk) (t : Tree) (e : Entry) : R (Tree × (Header → Header)) :=
  let t := e.treeNodes.foldl Tree.addNode t
  match e.treeUpgrade with
  | none => .ok (t, id)
  | some u =>
    match t.truncate d.tree u.length u.fork with
    | .error x => .error x
    | .ok cs =>
      if u.signature.length ≠ 64 then .error .err else
      match t.commit { cs with ancestors := u.ancestors, hash := some (Tree.rootsHash C cs.roots), signature := some u.signature } with
      | .error x => .error x
      | .ok t' => .ok (t', fun h => (entryOf { cs with ancestors := u.ancestors, hash := some (Tree.rootsHash C cs.roots), signature := some u.signature } none h).2)

def bitOf (e : Entry) (b : Bitfield) : Bitfield :=
  match e.bitfield with
  | some u => b.setRange u.start u.length (!u.drop)
  | none => b

def hintOf (e : Entry) (h : Header) (b : Bitfield) : Header :=
  match e.bitfield with
  | some u => updateContiguous h (b.setRange u.start u.length (!u.drop)) u
  | none => h

theorem replayEntry_eq (C : Crypto) (d : Disk) (ol : Oplog.State) (h : Header) (t : Tree) (b : Bitfield) (e : Entry) :
    replayEntry C d (ol, h, t, b) e = (match treePart C d t e with
      | .error x => .error x
      | .ok (t', f) => .ok (ol, f (hintOf e h b), t', bitOf e b)) := by
  obtain ⟨ud, nodes, up, bf⟩ := e
  cases up with
  | none => cases bf <;> simp only [replayEntry, treePart, hintOf, bitOf, id]
  | some u =>
    cases bf <;> simp only [replayEntry, treePart, hintOf, bitOf]
    all_goals
      generalize List.foldl addNode t nodes = t0
      cases t0.truncate d.tree u.length u.fork with
      | error x => rfl
      | ok cs =>
        simp only []
        by_cases hs : u.signature.length ≠ 64
        · rw [if_pos hs, if_pos hs]
        · rw [if_neg hs, if_neg hs]
          cases t0.commit { cs with ancestors := u.ancestors, hash := some (Tree.rootsHash C cs.roots), signature := some u.signature } with
          | error x => rfl
          | ok t' => rfl

/-- the two headers agree except for the contiguous-length hint -/
def AgreeExc (h1 h2 : Header) : Prop := ({ h1 with contiguous := 0 } : Header) = { h2 with contiguous := 0 }

theorem agreeExc_refl (h : Header) : AgreeExc h h := rfl

theorem agreeExc_eq (h1 h2 : Header) (h : AgreeExc h1 h2) (hc : h1.contiguous = h2.contiguous) : h1 = h2 := by
  cases h1; cases h2
  simp only [AgreeExc, Header.mk.injEq] at h
  simp only at hc
  simp only [Header.mk.injEq]
  obtain ⟨a1, a2, a3, a4, a5, a6, a7, a8, _⟩ := h
  exact ⟨a1, a2, a3, a4, a5, a6, a7, a8, hc⟩

/-- a header update of `treePart` touches the tree section only -/
def HdrFun (f : Header → Header) : Prop := ∀ h1 h2, AgreeExc h1 h2 → AgreeExc (f h1) (f h2) ∧ (f h1).contiguous = h1.contiguous

theorem hdrFun_id : HdrFun id := fun _ _ h => ⟨h, rfl⟩

theorem hdrFun_entryOf (cs : Changeset) : HdrFun (fun h => (entryOf cs none h).2) := by
  intro h1 h2 h
  cases h1; cases h2
  simp only [AgreeExc, Header.mk.injEq] at h
  obtain ⟨a1, a2, a3, a4, a5, a6, a7, a8, _⟩ := h
  subst a1 a2 a3 a4 a5 a6 a7 a8
  simp only [entryOf]
  split <;> exact ⟨rfl, rfl⟩

theorem treePart_hdrFun (C : Crypto) (d : Disk) (t t' : Tree) (e : Entry) (f : Header → Header)
    (h : treePart C d t e = .ok (t', f)) : HdrFun f := by
  obtain ⟨ud, nodes, up, bf⟩ := e
  cases up with
  | none =>
    simp only [treePart] at h
    cases h; exact hdrFun_id
  | some u =>
    simp only [treePart] at h
    generalize List.foldl addNode t nodes = t0 at h
    cases htr : t0.truncate d.tree u.length u.fork with
    | error x => rw [htr] at h; cases h
    | ok cs =>
      rw [htr] at h
      simp only [] at h
      by_cases hs : u.signature.length ≠ 64
      · rw [if_pos hs] at h; cases h
      · rw [if_neg hs] at h
        cases hcm : t0.commit { cs with ancestors := u.ancestors, hash := some (Tree.rootsHash C cs.roots), signature := some u.signature } with
        | error x => rw [hcm] at h; cases h
        | ok t2 =>
          rw [hcm] at h
          cases h
          exact hdrFun_entryOf _

theorem hintOf_agree (e : Entry) (h1 h2 : Header) (b1 b2 : Bitfield) (h : AgreeExc h1 h2) : AgreeExc (hintOf e h1 b1) (hintOf e h2 b2) := by
  unfold hintOf
  cases e.bitfield with
  | none => exact h
  | some u =>
    simp only
    rw [Reopen.updateContiguous_eq h1, Reopen.updateContiguous_eq h2]
    exact h

/-- the hint as a function of the old hint -/
def contigOf (c : Nat) (b : Bitfield) (u : BitfieldUpdate) : Nat :=
  if u.drop then (if c > u.start then u.start else c)
  else if c ≤ u.start + u.length ∧ c ≥ u.start then updateContiguous.scan b (b.bits.size + 1) (u.start + u.length) else c

theorem updateContiguous_contig (h : Header) (b : Bitfield) (u : BitfieldUpdate) :
    (updateContiguous h b u).contiguous = contigOf h.contiguous b u := by
  simp only [updateContiguous, contigOf]
  split
  · split <;> rfl
  · split <;> rfl

def hintC (e : Entry) (c : Nat) (b : Bitfield) : Nat :=
  match e.bitfield with
  | some u => contigOf c (b.setRange u.start u.length (!u.drop)) u
  | none => c

theorem hintOf_contig (e : Entry) (h : Header) (b : Bitfield) : (hintOf e h b).contiguous = hintC e h.contiguous b := by
  unfold hintOf hintC
  cases e.bitfield with
  | none => rfl
  | some u => exact updateContiguous_contig h _ u

/-- the bit part of a whole replay -/
def bitRun : List Entry → Nat × Bitfield → Nat × Bitfield
  | [], s => s
  | e :: r, (c, b) => bitRun r (hintC e c b, bitOf e b)

/-- **two replays from the same tree**, over different bitfields and hints: the tree part is the same, the headers
    agree except for the hint, and bits and hint are those of the pure bit run -/
theorem replay_ahead (C : Crypto) (d : Disk) (ol : Oplog.State) : ∀ (es : List Entry) (h1 h2 : Header) (t : Tree) (b1 b2 : Bitfield)
    (h1' : Header) (t' : Tree) (b1' : Bitfield), AgreeExc h1 h2 →
    openCore.replay C d es (ol, h1, t, b1) = .ok (ol, h1', t', b1') →
    ∃ h2', openCore.replay C d es (ol, h2, t, b2) = .ok (ol, h2', t', (bitRun es (h2.contiguous, b2)).2) ∧ AgreeExc h1' h2'
      ∧ h2'.contiguous = (bitRun es (h2.contiguous, b2)).1
      ∧ h1'.contiguous = (bitRun es (h1.contiguous, b1)).1 ∧ b1' = (bitRun es (h1.contiguous, b1)).2 := by
  intro es
  induction es with
  | nil =>
    intro h1 h2 t b1 b2 h1' t' b1' hag hrun
    simp only [openCore.replay] at hrun
    cases hrun
    exact ⟨h2, rfl, hag, rfl, rfl, rfl⟩
  | cons e r ih =>
    intro h1 h2 t b1 b2 h1' t' b1' hag hrun
    simp only [openCore.replay, replayEntry_eq] at hrun ⊢
    cases htp : treePart C d t e with
    | error x => rw [htp] at hrun; cases hrun
    | ok p =>
      obtain ⟨t1, f⟩ := p
      rw [htp] at hrun
      simp only at hrun ⊢
      have hf := treePart_hdrFun C d t t1 e f htp
      have hag1 := (hf _ _ (hintOf_agree e h1 h2 b1 b2 hag)).1
      obtain ⟨h2', r1, r2, r3, r4, r5⟩ := ih (f (hintOf e h1 b1)) (f (hintOf e h2 b2)) t1 (bitOf e b1) (bitOf e b2) h1' t' b1' hag1 hrun
      have c1 : (f (hintOf e h1 b1)).contiguous = hintC e h1.contiguous b1 := by
        rw [(hf _ _ (agreeExc_refl _)).2, hintOf_contig]
      have c2 : (f (hintOf e h2 b2)).contiguous = hintC e h2.contiguous b2 := by
        rw [(hf _ _ (agreeExc_refl _)).2, hintOf_contig]
      rw [c1] at r4 r5
      rw [c2] at r1 r3
      exact ⟨h2', r1, r2, r3, r4, r5⟩

/-! ### the bit part: entries that only set bits tolerate a bitfield store that is ahead -/

/-- the entry makes `update_contiguous_length` look again when the hint is `c` -/
def Trig (e : Entry) (c : Nat) : Prop := ∃ u, e.bitfield = some u ∧ u.start ≤ c ∧ c ≤ u.start + u.length

theorem Touches.trig {e : Entry} {i : Nat} (h : Touches e i) : Trig e i := by
  obtain ⟨u, h1, h2, h3⟩ := h
  exact ⟨u, h1, h2, by omega⟩

theorem bitOf_get (e : Entry) (b : Bitfield) (hset : ∀ u, e.bitfield = some u → u.drop = false) (i : Nat) :
    (bitOf e b).get i = true ↔ b.get i = true ∨ Touches e i := by
  unfold bitOf
  cases hb : e.bitfield with
  | none =>
    simp only
    constructor
    · intro h; exact Or.inl h
    · rintro (h | ⟨u, hu, _⟩)
      · exact h
      · rw [hb] at hu; cases hu
  | some u =>
    simp only
    rw [Bitfield.get_setRange, hset u hb]
    constructor
    · intro h
      split at h
      · rename_i hin; exact Or.inr ⟨u, hb, hin.1, hin.2⟩
      · exact Or.inl h
    · rintro (h | ⟨u', hu', h1, h2⟩)
      · split
        · rfl
        · exact h
      · rw [hb] at hu'; cases hu'
        rw [if_pos ⟨h1, h2⟩]; rfl

theorem bitRun_bits : ∀ (es : List Entry), SetOnly es → ∀ (c : Nat) (b : Bitfield) (i : Nat),
    (bitRun es (c, b)).2.get i = true ↔ b.get i = true ∨ ∃ e ∈ es, Touches e i := by
  intro es
  induction es with
  | nil =>
    intro _ c b i
    simp only [bitRun]
    constructor
    · intro h; exact Or.inl h
    · rintro (h | ⟨e, he, _⟩)
      · exact h
      · cases he
  | cons e r ih =>
    intro hset c b i
    simp only [bitRun]
    rw [ih (fun x hx => hset x (by simp [hx])) _ _ i, bitOf_get e b (hset e (by simp)) i]
    constructor
    · rintro ((h | h) | ⟨x, hx, h⟩)
      · exact Or.inl h
      · exact Or.inr ⟨e, by simp, h⟩
      · exact Or.inr ⟨x, by simp [hx], h⟩
    · rintro (h | ⟨x, hx, h⟩)
      · exact Or.inl (Or.inl h)
      · rcases List.mem_cons.mp hx with rfl | hx
        · exact Or.inl (Or.inr h)
        · exact Or.inr ⟨x, hx, h⟩

/-- **the hint comes out exact**: if everything below the hint is held and the hint is not stuck — whenever its own
    bit is held, an entry still to come makes the scan start again — then after the run the hint is the first
    missing index -/
theorem bitRun_exact : ∀ (es : List Entry), SetOnly es → ∀ (c : Nat) (b : Bitfield),
    (∀ i, i < c → b.get i = true) → (b.get c = true → ∃ e ∈ es, Trig e c) →
    FirstMissing (bitRun es (c, b)).2 (bitRun es (c, b)).1 := by
  intro es
  induction es with
  | nil =>
    intro _ c b h1 h2
    simp only [bitRun]
    refine ⟨h1, ?_⟩
    cases hc : b.get c with
    | false => rfl
    | true => obtain ⟨e, he, _⟩ := h2 hc; cases he
  | cons e r ih =>
    intro hset c b h1 h2
    simp only [bitRun]
    have hsetr : SetOnly r := fun x hx => hset x (by simp [hx])
    apply ih hsetr
    · -- everything below the new hint is held
      intro i hi
      unfold hintC at hi
      unfold bitOf
      cases hb : e.bitfield with
      | none =>
        rw [hb] at hi
        exact h1 i hi
      | some u =>
        rw [hb] at hi
        simp only at hi ⊢
        have hd := hset e (by simp) u hb
        rw [hd] at hi ⊢
        simp only [Bool.not_false] at hi ⊢
        rw [Bitfield.get_setRange]
        unfold contigOf at hi
        rw [hd] at hi
        simp only [Bool.false_eq_true, ite_false] at hi
        split
        · rfl
        · rename_i hout
          split at hi
          · rename_i htr
            obtain ⟨s1, _, _⟩ := Core.scan_spec (b.setRange u.start u.length true) ((b.setRange u.start u.length true).bits.size + 1) (u.start + u.length) (by omega)
            by_cases hlt : i < u.start
            · exact h1 i (by omega)
            · have := s1 i (by omega) hi
              rw [Bitfield.get_setRange, if_neg hout] at this
              exact this
          · exact h1 i hi
    · -- the new hint is not stuck
      intro hheld
      unfold hintC at hheld ⊢
      unfold bitOf at hheld
      cases hb : e.bitfield with
      | none =>
        rw [hb] at hheld
        simp only at hheld ⊢
        obtain ⟨x, hx, ht⟩ := h2 hheld
        rcases List.mem_cons.mp hx with rfl | hx
        · obtain ⟨u, hu, _⟩ := ht
          rw [hb] at hu; cases hu
        · exact ⟨x, hx, ht⟩
      | some u =>
        rw [hb] at hheld
        simp only at hheld ⊢
        have hd := hset e (by simp) u hb
        rw [hd] at hheld ⊢
        simp only [Bool.not_false] at hheld ⊢
        unfold contigOf at hheld ⊢
        rw [hd] at hheld ⊢
        simp only [Bool.false_eq_true, ite_false] at hheld ⊢
        split at hheld
        · rename_i htr
          rw [if_pos htr]
          obtain ⟨_, s2, _⟩ := Core.scan_spec (b.setRange u.start u.length true) ((b.setRange u.start u.length true).bits.size + 1) (u.start + u.length) (by omega)
          rw [s2] at hheld; cases hheld
        · rename_i htr
          rw [if_neg htr]
          rw [Bitfield.get_setRange] at hheld
          split at hheld
          · rename_i hin; exfalso; apply htr; omega
          · obtain ⟨x, hx, ht⟩ := h2 hheld
            rcases List.mem_cons.mp hx with rfl | hx
            · obtain ⟨u', hu', t1, t2⟩ := ht
              rw [hb] at hu'; cases hu'
              exfalso; apply htr; omega
            · exact ⟨x, hx, ht⟩

/-! ### the tree part: a tree store that gained nodes answers every successful lookup as before -/

/-- every non-blank node of `f` is in `f'` at the same slot -/
def FileExt (f f' : File) : Prop := ∀ i n, ({} : Tree).node? f i = some n → ({} : Tree).node? f' i = some n

theorem fileExt_refl (f : File) : FileExt f f := fun _ _ h => h

theorem node?_split (t : Tree) (f : File) (i : Nat) :
    t.node? f i = (match t.unflushed[i]? with
      | some n => if n.blank then none else some n
      | none => ({} : Tree).node? f i) := by
  simp only [Tree.node?, Std.HashMap.getElem?_empty]
  cases t.unflushed[i]? <;> rfl

theorem node?_ext (t : Tree) (f f' : File) (h : FileExt f f') (i : Nat) (n : Node) (hn : t.node? f i = some n) : t.node? f' i = some n := by
  rw [node?_split] at hn ⊢
  cases hu : t.unflushed[i]? with
  | some x => rw [hu] at hn; exact hn
  | none => rw [hu] at hn; exact h i n hn

theorem requiredNode_ext (t : Tree) (f f' : File) (h : FileExt f f') (i : Nat) (n : Node) (hn : t.requiredNode f i = .ok n) :
    t.requiredNode f' i = .ok n := by
  unfold Tree.requiredNode at hn ⊢
  cases hl : t.node? f i with
  | none => rw [hl] at hn; cases hn
  | some x =>
    rw [hl] at hn
    rw [node?_ext t f f' h i x hl]
    exact hn

theorem truncate_go_ext (t : Tree) (f f' : File) (h : FileExt f f') : ∀ (rs : List Nat) (i : Nat) (acc out : List Node),
    Tree.truncate.go t f rs i acc = .ok out → Tree.truncate.go t f' rs i acc = .ok out := by
  intro rs
  induction rs with
  | nil => intro i acc out hgo; exact hgo
  | cons r rs ih =>
    intro i acc out hgo
    simp only [Tree.truncate.go] at hgo ⊢
    split
    · rename_i hc
      rw [if_pos hc] at hgo
      exact ih _ _ _ hgo
    · rename_i hc
      rw [if_neg hc] at hgo
      cases hr : t.requiredNode f r with
      | error x => rw [hr] at hgo; cases hgo
      | ok n =>
        rw [hr] at hgo
        rw [requiredNode_ext t f f' h r n hr]
        exact ih _ _ _ hgo

theorem truncate_ext (t : Tree) (f f' : File) (h : FileExt f f') (len fork : Nat) (cs : Changeset)
    (hcs : t.truncate f len fork = .ok cs) : t.truncate f' len fork = .ok cs := by
  unfold Tree.truncate at hcs ⊢
  cases hgo : Tree.truncate.go t f (fullRoots (len * 2)) 0 t.roots with
  | error x => simp only [hgo] at hcs; cases hcs
  | ok out =>
    simp only [hgo] at hcs
    simp only [truncate_go_ext t f f' h _ _ _ _ hgo]
    exact hcs

theorem treePart_ext (C : Crypto) (d d' : Disk) (h : FileExt d.tree d'.tree) (t : Tree) (e : Entry) (x : Tree × (Header → Header))
    (hx : treePart C d t e = .ok x) : treePart C d' t e = .ok x := by
  obtain ⟨ud, nodes, up, bf⟩ := e
  cases up with
  | none => exact hx
  | some u =>
    simp only [treePart] at hx ⊢
    generalize List.foldl addNode t nodes = t0 at hx ⊢
    cases htr : t0.truncate d.tree u.length u.fork with
    | error y => rw [htr] at hx; cases hx
    | ok cs =>
      rw [htr] at hx
      rw [truncate_ext t0 d.tree d'.tree h u.length u.fork cs htr]
      exact hx

theorem replay_ext (C : Crypto) (d d' : Disk) (h : FileExt d.tree d'.tree) : ∀ (es : List Entry) (st st' : Oplog.State × Header × Tree × Bitfield),
    openCore.replay C d es st = .ok st' → openCore.replay C d' es st = .ok st' := by
  intro es
  induction es with
  | nil => intro st st' hs; exact hs
  | cons e r ih =>
    intro st st' hs
    obtain ⟨ol, hh, t, b⟩ := st
    simp only [openCore.replay, replayEntry_eq] at hs ⊢
    cases htp : treePart C d t e with
    | error x => rw [htp] at hs; cases hs
    | ok p =>
      rw [htp] at hs
      rw [treePart_ext C d d' h t e p htp]
      obtain ⟨t1, f⟩ := p
      simp only at hs ⊢
      exact ih _ _ hs

/-! ### crash images of a replica -/

/-- the stores `d` are a crash image of a replica of the first `m` blocks that holds `held`: there is a (ghost) core
    `c` that represents that state over `d` and satisfies the ghost invariant with `OpImage` in place of `OpInv` -/
structure DurG (C : Crypto) (bs : Array Bytes) (m : Nat) (held : Nat → Bool) (d : Disk) (c : Core) (hf : Header) (es : List Entry) : Prop where
  rep : RepRAt C bs m c d held
  oplog : OpImage d.oplog hf es
  replay : Replays C c d hf es
  bfSize : d.bitfield.size % Spec.pageBytes = 0
  dirty : ∀ i, c.bitfield.get i ≠ (Bitfield.ofFile d.bitfield).get i → i / Spec.pageBits ∈ c.bitfield.dirty
  shape : HdrShape c.header
  hdrLen : c.header.tree.length = c.tree.length
  hdrFork : c.header.tree.fork = c.tree.fork
  hdrSig : c.tree.signature = (if c.header.tree.signature.isEmpty then none else some c.header.tree.signature)
  hdrSigLen : c.header.tree.signature = [] ∨ c.header.tree.signature.length = 64
  keys : c.header.publicKey = c.publicKey ∧ c.header.secret = c.secret
  extra : Extra C bs c d hf es
  size : bs.size < 2 ^ 62

def DurR (C : Crypto) (bs : Array Bytes) (m : Nat) (held : Nat → Bool) (d : Disk) (pk : Bytes) (fork : Nat) : Prop :=
  ∃ c hf es, DurG C bs m held d c hf es ∧ c.publicKey = pk ∧ c.tree.fork = fork

/-- the stores of a live replica are a crash image of its state -/
theorem rp_durR (C : Crypto) (bs : Array Bytes) (m : Nat) (c : Core) (d : Disk) (held : Nat → Bool) (h : RP C bs m c d held) :
    DurR C bs m held d c.publicKey c.tree.fork := by
  obtain ⟨hf, es, hp, hx⟩ := h.per
  exact ⟨c, hf, es, ⟨h.rep, opimage_of_inv c.oplog d.oplog hf es hp.oplog, hp.replay, hp.bfSize, hp.dirty, hp.shape, hp.hdrLen, hp.hdrFork,
    hp.hdrSig, hp.hdrSigLen, hp.keys, hx, h.size⟩, rfl, rfl⟩

/-- **recovery**: `Hypercore::new` on a crash image succeeds and yields a replica in that state, with all invariants -/
theorem durR_open (C : Crypto) (bs : Array Bytes) (m : Nat) (held : Nat → Bool) (d : Disk) (pk : Bytes) (fork : Nat)
    (h : DurR C bs m held d pk fork) :
    ∃ c' j, openCore C none d = .ok (c', j) ∧ RP C bs m c' (d.applyAll j) held ∧ c'.publicKey = pk ∧ c'.tree.fork = fork := by
  obtain ⟨c, hf, es, hg, hpk, hfk⟩ := h
  obtain ⟨ost, ops, hopen, hops, hinv⟩ := opimage_open d.oplog hf es hg.oplog
  obtain ⟨T0, hT0, hrep⟩ := hg.replay
  obtain ⟨b, hb1, hb2, hb3⟩ := hrep ost
  have hd1t : (d.applyAll ops).tree = d.tree := LiveRefine.tree_of_applyAll _ _ (fun op hop => by rw [hops op hop]; decide)
  have hd1d : (d.applyAll ops).data = d.data := LiveRefine.data_of_applyAll _ _ (fun op hop => by rw [hops op hop]; decide)
  have hd1b : (d.applyAll ops).bitfield = d.bitfield := by
    have := Journal.applyAll_other d ops .bitfield (fun op hop => by rw [hops op hop]; decide)
    simpa [Disk.get] using this
  have hd1o : (d.applyAll ops).oplog = ops.foldl (fun g op => op.onFile g) d.oplog := by
    have := Persist.applyAll_last_only d [] ops .oplog (fun op hop => by cases hop) hops
    simpa [Disk.get] using this
  have hr := hg.rep
  refine ⟨{ publicKey := c.header.publicKey, secret := c.header.secret, oplog := ost, header := c.header, tree := c.tree, bitfield := { b with dirty := b.dirty }, skipFlush := 0 }, ops, ?_, ⟨?_, ⟨hf, es, ?_, ?_⟩, hg.size⟩, ?_, hfk⟩
  · simp only [openCore, hopen, hd1t, hd1b, hT0]
    rw [replay_congr C d (d.applyAll ops) hd1t, hb1]
  · exact ⟨hr.le, by rw [hd1t]; exact hr.closed, hr.roots, hr.bytes, hr.mapwf, by rw [hd1t]; exact hr.aligned,
      fun i => by rw [← hr.bits i]; exact hb2 i, hr.heldLt, by rw [hd1t]; exact hr.leaf, by rw [hd1d]; exact hr.data,
      ⟨fun i hi => by show b.get i = true; rw [hb2]; exact hr.contig.1 i hi, by show b.get _ = false; rw [hb2]; exact hr.contig.2⟩, hr.small⟩
  · refine ⟨by rw [hd1o]; exact hinv, ⟨T0, by rw [hd1t]; exact hT0, fun ol => ?_⟩, by rw [hd1b]; exact hg.bfSize, by rw [hd1b]; exact hb3,
      hg.shape, hg.hdrLen, hg.hdrFork, hg.hdrSig, hg.hdrSigLen, ⟨rfl, rfl⟩⟩
    obtain ⟨b', e1, e2, e3⟩ := hrep ol
    rw [replay_congr C d (d.applyAll ops) hd1t, hd1b]
    exact ⟨b', e1, fun i => by rw [e2]; exact (hb2 i).symm, e3⟩
  · obtain ⟨B0, g1, g2, g3⟩ := hg.extra.ghost
    refine ⟨hg.extra.setOnly, ⟨B0, g1, by rw [hd1b]; exact g2, fun i hi => g3 i (by rw [← hb2 i]; exact hi)⟩,
      by rw [hd1t]; exact hg.extra.fileRef, hg.extra.unflRef, by rw [hd1t]; exact hg.extra.rootsStored⟩
  · rw [← hpk]; exact hg.keys.1

/-! ### the replay over stores that are ahead of the header -/

theorem bitRun_dirty (f : File) : ∀ (es : List Entry) (c : Nat) (b : Bitfield),
    (∀ i, b.get i ≠ (Bitfield.ofFile f).get i → i / Spec.pageBits ∈ b.dirty) →
    ∀ i, (bitRun es (c, b)).2.get i ≠ (Bitfield.ofFile f).get i → i / Spec.pageBits ∈ (bitRun es (c, b)).2.dirty := by
  intro es
  induction es with
  | nil => intro c b h; exact h
  | cons e r ih =>
    intro c b h
    simp only [bitRun]
    apply ih
    unfold bitOf
    cases e.bitfield with
    | none => exact h
    | some u => exact dirty_setRange b f u.start u.length (!u.drop) h

/-- what the exact replay says about the bits: the live bits are the stored bits plus what the entries set -/
theorem replays_bits (C : Crypto) (c : Core) (d : Disk) (hf : Header) (es : List Entry) (h : Replays C c d hf es) (hset : SetOnly es) (i : Nat) :
    c.bitfield.get i = true ↔ (Bitfield.ofFile d.bitfield).get i = true ∨ ∃ e ∈ es, Touches e i := by
  obtain ⟨T0, _, hrep⟩ := h
  obtain ⟨b, hb1, hb2, _⟩ := hrep c.oplog
  obtain ⟨_, _, _, _, _, r5⟩ := replay_ahead C d c.oplog es hf hf T0 _ (Bitfield.ofFile d.bitfield) _ _ _ (agreeExc_refl hf) hb1
  rw [← hb2 i, r5]
  exact bitRun_bits es hset _ _ i

/-- **the replay tolerates stores that are ahead**: if the tree store gained reference nodes and the bitfield store
    gained bits the live core holds, replaying the same entries over the same header gives the same header (hint
    included), the same tree and the same bits -/
theorem replays_ahead (C : Crypto) (bs : Array Bytes) (c : Core) (d d' : Disk) (hf : Header) (es : List Entry)
    (h : Replays C c d hf es) (hx : Extra C bs c d hf es) (hfm : Core.FirstMissing c.bitfield c.header.contiguous)
    (hT : ∀ T0, Tree.openTree hf.tree d.tree = .ok T0 → Tree.openTree hf.tree d'.tree = .ok T0) (hext : FileExt d.tree d'.tree)
    (hA : ∀ i, (Bitfield.ofFile d.bitfield).get i = true → (Bitfield.ofFile d'.bitfield).get i = true)
    (hB : ∀ i, (Bitfield.ofFile d'.bitfield).get i = true → c.bitfield.get i = true) :
    Replays C c d' hf es := by
  have hbits := replays_bits C c d hf es h hx.setOnly
  obtain ⟨T0, hT0, hrep⟩ := h
  obtain ⟨B0, ⟨g1a, g1b⟩, g2, g3⟩ := hx.ghost
  refine ⟨T0, hT T0 hT0, fun ol => ?_⟩
  obtain ⟨b, hb1, hb2, _⟩ := hrep ol
  obtain ⟨h2', r1, r2, r3, _, _⟩ := replay_ahead C d ol es hf hf T0 _ (Bitfield.ofFile d'.bitfield) _ _ _ (agreeExc_refl hf) hb1
  -- the bits of the new run are the live bits
  have hnew : ∀ i, (bitRun es (hf.contiguous, Bitfield.ofFile d'.bitfield)).2.get i = c.bitfield.get i := by
    intro i
    have := bitRun_bits es hx.setOnly hf.contiguous (Bitfield.ofFile d'.bitfield) i
    cases hc : c.bitfield.get i with
    | true =>
      apply this.mpr
      rcases (hbits i).mp hc with h1 | h1
      · exact Or.inl (hA i h1)
      · exact Or.inr h1
    | false =>
      cases hn : (bitRun es (hf.contiguous, Bitfield.ofFile d'.bitfield)).2.get i with
      | false => rfl
      | true =>
        exfalso
        rcases this.mp hn with h1 | h1
        · rw [hB i h1] at hc; cases hc
        · rw [(hbits i).mpr (Or.inr h1)] at hc; cases hc
  -- the hint of the new run is exact
  have hex := bitRun_exact es hx.setOnly hf.contiguous (Bitfield.ofFile d'.bitfield)
    (fun i hi => hA i (g2 i (g1a i hi)))
    (fun hheld => by
      rcases g3 _ (hB _ hheld) with h1 | ⟨e, he, ht⟩
      · rw [g1b] at h1; cases h1
      · exact ⟨e, he, Touches.trig ht⟩)
  have hcont : h2'.contiguous = c.header.contiguous := by
    rw [r3]
    exact firstMissing_unique _ _ _ _ hnew hex hfm
  have hh : h2' = c.header := (agreeExc_eq _ _ r2 hcont.symm).symm
  refine ⟨_, ?_, hnew, ?_⟩
  · rw [← hh]
    exact replay_ext C d d' hext es _ _ r1
  · exact bitRun_dirty d'.bitfield es _ _ (fun i hne => absurd rfl hne)

/-! ### a tree store with some of the unflushed nodes written -/

theorem node?_nonblank (t : Tree) (f : File) (i : Nat) (n : Node) (h : t.node? f i = some n) : n.blank = false := by
  simp only [Tree.node?] at h
  cases hu : t.unflushed[i]? with
  | some x =>
    rw [hu] at h
    simp only at h
    split at h
    · cases h
    · rename_i hb; cases h; simpa using hb
  | none =>
    rw [hu] at h
    simp only at h
    cases hr : f.read (i * Spec.nodeSize) Spec.nodeSize with
    | none => rw [hr] at h; cases h
    | some bytes =>
      rw [hr] at h
      simp only at h
      split at h
      · cases h
      · rename_i hb; cases h; simpa using hb

/-- slots no written node owns answer as before -/
theorem writeSlots_other (L : List Node) (hw : ∀ n ∈ L, n.hash.length = 32) (hd : L.Pairwise (fun a b => a.index ≠ b.index))
    (f : File) (hal : f.size % 40 = 0) (i : Nat) (hmiss : ∀ n ∈ L, n.index ≠ i) :
    ({} : Tree).node? (writeSlots f L) i = ({} : Tree).node? f i := by
  obtain ⟨_, r2⟩ := writeSlots_read L f hw hd
  have hN : Spec.nodeSize = 40 := rfl
  simp only [Tree.node?, Std.HashMap.getElem?_empty]
  cases hr : f.read (i * Spec.nodeSize) Spec.nodeSize with
  | some bytes => rw [r2 _ _ hmiss hr]
  | none =>
    simp only []
    have hbeyond : f.size ≤ i * 40 := by
      by_contra hlt
      have hsz : i * 40 + 40 ≤ f.size := by omega
      have : (f.read (i * Spec.nodeSize) Spec.nodeSize).isSome := by
        rw [hN]
        unfold File.read
        simp [File.size] at hsz ⊢
        omega
      rw [hr] at this; cases this
    have hz0 : ∀ k, k < 40 → f.byte (i * 40 + k) = 0 := fun k _ => byte_beyond f _ (by omega)
    have hz := writeSlots_zero L hw f i hmiss hz0
    cases hr2 : (writeSlots f L).read (i * Spec.nodeSize) Spec.nodeSize with
    | none => rfl
    | some bytes =>
      simp only []
      have hl := File.read_length _ _ _ _ hr2
      have hb : (nodeOfBytes i bytes).blank = true := by
        apply blank_of_zero i bytes (by rw [hl, hN])
        intro k hk
        have := File.read_byte _ _ _ _ hr2 k (by rw [hN]; exact hk)
        rw [hN] at this
        rw [this]; exact hz k hk
      simp [hb]

/-- a written slot answers with the written node -/
theorem writeSlots_hit (L : List Node) (hw : ∀ n ∈ L, n.hash.length = 32) (hl : ∀ n ∈ L, n.length < 2 ^ 64)
    (hd : L.Pairwise (fun a b => a.index ≠ b.index)) (f : File) (n : Node) (hn : n ∈ L) :
    ({} : Tree).node? (writeSlots f L) n.index = if n.blank then none else some n := by
  obtain ⟨r1, _⟩ := writeSlots_read L f hw hd
  simp only [Tree.node?, Std.HashMap.getElem?_empty, r1 n hn, nodeOfBytes_nodeBytes n (hl n hn)]

/-- the nodes a cut `flush_nodes` has written: some of the unflushed ones -/
structure Written (t : Tree) (L : List Node) : Prop where
  mem : ∀ n ∈ L, t.unflushed[n.index]? = some n
  distinct : L.Pairwise (fun a b => a.index ≠ b.index)

theorem written_take (t : Tree) (L : List Node) (k : Nat) (h : Written t L) : Written t (L.take k) :=
  ⟨fun n hn => h.mem n (List.mem_of_mem_take hn), h.distinct.sublist (List.take_sublist k L)⟩

/-- the live tree's lookups do not notice the written nodes: it still has them in its unflushed map -/
theorem ghost_lookup (t : Tree) (hwf : MapWF t.unflushed) (L : List Node) (hW : Written t L) (f : File) (hal : f.size % 40 = 0) (i : Nat) :
    t.node? (writeSlots f L) i = t.node? f i := by
  rw [node?_split t (writeSlots f L) i, node?_split t f i]
  cases hu : t.unflushed[i]? with
  | some x => rfl
  | none =>
    simp only
    apply writeSlots_other L (fun n hn => (hwf _ _ (hW.mem n hn)).2.1) hW.distinct f hal i
    intro n hn e
    have := hW.mem n hn
    rw [e, hu] at this; cases this

theorem written_aligned (t : Tree) (hwf : MapWF t.unflushed) (L : List Node) (hW : Written t L) (f : File) (hal : f.size % 40 = 0) :
    (writeSlots f L).size % 40 = 0 :=
  writeSlots_aligned L (fun n hn => (hwf _ _ (hW.mem n hn)).2.1) f hal

/-- what the file lookups see after the writes: a written node, or what was there -/
theorem written_file (t : Tree) (hwf : MapWF t.unflushed) (L : List Node) (hW : Written t L) (f : File) (hal : f.size % 40 = 0) (i : Nat) :
    (∃ n ∈ L, n.index = i ∧ ({} : Tree).node? (writeSlots f L) i = if n.blank then none else some n)
      ∨ ((∀ n ∈ L, n.index ≠ i) ∧ ({} : Tree).node? (writeSlots f L) i = ({} : Tree).node? f i) := by
  by_cases hex : ∃ n ∈ L, n.index = i
  · obtain ⟨n, hn, rfl⟩ := hex
    exact Or.inl ⟨n, hn, rfl, writeSlots_hit L (fun x hx => (hwf _ _ (hW.mem x hx)).2.1) (fun x hx => (hwf _ _ (hW.mem x hx)).2.2) hW.distinct f n hn⟩
  · have hmiss : ∀ n ∈ L, n.index ≠ i := fun n hn e => hex ⟨n, hn, e⟩
    exact Or.inr ⟨hmiss, writeSlots_other L (fun n hn => (hwf _ _ (hW.mem n hn)).2.1) hW.distinct f hal i hmiss⟩

/-- the written nodes are reference nodes, so is everything in the new store, and nothing that was there is lost -/
theorem written_ext (C : Crypto) (bs : Array Bytes) (t : Tree) (hwf : MapWF t.unflushed) (L : List Node) (hW : Written t L)
    (f : File) (hal : f.size % 40 = 0)
    (hfile : ∀ i n, ({} : Tree).node? f i = some n → ∃ dd o, i = Flat.index dd o ∧ n = nodeAt C bs dd o)
    (hunfl : ∀ i n, t.unflushed[i]? = some n → ∃ dd o, i = Flat.index dd o ∧ n = nodeAt C bs dd o) :
    FileExt f (writeSlots f L)
      ∧ (∀ i n, ({} : Tree).node? (writeSlots f L) i = some n → ∃ dd o, i = Flat.index dd o ∧ n = nodeAt C bs dd o) := by
  constructor
  · intro i n0 h0
    rcases written_file t hwf L hW f hal i with ⟨n, hn, hi, hlook⟩ | ⟨_, hlook⟩
    · obtain ⟨dd, o, e1, e2⟩ := hfile i n0 h0
      obtain ⟨dd', o', e1', e2'⟩ := hunfl n.index n (hW.mem n hn)
      rw [hi, e1] at e1'
      obtain ⟨rfl, rfl⟩ := index_inj _ _ _ _ e1'
      have hnn : n = n0 := by rw [e2, e2']
      rw [hlook, hnn, node?_nonblank _ _ _ _ h0]
      rfl
    · rw [hlook]; exact h0
  · intro i n hn'
    rcases written_file t hwf L hW f hal i with ⟨x, hx, hi, hlook⟩ | ⟨_, hlook⟩
    · rw [hlook] at hn'
      split at hn'
      · cases hn'
      · have hxn : x = n := Option.some.inj hn'
        rw [← hi, ← hxn]
        exact hunfl x.index x (hW.mem x hx)
    · rw [hlook] at hn'
      exact hfile i n hn'

/-! ### moving the invariants between disks -/

theorem reprAt_disk (C : Crypto) (bs : Array Bytes) (m : Nat) (c : Core) (d d' : Disk) (held : Nat → Bool) (h : RepRAt C bs m c d held)
    (hn : ∀ i, c.tree.node? d'.tree i = c.tree.node? d.tree i) (hal : d'.tree.size % 40 = 0) (hdata : d'.data = d.data) :
    RepRAt C bs m c d' held :=
  ⟨h.le, closedAt_congr C bs m c.tree c.tree d.tree d'.tree h.closed hn rfl, h.roots, h.bytes, h.mapwf, hal, h.bits, h.heldLt,
    fun i hi => by rw [hn]; exact h.leaf i hi, by rw [hdata]; exact h.data, h.contig, h.small⟩

theorem replays_congr (C : Crypto) (c : Core) (d d' : Disk) (hf : Header) (es : List Entry) (h : Replays C c d hf es)
    (ht : d'.tree = d.tree) (hb : d'.bitfield = d.bitfield) : Replays C c d' hf es := by
  obtain ⟨T0, hT0, hrep⟩ := h
  refine ⟨T0, by rw [ht]; exact hT0, fun ol => ?_⟩
  obtain ⟨b, e1, e2, e3⟩ := hrep ol
  exact ⟨b, by rw [replay_congr C d d' ht, hb]; exact e1, e2, by rw [hb]; exact e3⟩

theorem extra_congr (C : Crypto) (bs : Array Bytes) (c : Core) (d d' : Disk) (hf : Header) (es : List Entry) (h : Extra C bs c d hf es)
    (ht : d'.tree = d.tree) (hb : d'.bitfield = d.bitfield) : Extra C bs c d' hf es :=
  ⟨h.setOnly, by rw [hb]; exact h.ghost, by rw [ht]; exact h.fileRef, h.unflRef, by rw [ht]; exact h.rootsStored⟩

/-- same ghost core, same tree and bitfield stores, another oplog image and data store -/
theorem durG_of (C : Crypto) (bs : Array Bytes) (m : Nat) (held : Nat → Bool) (c : Core) (hf : Header) (es : List Entry) (d d' : Disk)
    (hrep : RepRAt C bs m c d' held) (hp : PersistR C c d hf es) (hx : Extra C bs c d hf es) (hsize : bs.size < 2 ^ 62)
    (ht : d'.tree = d.tree) (hb : d'.bitfield = d.bitfield) (hop : OpImage d'.oplog hf es) :
    DurG C bs m held d' c hf es :=
  ⟨hrep, hop, replays_congr C c d d' hf es hp.replay ht hb, by rw [hb]; exact hp.bfSize, by rw [hb]; exact hp.dirty, hp.shape, hp.hdrLen,
    hp.hdrFork, hp.hdrSig, hp.hdrSigLen, hp.keys, extra_congr C bs c d d' hf es hx ht hb, hsize⟩

theorem load_eq (f f' : File) : ∀ (l : List Nat), (∀ i ∈ l, ∃ n, ({} : Tree).node? f i = some n ∧ ({} : Tree).node? f' i = some n) →
    Tree.openTree.load f l = Tree.openTree.load f' l := by
  intro l
  induction l with
  | nil => intro _; rfl
  | cons i is ih =>
    intro h
    obtain ⟨n, h1, h2⟩ := h i (by simp)
    obtain ⟨b1, r1, n1⟩ := Reopen.node?_empty f i n h1
    obtain ⟨b2, r2, n2⟩ := Reopen.node?_empty f' i n h2
    simp only [Tree.openTree.load, r1, r2, n1, n2, ih (fun j hj => h j (by simp [hj]))]

theorem openTree_ext (C : Crypto) (bs : Array Bytes) (ht : HeaderTree) (f f' : File) (hext : FileExt f f') (m0 : Nat) (hlen : ht.length = m0)
    (hm : m0 < 2 ^ 64) (hR : ∀ p ∈ rootsStack m0, ({} : Tree).node? f (Flat.index p.1 p.2) = some (nodeAt C bs p.1 p.2)) :
    Tree.openTree ht f' = Tree.openTree ht f := by
  have hidx : fullRoots (ht.length * 2) = (rootsStack m0).reverse.map fun p => Flat.index p.1 p.2 := by
    rw [hlen, Nat.mul_comm]; exact FullRoots.fullRoots_eq m0 hm
  have := load_eq f f' (fullRoots (ht.length * 2)) (fun i hi => by
    rw [hidx] at hi
    obtain ⟨p, hp, rfl⟩ := List.mem_map.mp hi
    exact ⟨_, hR p (List.mem_reverse.mp hp), hext _ _ (hR p (List.mem_reverse.mp hp))⟩)
  simp only [Tree.openTree, this]

/-! ### the periodic flush, cut anywhere -/

/-- the stores after some dirty pages and some unflushed nodes of the live core have been written -/
theorem durG_ahead (C : Crypto) (bs : Array Bytes) (m : Nat) (held : Nat → Bool) (c : Core) (hf : Header) (es : List Entry) (d : Disk)
    (hr : RepRAt C bs m c d held) (hp : PersistR C c d hf es) (hx : Extra C bs c d hf es) (hsize : bs.size < 2 ^ 62)
    (ps : List Nat) (L : List Node) (hW : Written c.tree L) :
    DurG C bs m held { d with bitfield := writePages c.bitfield d.bitfield ps, tree := writeSlots d.tree L } c hf es := by
  obtain ⟨w1, w2⟩ := writePages_bits c.bitfield d.bitfield hp.bfSize ps
  have hbits := replays_bits C c d hf es hp.replay hx.setOnly
  obtain ⟨hext, hfileRef⟩ := written_ext C bs c.tree hr.mapwf L hW d.tree hr.aligned hx.fileRef hx.unflRef
  have hA : ∀ i, (Bitfield.ofFile d.bitfield).get i = true → (Bitfield.ofFile (writePages c.bitfield d.bitfield ps)).get i = true := by
    intro i hi
    rw [w1 i]
    split
    · exact (hbits i).mpr (Or.inl hi)
    · exact hi
  have hB : ∀ i, (Bitfield.ofFile (writePages c.bitfield d.bitfield ps)).get i = true → c.bitfield.get i = true := by
    intro i hi
    rw [w1 i] at hi
    split at hi
    · exact hi
    · exact (hbits i).mpr (Or.inl hi)
  obtain ⟨m0, hm0, hm64, hroots0⟩ := hx.rootsStored
  obtain ⟨B0, g1, g2, g3⟩ := hx.ghost
  refine ⟨?_, opimage_of_inv c.oplog d.oplog hf es hp.oplog, ?_, w2, ?_, hp.shape, hp.hdrLen, hp.hdrFork, hp.hdrSig, hp.hdrSigLen, hp.keys, ?_, hsize⟩
  · exact reprAt_disk C bs m c d _ held hr (fun i => ghost_lookup c.tree hr.mapwf L hW d.tree hr.aligned i)
      (written_aligned c.tree hr.mapwf L hW d.tree hr.aligned) rfl
  · exact replays_ahead C bs c d _ hf es hp.replay hx hr.contig
      (fun T0 hT0 => by
        show Tree.openTree hf.tree (writeSlots d.tree L) = _
        rw [openTree_ext C bs hf.tree d.tree _ hext m0 hm0 hm64 hroots0]; exact hT0)
      hext hA hB
  · intro i hne
    apply hp.dirty i
    intro heq
    apply hne
    show _ = (Bitfield.ofFile (writePages c.bitfield d.bitfield ps)).get i
    rw [w1 i]
    split
    · rfl
    · exact heq
  · exact ⟨hx.setOnly, ⟨B0, g1, fun i hi => hA i (g2 i hi), g3⟩, hfileRef, hx.unflRef,
      ⟨m0, hm0, hm64, fun p hp' => hext _ _ (hroots0 p hp')⟩⟩

/-- **a periodic flush cut at any point leaves a crash image of the same replica state** -/
theorem crash_flushR (C : Crypto) (bs : Array Bytes) (m : Nat) (c : Core) (d : Disk) (held : Nat → Bool) (hf : Header) (es : List Entry)
    (hr : RepRAt C bs m c d held) (hp : PersistR C c d hf es) (hx : Extra C bs c d hf es) (hsize : bs.size < 2 ^ 62) (k : Nat) :
    DurR C bs m held (d.applyAll (c.maybeFlush.2.take k)) c.publicKey c.tree.fork := by
  have hfull := persist_maybeFlush C bs m c d held hf es hr hp hx
  have hrepf := maybeFlush_reprAt C bs m c d held hr
  have hpkf : c.maybeFlush.1.publicKey = c.publicKey ∧ c.maybeFlush.1.tree.fork = c.tree.fork := by
    rw [LiveRefine.maybeFlush_eq]; split <;> exact ⟨rfl, rfl⟩
  rw [LiveRefine.maybeFlush_eq] at hfull hrepf ⊢
  split
  · rename_i hcond
    simp only [hcond, ite_true] at hfull hrepf
    simp only [Core.flushAll] at hfull hrepf ⊢
    have hj1 := Journal.bitfieldFlush_store c.bitfield
    have hj2 := Journal.treeFlush_store c.tree
    have hj3 := Journal.oplogFlush_store c.oplog c.header false
    generalize hP : c.bitfield.flush.2 = P at hj1 hfull hrepf
    generalize hT : c.tree.flush.2 = T at hj2 hfull hrepf
    generalize hO : (Oplog.flush c.oplog c.header false).2 = O at hj3 hfull hrepf
    have hPdef : P = c.bitfield.dirty.map fun p => SOp.write .bitfield (p * Spec.pageBytes) (c.bitfield.pageBytes p) := by
      rw [← hP]; rfl
    have hTdef : T = (Crash.flushList c.tree).map fun n => SOp.write .tree (n.index * Spec.nodeSize) (nodeBytes n) := by
      rw [← hT]; exact Crash.flush_journal c.tree
    have hWall : Written c.tree (Crash.flushList c.tree) := ⟨Crash.flushList_mem c.tree hr.mapwf, Crash.flushList_distinct c.tree hr.mapwf⟩
    have hdP : ∀ ps : List Nat, (d.applyAll (ps.map fun p => SOp.write .bitfield (p * Spec.pageBytes) (c.bitfield.pageBytes p)))
        = { d with bitfield := writePages c.bitfield d.bitfield ps } := by
      intro ps
      have hs : ∀ op ∈ (ps.map fun p => SOp.write .bitfield (p * Spec.pageBytes) (c.bitfield.pageBytes p)), op.store = .bitfield := by
        intro op hop; obtain ⟨p, _, rfl⟩ := List.mem_map.mp hop; rfl
      have e1 := Persist.applyAll_bitfield_writes c.bitfield d ps
      have e2 := Journal.applyAll_other d _ .tree (fun op hop => by rw [hs op hop]; decide)
      have e3 := Journal.applyAll_other d _ .data (fun op hop => by rw [hs op hop]; decide)
      have e4 := Journal.applyAll_other d _ .oplog (fun op hop => by rw [hs op hop]; decide)
      simp only [Disk.get] at e2 e3 e4
      generalize d.applyAll (ps.map fun p => SOp.write .bitfield (p * Spec.pageBytes) (c.bitfield.pageBytes p)) = dd at *
      obtain ⟨t1, da1, b1, o1⟩ := dd
      obtain ⟨t0, da0, b0, o0⟩ := d
      simp only at e1 e2 e3 e4
      rw [e1, e2, e3, e4]
    rcases Crash.take_append_cases (P ++ T) O k with ⟨hk1, e1⟩ | ⟨hk1, e1⟩
    · rw [e1]
      rcases Crash.take_append_cases P T k with ⟨hk2, e2⟩ | ⟨hk2, e2⟩
      · -- inside the page writes
        rw [e2, hPdef, ← List.map_take, hdP]
        have := durG_ahead C bs m held c hf es d hr hp hx hsize (c.bitfield.dirty.take k) [] ⟨(fun n hn => by cases hn), List.Pairwise.nil⟩
        exact ⟨c, hf, es, this, rfl, rfl⟩
      · -- inside the node writes
        rw [e2, Journal.applyAll_append, hPdef, hdP, hTdef, ← List.map_take, applyAll_tree_writes]
        have := durG_ahead C bs m held c hf es d hr hp hx hsize c.bitfield.dirty ((Crash.flushList c.tree).take (k - c.bitfield.dirty.length))
          (written_take c.tree _ _ hWall)
        simp only [List.length_map]
        exact ⟨c, hf, es, this, rfl, rfl⟩
    · -- all pages and nodes written
      rw [e1, Journal.applyAll_append]
      rw [Journal.applyAll_append d (P ++ T) O] at hrepf hfull
      obtain ⟨hf', es', hp', hx'⟩ := hfull
      by_cases hk2 : 2 ≤ k - (P ++ T).length
      · -- header written and entries truncated: the flush is complete
        have hO2 : O.length = 2 := by rw [← hO]; simp [Oplog.flush, Oplog.insertHeader]
        rw [List.take_of_length_le (by omega)]
        have := rp_durR C bs m _ _ held ⟨hrepf, ⟨hf', es', hp', hx'⟩, hsize⟩
        simp only [] at this
        exact this
      · -- the header is written, the entry region not yet truncated
        have hk3 : k - (P ++ T).length = 1 := by omega
        rw [hk3]
        have hOs : ∀ op ∈ O.take 1, op.store = .oplog := fun op hop => hj3 op (List.mem_of_mem_take hop)
        generalize hd2 : d.applyAll (P ++ T) = d2 at *
        have hd3tree : (d2.applyAll (O.take 1)).tree = (d2.applyAll O).tree := by
          rw [LiveRefine.tree_of_applyAll _ _ (fun op hop => by rw [hOs op hop]; decide),
            LiveRefine.tree_of_applyAll _ _ (fun op hop => by rw [hj3 op hop]; decide)]
        have hd3data : (d2.applyAll (O.take 1)).data = (d2.applyAll O).data := by
          rw [LiveRefine.data_of_applyAll _ _ (fun op hop => by rw [hOs op hop]; decide),
            LiveRefine.data_of_applyAll _ _ (fun op hop => by rw [hj3 op hop]; decide)]
        have hd3bf : (d2.applyAll (O.take 1)).bitfield = (d2.applyAll O).bitfield := by
          have a1 := Journal.applyAll_other d2 (O.take 1) .bitfield (fun op hop => by rw [hOs op hop]; decide)
          have a2 := Journal.applyAll_other d2 O .bitfield (fun op hop => by rw [hj3 op hop]; decide)
          simp only [Disk.get] at a1 a2
          rw [a1, a2]
        have hd2op : d2.oplog = d.oplog := by
          rw [← hd2]
          have := Journal.applyAll_other d (P ++ T) .oplog (fun op hop => by
            rcases List.mem_append.mp hop with h | h
            · rw [hj1 op h]; decide
            · rw [hj2 op h]; decide)
          simpa [Disk.get] using this
        have hd3op : (d2.applyAll (O.take 1)).oplog = (O.take 1).foldl (fun g op => op.onFile g) d.oplog := by
          have := Persist.applyAll_last_only d2 [] (O.take 1) .oplog (fun op hop => by cases hop) hOs
          simp only [List.nil_append, Disk.get] at this
          rw [this, hd2op]
        -- which header and entries the complete flush ends with
        have hhf' : hf' = c.header ∧ es' = [] := by
          obtain ⟨o1, h1, _, _⟩ := opinv_open _ _ hf' es' hp'.oplog
          have hofile : (d2.applyAll O).oplog = O.foldl (fun g op => op.onFile g) d.oplog := by
            have := Persist.applyAll_last_only d2 [] O .oplog (fun op hop => by cases hop) hj3
            simp only [List.nil_append, Disk.get] at this
            rw [this, hd2op]
          have hinv := opinv_flush c.oplog d.oplog hf es c.header hp.oplog (headerOK_of_shape _ hp.shape)
          rw [hO] at hinv
          rw [← hofile] at hinv
          obtain ⟨o2, h2, _, _⟩ := opinv_open _ _ c.header [] hinv
          rw [h1] at h2
          have := Except.ok.inj h2
          simp only [OpenOutcome.mk.injEq] at this
          exact ⟨this.2.1, this.2.2.2⟩
        obtain ⟨rfl, rfl⟩ := hhf'
        have hg : DurG C bs m held (d2.applyAll (O.take 1)) (({ c with skipFlush := Spec.flushEvery - 1 } : Core).flushAll false).1 c.header [] := by
          simp only [Core.flushAll, hP, hT, hO]
          refine durG_of C bs m held _ c.header [] (d2.applyAll O) _ ?_ hp' hx' hsize hd3tree hd3bf ?_
          · exact reprAt_disk C bs m _ (d2.applyAll O) _ held hrepf (fun i => by rw [hd3tree]) (by rw [hd3tree]; exact hrepf.aligned) hd3data
          · exact Or.inr ⟨c.oplog, d.oplog, hf, es, false, hp.oplog, headerOK_of_shape _ hp.shape, rfl, by rw [hd3op, ← hO]; simp [Oplog.flush]⟩
        simp only [Core.flushAll, hP, hT, hO] at hg
        exact ⟨_, c.header, [], hg, rfl, rfl⟩
  · -- no flush
    simp only [List.take_nil, Disk.applyAll, List.foldl_nil]
    have := rp_durR C bs m c d held ⟨hr, ⟨hf, es, hp, hx⟩, hsize⟩
    exact this

/-- **the header write of the periodic flush torn after `t` bytes** (C07), under the assumption that the checksum rejects
    the half-written slot: all pages and nodes are written, the oplog still opens to the old header and all entries —
    a crash image of the same replica state (recovery replays the entries over stores that are ahead) -/
theorem torn_headerR (C : Crypto) (bs : Array Bytes) (m : Nat) (c : Core) (d : Disk) (held : Nat → Bool) (hf : Header) (es : List Entry)
    (hr : RepRAt C bs m c d held) (hp : PersistR C c d hf es) (hx : Extra C bs c d hf es) (hsize : bs.size < 2 ^ 62)
    (off : Nat) (bytes : Bytes) (hop : (Oplog.insertHeader c.header 0 c.oplog.bits false).2.head? = some (.write .oplog off bytes)) (t : Nat)
    (hcrc : validateLeader (((d.oplog.write off (bytes.take t)).toList.drop off).take Spec.headerSize) = none) :
    DurR C bs m held ((d.applyAll (c.bitfield.flush.2 ++ c.tree.flush.2)).apply (.write .oplog off (bytes.take t))) c.publicKey c.tree.fork := by
  have hj1 := Journal.bitfieldFlush_store c.bitfield
  have hj2 := Journal.treeFlush_store c.tree
  have hWall : Written c.tree (Crash.flushList c.tree) := ⟨Crash.flushList_mem c.tree hr.mapwf, Crash.flushList_distinct c.tree hr.mapwf⟩
  have hg := durG_ahead C bs m held c hf es d hr hp hx hsize c.bitfield.dirty (Crash.flushList c.tree) hWall
  -- the stores after all page and node writes
  have hd2 : d.applyAll (c.bitfield.flush.2 ++ c.tree.flush.2)
      = { d with bitfield := writePages c.bitfield d.bitfield c.bitfield.dirty, tree := writeSlots d.tree (Crash.flushList c.tree) } := by
    have hP : c.bitfield.flush.2 = c.bitfield.dirty.map fun p => SOp.write .bitfield (p * Spec.pageBytes) (c.bitfield.pageBytes p) := rfl
    rw [Journal.applyAll_append, Crash.flush_journal c.tree, applyAll_tree_writes, hP]
    have hs : ∀ op ∈ (c.bitfield.dirty.map fun p => SOp.write .bitfield (p * Spec.pageBytes) (c.bitfield.pageBytes p)), op.store = .bitfield := by
      intro op hop; obtain ⟨p, _, rfl⟩ := List.mem_map.mp hop; rfl
    have e1 := Persist.applyAll_bitfield_writes c.bitfield d c.bitfield.dirty
    have e2 := Journal.applyAll_other d _ .tree (fun op hop => by rw [hs op hop]; decide)
    have e3 := Journal.applyAll_other d _ .data (fun op hop => by rw [hs op hop]; decide)
    have e4 := Journal.applyAll_other d _ .oplog (fun op hop => by rw [hs op hop]; decide)
    simp only [Disk.get] at e2 e3 e4
    generalize d.applyAll (c.bitfield.dirty.map fun p => SOp.write .bitfield (p * Spec.pageBytes) (c.bitfield.pageBytes p)) = dd at *
    obtain ⟨t1, da1, b1, o1⟩ := dd
    obtain ⟨t0, da0, b0, o0⟩ := d
    simp only at e1 e2 e3 e4
    rw [e1, e2, e3, e4]
  rw [hd2]
  generalize hd3 : ({ d with bitfield := writePages c.bitfield d.bitfield c.bitfield.dirty, tree := writeSlots d.tree (Crash.flushList c.tree) } : Disk) = d3 at hg
  have ho3 : d3.oplog = d.oplog := by rw [← hd3]
  have hw : d3.apply (.write .oplog off (bytes.take t)) = { d3 with oplog := d3.oplog.write off (bytes.take t) } := by
    obtain ⟨tt, da, b, o⟩ := d3; rfl
  rw [hw]
  have hinv := opinv_torn_header c.oplog d.oplog hf es c.header false t hp.oplog (headerOK_of_shape _ hp.shape) off bytes hop hcrc
  refine ⟨c, hf, es, ⟨?_, ?_, replays_congr C c d3 _ hf es hg.replay rfl rfl, hg.bfSize, hg.dirty, hg.shape, hg.hdrLen, hg.hdrFork, hg.hdrSig,
    hg.hdrSigLen, hg.keys, extra_congr C bs c d3 _ hf es hg.extra rfl rfl, hsize⟩, rfl, rfl⟩
  · exact reprAt_disk C bs m c d3 _ held hg.rep (fun i => rfl) hg.rep.aligned rfl
  · show OpImage (d3.oplog.write off (bytes.take t)) hf es
    rw [ho3]
    exact opimage_of_inv c.oplog _ hf es hinv

/-! ### an exchange step, cut anywhere -/

/-- **every prefix of the storage operations of an exchange step leaves a crash image of the state before the step
    or of the state after it** -/
theorem crash_ok (C : Crypto) (bs : Array Bytes) (m m' : Nat) (c c1 : Core) (d : Disk) (held held' : Nat → Bool) (st : Step Bool)
    (e : Entry) (j0 : List SOp) (h : RP C bs m c d held) (hok : StepOK C bs m m' c c1 d held held' st e j0) (k : Nat) :
    DurR C bs m held (d.applyAll (st.journal.take k)) c.publicKey c.tree.fork
      ∨ DurR C bs m' held' (d.applyAll (st.journal.take k)) c.publicKey c.tree.fork := by
  have hmid := ok_mid C bs m m' c c1 d held held' st e j0 h hok
  obtain ⟨hf, es, hp, hx⟩ := h.per
  rw [hok.shape.2]
  rcases Crash.take_append_cases (j0 ++ (Oplog.appendEntry c.oplog e).2) c1.maybeFlush.2 k with ⟨hk1, e1⟩ | ⟨hk1, e1⟩
  · rw [e1]
    rcases Crash.take_append_cases j0 (Oplog.appendEntry c.oplog e).2 k with ⟨hk2, e2⟩ | ⟨hk2, e2⟩
    · -- inside the data-store operations: the state before
      left
      rw [e2]
      have hdat : ∀ op ∈ j0.take k, op.store = .data := fun op hop => hok.j0data op (List.mem_of_mem_take hop)
      have ht : (d.applyAll (j0.take k)).tree = d.tree := LiveRefine.tree_of_applyAll _ _ (fun op hop => by rw [hdat op hop]; decide)
      have hb : (d.applyAll (j0.take k)).bitfield = d.bitfield := by
        have := Journal.applyAll_other d (j0.take k) .bitfield (fun op hop => by rw [hdat op hop]; decide)
        simpa [Disk.get] using this
      have ho : (d.applyAll (j0.take k)).oplog = d.oplog := by
        have := Journal.applyAll_other d (j0.take k) .oplog (fun op hop => by rw [hdat op hop]; decide)
        simpa [Disk.get] using this
      exact ⟨c, hf, es, durG_of C bs m held c hf es d _ (hok.pre k) hp hx h.size ht hb (by rw [ho]; exact opimage_of_inv c.oplog d.oplog hf es hp.oplog), rfl, rfl⟩
    · -- the entry is written: the state after, before its flush
      right
      have hE : (Oplog.appendEntry c.oplog e).2.length = 1 := rfl
      rw [e2, List.take_of_length_le (by omega)]
      have := rp_durR C bs m' c1 _ held' hmid
      rw [hok.keep.1, hok.keep.2] at this
      exact this
  · -- inside the periodic flush: the state after
    right
    rw [e1, Journal.applyAll_append]
    obtain ⟨hf1, es1, hp1, hx1⟩ := hmid.per
    have := crash_flushR C bs m' c1 _ held' hf1 es1 hmid.rep hp1 hx1 h.size (k - (j0 ++ (Oplog.appendEntry c.oplog e).2).length)
    rw [hok.keep.1, hok.keep.2] at this
    exact this

/-- **a torn data or entry write** (C07): if the write in progress — the block's bytes or the oplog entry — reaches the
    store only as a byte prefix, the stores are a crash image of the state *before* the step: the entry write is the
    commit point, and a strict prefix of a frame is no frame (`opimage_torn_entry`, no assumption on the checksum) -/
theorem torn_ok (C : Crypto) (bs : Array Bytes) (m m' : Nat) (c c1 : Core) (d : Disk) (held held' : Nat → Bool) (st : Step Bool)
    (e : Entry) (j0 : List SOp) (h : RP C bs m c d held) (hok : StepOK C bs m m' c c1 d held held' st e j0) :
    (∀ op ∈ j0, ∃ off bytes, op = SOp.write .data off bytes ∧ ∀ t, DurR C bs m held (d.apply (SOp.write .data off (bytes.take t))) c.publicKey c.tree.fork)
      ∧ (∀ t, t < (frame (encEntry e) c.oplog.currentBit false).length →
          DurR C bs m held ((d.applyAll j0).apply (SOp.write .oplog (Spec.entriesOffset + c.oplog.entriesByteLength) ((frame (encEntry e) c.oplog.currentBit false).take t)))
            c.publicKey c.tree.fork) := by
  obtain ⟨hf, es, hp, hx⟩ := h.per
  constructor
  · intro op hop
    obtain ⟨off, bytes, rfl, hrep⟩ := hok.tornData op hop
    refine ⟨off, bytes, rfl, fun t => ?_⟩
    have hd : d.apply (SOp.write .data off (bytes.take t)) = { d with data := d.data.write off (bytes.take t) } := by
      obtain ⟨tt, da, b, o⟩ := d; rfl
    exact ⟨c, hf, es, durG_of C bs m held c hf es d _ (hrep t) hp hx h.size (by rw [hd]) (by rw [hd])
      (by rw [hd]; exact opimage_of_inv c.oplog d.oplog hf es hp.oplog), rfl, rfl⟩
  · intro t ht
    have hdat : ∀ op ∈ j0, op.store = .data := hok.j0data
    have ht0 : (d.applyAll j0).tree = d.tree := LiveRefine.tree_of_applyAll _ _ (fun op hop => by rw [hdat op hop]; decide)
    have hb0 : (d.applyAll j0).bitfield = d.bitfield := by
      have := Journal.applyAll_other d j0 .bitfield (fun op hop => by rw [hdat op hop]; decide)
      simpa [Disk.get] using this
    have ho0 : (d.applyAll j0).oplog = d.oplog := by
      have := Journal.applyAll_other d j0 .oplog (fun op hop => by rw [hdat op hop]; decide)
      simpa [Disk.get] using this
    have hpre := hok.pre j0.length
    rw [List.take_length] at hpre
    generalize hd0 : d.applyAll j0 = d0 at *
    have hd : d0.apply (SOp.write .oplog (Spec.entriesOffset + c.oplog.entriesByteLength) ((frame (encEntry e) c.oplog.currentBit false).take t))
        = { d0 with oplog := d0.oplog.write (Spec.entriesOffset + c.oplog.entriesByteLength) ((frame (encEntry e) c.oplog.currentBit false).take t) } := by
      obtain ⟨tt, da, b, o⟩ := d0; rfl
    -- the entry fits the format (it is about to be logged)
    have hmid := hok.per1 hf es hp
    have heok : EntryOK e := by
      obtain ⟨_, _, _, _, _, _, _, _, _, _, hoks⟩ := hmid.oplog
      exact hoks e (by simp)
    refine ⟨c, hf, es, durG_of C bs m held c hf es d _ ?_ hp hx h.size (by rw [hd]; exact ht0) (by rw [hd]; exact hb0) ?_, rfl, rfl⟩
    · exact reprAt_disk C bs m c d0 _ held hpre (fun i => by rw [hd]) (by rw [hd]; exact hpre.aligned) (by rw [hd])
    · rw [hd]
      show OpImage (d0.oplog.write _ _) hf es
      rw [ho0]
      exact opimage_torn_entry c.oplog d.oplog hf es e t hp.oplog heok ht

/-- the three exchanges, cut anywhere, and the recovery -/
theorem crash_recover (C : Crypto) (bs : Array Bytes) (m m' : Nat) (c c1 : Core) (d : Disk) (held held' : Nat → Bool) (st : Step Bool)
    (e : Entry) (j0 : List SOp) (h : RP C bs m c d held) (hok : StepOK C bs m m' c c1 d held held' st e j0) (k : Nat) :
    ∃ c' j, openCore C none (d.applyAll (st.journal.take k)) = .ok (c', j) ∧ c'.publicKey = c.publicKey ∧ c'.tree.fork = c.tree.fork
      ∧ (RP C bs m c' ((d.applyAll (st.journal.take k)).applyAll j) held ∨ RP C bs m' c' ((d.applyAll (st.journal.take k)).applyAll j) held') := by
  rcases crash_ok C bs m m' c c1 d held held' st e j0 h hok k with hd | hd
  · obtain ⟨c', j, r1, r2, r3, r4⟩ := durR_open C bs m held _ _ _ hd
    exact ⟨c', j, r1, r3, r4, Or.inl r2⟩
  · obtain ⟨c', j, r1, r2, r3, r4⟩ := durR_open C bs m' held' _ _ _ hd
    exact ⟨c', j, r1, r3, r4, Or.inr r2⟩

/-! ### the exchanges of `HashReq.Act` -/

/-- every honest act is a `StepOK` step -/
theorem act_ok (C : Crypto) (hC : HashWF C) (hT : TreeWF C) (bs : Array Bytes) (m : Nat) (c : Core) (d : Disk) (held : Nat → Bool)
    (h : RP C bs m c d held) (hm0 : 0 < m) (a : Act) (hok : OkActs C bs c.publicKey c.tree.fork m [a]) :
    ∃ c1 e j0, StepOK C bs m (lenAfter m [a]) c c1 d held (fun j => held j || fetched [a] j) (c.verifyAndApply C d (actProof C bs c d a)) e j0 := by
  have hlen : c.tree.length = m := h.rep.closed.sparse.length
  cases a with
  | grow n us sig =>
    obtain ⟨o1, o2, o3, o4, o5, _⟩ := hok
    obtain ⟨c1, e, j0, hk⟩ := grow_ok C hC hT bs m n c d held h hm0 o1 o2 us o3 sig o4 o5
    have hact : actProof C bs c d (.grow n us sig) = honestGrowth C bs c.tree.fork m n us sig := by simp [actProof, hlen]
    have hh : (fun j => held j || fetched [Act.grow n us sig] j) = held := by funext j; simp [fetched]
    rw [hact, hh]
    exact ⟨c1, e, j0, hk⟩
  | fetch i =>
    obtain ⟨o1, _⟩ := hok
    obtain ⟨c1, e, j0, hk⟩ := block_ok C hC bs m c d held h i o1
    have hh : (fun j => held j || fetched [Act.fetch i] j) = (fun j => held j || j == i) := by funext j; simp [fetched]
    rw [hh]
    exact ⟨c1, e, j0, hk⟩
  | hash d0 o0 =>
    obtain ⟨o1, _⟩ := hok
    obtain ⟨c1, e, j0, hk⟩ := hash_ok C hC bs m c d held h d0 o0 o1
    have hh : (fun j => held j || fetched [Act.hash d0 o0] j) = held := by funext j; simp [fetched]
    rw [hh]
    exact ⟨c1, e, j0, hk⟩

/-- first contact as an exchange step, from any state of length 0 that satisfies the invariants -/
theorem first_ok0 (C : Crypto) (hC : HashWF C) (hT : TreeWF C) (bs : Array Bytes) (c : Core) (d : Disk) (held : Nat → Bool)
    (h : RP C bs 0 c d held) (n : Nat) (h0 : 0 < n) (hn : n ≤ bs.size) (sig : Bytes) (hsl : sig.length = 64)
    (hver : C.verify c.publicKey (signableAt C bs n c.tree.fork) sig = true) :
    held = (fun _ => false) ∧
    ∃ c1 e j0, StepOK C bs 0 n c c1 d (fun _ => false) (fun _ => false) (c.verifyAndApply C d (honestFirst C bs c.tree.fork n sig)) e j0 := by
  have hheld : held = (fun _ => false) := by
    funext i
    cases hh : held i with
    | false => rfl
    | true => have := h.rep.heldLt i hh; omega
  have hsz := size_extract bs n hn
  have hs' : (bs.extract 0 n).size < 2 ^ 64 ∧ psum (bs.extract 0 n) (bs.extract 0 n).size < 2 ^ 64 := by
    rw [hsz, psum_extract bs n hn n (Nat.le_refl _)]
    have := psum_mono bs hn
    have := h.rep.small
    omega
  have hfresh := fresh_of_reprAt0 C bs (bs.extract 0 n) hs' c d held h.rep
  exact ⟨hheld, first_ok C hC hT bs ⟨h.size, h.rep.small.2⟩ n h0 hn c d hfresh sig hsl hver⟩

/-- the replica states reachable from a state that satisfies the invariants (e.g. a freshly created replica) by first
    contact, honest exchanges, close/reopen and **crashes at any storage operation of an exchange (first contact
    included) followed by a reopen** -/
inductive Reach (C : Crypto) (bs : Array Bytes) (pk : Bytes) (fork : Nat) : Core × Disk → Prop
  | start (c : Core) (d : Disk) (m : Nat) (held : Nat → Bool) : RP C bs m c d held → c.publicKey = pk → c.tree.fork = fork →
      Reach C bs pk fork (c, d)
  | first (c : Core) (d : Disk) (n : Nat) (sig : Bytes) : Reach C bs pk fork (c, d) → c.tree.length = 0 → 0 < n → n ≤ bs.size →
      sig.length = 64 → C.verify pk (signableAt C bs n fork) sig = true →
      Reach C bs pk fork ((c.verifyAndApply C d (honestFirst C bs c.tree.fork n sig)).core, d.applyAll (c.verifyAndApply C d (honestFirst C bs c.tree.fork n sig)).journal)
  | crashFirst (c : Core) (d : Disk) (n : Nat) (sig : Bytes) (k : Nat) (c' : Core) (j : List SOp) : Reach C bs pk fork (c, d) →
      c.tree.length = 0 → 0 < n → n ≤ bs.size → sig.length = 64 → C.verify pk (signableAt C bs n fork) sig = true →
      openCore C none (d.applyAll ((c.verifyAndApply C d (honestFirst C bs c.tree.fork n sig)).journal.take k)) = .ok (c', j) →
      Reach C bs pk fork (c', (d.applyAll ((c.verifyAndApply C d (honestFirst C bs c.tree.fork n sig)).journal.take k)).applyAll j)
  | act (c : Core) (d : Disk) (a : Act) : Reach C bs pk fork (c, d) → 0 < c.tree.length → OkActs C bs pk fork c.tree.length [a] →
      Reach C bs pk fork ((c.verifyAndApply C d (actProof C bs c d a)).core, d.applyAll (c.verifyAndApply C d (actProof C bs c d a)).journal)
  | reopen (c : Core) (d : Disk) (c' : Core) (j : List SOp) : Reach C bs pk fork (c, d) → openCore C none d = .ok (c', j) →
      Reach C bs pk fork (c', d.applyAll j)
  | crash (c : Core) (d : Disk) (a : Act) (k : Nat) (c' : Core) (j : List SOp) : Reach C bs pk fork (c, d) → 0 < c.tree.length →
      OkActs C bs pk fork c.tree.length [a] →
      openCore C none (d.applyAll ((c.verifyAndApply C d (actProof C bs c d a)).journal.take k)) = .ok (c', j) →
      Reach C bs pk fork (c', (d.applyAll ((c.verifyAndApply C d (actProof C bs c d a)).journal.take k)).applyAll j)
  | blockGrow (c : Core) (d : Disk) (i n : Nat) (us : List (Nat × Nat)) (sig : Bytes) : Reach C bs pk fork (c, d) → 0 < c.tree.length →
      c.tree.length < n → n ≤ bs.size → Up c.tree.length 0 (rootsStack n).reverse us → sig.length = 64 →
      C.verify pk (signableAt C bs n fork) sig = true → i < c.tree.length →
      Reach C bs pk fork ((c.verifyAndApply C d (BlockGrow.honestBlockGrowth C bs c d i c.tree.length n us sig)).core,
        d.applyAll (c.verifyAndApply C d (BlockGrow.honestBlockGrowth C bs c d i c.tree.length n us sig)).journal)
  | crashBlockGrow (c : Core) (d : Disk) (i n : Nat) (us : List (Nat × Nat)) (sig : Bytes) (k : Nat) (c' : Core) (j : List SOp) :
      Reach C bs pk fork (c, d) → 0 < c.tree.length →
      c.tree.length < n → n ≤ bs.size → Up c.tree.length 0 (rootsStack n).reverse us → sig.length = 64 →
      C.verify pk (signableAt C bs n fork) sig = true → i < c.tree.length →
      openCore C none (d.applyAll ((c.verifyAndApply C d (BlockGrow.honestBlockGrowth C bs c d i c.tree.length n us sig)).journal.take k)) = .ok (c', j) →
      Reach C bs pk fork (c', (d.applyAll ((c.verifyAndApply C d (BlockGrow.honestBlockGrowth C bs c d i c.tree.length n us sig)).journal.take k)).applyAll j)
  | newBlock (c : Core) (d : Disk) (i n : Nat) (us a b : List (Nat × Nat)) (k : Nat) (sig : Bytes) : Reach C bs pk fork (c, d) → 0 < c.tree.length →
      c.tree.length < n → n ≤ bs.size → Up c.tree.length 0 (rootsStack n).reverse us → c.tree.length ≤ i → i < n → us = a ++ (k, i / 2 ^ k) :: b →
      sig.length = 64 → C.verify pk (signableAt C bs n fork) sig = true →
      Reach C bs pk fork ((c.verifyAndApply C d (BlockGrowGen.honestNewBlock C bs c.tree.fork i c.tree.length n a b k sig)).core,
        d.applyAll (c.verifyAndApply C d (BlockGrowGen.honestNewBlock C bs c.tree.fork i c.tree.length n a b k sig)).journal)
  | crashNewBlock (c : Core) (d : Disk) (i n : Nat) (us a b : List (Nat × Nat)) (k : Nat) (sig : Bytes) (kk : Nat) (c' : Core) (j : List SOp) :
      Reach C bs pk fork (c, d) → 0 < c.tree.length →
      c.tree.length < n → n ≤ bs.size → Up c.tree.length 0 (rootsStack n).reverse us → c.tree.length ≤ i → i < n → us = a ++ (k, i / 2 ^ k) :: b →
      sig.length = 64 → C.verify pk (signableAt C bs n fork) sig = true →
      openCore C none (d.applyAll ((c.verifyAndApply C d (BlockGrowGen.honestNewBlock C bs c.tree.fork i c.tree.length n a b k sig)).journal.take kk)) = .ok (c', j) →
      Reach C bs pk fork (c', (d.applyAll ((c.verifyAndApply C d (BlockGrowGen.honestNewBlock C bs c.tree.fork i c.tree.length n a b k sig)).journal.take kk)).applyAll j)

/-- **every reachable state satisfies the replica invariant and the ghost invariant** -/
theorem reach_rp (C : Crypto) (hC : HashWF C) (hT : TreeWF C) (bs : Array Bytes) (pk : Bytes) (fork : Nat) (s : Core × Disk)
    (h : Reach C bs pk fork s) : ∃ m held, RP C bs m s.1 s.2 held ∧ s.1.publicKey = pk ∧ s.1.tree.fork = fork := by
  induction h with
  | start c d m held hrp hpk hfk => exact ⟨m, held, hrp, hpk, hfk⟩
  | first c d n sig _ hlen0 h0 hn hsl hver ih =>
    obtain ⟨m, held, hrp, hpk, hfk⟩ := ih
    have hlen : c.tree.length = m := hrp.rep.closed.sparse.length
    simp only at hpk hfk
    have hm : m = 0 := by omega
    subst hm
    rw [← hpk, ← hfk] at hver
    obtain ⟨rfl, c1, e, j0, hk⟩ := first_ok0 C hC hT bs c d held hrp n h0 hn sig hsl hver
    obtain ⟨_, r2, r3, r4⟩ := rp_of_ok C bs 0 n c c1 d _ _ _ e j0 hrp hk
    exact ⟨_, _, r2, by rw [r3, hpk], by rw [r4, hfk]⟩
  | crashFirst c d n sig k c' j _ hlen0 h0 hn hsl hver hopen ih =>
    obtain ⟨m, held, hrp, hpk, hfk⟩ := ih
    have hlen : c.tree.length = m := hrp.rep.closed.sparse.length
    simp only at hpk hfk
    have hm : m = 0 := by omega
    subst hm
    rw [← hpk, ← hfk] at hver
    obtain ⟨rfl, c1, e, j0, hk⟩ := first_ok0 C hC hT bs c d held hrp n h0 hn sig hsl hver
    obtain ⟨c2, j2, r1, r2, r3, r4⟩ := crash_recover C bs 0 n c c1 d _ _ _ e j0 hrp hk k
    rw [hopen] at r1
    have := Except.ok.inj r1
    simp only [Prod.mk.injEq] at this
    obtain ⟨rfl, rfl⟩ := this
    rcases r4 with r4 | r4
    · exact ⟨_, _, r4, by rw [r2]; exact hpk, by rw [r3]; exact hfk⟩
    · exact ⟨_, _, r4, by rw [r2]; exact hpk, by rw [r3]; exact hfk⟩
  | act c d a _ hm0 hok ih =>
    obtain ⟨m, held, hrp, hpk, hfk⟩ := ih
    have hlen : c.tree.length = m := hrp.rep.closed.sparse.length
    simp only at hpk hfk
    rw [hlen] at hm0
    rw [hlen, ← hpk, ← hfk] at hok
    obtain ⟨c1, e, j0, hk⟩ := act_ok C hC hT bs m c d held hrp hm0 a hok
    obtain ⟨_, r2, r3, r4⟩ := rp_of_ok C bs m _ c c1 d held _ _ e j0 hrp hk
    exact ⟨_, _, r2, by rw [r3, hpk], by rw [r4, hfk]⟩
  | reopen c d c' j _ hopen ih =>
    obtain ⟨m, held, hrp, hpk, hfk⟩ := ih
    obtain ⟨c2, e1, e2, e3, e4⟩ := rp_reopen C bs m c d held hrp
    rw [hopen] at e1
    have := Except.ok.inj e1
    simp only [Prod.mk.injEq] at this
    obtain ⟨rfl, rfl⟩ := this
    exact ⟨m, held, e2, by rw [e3]; exact hpk, by rw [e4]; exact hfk⟩
  | crash c d a k c' j _ hm0 hok hopen ih =>
    obtain ⟨m, held, hrp, hpk, hfk⟩ := ih
    have hlen : c.tree.length = m := hrp.rep.closed.sparse.length
    simp only at hpk hfk
    rw [hlen] at hm0
    rw [hlen, ← hpk, ← hfk] at hok
    obtain ⟨c1, e, j0, hk⟩ := act_ok C hC hT bs m c d held hrp hm0 a hok
    obtain ⟨c2, j2, r1, r2, r3, r4⟩ := crash_recover C bs m _ c c1 d held _ _ e j0 hrp hk k
    rw [hopen] at r1
    have := Except.ok.inj r1
    simp only [Prod.mk.injEq] at this
    obtain ⟨rfl, rfl⟩ := this
    rcases r4 with r4 | r4
    · exact ⟨m, held, r4, by rw [r2]; exact hpk, by rw [r3]; exact hfk⟩
    · exact ⟨_, _, r4, by rw [r2]; exact hpk, by rw [r3]; exact hfk⟩
  | blockGrow c d i n us sig _ hm0 hmn hn hup hsl hver hi ih =>
    obtain ⟨m, held, hrp, hpk, hfk⟩ := ih
    have hlen : c.tree.length = m := hrp.rep.closed.sparse.length
    simp only at hpk hfk
    rw [← hpk, ← hfk] at hver
    obtain ⟨c1, e, j0, hk⟩ := BlockGrow.blockgrow_ok C hC hT bs c.tree.length n c d held (by rw [hlen]; exact hrp) hm0 hmn hn us hup sig hsl hver i hi
    obtain ⟨_, r2, r3, r4⟩ := rp_of_ok C bs _ n c c1 d held _ _ e j0 (by rw [hlen]; exact hrp) hk
    exact ⟨_, _, r2, by rw [r3, hpk], by rw [r4, hfk]⟩
  | crashBlockGrow c d i n us sig k c' j _ hm0 hmn hn hup hsl hver hi hopen ih =>
    obtain ⟨m, held, hrp, hpk, hfk⟩ := ih
    have hlen : c.tree.length = m := hrp.rep.closed.sparse.length
    simp only at hpk hfk
    rw [← hpk, ← hfk] at hver
    obtain ⟨c1, e, j0, hk⟩ := BlockGrow.blockgrow_ok C hC hT bs c.tree.length n c d held (by rw [hlen]; exact hrp) hm0 hmn hn us hup sig hsl hver i hi
    obtain ⟨c2, j2, r1, r2, r3, r4⟩ := crash_recover C bs _ n c c1 d held _ _ e j0 (by rw [hlen]; exact hrp) hk k
    rw [hopen] at r1
    have := Except.ok.inj r1
    simp only [Prod.mk.injEq] at this
    obtain ⟨rfl, rfl⟩ := this
    rcases r4 with r4 | r4
    · exact ⟨_, held, r4, by rw [r2]; exact hpk, by rw [r3]; exact hfk⟩
    · exact ⟨_, _, r4, by rw [r2]; exact hpk, by rw [r3]; exact hfk⟩
  | newBlock c d i n us a b k sig _ hm0 hmn hn hup hmi hi hsplit hsl hver ih =>
    obtain ⟨m, held, hrp, hpk, hfk⟩ := ih
    have hlen : c.tree.length = m := hrp.rep.closed.sparse.length
    simp only at hpk hfk
    rw [← hpk, ← hfk] at hver
    obtain ⟨c1, e, j0, hk⟩ := BlockGrowGen.newblock_ok C hC hT bs c.tree.length n c d held (by rw [hlen]; exact hrp) hm0 hmn hn us hup sig hsl hver i hmi hi a b k hsplit
    obtain ⟨_, r2, r3, r4⟩ := rp_of_ok C bs _ n c c1 d held _ _ e j0 (by rw [hlen]; exact hrp) hk
    exact ⟨_, _, r2, by rw [r3, hpk], by rw [r4, hfk]⟩
  | crashNewBlock c d i n us a b k sig kk c' j _ hm0 hmn hn hup hmi hi hsplit hsl hver hopen ih =>
    obtain ⟨m, held, hrp, hpk, hfk⟩ := ih
    have hlen : c.tree.length = m := hrp.rep.closed.sparse.length
    simp only at hpk hfk
    rw [← hpk, ← hfk] at hver
    obtain ⟨c1, e, j0, hk⟩ := BlockGrowGen.newblock_ok C hC hT bs c.tree.length n c d held (by rw [hlen]; exact hrp) hm0 hmn hn us hup sig hsl hver i hmi hi a b k hsplit
    obtain ⟨c2, j2, r1, r2, r3, r4⟩ := crash_recover C bs _ n c c1 d held _ _ e j0 (by rw [hlen]; exact hrp) hk kk
    rw [hopen] at r1
    have := Except.ok.inj r1
    simp only [Prod.mk.injEq] at this
    obtain ⟨rfl, rfl⟩ := this
    rcases r4 with r4 | r4
    · exact ⟨_, held, r4, by rw [r2]; exact hpk, by rw [r3]; exact hfk⟩
    · exact ⟨_, _, r4, by rw [r2]; exact hpk, by rw [r3]; exact hfk⟩

end HC.ReplicaCrash
