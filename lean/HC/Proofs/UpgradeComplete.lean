import HC.Proofs.UpgradeSound
import HC.Proofs.FullRoots
import HC.Proofs.Complete
/-!
Honest upgrades are accepted (C03), first contact: a replica that knows nothing yet asks for the upgrade from 0
to the writer's length `N`; the writer answers with the reference roots of its log and its signature; the
replica's `verify_upgrade` walks the full roots of `N` (`UpgradeSound.fullRoot_canon`), finds at each position
exactly the next supplied node — the greedy walk and the recursive root decomposition are the same list
(`FullRoots.cover_lt`) —, nothing merges, and the signature check is over exactly what the writer signed.
-/
namespace HC.UpgradeComplete
open HC HC.Codec HC.Flat HC.Tree HC.RefTree HC.RefProof HC.Sound HC.TreeStore HC.UpgradeSound HC.FullRoots HC.Offsets

/-- `shift` on a queue without extra node whose head has the wanted index -/
theorem shift_head (n : Node) (rest : List Node) (len i : Nat) (h : n.index = i) :
    (⟨n :: rest, none, len⟩ : NodeQueue).shift i = .ok (n, ⟨rest, none, len - 1⟩) := by
  simp [NodeQueue.shift, h]

theorem pos_index_lt (d o s : Nat) (h : (o + 1) * 2 ^ d ≤ s) : Flat.index d o < 2 * s := by
  rw [index_eq]
  have hp := pow_pos' d
  have e : (o + 1) * 2 ^ d = o * 2 ^ d + 2 ^ d := by ring
  have e2 : o * (2 * 2 ^ d) = 2 * (o * 2 ^ d) := by ring
  omega

theorem cover_length_le (l : List (Nat × Nat)) (a b : Nat) (h : Cover l a b) : l.length ≤ b - a := by
  induction h with
  | nil a => simp
  | cons d o a b rest ha hr ih =>
    have hp := pow_pos' d
    have e : (o + 1) * 2 ^ d = o * 2 ^ d + 2 ^ d := by ring
    have := hr.le
    simp only [List.length_cons]
    omega

theorem cover_nil_eq (a b : Nat) (h : Cover [] a b) : a = b := by cases h; rfl

/-- the root loop on honest input: supplied nodes = the reference nodes at the remaining root positions -/
theorem upgradeRoots_honest (C : Crypto) (bs : Array Bytes) (hN : bs.size < 2 ^ 64) : ∀ (rest done : List (Nat × Nat)) (fuel s : Nat)
    (st : UpState), Cover done 0 s → Cover rest s bs.size → DecDepth rest → st.it = iat 0 s → Align s bs.size →
    st.grow = false →
    st.cs.roots = done.map (fun p => nodeAt C bs p.1 p.2) → st.q.nodes = rest.map (fun p => nodeAt C bs p.1 p.2) → st.q.extra = none →
    (∀ r, st.cs.roots.getLast? = some r → ∃ m o, r.index = Flat.index m o ∧ bs.size < s + 2 ^ m) →
    rest.length < fuel →
    ∃ st', upgradeRoots C (2 * bs.size) fuel st = .ok st'
      ∧ st'.cs.roots = (done ++ rest).map (fun p => nodeAt C bs p.1 p.2) ∧ st'.cs.length = st.cs.length + (bs.size - s)
      ∧ st'.q.extra = none ∧ st'.cs.fork = st.cs.fork
      ∧ st'.cs.rnodes = (rest.map (fun p => nodeAt C bs p.1 p.2)).reverse ++ st.cs.rnodes
      ∧ st'.cs.upgraded = (st.cs.upgraded || !rest.isEmpty)
      ∧ st'.cs.origLength = st.cs.origLength ∧ st'.cs.origFork = st.cs.origFork ∧ st'.cs.ancestors = st.cs.ancestors := by
  intro rest
  induction rest with
  | nil =>
    intro done fuel s st hdone hrest _ hit _ _ hroots _ hex _ hfuel
    cases hrest
    obtain ⟨fuel, rfl⟩ : ∃ f, fuel = f + 1 := ⟨fuel - 1, by simp at hfuel; omega⟩
    refine ⟨{ st with it := iat 0 bs.size }, ?_, by simpa using hroots, by simp, hex, rfl, by simp, by simp, rfl, rfl, rfl⟩
    unfold upgradeRoots
    rw [hit, fullRoot_done bs.size bs.size (Nat.le_refl _)]
    simp
  | cons p rest ih =>
    intro done fuel s st hdone hrest hdec hit hal hgrow hroots hq hex hlast hfuel
    obtain ⟨d, o⟩ := p
    obtain ⟨fuel, rfl⟩ : ∃ f, fuel = f + 1 := ⟨fuel - 1, by simp at hfuel; omega⟩
    obtain ⟨c1, c2, c3⟩ := cover_lt _ s bs.size d o rest rfl hrest hdec
    have hs : s < bs.size := by have := pow_pos' d; omega
    obtain ⟨J, hfr, hd, hfit, hal', hmax⟩ := fullRoot_canon s bs.size hal hs hN
    -- the greedy height is the depth of the next root
    have hJ : J = d := by
      have h1 : 2 ^ J < 2 ^ (d + 1) := by omega
      have h2 : 2 ^ d < 2 ^ (J + 1) := by rw [two_pow_succ]; omega
      have := (Nat.pow_lt_pow_iff_right (by decide : 1 < 2)).mp h1
      have := (Nat.pow_lt_pow_iff_right (by decide : 1 < 2)).mp h2
      omega
    subst hJ
    have ho : s / 2 ^ J = o := by rw [c3]; exact Nat.mul_div_cancel _ (pow_pos' J)
    rw [ho] at hfr
    have hnext : (iat J o).nextTree = iat 0 (s + 2 ^ J) := by rw [← ho]; exact iat_nextTree J s hd
    unfold upgradeRoots
    rw [hit, hfr]
    simp only [Bool.not_true, Bool.false_eq_true, ite_false, hgrow, false_and]
    -- no existing root sits here
    have hno : ¬ (st.i < st.cs.roots.length ∧ (st.cs.roots.getD st.i default).index = (iat J o).index) := by
      rintro ⟨h1, h2⟩
      rw [hroots] at h1 h2
      have h1' : st.i < done.length := by simpa using h1
      have hget : (done.map (fun p => nodeAt C bs p.1 p.2)).getD st.i default = nodeAt C bs (done[st.i]).1 (done[st.i]).2 := by
        rw [List.getD_eq_getElem?_getD, List.getElem?_eq_getElem (by simpa using h1')]
        simp
      rw [hget] at h2
      have hb := Cover.bound hdone (done[st.i]) (List.getElem_mem h1')
      have := pos_index_lt (done[st.i]).1 (done[st.i]).2 s hb
      have hidx : (iat J o).index = 2 * s + 2 ^ J - 1 := by rw [← ho]; exact index_aligned J s hd
      have hq : (nodeAt C bs (done[st.i]).1 (done[st.i]).2).index = Flat.index (done[st.i]).1 (done[st.i]).2 := rfl
      have := pow_pos' J
      omega
    simp only [hno, ite_false]
    -- the next supplied node is the one asked for
    have hqs : st.q = ⟨nodeAt C bs J o :: rest.map (fun p => nodeAt C bs p.1 p.2), none, st.q.length⟩ := by
      cases hsq : st.q with
      | mk qn qe ql =>
        rw [hsq] at hq hex
        have e1 : qn = nodeAt C bs J o :: rest.map (fun p => nodeAt C bs p.1 p.2) := hq
        have e2 : qe = none := hex
        rw [e1, e2]
    rw [hqs, shift_head (nodeAt C bs J o) _ _ (iat J o).index rfl]
    dsimp only
    -- nothing merges
    have hnm : ∀ b, st.cs.roots.getLast? = some b → (iat J o).sibling.index ≠ b.index := by
      intro b hb hcon
      obtain ⟨m, o', h1, h2⟩ := hlast b hb
      rw [iat_sibling, h1] at hcon
      have := (index_inj _ _ _ _ hcon).1
      have hlt : 2 ^ J < 2 ^ m := by omega
      have := (Nat.pow_lt_pow_iff_right (by decide : 1 < 2)).mp hlt
      omega
    obtain ⟨hr1, hit1, hrn1⟩ := appendRoot_nomerge C st.cs (nodeAt C bs J o) (iat J o) hnm
    have hit1' : (appendRoot C st.cs (nodeAt C bs J o) (iat J o)).2 = iat J o := by
      rcases hit1 with e | e
      · exact e
      · rw [e, iat_sibling_sibling]
    have hlen1 : (appendRoot C st.cs (nodeAt C bs J o) (iat J o)).1.length = st.cs.length + 2 ^ J := by
      simp only [appendRoot, iat, two_pow_succ]
      have := pow_pos' J
      omega
    have hfork1 : (appendRoot C st.cs (nodeAt C bs J o) (iat J o)).1.fork = st.cs.fork := rfl
    have hup1 : (appendRoot C st.cs (nodeAt C bs J o) (iat J o)).1.upgraded = true := rfl
    have horig1 : (appendRoot C st.cs (nodeAt C bs J o) (iat J o)).1.origLength = st.cs.origLength
        ∧ (appendRoot C st.cs (nodeAt C bs J o) (iat J o)).1.origFork = st.cs.origFork
        ∧ (appendRoot C st.cs (nodeAt C bs J o) (iat J o)).1.ancestors = st.cs.ancestors := ⟨rfl, rfl, rfl⟩
    generalize har : appendRoot C st.cs (nodeAt C bs J o) (iat J o) = ar at hr1 hit1' hlen1 hfork1 hrn1 hup1 horig1 ⊢
    obtain ⟨cs1, it1⟩ := ar
    simp only at hr1 hit1' hlen1 hfork1 hrn1 hup1 horig1 ⊢
    have hdone' : Cover (done ++ [(J, o)]) 0 (s + 2 ^ J) := by
      apply hdone.append
      refine Cover.cons J o s _ [] c3 ?_
      have : (o + 1) * 2 ^ J = s + 2 ^ J := by rw [c3]; ring
      rw [this]; exact Cover.nil _
    have hrest' : Cover rest (s + 2 ^ J) bs.size := by
      cases hrest with
      | cons _ _ _ _ _ _ hr =>
        have : (o + 1) * 2 ^ J = s + 2 ^ J := by rw [c3]; ring
        rw [this] at hr; exact hr
    obtain ⟨st', h1, h2, h3, h4, h5, h6, h7, h8, h9, h10⟩ := ih (done ++ [(J, o)]) fuel (s + 2 ^ J)
      { st with cs := cs1, it := it1.nextTree, q := ⟨rest.map (fun p => nodeAt C bs p.1 p.2), none, st.q.length - 1⟩, grow := false }
      hdone' hrest' (List.pairwise_cons.mp hdec).2 (by show it1.nextTree = _; rw [hit1', hnext]) hal' rfl
      (by show cs1.roots = _; rw [hr1, hroots]; simp) rfl rfl
      (fun r hr => by
        have hr' : cs1.roots.getLast? = some r := hr
        rw [hr1] at hr'
        simp at hr'
        subst hr'
        exact ⟨J, o, rfl, hmax⟩)
      (by simp at hfuel; omega)
    refine ⟨st', h1, by rw [h2]; simp, ?_, h4, by rw [h5]; exact hfork1, ?_, ?_, by rw [h8]; exact horig1.1, by rw [h9]; exact horig1.2.1,
      by rw [h10]; exact horig1.2.2⟩
    rotate_left
    · rw [h6]; show _ ++ cs1.rnodes = _; rw [hrn1]; simp
    · rw [h7, hup1]; simp
    rw [h3]
    show cs1.length + _ = _
    rw [hlen1]
    have := pow_pos' J
    omega

/-- **A fresh replica accepts the writer's answer to "upgrade me from 0 to your length".** -/
theorem fresh_upgrade_accepted (C : Crypto) (bs : Array Bytes) (hN : bs.size < 2 ^ 64) (h0 : 0 < bs.size) (fork : Nat) (pk sig : Bytes)
    (cs : Changeset) (hroots : cs.roots = []) (hlen : cs.length = 0)
    (hsl : sig.length = 64) (hver : C.verify pk (RefTree.signableOf C bs fork) sig = true) :
    ∃ cs', verifyUpgrade C fork ⟨0, bs.size, RefTree.roots C bs, [], sig⟩ none pk cs = .ok (true, cs')
      ∧ cs'.roots = RefTree.roots C bs ∧ cs'.length = bs.size ∧ cs'.fork = fork ∧ cs'.signature = some sig
      ∧ cs'.rnodes = (RefTree.roots C bs).reverse ++ cs.rnodes ∧ cs'.upgraded = true
      ∧ cs'.origLength = cs.origLength ∧ cs'.origFork = cs.origFork ∧ cs'.ancestors = cs.ancestors
      ∧ cs'.hash = some (rootsHash C cs'.roots) := by
  have hrs : RefTree.roots C bs = (rootsStack bs.size).reverse.map (fun p => nodeAt C bs p.1 p.2) := by
    simp [RefTree.roots]
  obtain ⟨st', h1, h2, h3, h4, _, h6, h7, h8, h9, h10⟩ := upgradeRoots_honest C bs hN (rootsStack bs.size).reverse [] (2 * bs.size + 2) 0
    ⟨cs, Iter.new 0, NodeQueue.new (RefTree.roots C bs) none, 0, !cs.roots.isEmpty⟩
    (Cover.nil 0) (cover_roots bs.size) (rootsStack_rev_dec bs.size) (by show Iter.new 0 = iat 0 0; exact new_even 0) (align_zero _)
    (by simp [hroots]) (by simp [hroots]) (by simp [NodeQueue.new, hrs]) rfl
    (fun r hr => by have hr' : cs.roots.getLast? = some r := hr; rw [hroots] at hr'; cases hr')
    (by
      have hl := cover_length_le _ _ _ (cover_roots bs.size)
      omega)
  simp only [List.nil_append] at h2
  have hne : st'.cs.roots ≠ [] := by
    rw [h2]
    intro hnil
    have hc := cover_roots bs.size
    rw [List.map_eq_nil_iff] at hnil
    rw [hnil] at hc
    have := cover_nil_eq _ _ hc
    omega
  obtain ⟨last, hlast⟩ : ∃ last, st'.cs.roots.getLast? = some last := by
    cases hl : st'.cs.roots.getLast? with
    | none => rw [List.getLast?_eq_none_iff] at hl; exact absurd hl hne
    | some l => exact ⟨l, rfl⟩
  have hrne : (rootsStack bs.size).reverse ≠ [] := by
    intro hnil
    have hc := cover_roots bs.size
    rw [hnil] at hc
    have := cover_nil_eq _ _ hc
    omega
  have hupg : st'.cs.upgraded = true := by
    rw [h7]
    cases hx : (rootsStack bs.size).reverse with
    | nil => exact absurd hx hrne
    | cons a b => simp
  refine ⟨{ st'.cs with fork := fork, hash := some (rootsHash C st'.cs.roots), signature := some sig }, ?_, ?_, ?_, rfl, rfl,
    by show st'.cs.rnodes = _; rw [h6, hrs], hupg, h8, h9, h10, rfl⟩
  · unfold verifyUpgrade
    simp only [andThen, Nat.zero_add]
    rw [h1]
    simp only [hlast, extraSiblings, extraRest, checkSignature, hsl, ne_eq, not_true_eq_false, ite_false, h4, Option.isNone_none]
    have hv : C.verify pk (signable (rootsHash C st'.cs.roots) st'.cs.length fork) sig = true := by
      rw [h2, ← hrs, h3, hlen]
      simpa [RefTree.signableOf, rootsHash] using hver
    simp [hv]
  · exact h2.trans hrs.symm
  · show st'.cs.length = bs.size
    rw [h3, hlen]; omega

/-! ### the writer's answer -/

theorem requiredNode_ok (C : Crypto) (bs : Array Bytes) (t : Tree) (f : File) (hN : NodesOK C bs t f) (d o : Nat)
    (hb : (o + 1) * 2 ^ d ≤ bs.size) : t.requiredNode f (Flat.index d o) = .ok (nodeAt C bs d o) := by
  unfold Tree.requiredNode; rw [hN d o hb]

/-- the root loop of `upgrade_proof` for an upgrade from 0: the reference roots, left to right -/
theorem upgradeLoop_honest0 (C : Crypto) (bs : Array Bytes) (t : Tree) (f : File) (hNodes : NodesOK C bs t f) (hN : bs.size < 2 ^ 64)
    (sub : Nat) (hsub : 2 * bs.size ≤ sub) (p : LocalProof) :
    ∀ (rest : List (Nat × Nat)) (fuel s : Nat) (acc : List Node), Cover rest s bs.size → DecDepth rest → Align s bs.size →
      rest.length < fuel →
      t.upgradeLoop f true none false 0 (2 * bs.size) sub fuel (iat 0 s) true acc p
        = .ok (true, acc ++ rest.map (fun q => nodeAt C bs q.1 q.2), p) := by
  intro rest
  induction rest with
  | nil =>
    intro fuel s acc hc _ _ hfuel
    have := cover_nil_eq _ _ hc
    subst this
    obtain ⟨fuel, rfl⟩ : ∃ x, fuel = x + 1 := ⟨fuel - 1, by simp at hfuel; omega⟩
    unfold Tree.upgradeLoop
    rw [fullRoot_done bs.size bs.size (Nat.le_refl _)]
    simp
  | cons q rest ih =>
    intro fuel s acc hc hdec hal hfuel
    obtain ⟨d, o⟩ := q
    obtain ⟨fuel, rfl⟩ : ∃ x, fuel = x + 1 := ⟨fuel - 1, by simp at hfuel; omega⟩
    obtain ⟨c1, c2, c3⟩ := cover_lt _ s bs.size d o rest rfl hc hdec
    have hs : s < bs.size := by have := pow_pos' d; omega
    obtain ⟨J, hfr, hd, hfit, hal', hmax⟩ := fullRoot_canon s bs.size hal hs hN
    have hJ : J = d := by
      have h1 : 2 ^ J < 2 ^ (d + 1) := by omega
      have h2 : 2 ^ d < 2 ^ (J + 1) := by rw [two_pow_succ]; omega
      have := (Nat.pow_lt_pow_iff_right (by decide : 1 < 2)).mp h1
      have := (Nat.pow_lt_pow_iff_right (by decide : 1 < 2)).mp h2
      omega
    subst hJ
    have ho : s / 2 ^ J = o := by rw [c3]; exact Nat.mul_div_cancel _ (pow_pos' J)
    rw [ho] at hfr
    have hnext : (iat J o).nextTree = iat 0 (s + 2 ^ J) := by rw [← ho]; exact iat_nextTree J s hd
    have hspan : (o + 1) * 2 ^ J ≤ bs.size := by
      have : (o + 1) * 2 ^ J = s + 2 ^ J := by rw [c3]; ring
      omega
    have hcont : (iat J o).contains sub = false := by
      rw [Complete.iat_contains]
      have e : (o + 1) * 2 ^ (J + 1) = 2 * ((o + 1) * 2 ^ J) := by rw [two_pow_succ]; ring
      have : ¬ (sub + 2 ≤ (o + 1) * 2 ^ (J + 1)) := by rw [e]; omega
      simp [this]
    have hrest' : Cover rest (s + 2 ^ J) bs.size := by
      cases hc with
      | cons _ _ _ _ _ _ hr =>
        have : (o + 1) * 2 ^ J = s + 2 ^ J := by rw [c3]; ring
        rw [this] at hr; exact hr
    unfold Tree.upgradeLoop
    rw [hfr]
    simp only [Bool.not_true, Bool.false_eq_true, ite_false, Nat.not_lt_zero, Bool.false_and, hcont, Bool.and_false]
    rw [show (iat J o).index = Flat.index J o from rfl, requiredNode_ok C bs t f hNodes J o hspan]
    simp only []
    rw [hnext, ih fuel (s + 2 ^ J) (acc ++ [nodeAt C bs J o]) hrest' (List.pairwise_cons.mp hdec).2 hal' (by simp at hfuel; omega)]
    simp

/-- **The writer's answer to "upgrade me from 0 to your length"** is its reference roots and its signature. -/
theorem create_upgrade_from0 (C : Crypto) (bs : Array Bytes) (t : Tree) (f : File) (hT : RootsOK C bs t.changeset)
    (hNodes : NodesOK C bs t f) (hN : bs.size < 2 ^ 64) (h0 : 0 < bs.size) (sig : Bytes) (hsig : t.signature = some sig) :
    t.createValuelessProof f none none none (some ⟨0, bs.size⟩)
      = .ok ⟨t.fork, none, none, none, some ⟨0, bs.size, RefTree.roots C bs, [], sig⟩⟩ := by
  have hlen : t.length = bs.size := hT.length
  have hrs : RefTree.roots C bs = (rootsStack bs.size).reverse.map (fun p => nodeAt C bs p.1 p.2) := by
    simp [RefTree.roots]
  have hl64 : (rootsStack bs.size).reverse.length < 80 := by
    have := rootsStack_length_log 64 bs.size hN
    simp only [List.length_reverse]; omega
  have hloop := upgradeLoop_honest0 C bs t f hNodes hN (2 * bs.size) (Nat.le_refl _) {} (rootsStack bs.size).reverse 80 0 []
    (cover_roots bs.size) (rootsStack_rev_dec bs.size) (align_zero _) hl64
  have hnew : Iter.new 0 = iat 0 0 := new_even 0
  have hc1 : ¬ (0 * 2 ≥ 0 * 2 + bs.size * 2 ∨ 0 * 2 + bs.size * 2 > 2 * bs.size) := by omega
  have hto : 0 * 2 + bs.size * 2 = 2 * bs.size := by omega
  unfold Tree.createValuelessProof
  simp only [hlen, hc1, ite_false, Option.isSome_some, Option.isSome_none, Bool.false_and, Bool.not_false, ite_true, hto,
    Tree.upgradeProof, hnew, decide_true, hloop, List.nil_append, Nat.lt_irrefl, hsig, ← hrs]
  simp
  intro hb; rw [hb] at h0; simp at h0

end HC.UpgradeComplete
