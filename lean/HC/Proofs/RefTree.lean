import HC.Model.Tree
import HC.Spec.RefTree
import Mathlib.Tactic.Ring
/-!
`append_root`'s incremental merge loop computes the reference tree: positions (binary-counter
induction over the recursive root stack) and node values (merging two reference siblings yields the
reference parent).
-/
namespace HC.RefProof
open HC HC.Codec HC.Flat HC.Tree HC.RefTree

/-! ### iterator at a structural position -/

def iat (d o : Nat) : Iter := ⟨Flat.index d o, o, 2 ^ (d + 1)⟩

theorem pow_succ2 (d : Nat) : 2 ^ (d + 1) = 2 * 2 ^ d := by rw [Nat.pow_succ]; omega

theorem index_eq (d o : Nat) : Flat.index d o = o * (2 * 2 ^ d) + (2 ^ d - 1) := by
  simp [Flat.index, pow_succ2]

theorem pow_pos' (d : Nat) : 0 < 2 ^ d := Nat.pow_pos (by decide)

theorem new_even (n : Nat) : Iter.new (2 * n) = iat 0 n := by
  have h : (2 * n) % 2 = 0 := by omega
  simp [Iter.new, iat, Flat.index, h]
  omega

theorem iat_sibling_even (d o : Nat) (h : o % 2 = 0) : (iat d o).sibling = iat d (o + 1) := by
  simp only [Iter.sibling, Iter.isLeft, iat, h, decide_true, ite_true, Iter.next, Iter.mk.injEq, and_true, true_and]
  rw [index_eq, index_eq, pow_succ2]
  have : (o + 1) * (2 * 2 ^ d) = o * (2 * 2 ^ d) + 2 * 2 ^ d := by ring
  omega

theorem iat_sibling_odd (d o : Nat) (h : o % 2 = 1) : (iat d o).sibling = iat d (o - 1) := by
  have hne : ¬ (o % 2 = 0) := by omega
  have ho : o ≠ 0 := by omega
  simp only [Iter.sibling, Iter.isLeft, iat, hne, decide_false, Bool.false_eq_true, ite_false, Iter.prev, ho,
    Iter.mk.injEq, and_true, true_and]
  rw [index_eq, index_eq, pow_succ2]
  obtain ⟨q, rfl⟩ : ∃ q, o = q + 1 := ⟨o - 1, by omega⟩
  have : (q + 1) * (2 * 2 ^ d) = q * (2 * 2 ^ d) + 2 * 2 ^ d := by ring
  simp only [Nat.add_sub_cancel]
  have hp := pow_pos' d
  omega

theorem iat_parent (d o : Nat) : (iat d o).parent = iat (d + 1) (o / 2) := by
  have hp := pow_pos' d
  by_cases h : o % 2 = 1
  · obtain ⟨q, rfl⟩ : ∃ q, o = 2 * q + 1 := ⟨o / 2, by omega⟩
    have hq : (2 * q + 1) / 2 = q := by omega
    have hq2 : (2 * q + 1 - 1) / 2 = q := by omega
    simp only [Iter.parent, iat, h, ite_true, hq, hq2, Iter.mk.injEq]
    refine ⟨?_, trivial, ?_⟩
    · simp only [index_eq, pow_succ2]
      have e1 : (2 * q + 1) * (2 * 2 ^ d) = 4 * (q * 2 ^ d) + 2 * 2 ^ d := by ring
      have e2 : q * (2 * (2 * 2 ^ d)) = 4 * (q * 2 ^ d) := by ring
      have e3 : 2 * 2 ^ d / 2 = 2 ^ d := by omega
      rw [e1, e2, e3]
      omega
    · rw [pow_succ2 (d + 1), pow_succ2 d]; ring
  · obtain ⟨q, rfl⟩ : ∃ q, o = 2 * q := ⟨o / 2, by omega⟩
    have hq : (2 * q) / 2 = q := by omega
    have hne : ¬ ((2 * q) % 2 = 1) := by omega
    simp only [Iter.parent, iat, hne, ite_false, hq, Iter.mk.injEq]
    refine ⟨?_, trivial, ?_⟩
    · simp only [index_eq, pow_succ2]
      have e1 : (2 * q) * (2 * 2 ^ d) = 4 * (q * 2 ^ d) := by ring
      have e2 : q * (2 * (2 * 2 ^ d)) = 4 * (q * 2 ^ d) := by ring
      have e3 : 2 * 2 ^ d / 2 = 2 ^ d := by omega
      rw [e1, e2, e3]
      omega
    · rw [pow_succ2 (d + 1), pow_succ2 d]; ring

theorem index_lt_of_offset_lt (d o o' : Nat) (h : o < o') : Flat.index d o < Flat.index d o' := by
  rw [index_eq, index_eq]
  have hp := pow_pos' d
  have : o * (2 * 2 ^ d) + 2 * 2 ^ d ≤ o' * (2 * 2 ^ d) := by
    have : (o + 1) * (2 * 2 ^ d) ≤ o' * (2 * 2 ^ d) := Nat.mul_le_mul_right _ h
    have e : (o + 1) * (2 * 2 ^ d) = o * (2 * 2 ^ d) + 2 * 2 ^ d := by ring
    omega
  omega

/-! ### the recursive root stack -/

def lift (p : Nat × Nat) : Nat × Nat := (p.1 + 1, p.2)
def liftN (k : Nat) (p : Nat × Nat) : Nat × Nat := (p.1 + k, p.2)

theorem rootsStack_zero : rootsStack 0 = [] := by unfold rootsStack; simp

theorem rootsStack_even (n : Nat) (h0 : n ≠ 0) (h : n % 2 = 0) : rootsStack n = (rootsStack (n / 2)).map lift := by
  rw [rootsStack]; simp [h0, h, lift]

theorem rootsStack_odd (n : Nat) (h : n % 2 = 1) : rootsStack n = (0, n - 1) :: (rootsStack (n / 2)).map lift := by
  have h0 : n ≠ 0 := by omega
  have h2 : ¬ n % 2 = 0 := by omega
  rw [rootsStack]; simp [h0, h2, lift]

theorem map_liftN_lift (k : Nat) (l : List (Nat × Nat)) : (l.map lift).map (liftN k) = l.map (liftN (k + 1)) := by
  simp [List.map_map, Function.comp_def, liftN, lift]
  intro a b _; omega

/-- every root of an `n`-leaf tree lies within the first `n` leaves -/
theorem rootsStack_bound (n : Nat) : ∀ p ∈ rootsStack n, (p.2 + 1) * 2 ^ p.1 ≤ n := by
  induction n using Nat.strongRecOn with
  | _ n ih =>
    intro p hp
    by_cases h0 : n = 0
    · subst h0; rw [rootsStack_zero] at hp; cases hp
    by_cases hev : n % 2 = 0
    · rw [rootsStack_even n h0 hev] at hp
      simp only [List.mem_map] at hp
      obtain ⟨q, hq, rfl⟩ := hp
      have := ih (n / 2) (by omega) q hq
      simp only [lift]
      rw [pow_succ2]
      have e : (q.2 + 1) * (2 * 2 ^ q.1) = 2 * ((q.2 + 1) * 2 ^ q.1) := by ring
      omega
    · rw [rootsStack_odd n (by omega)] at hp
      simp only [List.mem_cons, List.mem_map] at hp
      rcases hp with rfl | ⟨q, hq, rfl⟩
      · simp; omega
      · have := ih (n / 2) (by omega) q hq
        simp only [lift]
        rw [pow_succ2]
        have e : (q.2 + 1) * (2 * 2 ^ q.1) = 2 * ((q.2 + 1) * 2 ^ q.1) := by ring
        omega

theorem rootsStack_length_le (n : Nat) : (rootsStack n).length ≤ n := by
  induction n using Nat.strongRecOn with
  | _ n ih =>
    by_cases h0 : n = 0
    · subst h0; rw [rootsStack_zero]; simp
    by_cases hev : n % 2 = 0
    · rw [rootsStack_even n h0 hev]; simp; have := ih (n / 2) (by omega); omega
    · rw [rootsStack_odd n (by omega)]; simp; have := ih (n / 2) (by omega); omega

/-! ### reference nodes -/

/-- a reference node over the first `n` blocks does not change when blocks are appended -/
theorem node_push (C : Crypto) (bs : Array Bytes) (b : Bytes) (d o : Nat) (h : (o + 1) * 2 ^ d ≤ bs.size) :
    RefTree.node C (bs.push b) d o = RefTree.node C bs d o := by
  induction d generalizing o with
  | zero =>
    simp only [RefTree.node]
    have : o < bs.size := by simp at h; omega
    simp [Array.getD_eq_getD_getElem?, Array.getElem?_push, this, Nat.ne_of_lt this]
  | succ d ih =>
    simp only [RefTree.node]
    rw [pow_succ2] at h
    have e1 : (2 * o + 1) * 2 ^ d ≤ bs.size := by
      have : (2 * o + 1) * 2 ^ d ≤ (o + 1) * (2 * 2 ^ d) := by
        have : (o + 1) * (2 * 2 ^ d) = (2 * o + 2) * 2 ^ d := by ring
        rw [this]; exact Nat.mul_le_mul_right _ (by omega)
      omega
    have e2 : (2 * o + 1 + 1) * 2 ^ d ≤ bs.size := by
      have : (2 * o + 1 + 1) * 2 ^ d = (o + 1) * (2 * 2 ^ d) := by ring
      omega
    rw [ih _ e1, ih _ e2]

theorem nodeAt_push (C : Crypto) (bs : Array Bytes) (b : Bytes) (d o : Nat) (h : (o + 1) * 2 ^ d ≤ bs.size) :
    nodeAt C (bs.push b) d o = nodeAt C bs d o := by
  simp [nodeAt, node_push C bs b d o h]

/-- merging two reference siblings gives the reference parent -/
theorem parent_of_ref (C : Crypto) (bs : Array Bytes) (k m : Nat) (hm : m % 2 = 1) :
    (⟨Flat.index (k + 1) (m / 2), (nodeAt C bs k m).length + (nodeAt C bs k (m - 1)).length,
      parentHash C (nodeAt C bs k m) (nodeAt C bs k (m - 1))⟩ : Node) = nodeAt C bs (k + 1) (m / 2) := by
  have hlt : ¬ (nodeAt C bs k m).index ≤ (nodeAt C bs k (m - 1)).index := by
    simp only [nodeAt]
    have := index_lt_of_offset_lt k (m - 1) m (by omega)
    omega
  have e1 : 2 * (m / 2) = m - 1 := by omega
  have e2 : 2 * (m / 2) + 1 = m := by omega
  simp only [parentHash, hlt, ite_false]
  have e3 : m - 1 + 1 = m := by omega
  simp only [nodeAt, RefTree.node, e1, e3]
  rw [Nat.add_comm (RefTree.node C bs k m).1]

/-! ### the merge loop -/

theorem mergeLoop_single (C : Crypto) (fuel : Nat) (a : Node) (nodes : List Node) (it : Iter) :
    mergeLoop C fuel [a] nodes it = ([a], nodes, it) := by
  cases fuel <;> simp [mergeLoop]

theorem mergeLoop_nomerge (C : Crypto) (fuel : Nat) (a b : Node) (rest nodes : List Node) (it : Iter)
    (h : it.sibling.index ≠ b.index) :
    mergeLoop C (fuel + 1) (a :: b :: rest) nodes it = (a :: b :: rest, nodes, it.sibling.sibling) := by
  simp [mergeLoop, h]

theorem mergeLoop_merge (C : Crypto) (fuel : Nat) (a b : Node) (rest nodes : List Node) (it : Iter)
    (h : it.sibling.index = b.index) :
    mergeLoop C (fuel + 1) (a :: b :: rest) nodes it =
      mergeLoop C fuel ((⟨it.sibling.parent.index, a.length + b.length, parentHash C a b⟩ : Node) :: rest)
        ((⟨it.sibling.parent.index, a.length + b.length, parentHash C a b⟩ : Node) :: nodes) it.sibling.parent := by
  simp [mergeLoop, h]

/-- a node strictly above depth `k` whose span ends where `(m+1)` spans of depth `k` end exists only
    when `m + 1` is even -/
theorem carry_even (k d o m : Nat) (hd : k < d) (h : (o + 1) * 2 ^ d = (m + 1) * 2 ^ k) : (m + 1) % 2 = 0 := by
  obtain ⟨j, rfl⟩ : ∃ j, d = k + (j + 1) := ⟨d - k - 1, by omega⟩
  have e : (o + 1) * 2 ^ (k + (j + 1)) = ((o + 1) * (2 * 2 ^ j)) * 2 ^ k := by
    rw [Nat.pow_add, pow_succ2]; ring
  rw [e] at h
  have := Nat.eq_of_mul_eq_mul_right (pow_pos' k) h
  have e2 : (o + 1) * (2 * 2 ^ j) = 2 * ((o + 1) * 2 ^ j) := by ring
  omega

/-- Binary-counter step.  The newest root sits at (k, m) on top of the lifted stack of an `m`-leaf
    tree; the loop leaves the lifted stack of an `(m+1)`-leaf tree, adds exactly the merged parents
    (all reference nodes), and the iterator ends on the top root. -/
theorem mergeLoop_ref_eq (C : Crypto) (bs : Array Bytes) (m : Nat) :
    ∀ (k fuel : Nat) (rn : List Node), (rootsStack m).length < fuel →
      ∃ (added : List Node) (top : Nat × Nat),
        mergeLoop C fuel (nodeAt C bs k m :: ((rootsStack m).map (liftN k)).map (fun p => nodeAt C bs p.1 p.2)) rn (iat k m)
          = (((rootsStack (m + 1)).map (liftN k)).map (fun p => nodeAt C bs p.1 p.2), added ++ rn, iat top.1 top.2)
        ∧ (∀ n ∈ added, ∃ d o, n = nodeAt C bs d o ∧ (o + 1) * 2 ^ d = (m + 1) * 2 ^ k ∧ k < d)
        ∧ ((rootsStack (m + 1)).map (liftN k)).head? = some top
        ∧ (∀ d o, k < d → (o + 1) * 2 ^ d = (m + 1) * 2 ^ k → nodeAt C bs d o ∈ added)
        ∧ (∀ (a b : List Node) (x : Node), added = a ++ x :: b → ∀ y ∈ a, ∃ dx ox dy oy, x = nodeAt C bs dx ox ∧ y = nodeAt C bs dy oy ∧ dx < dy) := by
  induction m using Nat.strongRecOn with
  | _ m ih =>
    intro k fuel rn hf
    obtain ⟨fuel, rfl⟩ : ∃ f, fuel = f + 1 := ⟨fuel - 1, by omega⟩
    by_cases hm0 : m = 0
    · subst hm0
      have h1 : rootsStack 1 = [(0, 0)] := by
        rw [rootsStack_odd 1 (by decide)]; simp [rootsStack_zero]
      refine ⟨[], (k, 0), ?_, by simp, ?_, ?_, ?_⟩
      · simp [rootsStack_zero, h1, mergeLoop, liftN]
      · simp [h1, liftN]
      · intro d o hd h
        have := carry_even k d o 0 hd h
        omega
      · intro a b x hsplit; simp at hsplit
    by_cases hev : m % 2 = 0
    · -- m even: the previous top root is deeper; nothing merges
      have e1 := rootsStack_even m hm0 hev
      have e2 : rootsStack (m + 1) = (0, m) :: (rootsStack (m / 2)).map lift := by
        rw [rootsStack_odd (m + 1) (by omega)]
        have : (m + 1) / 2 = m / 2 := by omega
        simp [this]
      refine ⟨[], (k, m), ?_, by simp, ?_, ?_, (by intro a b x hsplit; simp at hsplit)⟩
      · rw [e2, e1]
        simp only [List.map_cons, liftN, Nat.zero_add, List.nil_append]
        cases hl : (rootsStack (m / 2)).map lift with
        | nil => simp [mergeLoop_single]
        | cons b rest =>
          have hb : b ∈ rootsStack m := by rw [e1, hl]; simp
          have hbound := rootsStack_bound m b hb
          have hsib := iat_sibling_even k m hev
          have hne : (iat k m).sibling.index ≠ (nodeAt C bs (b.1 + k) b.2).index := by
            rw [hsib]
            simp only [iat, nodeAt]
            have h1 : Flat.index (b.1 + k) b.2 < (b.2 + 1) * (2 * 2 ^ (b.1 + k)) := by
              rw [index_eq]
              have hp := pow_pos' (b.1 + k)
              have : (b.2 + 1) * (2 * 2 ^ (b.1 + k)) = b.2 * (2 * 2 ^ (b.1 + k)) + 2 * 2 ^ (b.1 + k) := by ring
              omega
            have h2 : (b.2 + 1) * (2 * 2 ^ (b.1 + k)) ≤ m * (2 * 2 ^ k) := by
              have : (b.2 + 1) * (2 * 2 ^ (b.1 + k)) = ((b.2 + 1) * 2 ^ b.1) * (2 * 2 ^ k) := by
                rw [Nat.pow_add]; ring
              rw [this]; exact Nat.mul_le_mul_right _ hbound
            have h3 : m * (2 * 2 ^ k) ≤ Flat.index k (m + 1) := by
              rw [index_eq]
              have : (m + 1) * (2 * 2 ^ k) = m * (2 * 2 ^ k) + 2 * 2 ^ k := by ring
              omega
            omega
          simp only [List.map_cons, liftN]
          rw [mergeLoop_nomerge C fuel _ _ _ _ _ hne, hsib, iat_sibling_odd k (m + 1) (by omega)]
          simp
      · rw [e2]; simp [liftN]
      · intro d o hd h
        have := carry_even k d o m hd h
        omega
    · -- m odd: merge with the left sibling (k, m-1) and carry into depth k+1
      have hodd : m % 2 = 1 := by omega
      have e1 := rootsStack_odd m hodd
      have e2 : rootsStack (m + 1) = (rootsStack ((m + 1) / 2)).map lift :=
        rootsStack_even (m + 1) (by omega) (by omega)
      have hh : (m + 1) / 2 = m / 2 + 1 := by omega
      have hlen : (rootsStack (m / 2)).length < fuel := by
        rw [e1] at hf; simp at hf; omega
      obtain ⟨added, top, hrec, hadd, htop, hcomp, hsorted⟩ := ih (m / 2) (by omega) (k + 1) fuel
        (nodeAt C bs (k + 1) (m / 2) :: rn) hlen
      refine ⟨added ++ [nodeAt C bs (k + 1) (m / 2)], top, ?_, ?_, ?_, ?_, ?_⟩
      rotate_right
      · intro a b x hsplit y hy
        rcases List.eq_nil_or_concat b with rfl | ⟨b', z, rfl⟩
        · obtain ⟨ha, hx⟩ := List.append_inj' hsplit rfl
          subst ha
          have hx' : x = nodeAt C bs (k + 1) (m / 2) := by simpa using hx.symm
          obtain ⟨d, o, rfl, _, hd⟩ := hadd y hy
          exact ⟨k + 1, m / 2, d, o, hx', rfl, hd⟩
        · have e : added ++ [nodeAt C bs (k + 1) (m / 2)] = (a ++ x :: b') ++ [z] := by
            rw [hsplit]; simp [List.append_assoc]
          obtain ⟨h1, _⟩ := List.append_inj' e rfl
          exact hsorted a b' x h1 y hy
      · rw [e1]
        simp only [List.map_cons, liftN, Nat.zero_add]
        have hidx : (iat k m).sibling.index = (nodeAt C bs k (m - 1)).index := by
          rw [iat_sibling_odd k m hodd]; rfl
        rw [mergeLoop_merge C fuel _ _ _ _ _ hidx, iat_sibling_odd k m hodd, iat_parent]
        have hq : (m - 1) / 2 = m / 2 := by omega
        rw [hq]
        have hpar := parent_of_ref C bs k m hodd
        have hix : (iat (k + 1) (m / 2)).index = Flat.index (k + 1) (m / 2) := rfl
        rw [hix, hpar, map_liftN_lift, hrec, e2, hh, map_liftN_lift]
        simp [List.append_assoc]
      · intro n hn
        simp only [List.mem_append, List.mem_singleton] at hn
        rcases hn with hn | rfl
        · obtain ⟨d, o, rfl, hb, hd⟩ := hadd n hn
          refine ⟨d, o, rfl, ?_, by omega⟩
          have : (m / 2 + 1) * 2 ^ (k + 1) = (m + 1) * 2 ^ k := by
            rw [pow_succ2]
            have : (m / 2 + 1) * (2 * 2 ^ k) = (2 * (m / 2) + 2) * 2 ^ k := by ring
            rw [this]; congr 1; omega
          omega
        · refine ⟨k + 1, m / 2, rfl, ?_, by omega⟩
          rw [pow_succ2]
          have : (m / 2 + 1) * (2 * 2 ^ k) = (2 * (m / 2) + 2) * 2 ^ k := by ring
          rw [this]
          congr 1; omega
      · rw [e2, hh, map_liftN_lift]; exact htop
      · intro d o hd h
        have hcarry : (m / 2 + 1) * 2 ^ (k + 1) = (m + 1) * 2 ^ k := by
          rw [pow_succ2]
          have : (m / 2 + 1) * (2 * 2 ^ k) = (2 * (m / 2) + 2) * 2 ^ k := by ring
          rw [this]; congr 1; omega
        by_cases hd1 : d = k + 1
        · subst hd1
          rw [← hcarry] at h
          have ho := Nat.eq_of_mul_eq_mul_right (pow_pos' (k + 1)) h
          have : o = m / 2 := by omega
          subst this
          simp
        · have := hcomp d o (by omega) (by rw [hcarry]; exact h)
          simp [this]

/-- (the form used by the append-side proofs: the added nodes lie inside the new length) -/
theorem mergeLoop_ref (C : Crypto) (bs : Array Bytes) (m : Nat) :
    ∀ (k fuel : Nat) (rn : List Node), (rootsStack m).length < fuel →
      ∃ (added : List Node) (top : Nat × Nat),
        mergeLoop C fuel (nodeAt C bs k m :: ((rootsStack m).map (liftN k)).map (fun p => nodeAt C bs p.1 p.2)) rn (iat k m)
          = (((rootsStack (m + 1)).map (liftN k)).map (fun p => nodeAt C bs p.1 p.2), added ++ rn, iat top.1 top.2)
        ∧ (∀ n ∈ added, ∃ d o, n = nodeAt C bs d o ∧ (o + 1) * 2 ^ d ≤ (m + 1) * 2 ^ k ∧ k < d)
        ∧ ((rootsStack (m + 1)).map (liftN k)).head? = some top
        ∧ (∀ d o, k < d → (o + 1) * 2 ^ d = (m + 1) * 2 ^ k → nodeAt C bs d o ∈ added) := by
  intro k fuel rn hf
  obtain ⟨added, top, h1, h2, h3, h4, _⟩ := mergeLoop_ref_eq C bs m k fuel rn hf
  exact ⟨added, top, h1, fun n hn => by obtain ⟨d, o, e, hb, hd⟩ := h2 n hn; exact ⟨d, o, e, Nat.le_of_eq hb, hd⟩, h3, h4⟩

end HC.RefProof

namespace HC.RefProof
open HC HC.Codec HC.Flat HC.Tree HC.RefTree

/-! ### `append` computes the reference tree -/

/-- the changeset's roots are the reference roots of the block list `bs` -/
structure RootsOK (C : Crypto) (bs : Array Bytes) (cs : Changeset) : Prop where
  length : cs.length = bs.size
  roots : cs.roots.reverse = (rootsStack bs.size).map (fun p => nodeAt C bs p.1 p.2)
  bytes : cs.byteLength = (bs.toList.map List.length).sum

theorem liftN_zero (l : List (Nat × Nat)) : l.map (liftN 0) = l := by
  induction l with
  | nil => rfl
  | cons p ps ih => simp [liftN, ih]

theorem nodeAt_leaf_push (C : Crypto) (bs : Array Bytes) (b : Bytes) :
    nodeAt C (bs.push b) 0 bs.size = ⟨bs.size * 2, b.length, C.leaf b⟩ := by
  simp [nodeAt, RefTree.node, Flat.index, Array.getD_eq_getD_getElem?]

theorem roots_push (C : Crypto) (bs : Array Bytes) (b : Bytes) :
    (rootsStack bs.size).map (fun p => nodeAt C (bs.push b) p.1 p.2) = (rootsStack bs.size).map (fun p => nodeAt C bs p.1 p.2) := by
  apply List.map_congr_left
  intro p hp
  exact nodeAt_push C bs b p.1 p.2 (rootsStack_bound bs.size p hp)

/-- C05, one block: appending a block to a changeset whose roots are the reference roots of `bs`
    yields the reference roots of `bs ++ [b]`; every node it adds is a reference node of the longer log. -/
theorem append_ref (C : Crypto) (bs : Array Bytes) (cs : Changeset) (b : Bytes) (h : RootsOK C bs cs) :
    RootsOK C (bs.push b) (Tree.append C cs b)
      ∧ ∃ added, (Tree.append C cs b).rnodes = added ++ cs.rnodes
          ∧ (∀ n ∈ added, ∃ d o, n = nodeAt C (bs.push b) d o ∧ (o + 1) * 2 ^ d ≤ bs.size + 1)
          ∧ (∀ d o, (o + 1) * 2 ^ d = bs.size + 1 → nodeAt C (bs.push b) d o ∈ added) := by
  obtain ⟨hlen, hroots, hbytes⟩ := h
  have hnew : Iter.new (cs.length * 2) = iat 0 bs.size := by rw [hlen, Nat.mul_comm]; exact new_even bs.size
  have hleaf := nodeAt_leaf_push C bs b
  have hfuel : (rootsStack bs.size).length < cs.roots.length + 1 := by
    have := congrArg List.length hroots
    simp at this; omega
  obtain ⟨added, top, hm, hadd, _, hcomp⟩ := mergeLoop_ref C (bs.push b) bs.size 0 (cs.roots.length + 1)
    (nodeAt C (bs.push b) 0 bs.size :: cs.rnodes) hfuel
  rw [liftN_zero, liftN_zero, roots_push C bs b, ← hroots] at hm
  have happ : Tree.append C cs b =
      { (appendRoot C cs ⟨cs.length * 2, b.length, C.leaf b⟩ (Iter.new (cs.length * 2))).1 with
        batchLength := (appendRoot C cs ⟨cs.length * 2, b.length, C.leaf b⟩ (Iter.new (cs.length * 2))).1.batchLength + 1 } := rfl
  have hnode : (⟨cs.length * 2, b.length, C.leaf b⟩ : Node) = nodeAt C (bs.push b) 0 bs.size := by rw [hleaf, hlen]
  rw [happ]
  simp only [appendRoot, hnode, hnew, hm]
  refine ⟨⟨?_, ?_, ?_⟩, added ++ [nodeAt C (bs.push b) 0 bs.size], ?_, ?_, ?_⟩
  · simp [iat, hlen]
  · simp
  · simp [hbytes, hleaf]
  · simp [List.append_assoc]
  · intro n hn
    simp only [List.mem_append, List.mem_singleton] at hn
    rcases hn with hn | rfl
    · obtain ⟨d, o, rfl, hb, _⟩ := hadd n hn
      exact ⟨d, o, rfl, by simpa using hb⟩
    · exact ⟨0, bs.size, rfl, by simp⟩
  · intro d o h
    cases d with
    | zero =>
      have : o = bs.size := by simpa using h
      subst this; simp
    | succ d =>
      have := hcomp (d + 1) o (by omega) (by simpa using h)
      simp [this]

/-- the empty changeset -/
theorem rootsOK_empty (C : Crypto) (fork : Nat) :
    RootsOK C #[] { length := 0, ancestors := 0, byteLength := 0, fork := fork, roots := [], origLength := 0, origFork := fork } :=
  ⟨rfl, by simp [rootsStack_zero], rfl⟩

/-- C05, any batch: folding `append` over a batch keeps the invariant -/
theorem appendMany_ref (C : Crypto) (batch : List Bytes) (bs : Array Bytes) (cs : Changeset) (h : RootsOK C bs cs) :
    RootsOK C (bs ++ batch.toArray) (batch.foldl (Tree.append C) cs) := by
  induction batch generalizing bs cs with
  | nil => simpa using h
  | cons b rest ih =>
    have h1 := (append_ref C bs cs b h).1
    have := ih (bs.push b) (Tree.append C cs b) h1
    have e : bs ++ (b :: rest).toArray = bs.push b ++ rest.toArray := by
      apply Array.ext'
      simp
    rw [e]
    exact this

/-- committing the changeset of a non-empty batch gives a tree with the reference roots of the
    extended block list -/
theorem commit_ref (C : Crypto) (bs : Array Bytes) (t : Tree) (batch : List Bytes) (seed : Bytes)
    (hne : batch ≠ []) (h : RootsOK C bs t.changeset) :
    ∃ t', t.commit (hashAndSign C (batch.foldl (Tree.append C) t.changeset) seed) = .ok t'
      ∧ RootsOK C (bs ++ batch.toArray) t'.changeset := by
  have hb := appendMany_ref C batch bs t.changeset h
  -- the fold keeps the safeguards of `changeset()` and marks the changeset as upgraded
  have hkeep : ∀ (l : List Bytes) (cs : Changeset),
      (l.foldl (Tree.append C) cs).origLength = cs.origLength ∧ (l.foldl (Tree.append C) cs).origFork = cs.origFork
        ∧ (l.foldl (Tree.append C) cs).ancestors = cs.ancestors ∧ (l.foldl (Tree.append C) cs).fork = cs.fork
        ∧ (l ≠ [] → (l.foldl (Tree.append C) cs).upgraded = true) := by
    intro l
    induction l with
    | nil => intro cs; simp
    | cons x xs ih =>
      intro cs
      obtain ⟨a1, a2, a3, a4, a5⟩ := ih (Tree.append C cs x)
      have e : (Tree.append C cs x).origLength = cs.origLength ∧ (Tree.append C cs x).origFork = cs.origFork
          ∧ (Tree.append C cs x).ancestors = cs.ancestors ∧ (Tree.append C cs x).fork = cs.fork
          ∧ (Tree.append C cs x).upgraded = true := by
        simp [Tree.append, appendRoot]
      refine ⟨by simp [a1, e.1], by simp [a2, e.2.1], by simp [a3, e.2.2.1], by simp [a4, e.2.2.2.1], fun _ => ?_⟩
      cases xs with
      | nil => simp [e.2.2.2.2]
      | cons y ys => exact a5 (by simp)
  obtain ⟨k1, k2, k3, k4, k5⟩ := hkeep batch t.changeset
  have hup := k5 hne
  have c1 : (hashAndSign C (batch.foldl (Tree.append C) t.changeset) seed).origLength = t.length := k1
  have c2 : (hashAndSign C (batch.foldl (Tree.append C) t.changeset) seed).origFork = t.fork := k2
  have c3 : (hashAndSign C (batch.foldl (Tree.append C) t.changeset) seed).ancestors = t.length := k3
  have c4 : (hashAndSign C (batch.foldl (Tree.append C) t.changeset) seed).upgraded = true := hup
  generalize hcs : hashAndSign C (batch.foldl (Tree.append C) t.changeset) seed = cs at c1 c2 c3 c4
  have r1 : cs.length = (bs ++ batch.toArray).size := by rw [← hcs]; exact hb.length
  have r2 : cs.roots.reverse = (rootsStack (bs ++ batch.toArray).size).map (fun p => nodeAt C (bs ++ batch.toArray) p.1 p.2) := by
    rw [← hcs]; exact hb.roots
  have r3 : cs.byteLength = ((bs ++ batch.toArray).toList.map List.length).sum := by rw [← hcs]; exact hb.bytes
  have hcommit : t.commitable cs = true := by simp [Tree.commitable, c1, c2, c4]
  refine ⟨⟨cs.roots, cs.length, cs.byteLength, cs.fork, cs.signature,
            cs.nodes.foldl (fun m n => m.insert n.index n) t.unflushed⟩, ?_, ?_⟩
  · simp [Tree.commit, hcommit, c4, c3, c1]
  · exact ⟨r1, r2, r3⟩

end HC.RefProof
