import HC.Proofs.HashReq
/-!
A block of the part the replica already has, **together with an upgrade** in one proof (C03, tree level).

`verify_proof` first hashes the block's path up to the stored ancestor (`verify_tree`) and then hands the resulting root
to `verify_upgrade` as the *extra* node of its queue.  For a block below the replica's length that root lies inside
the old tree, no position the upgrade asks for is its position, so the upgrade runs exactly as it does without a block
(`verifyUpgrade_extra`: a generic simulation — an extra node whose index differs from the indices of all upgrade
nodes is never taken), reports "not consumed", and the root is then compared with the stored node.
-/
namespace HC.BlockUpgrade
open HC HC.Codec HC.Flat HC.Tree HC.RefTree HC.RefProof HC.Sound HC.Offsets HC.TreeStore HC.Complete HC.UpgradeSound
  HC.Replica HC.Growth HC.HashReq

/-! ### an extra node that is never asked for -/

/-- `qx` is `q` with the extra node `x` waiting in it (the `length` field is not read by `verify_upgrade`) -/
def WithExtra (x : Node) (q qx : NodeQueue) : Prop :=
  qx.nodes = q.nodes ∧ qx.extra = some x ∧ q.extra = none ∧ ∀ n ∈ q.nodes, n.index ≠ x.index

theorem shift_sim (x : Node) (q qx : NodeQueue) (h : WithExtra x q qx) (idx : Nat) (n : Node) (q' : NodeQueue)
    (hs : q.shift idx = .ok (n, q')) : ∃ qx', qx.shift idx = .ok (n, qx') ∧ WithExtra x q' qx' := by
  obtain ⟨h1, h2, h3, h4⟩ := h
  unfold NodeQueue.shift at hs ⊢
  rw [h3] at hs
  rw [h2, h1]
  simp only [] at hs ⊢
  cases hn : q.nodes with
  | nil => rw [hn] at hs; cases hs
  | cons a rest =>
    rw [hn] at hs
    simp only [] at hs ⊢
    by_cases ha : a.index ≠ idx
    · simp [ha] at hs
    · have ha' : a.index = idx := by simpa using ha
      simp only [ha', ne_eq, not_true_eq_false, ite_false, Except.ok.injEq, Prod.mk.injEq] at hs
      obtain ⟨rfl, rfl⟩ := hs
      have hx : ¬ x.index = idx := by
        intro e
        exact h4 a (by rw [hn]; simp) (by rw [ha', e])
      simp only [hx, ite_false, ha', ne_eq, not_true_eq_false]
      exact ⟨_, rfl, rfl, rfl, rfl, fun m hm => h4 m (by rw [hn]; exact List.mem_cons_of_mem _ hm)⟩

theorem growLoop_sim (C : Crypto) (x : Node) (rootIndex : Nat) : ∀ (fuel : Nat) (cs : Changeset) (it : Iter) (q qx : NodeQueue)
    (cs' : Changeset) (it' : Iter) (q' : NodeQueue), WithExtra x q qx →
    growLoop C rootIndex fuel cs it q = .ok (cs', it', q') →
    ∃ qx', growLoop C rootIndex fuel cs it qx = .ok (cs', it', qx') ∧ WithExtra x q' qx' := by
  intro fuel
  induction fuel with
  | zero => intro cs it q qx cs' it' q' _ h; simp [growLoop] at h
  | succ fuel ih =>
    intro cs it q qx cs' it' q' hw h
    simp only [growLoop] at h ⊢
    by_cases hi : it.index = rootIndex
    · simp only [hi, ite_true, Except.ok.injEq, Prod.mk.injEq] at h ⊢
      obtain ⟨rfl, rfl, rfl⟩ := h
      exact ⟨qx, ⟨rfl, rfl, rfl⟩, hw⟩
    · simp only [hi, ite_false] at h ⊢
      cases hs : q.shift it.sibling.index with
      | error e => rw [hs] at h; cases h
      | ok pr =>
        obtain ⟨n, q1⟩ := pr
        rw [hs] at h
        obtain ⟨qx1, hsx, hw1⟩ := shift_sim x q qx hw _ n q1 hs
        rw [hsx]
        simp only [] at h ⊢
        exact ih _ _ q1 qx1 cs' it' q' hw1 h

theorem upgradeRoots_sim (C : Crypto) (x : Node) (upto : Nat) : ∀ (fuel : Nat) (cs : Changeset) (it0 : Iter) (q qx : NodeQueue) (i : Nat) (g : Bool)
    (st' : UpState), WithExtra x q qx →
    upgradeRoots C upto fuel ⟨cs, it0, q, i, g⟩ = .ok st' →
    ∃ stx', upgradeRoots C upto fuel ⟨cs, it0, qx, i, g⟩ = .ok stx' ∧ WithExtra x st'.q stx'.q ∧ stx'.cs = st'.cs := by
  intro fuel
  induction fuel with
  | zero => intro cs it0 q qx i g st' _ h; simp [upgradeRoots] at h
  | succ fuel ih =>
    intro cs it0 q qx i g st' hw h
    simp only [upgradeRoots] at h ⊢
    generalize hfr : it0.fullRoot upto = fr at h ⊢
    obtain ⟨full, it⟩ := fr
    simp only [] at h ⊢
    by_cases hfull : (!full) = true
    · simp only [hfull, ite_true, Except.ok.injEq] at h ⊢
      subst h
      exact ⟨_, rfl, hw, rfl⟩
    · simp only [hfull, Bool.false_eq_true, ite_false] at h ⊢
      by_cases hm : i < cs.roots.length ∧ (cs.roots.getD i default).index = it.index
      · simp only [hm, and_self, ite_true] at h ⊢
        exact ih cs it.nextTree q qx (i + 1) g st' hw h
      · simp only [hm, ite_false] at h ⊢
        by_cases hg : g = true ∧ i < cs.roots.length
        · simp only [hg, and_self, ite_true] at h ⊢
          cases hgl : growLoop C it.index (q.nodes.length + 3) cs (Iter.new (cs.roots.getLast?.getD default).index) q with
          | error e => rw [hgl] at h; cases h
          | ok pr =>
            obtain ⟨cs1, it1, q1⟩ := pr
            rw [hgl] at h
            obtain ⟨qx1, hglx, hw1⟩ := growLoop_sim C x it.index _ _ _ q qx cs1 it1 q1 hw hgl
            rw [hw.1, hglx]
            simp only [] at h ⊢
            exact ih cs1 it1.nextTree q1 qx1 i false st' hw1 h
        · simp only [hg, ite_false] at h ⊢
          cases hs : q.shift it.index with
          | error e => rw [hs] at h; cases h
          | ok pr =>
            obtain ⟨n, q1⟩ := pr
            rw [hs] at h
            obtain ⟨qx1, hsx, hw1⟩ := shift_sim x q qx hw _ n q1 hs
            rw [hsx]
            simp only [] at h ⊢
            exact ih _ _ q1 qx1 i false st' hw1 h

/-- **an extra node that no upgrade node shares its index with changes nothing**: the upgrade gives the same
    changeset and reports the extra node as not consumed -/
theorem verifyUpgrade_extra (C : Crypto) (fork : Nat) (u : DataUpgrade) (x : Node) (pk : Bytes) (cs cs' : Changeset)
    (hx : ∀ n ∈ u.nodes, n.index ≠ x.index) (h : verifyUpgrade C fork u none pk cs = .ok (true, cs')) :
    verifyUpgrade C fork u (some x) pk cs = .ok (false, cs') := by
  unfold verifyUpgrade at h ⊢
  simp only [] at h ⊢
  obtain ⟨st, hst, hrest⟩ := andThen_ok _ _ _ h
  have hw : WithExtra x (NodeQueue.new u.nodes none) (NodeQueue.new u.nodes (some x)) :=
    ⟨rfl, rfl, rfl, hx⟩
  obtain ⟨stx, hstx, hwx, hcs⟩ := upgradeRoots_sim C x _ _ cs (Iter.new 0) (NodeQueue.new u.nodes none) (NodeQueue.new u.nodes (some x)) 0
    (!cs.roots.isEmpty) st hw hst
  rw [hstx]
  simp only [andThen, hcs]
  cases hl : st.cs.roots.getLast? with
  | none => rw [hl] at hrest; cases hrest
  | some last =>
    rw [hl] at hrest
    simp only [] at hrest ⊢
    cases hex : extraRest C (extraSiblings C (u.additionalNodes.length + 1) st.cs (Iter.new last.index) u.additionalNodes).1
        (extraSiblings C (u.additionalNodes.length + 1) st.cs (Iter.new last.index) u.additionalNodes).2.1
        (extraSiblings C (u.additionalNodes.length + 1) st.cs (Iter.new last.index) u.additionalNodes).2.2 with
    | error e => rw [hex] at hrest; simp [andThen] at hrest
    | ok r =>
      rw [hex] at hrest
      simp only [andThen] at hrest ⊢
      rw [hwx.2.1]
      simp only [Option.isNone_some]
      unfold checkSignature at hrest ⊢
      simp only [] at hrest ⊢
      split at hrest
      · cases hrest
      · rename_i hsl
        rw [if_neg hsl]
        split at hrest
        · cases hrest
        · rename_i hver
          rw [if_neg hver]
          simp only [Except.ok.injEq, Prod.mk.injEq] at hrest ⊢
          exact ⟨trivial, hrest.2⟩

/-! ### the honest answer to "block `i` (below my length) and upgrade me from `m` to `n`" -/

theorem cover_lower {l : List (Nat × Nat)} {a b : Nat} (h : Cover l a b) : ∀ p ∈ l, a ≤ p.2 * 2 ^ p.1 := by
  induction h with
  | nil a => intro p hp; cases hp
  | cons d o a b rest ha hrest ih =>
    intro p hp
    rcases List.mem_cons.mp hp with rfl | hp
    · exact Nat.le_of_eq ha
    · have := ih p hp
      have h1 : o * 2 ^ d ≤ (o + 1) * 2 ^ d := Nat.mul_le_mul_right _ (by omega)
      omega

theorem grow_lower : ∀ (gs : List (Nat × Nat)) (L E : Nat), Grow gs L E → ∀ q ∈ gs, L ≤ q.2 * 2 ^ q.1 := by
  intro gs L E hg
  induction hg with
  | nil => intro q hq; cases hq
  | cons J M E rest _ _ _ ih =>
    intro q hq
    rcases List.mem_cons.mp hq with rfl | hq
    · exact Nat.le_refl _
    · have := ih q hq
      have := pow_pos' J
      omega

/-- every node of the honest upgrade list starts at or behind the replica's length -/
theorem up_lower (m n : Nat) : ∀ (ln : List (Nat × Nat)) (s : Nat) (us : List (Nat × Nat)), Cover ln s n → Up m s ln us →
    ∀ q ∈ us, m ≤ q.2 * 2 ^ q.1 := by
  intro ln
  induction ln with
  | nil =>
    intro s us hc hup q hq
    cases hup with
    | plain => cases hq
  | cons p ln ih =>
    intro s us hc hup q hq
    obtain ⟨d, o⟩ := p
    have hrest : Cover ln ((o + 1) * 2 ^ d) n := by
      cases hc with
      | cons _ _ _ _ _ _ hr => exact hr
    rcases hup.inv with ⟨_, _, hup'⟩ | ⟨hs, husq⟩ | ⟨gs, _, _, hlt, hg, husq⟩
    · exact ih _ us hrest hup' q hq
    · subst husq; subst hs; exact cover_lower hc q hq
    · subst husq
      rcases List.mem_append.mp hq with h1 | h1
      · exact grow_lower gs _ _ hg q h1
      · have := cover_lower hrest q h1; omega

theorem downPath_extract (C : Crypto) (bs : Array Bytes) (m : Nat) (hm : m ≤ bs.size) : ∀ (k d o : Nat), (o / 2 ^ k + 1) * 2 ^ (d + k) ≤ m →
    downPath C (bs.extract 0 m) d o k = downPath C bs d o k := by
  intro k
  induction k with
  | zero => intro d o _; rfl
  | succ k ih =>
    intro d o h
    have h' : (o / 2 / 2 ^ k + 1) * 2 ^ (d + 1 + k) ≤ m := by
      rw [div_pow_succ, show d + 1 + k = d + (k + 1) by omega]; exact h
    have hsp := span_le (o / 2) (d + 1) k
    have hsb := sib_bound o d
    simp only [downPath, ih (d + 1) (o / 2) h']
    rw [nodeAt_extract C bs m hm d (sib o) (by omega), nodeAt_extract C bs m hm (d + 1) (o / 2) (by omega)]

/-- the changeset after the block's climb satisfies the upgrade's invariant at the replica's length -/
theorem inv_after_block (C : Crypto) (hC : HashWF C) (bs : Array Bytes) (m : Nat) (c : Core) (d : Disk) (held : Nat → Bool)
    (h : RepRAt C bs m c d held) (i k : Nat)
    (hstored : c.tree.node? d.tree (Flat.index k (i / 2 ^ k)) = some (nodeAt C bs k (i / 2 ^ k))) (hin : (i / 2 ^ k + 1) * 2 ^ k ≤ m) :
    Inv C bs c.tree d.tree { c.tree.changeset with rnodes := upPath C bs 0 i k ++ [nodeAt C bs 0 i] } m := by
  have hinv0 := inv_changeset C bs m c d held h
  have hnodes : ({ c.tree.changeset with rnodes := upPath C bs 0 i k ++ [nodeAt C bs 0 i] } : Changeset).nodes = nodeAt C bs 0 i :: downPath C bs 0 i k := by
    simp [Changeset.nodes, upPath_reverse]
  have hin0 : (i / 2 ^ k + 1) * 2 ^ (0 + k) ≤ m := by simpa using hin
  have hspan := span_le i 0 k
  refine ⟨hinv0.roots, hinv0.length, hinv0.bytes, ?_, ?_⟩
  · -- closed: the block path hangs on a stored node
    have hsz := size_extract bs m h.le
    have hcl := (closed_extract C bs m h.le c.tree d.tree).mpr h.closed
    have hst' : c.tree.node? d.tree (Flat.index (0 + k) (i / 2 ^ k)) = some (nodeAt C (bs.extract 0 m) (0 + k) (i / 2 ^ k)) := by
      rw [Nat.zero_add, nodeAt_extract C bs m h.le k (i / 2 ^ k) hin]; exact hstored
    have := path_commit_closed C hC (bs.extract 0 m) c.tree d.tree hcl 0 i k hst' (by rw [hsz]; exact hin0)
      (vt c.tree { c.tree.changeset with rnodes := upPath C bs 0 i k ++ [nodeAt C bs 0 i] })
      (by
        simp only [vt, hnodes]
        rw [downPath_extract C bs m h.le k 0 i hin0, nodeAt_extract C bs m h.le 0 i (by simp only [Nat.pow_zero, Nat.mul_one] at hspan ⊢; omega)])
      rfl
    exact (closed_extract C bs m h.le _ _).mp this.1
  · intro x hx
    have hx' : x ∈ (nodeAt C bs 0 i :: downPath C bs 0 i k) := by
      rw [← hnodes]; simp only [Changeset.nodes, List.mem_reverse]; exact hx
    obtain ⟨dd, o, e, hb⟩ := pathNodes_bound C bs 0 i k m hin0 x hx'
    exact ⟨dd, o, e, hb⟩

/-- **an honest block + upgrade proof (block below the replica's length) passes `verify_proof`**: for every replica
    state `RepRAt`, every block index `i < m` with the node count of the replica's own `missing_nodes` query, and every
    upgrade `m → n` of the writer's log: the proof made of the block's bytes, its reference sibling path, the honest upgrade
    nodes and the writer's signature for length `n` is accepted; the resulting changeset holds the reference roots of
    `n`, keeps the replica closed, is marked upgraded with the writer's signature, and is commitable -/
theorem honest_old_block_upgrade_accepted (C : Crypto) (hC : HashWF C) (bs : Array Bytes) (m n : Nat) (c : Core) (d : Disk) (held : Nat → Bool)
    (h : RepRAt C bs m c d held) (hm0 : 0 < m) (hmn : m < n) (hn : n ≤ bs.size) (us : List (Nat × Nat))
    (hup : Up m 0 (rootsStack n).reverse us) (sig : Bytes) (hsl : sig.length = 64)
    (hver : C.verify c.publicKey (signableAt C bs n c.tree.fork) sig = true) (i : Nat) (hi : i < m) :
    ∃ cs', c.tree.verifyProof C d.tree
        ⟨c.tree.fork, some ⟨i, bs.getD i [], sibPath C bs 0 i (c.tree.missingNodes d.tree (2 * i))⟩, none, none,
          some ⟨m, n - m, us.map (fun p => nodeAt C bs p.1 p.2), [], sig⟩⟩ c.publicKey = .ok cs'
      ∧ Inv C bs c.tree d.tree cs' n ∧ cs'.upgraded = true ∧ cs'.signature = some sig ∧ cs'.fork = c.tree.fork
      ∧ c.tree.commitable cs' = true := by
  have hN : n < 2 ^ 64 := by have := h.small.1; omega
  have hM : m < 2 ^ 64 := by omega
  obtain ⟨hstored, hin⟩ := missingNodes_spec C bs m c.tree d.tree h.closed.sparse hM i hi
  generalize hk : c.tree.missingNodes d.tree (2 * i) = k at hstored hin
  have hinvb := inv_after_block C hC bs m c d held h i k hstored hin
  generalize hcsb : ({ c.tree.changeset with rnodes := upPath C bs 0 i k ++ [nodeAt C bs 0 i] } : Changeset) = csb at hinvb
  obtain ⟨cs', h1, h2, h4, h5, h7, h8, h9, h10, _, _⟩ := grow_upgrade_accepted C hC bs c.tree d.tree m n hN hm0 hmn c.tree.fork c.publicKey sig
    csb hinvb us hup hsl hver
  -- the block root is not one of the upgrade's nodes
  have hx : ∀ nd ∈ (us.map fun p => nodeAt C bs p.1 p.2), nd.index ≠ (nodeAt C bs k (i / 2 ^ k)).index := by
    intro nd hnd e
    obtain ⟨q, hq, rfl⟩ := List.mem_map.mp hnd
    have hlow := up_lower m n (rootsStack n).reverse 0 us (cover_roots n) hup q hq
    have e' : Flat.index q.1 q.2 = Flat.index k (i / 2 ^ k) := e
    obtain ⟨e1, e2⟩ := index_inj _ _ _ _ e'
    rw [e1, e2] at hlow
    have hp := pow_pos' k
    have : (i / 2 ^ k + 1) * 2 ^ k = i / 2 ^ k * 2 ^ k + 2 ^ k := by ring
    omega
  have hext := verifyUpgrade_extra C c.tree.fork ⟨m, n - m, us.map (fun p => nodeAt C bs p.1 p.2), [], sig⟩ (nodeAt C bs k (i / 2 ^ k)) c.publicKey
    csb cs' hx h1
  -- the block half
  have hnew : Iter.new (i * 2) = iat 0 i := by rw [Nat.mul_comm]; exact new_even i
  have hleaf : blockNode C (iat 0 i).index (bs.getD i []) = nodeAt C bs 0 i := by
    simp [blockNode, nodeAt, RefTree.node, iat]
  have hc := climb_exact C bs k ((plainQueue (sibPath C bs 0 i k)).length + 1) 0 i
    (nodeAt C bs 0 i :: c.tree.changeset.rnodes) (by simp [plainQueue, sibPath_length])
  simp only [Nat.zero_add] at hc
  have hreq : c.tree.requiredNode d.tree (nodeAt C bs k (i / 2 ^ k)).index = .ok (nodeAt C bs k (i / 2 ^ k)) := by
    simp [Tree.requiredNode, nodeAt_index, hstored]
  have hrn : c.tree.changeset.rnodes = [] := rfl
  rw [hrn] at hc
  refine ⟨cs', ?_, h2, h7, h5, h4, ?_⟩
  · unfold verifyProof
    simp only [verifyTree, untrustedOf, noSeekOf, Option.isNone_some, Bool.false_and, Bool.false_eq_true,
      ite_false, seekHalf, andThen, mainHalf, hnew, plainQueue_eq, hleaf, hrn, hc]
    rw [hcsb, hext]
    simp only [Bool.false_eq_true, ite_false, hreq]
    simp
  · have ho1 : cs'.origLength = c.tree.length := by rw [h8, ← hcsb]; rfl
    have ho2 : cs'.origFork = c.tree.fork := by rw [h9, ← hcsb]; rfl
    simp [Tree.commitable, h7, ho1, ho2]

end HC.BlockUpgrade
