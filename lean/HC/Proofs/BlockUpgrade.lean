import HC.Proofs.HashReq
/-!
A block of the part the replica already has, **together with an upgrade** in one proof (C03, tree level).

`verify_proof` first hashes the block's path up to the stored ancestor (`verify_tree`) and then hands the resulting root
to `verify_upgrade` as the *extra* node of its queue.  For a block below the replica's length that root lies inside
the old tree, no position the upgrade asks for is its position, so the upgrade runs exactly as it does without a block
(`verifyUpgrade_extra`: a generic simulation — an extra node whose index differs from the indices of all upgrade
nodes is never taken), reports "not consumed", and the root is then compared with the stored node.
-/
namespace HC.BlockUpgrade
open HC HC.Codec HC.Flat HC.Tree HC.RefTree HC.RefProof HC.Sound HC.Offsets HC.TreeStore HC.Complete HC.UpgradeSound
  HC.Replica HC.Growth HC.HashReq

/-! ### an extra node that is never asked for -/

/-- `qx` is `q` with the extra node `x` waiting in it (the `length` field is not read by `verify_upgrade`) -/
def WithExtra (x : Node) (q qx : NodeQueue) : Prop :=
  qx.nodes = q.nodes ∧ qx.extra = some x ∧ q.extra = none ∧ ∀ n ∈ q.nodes, n.index ≠ x.index

theorem shift_sim (x : Node) (q qx : NodeQueue) (h : WithExtra x q qx) (idx : Nat) (n : Node) (q' : NodeQueue)
    (hs : q.shift idx = .ok (n, q')) : ∃ qx', qx.shift idx = .ok (n, qx') ∧ WithExtra x q' qx' := by
  obtain ⟨h1, h2, h3, h4⟩ := h
  unfold NodeQueue.shift at hs ⊢
  rw [h3] at hs
  rw [h2, h1]
  simp only [] at hs ⊢
  cases hn : q.nodes with
  | nil => rw [hn] at hs; cases hs
  | cons a rest =>
    rw [hn] at hs
    simp only [] at hs ⊢
    by_cases ha : a.index ≠ idx
    · simp [ha] at hs
    · have ha' : a.index = idx := by simpa using ha
      simp only [ha', ne_eq, not_true_eq_false, ite_false, Except.ok.injEq, Prod.mk.injEq] at hs
      obtain ⟨rfl, rfl⟩ := hs
      have hx : ¬ x.index = idx := by
        intro e
        exact h4 a (by rw [hn]; simp) (by rw [ha', e])
      simp only [hx, ite_false, ha', ne_eq, not_true_eq_false]
      exact ⟨_, rfl, rfl, rfl, rfl, fun m hm => h4 m (by rw [hn]; exact List.mem_cons_of_mem _ hm)⟩

theorem growLoop_sim (C : Crypto) (x : Node) (rootIndex : Nat) : ∀ (fuel : Nat) (cs : Changeset) (it : Iter) (q qx : NodeQueue)
    (cs' : Changeset) (it' : Iter) (q' : NodeQueue), WithExtra x q qx →
    growLoop C rootIndex fuel cs it q = .ok (cs', it', q') →
    ∃ qx', growLoop C rootIndex fuel cs it qx = .ok (cs', it', qx') ∧ WithExtra x q' qx' := by
  intro fuel
  induction fuel with
  | zero => intro cs it q qx cs' it' q' _ h; simp [growLoop] at h
  | succ fuel ih =>
    intro cs it q qx cs' it' q' hw h
    simp only [growLoop] at h ⊢
    by_cases hi : it.index = rootIndex
    · simp only [hi, ite_true, Except.ok.injEq, Prod.mk.injEq] at h ⊢
      obtain ⟨rfl, rfl, rfl⟩ := h
      exact ⟨qx, ⟨rfl, rfl, rfl⟩, hw⟩
    · simp only [hi, ite_false] at h ⊢
      cases hs : q.shift it.sibling.index with
      | error e => rw [hs] at h; cases h
      | ok pr =>
        obtain ⟨n, q1⟩ := pr
        rw [hs] at h
        obtain ⟨qx1, hsx, hw1⟩ := shift_sim x q qx hw _ n q1 hs
        rw [hsx]
        simp only [] at h ⊢
        exact ih _ _ q1 qx1 cs' it' q' hw1 h

theorem upgradeRoots_sim (C : Crypto) (x : Node) (upto : Nat) : ∀ (fuel : Nat) (cs : Changeset) (it0 : Iter) (q qx : NodeQueue) (i : Nat) (g : Bool)
    (st' : UpState), WithExtra x q qx →
    upgradeRoots C upto fuel ⟨cs, it0, q, i, g⟩ = .ok st' →
    ∃ stx', upgradeRoots C upto fuel ⟨cs, it0, qx, i, g⟩ = .ok stx' ∧ WithExtra x st'.q stx'.q ∧ stx'.cs = st'.cs := by
  intro fuel
  induction fuel with
  | zero => intro cs it0 q qx i g st' _ h; simp [upgradeRoots] at h
  | succ fuel ih =>
    intro cs it0 q qx i g st' hw h
    simp only [upgradeRoots] at h ⊢
    generalize hfr : it0.fullRoot upto = fr at h ⊢
    obtain ⟨full, it⟩ := fr
    simp only [] at h ⊢
    by_cases hfull : (!full) = true
    · simp only [hfull, ite_true, Except.ok.injEq] at h ⊢
      subst h
      exact ⟨_, rfl, hw, rfl⟩
    · simp only [hfull, Bool.false_eq_true, ite_false] at h ⊢
      by_cases hm : i < cs.roots.length ∧ (cs.roots.getD i default).index = it.index
      · simp only [hm, and_self, ite_true] at h ⊢
        exact ih cs it.nextTree q qx (i + 1) g st' hw h
      · simp only [hm, ite_false] at h ⊢
        by_cases hg : g = true ∧ i < cs.roots.length
        · simp only [hg, and_self, ite_true] at h ⊢
          cases hgl : growLoop C it.index (q.nodes.length + 3) cs (Iter.new (cs.roots.getLast?.getD default).index) q with
          | error e => rw [hgl] at h; cases h
          | ok pr =>
            obtain ⟨cs1, it1, q1⟩ := pr
            rw [hgl] at h
            obtain ⟨qx1, hglx, hw1⟩ := growLoop_sim C x it.index _ _ _ q qx cs1 it1 q1 hw hgl
            rw [hw.1, hglx]
            simp only [] at h ⊢
            exact ih cs1 it1.nextTree q1 qx1 i false st' hw1 h
        · simp only [hg, ite_false] at h ⊢
          cases hs : q.shift it.index with
          | error e => rw [hs] at h; cases h
          | ok pr =>
            obtain ⟨n, q1⟩ := pr
            rw [hs] at h
            obtain ⟨qx1, hsx, hw1⟩ := shift_sim x q qx hw _ n q1 hs
            rw [hsx]
            simp only [] at h ⊢
            exact ih _ _ q1 qx1 i false st' hw1 h

/-- **an extra node that no upgrade node shares its index with changes nothing**: the upgrade gives the same
    changeset and reports the extra node as not consumed -/
theorem verifyUpgrade_extra (C : Crypto) (fork : Nat) (u : DataUpgrade) (x : Node) (pk : Bytes) (cs cs' : Changeset)
    (hx : ∀ n ∈ u.nodes, n.index ≠ x.index) (h : verifyUpgrade C fork u none pk cs = .ok (true, cs')) :
    verifyUpgrade C fork u (some x) pk cs = .ok (false, cs') := by
  unfold verifyUpgrade at h ⊢
  simp only [] at h ⊢
  obtain ⟨st, hst, hrest⟩ := andThen_ok _ _ _ h
  have hw : WithExtra x (NodeQueue.new u.nodes none) (NodeQueue.new u.nodes (some x)) :=
    ⟨rfl, rfl, rfl, hx⟩
  obtain ⟨stx, hstx, hwx, hcs⟩ := upgradeRoots_sim C x _ _ cs (Iter.new 0) (NodeQueue.new u.nodes none) (NodeQueue.new u.nodes (some x)) 0
    (!cs.roots.isEmpty) st hw hst
  rw [hstx]
  simp only [andThen, hcs]
  cases hl : st.cs.roots.getLast? with
  | none => rw [hl] at hrest; cases hrest
  | some last =>
    rw [hl] at hrest
    simp only [] at hrest ⊢
    cases hex : extraRest C (extraSiblings C (u.additionalNodes.length + 1) st.cs (Iter.new last.index) u.additionalNodes).1
        (extraSiblings C (u.additionalNodes.length + 1) st.cs (Iter.new last.index) u.additionalNodes).2.1
        (extraSiblings C (u.additionalNodes.length + 1) st.cs (Iter.new last.index) u.additionalNodes).2.2 with
    | error e => rw [hex] at hrest; simp [andThen] at hrest
    | ok r =>
      rw [hex] at hrest
      simp only [andThen] at hrest ⊢
      rw [hwx.2.1]
      simp only [Option.isNone_some]
      unfold checkSignature at hrest ⊢
      simp only [] at hrest ⊢
      split at hrest
      · cases hrest
      · rename_i hsl
        rw [if_neg hsl]
        split at hrest
        · cases hrest
        · rename_i hver
          rw [if_neg hver]
          simp only [Except.ok.injEq, Prod.mk.injEq] at hrest ⊢
          exact ⟨trivial, hrest.2⟩

/-! ### the honest answer to "block `i` (below my length) and upgrade me from `m` to `n`" -/

theorem cover_lower {l : List (Nat × Nat)} {a b : Nat} (h : Cover l a b) : ∀ p ∈ l, a ≤ p.2 * 2 ^ p.1 := by
  induction h with
  | nil a => intro p hp; cases hp
  | cons d o a b rest ha hrest ih =>
    intro p hp
    rcases List.mem_cons.mp hp with rfl | hp
    · exact Nat.le_of_eq ha
    · have := ih p hp
      have h1 : o * 2 ^ d ≤ (o + 1) * 2 ^ d := Nat.mul_le_mul_right _ (by omega)
      omega

theorem grow_lower : ∀ (gs : List (Nat × Nat)) (L E : Nat), Grow gs L E → ∀ q ∈ gs, L ≤ q.2 * 2 ^ q.1 := by
  intro gs L E hg
  induction hg with
  | nil => intro q hq; cases hq
  | cons J M E rest _ _ _ ih =>
    intro q hq
    rcases List.mem_cons.mp hq with rfl | hq
    · exact Nat.le_refl _
    · have := ih q hq
      have := pow_pos' J
      omega

/-- every node of the honest upgrade list starts at or behind the replica's length -/
theorem up_lower (m n : Nat) : ∀ (ln : List (Nat × Nat)) (s : Nat) (us : List (Nat × Nat)), Cover ln s n → Up m s ln us →
    ∀ q ∈ us, m ≤ q.2 * 2 ^ q.1 := by
  intro ln
  induction ln with
  | nil =>
    intro s us hc hup q hq
    cases hup with
    | plain => cases hq
  | cons p ln ih =>
    intro s us hc hup q hq
    obtain ⟨d, o⟩ := p
    have hrest : Cover ln ((o + 1) * 2 ^ d) n := by
      cases hc with
      | cons _ _ _ _ _ _ hr => exact hr
    rcases hup.inv with ⟨_, _, hup'⟩ | ⟨hs, husq⟩ | ⟨gs, _, _, hlt, hg, husq⟩
    · exact ih _ us hrest hup' q hq
    · subst husq; subst hs; exact cover_lower hc q hq
    · subst husq
      rcases List.mem_append.mp hq with h1 | h1
      · exact grow_lower gs _ _ hg q h1
      · have := cover_lower hrest q h1; omega

theorem downPath_extract (C : Crypto) (bs : Array Bytes) (m : Nat) (hm : m ≤ bs.size) : ∀ (k d o : Nat), (o / 2 ^ k + 1) * 2 ^ (d + k) ≤ m →
    downPath C (bs.extract 0 m) d o k = downPath C bs d o k := by
  intro k
  induction k with
  | zero => intro d o _; rfl
  | succ k ih =>
    intro d o h
    have h' : (o / 2 / 2 ^ k + 1) * 2 ^ (d + 1 + k) ≤ m := by
      rw [div_pow_succ, show d + 1 + k = d + (k + 1) by omega]; exact h
    have hsp := span_le (o / 2) (d + 1) k
    have hsb := sib_bound o d
    simp only [downPath, ih (d + 1) (o / 2) h']
    rw [nodeAt_extract C bs m hm d (sib o) (by omega), nodeAt_extract C bs m hm (d + 1) (o / 2) (by omega)]

/-- an older node put at the end of an ordered list keeps it ordered, when nothing in the list is shallower -/
theorem ordered_snoc (C : Crypto) (bs : Array Bytes) (l : List Node) (dx ox : Nat) (hl : Ordered C bs l)
    (hd : ∀ y ∈ l, ∃ dy oy, y = nodeAt C bs dy oy ∧ dx ≤ dy ∧ y.index ≠ (nodeAt C bs dx ox).index) :
    Ordered C bs (l ++ [nodeAt C bs dx ox]) := by
  constructor
  · intro a b z hs y hy
    rcases split_append l [nodeAt C bs dx ox] a b z hs with ⟨b', h1, _⟩ | ⟨a', h1, h2⟩
    · exact hl.distinct a b' z h1 y hy
    · cases a' with
      | nil =>
        simp only [List.nil_append, List.cons.injEq] at h2
        obtain ⟨rfl, _⟩ := h2
        simp only [List.append_nil] at h1
        subst h1
        obtain ⟨_, _, _, _, hne⟩ := hd y hy
        exact hne
      | cons w a'' => simp at h2
  · intro a b d o hs o' ho' hmem
    rcases split_append l [nodeAt C bs dx ox] a b _ hs with ⟨b', h1, hb⟩ | ⟨a', h1, h2⟩
    · rw [hb]
      rcases List.mem_append.mp hmem with hm | hm
      · exact List.mem_append.mpr (Or.inl (hl.parentsNewer a b' d o h1 o' ho' hm))
      · exact List.mem_append.mpr (Or.inr hm)
    · cases a' with
      | nil =>
        exfalso
        simp only [List.nil_append, List.cons.injEq] at h2
        obtain ⟨hx, _⟩ := h2
        obtain ⟨e1, _⟩ := index_inj _ _ _ _ (show Flat.index dx ox = Flat.index (d + 1) o from congrArg Node.index hx)
        rcases List.mem_append.mp hmem with hm | hm
        · obtain ⟨dy, oy, ey, hle, _⟩ := hd _ hm
          obtain ⟨e3, _⟩ := index_inj _ _ _ _ (show Flat.index d o' = Flat.index dy oy from congrArg Node.index ey)
          omega
        · simp only [List.mem_singleton] at hm
          obtain ⟨e3, _⟩ := index_inj _ _ _ _ (show Flat.index d o' = Flat.index dx ox from congrArg Node.index hm)
          omega
      | cons w a'' => simp at h2

/-- the nodes of a block's (or node's) climb, newest first, are ordered, and none is shallower than the start -/
theorem ordered_path (C : Crypto) (bs : Array Bytes) : ∀ (k d o : Nat), Ordered C bs (upPath C bs d o k ++ [nodeAt C bs d o])
    ∧ ∀ x ∈ (upPath C bs d o k ++ [nodeAt C bs d o]), ∃ dx ox, x = nodeAt C bs dx ox ∧ d ≤ dx := by
  intro k
  induction k with
  | zero =>
    intro d o
    simp only [upPath, List.nil_append]
    have := ordered_snoc C bs [] d o (ordered_nil C bs) (fun y hy => by cases hy)
    exact ⟨by simpa using this, fun x hx => by simp only [List.mem_singleton] at hx; exact ⟨d, o, hx, Nat.le_refl _⟩⟩
  | succ k ih =>
    intro d o
    obtain ⟨h1, h2⟩ := ih (d + 1) (o / 2)
    have hs0 := ordered_snoc C bs _ d (sib o) h1 (fun y hy => by
      obtain ⟨dy, oy, ey, hle⟩ := h2 y hy
      refine ⟨dy, oy, ey, by omega, fun e => ?_⟩
      rw [ey] at e
      obtain ⟨e1, _⟩ := index_inj _ _ _ _ (show Flat.index dy oy = Flat.index d (sib o) from e)
      omega)
    have hmem0 : ∀ y ∈ (upPath C bs (d + 1) (o / 2) k ++ [nodeAt C bs (d + 1) (o / 2)]) ++ [nodeAt C bs d (sib o)],
        ∃ dy oy, y = nodeAt C bs dy oy ∧ d ≤ dy ∧ y.index ≠ (nodeAt C bs d o).index := by
      intro y hy
      rcases List.mem_append.mp hy with hy | hy
      · obtain ⟨dy, oy, ey, hle⟩ := h2 y hy
        refine ⟨dy, oy, ey, by omega, fun e => ?_⟩
        rw [ey] at e
        obtain ⟨e1, _⟩ := index_inj _ _ _ _ (show Flat.index dy oy = Flat.index d o from e)
        omega
      · simp only [List.mem_singleton] at hy
        refine ⟨d, sib o, hy, Nat.le_refl _, fun e => ?_⟩
        rw [hy] at e
        obtain ⟨_, e2⟩ := index_inj _ _ _ _ (show Flat.index d (sib o) = Flat.index d o from e)
        unfold sib at e2
        split at e2 <;> omega
    have hn0 := ordered_snoc C bs _ d o hs0 hmem0
    have hlist : upPath C bs d o (k + 1) ++ [nodeAt C bs d o]
        = ((upPath C bs (d + 1) (o / 2) k ++ [nodeAt C bs (d + 1) (o / 2)]) ++ [nodeAt C bs d (sib o)]) ++ [nodeAt C bs d o] := by
      simp [upPath, List.append_assoc]
    rw [hlist]
    refine ⟨hn0, fun x hx => ?_⟩
    rcases List.mem_append.mp hx with hx | hx
    · obtain ⟨dy, oy, ey, hle, _⟩ := hmem0 x hx
      exact ⟨dy, oy, ey, hle⟩
    · simp only [List.mem_singleton] at hx
      exact ⟨d, o, hx, Nat.le_refl _⟩

/-- the changeset after the block's climb satisfies the upgrade's invariant at the replica's length -/
theorem inv_after_block (C : Crypto) (hC : HashWF C) (bs : Array Bytes) (m : Nat) (c : Core) (d : Disk) (held : Nat → Bool)
    (h : RepRAt C bs m c d held) (i k : Nat)
    (hstored : c.tree.node? d.tree (Flat.index k (i / 2 ^ k)) = some (nodeAt C bs k (i / 2 ^ k))) (hin : (i / 2 ^ k + 1) * 2 ^ k ≤ m) :
    Inv C bs c.tree d.tree { c.tree.changeset with rnodes := upPath C bs 0 i k ++ [nodeAt C bs 0 i] } m := by
  have hinv0 := inv_changeset C bs m c d held h
  have hnodes : ({ c.tree.changeset with rnodes := upPath C bs 0 i k ++ [nodeAt C bs 0 i] } : Changeset).nodes = nodeAt C bs 0 i :: downPath C bs 0 i k := by
    simp [Changeset.nodes, upPath_reverse]
  have hin0 : (i / 2 ^ k + 1) * 2 ^ (0 + k) ≤ m := by simpa using hin
  have hspan := span_le i 0 k
  refine ⟨hinv0.roots, hinv0.length, hinv0.bytes, ?_, ?_, (ordered_path C bs k 0 i).1⟩
  · -- closed: the block path hangs on a stored node
    have hsz := size_extract bs m h.le
    have hcl := (closed_extract C bs m h.le c.tree d.tree).mpr h.closed
    have hst' : c.tree.node? d.tree (Flat.index (0 + k) (i / 2 ^ k)) = some (nodeAt C (bs.extract 0 m) (0 + k) (i / 2 ^ k)) := by
      rw [Nat.zero_add, nodeAt_extract C bs m h.le k (i / 2 ^ k) hin]; exact hstored
    have := path_commit_closed C hC (bs.extract 0 m) c.tree d.tree hcl 0 i k hst' (by rw [hsz]; exact hin0)
      (vt c.tree { c.tree.changeset with rnodes := upPath C bs 0 i k ++ [nodeAt C bs 0 i] })
      (by
        simp only [vt, hnodes]
        rw [downPath_extract C bs m h.le k 0 i hin0, nodeAt_extract C bs m h.le 0 i (by simp only [Nat.pow_zero, Nat.mul_one] at hspan ⊢; omega)])
      rfl
    exact (closed_extract C bs m h.le _ _).mp this.1
  · intro x hx
    have hx' : x ∈ (nodeAt C bs 0 i :: downPath C bs 0 i k) := by
      rw [← hnodes]; simp only [Changeset.nodes, List.mem_reverse]; exact hx
    obtain ⟨dd, o, e, hb⟩ := pathNodes_bound C bs 0 i k m hin0 x hx'
    exact ⟨dd, o, e, hb⟩

/-- **an honest block + upgrade proof (block below the replica's length) passes `verify_proof`**: for every replica
    state `RepRAt`, every block index `i < m` with the node count of the replica's own `missing_nodes` query, and every
    upgrade `m → n` of the writer's log: the proof made of the block's bytes, its reference sibling path, the honest upgrade
    nodes and the writer's signature for length `n` is accepted; the resulting changeset holds the reference roots of
    `n`, keeps the replica closed, is marked upgraded with the writer's signature, and is commitable -/
theorem honest_old_block_upgrade_accepted (C : Crypto) (hC : HashWF C) (bs : Array Bytes) (m n : Nat) (c : Core) (d : Disk) (held : Nat → Bool)
    (h : RepRAt C bs m c d held) (hm0 : 0 < m) (hmn : m < n) (hn : n ≤ bs.size) (us : List (Nat × Nat))
    (hup : Up m 0 (rootsStack n).reverse us) (sig : Bytes) (hsl : sig.length = 64)
    (hver : C.verify c.publicKey (signableAt C bs n c.tree.fork) sig = true) (i : Nat) (hi : i < m) :
    ∃ cs', c.tree.verifyProof C d.tree
        ⟨c.tree.fork, some ⟨i, bs.getD i [], sibPath C bs 0 i (c.tree.missingNodes d.tree (2 * i))⟩, none, none,
          some ⟨m, n - m, us.map (fun p => nodeAt C bs p.1 p.2), [], sig⟩⟩ c.publicKey = .ok cs'
      ∧ Inv C bs c.tree d.tree cs' n ∧ cs'.upgraded = true ∧ cs'.signature = some sig ∧ cs'.fork = c.tree.fork
      ∧ c.tree.commitable cs' = true
      ∧ cs'.ancestors = c.tree.length ∧ cs'.origLength = c.tree.length ∧ cs'.hash = some (rootsHash C cs'.roots)
      ∧ cs'.rnodes.length ≤ 64 + (2 * c.tree.missingNodes d.tree (2 * i) + 1) + 2 * us.length
      ∧ ∃ U, cs'.rnodes = U ++ (upPath C bs 0 i (c.tree.missingNodes d.tree (2 * i)) ++ [nodeAt C bs 0 i]) := by
  have hN : n < 2 ^ 64 := by have := h.small.1; omega
  have hM : m < 2 ^ 64 := by omega
  obtain ⟨hstored, hin⟩ := missingNodes_spec C bs m c.tree d.tree h.closed.sparse hM i hi
  generalize hk : c.tree.missingNodes d.tree (2 * i) = k at hstored hin
  have hinvb := inv_after_block C hC bs m c d held h i k hstored hin
  generalize hcsb : ({ c.tree.changeset with rnodes := upPath C bs 0 i k ++ [nodeAt C bs 0 i] } : Changeset) = csb at hinvb
  obtain ⟨cs', h1, h2, h4, h5, h7, h8, h9, h10, h11, h12, hsuf⟩ := grow_upgrade_accepted C hC bs c.tree d.tree m n hN hm0 hmn c.tree.fork c.publicKey sig
    csb hinvb us hup hsl hver
  -- the block root is not one of the upgrade's nodes
  have hx : ∀ nd ∈ (us.map fun p => nodeAt C bs p.1 p.2), nd.index ≠ (nodeAt C bs k (i / 2 ^ k)).index := by
    intro nd hnd e
    obtain ⟨q, hq, rfl⟩ := List.mem_map.mp hnd
    have hlow := up_lower m n (rootsStack n).reverse 0 us (cover_roots n) hup q hq
    have e' : Flat.index q.1 q.2 = Flat.index k (i / 2 ^ k) := e
    obtain ⟨e1, e2⟩ := index_inj _ _ _ _ e'
    rw [e1, e2] at hlow
    have hp := pow_pos' k
    have : (i / 2 ^ k + 1) * 2 ^ k = i / 2 ^ k * 2 ^ k + 2 ^ k := by ring
    omega
  have hext := verifyUpgrade_extra C c.tree.fork ⟨m, n - m, us.map (fun p => nodeAt C bs p.1 p.2), [], sig⟩ (nodeAt C bs k (i / 2 ^ k)) c.publicKey
    csb cs' hx h1
  -- the block half
  have hnew : Iter.new (i * 2) = iat 0 i := by rw [Nat.mul_comm]; exact new_even i
  have hleaf : blockNode C (iat 0 i).index (bs.getD i []) = nodeAt C bs 0 i := by
    simp [blockNode, nodeAt, RefTree.node, iat]
  have hc := climb_exact C bs k ((plainQueue (sibPath C bs 0 i k)).length + 1) 0 i
    (nodeAt C bs 0 i :: c.tree.changeset.rnodes) (by simp [plainQueue, sibPath_length])
  simp only [Nat.zero_add] at hc
  have hreq : c.tree.requiredNode d.tree (nodeAt C bs k (i / 2 ^ k)).index = .ok (nodeAt C bs k (i / 2 ^ k)) := by
    simp [Tree.requiredNode, nodeAt_index, hstored]
  have hrn : c.tree.changeset.rnodes = [] := rfl
  rw [hrn] at hc
  have ho1 : cs'.origLength = c.tree.length := by rw [h8, ← hcsb]; rfl
  have ho2 : cs'.origFork = c.tree.fork := by rw [h9, ← hcsb]; rfl
  have hrl : csb.roots.length ≤ 64 := by
    rw [← hcsb]
    show c.tree.roots.length ≤ 64
    rw [h.roots, rootsAt, List.length_map, List.length_reverse]
    exact rootsStack_length_log 64 m hM
  have hbl : csb.rnodes.length = 2 * k + 1 := by
    rw [← hcsb]
    have : ∀ kk dd oo, (upPath C bs dd oo kk).length = 2 * kk := by
      intro kk
      induction kk with
      | zero => intro dd oo; rfl
      | succ kk ihk => intro dd oo; simp only [upPath, List.length_append, ihk, List.length_cons, List.length_nil]; omega
    simp only [List.length_append, this, List.length_cons, List.length_nil]
  refine ⟨cs', ?_, h2, h7, h5, h4, ?_, by rw [h10, ← hcsb]; rfl, ho1, h11, by omega, by rw [← hcsb] at hsuf; exact hsuf⟩
  · unfold verifyProof
    simp only [verifyTree, untrustedOf, noSeekOf, Option.isNone_some, Bool.false_and, Bool.false_eq_true,
      ite_false, seekHalf, andThen, mainHalf, hnew, plainQueue_eq, hleaf, hrn, hc]
    rw [hcsb, hext]
    simp only [Bool.false_eq_true, ite_false, hreq]
    simp
  · simp [Tree.commitable, h7, ho1, ho2]

/-! ### the byte offset of the block under the new roots -/

/-- the ancestor of block `i` at depth `s` -/
def anc (C : Crypto) (bs : Array Bytes) (i s : Nat) : Node := nodeAt C bs s (i / 2 ^ s)

theorem anc_index_ne (C : Crypto) (bs : Array Bytes) (i s s' : Nat) (h : s ≠ s') : (anc C bs i s).index ≠ (anc C bs i s').index := by
  intro e
  exact h (index_inj _ _ _ _ (show Flat.index s _ = Flat.index s' _ from e)).1

/-- one step of the scan: the running offset plus the start of the current ancestor stays the same -/
theorem step_offset (C : Crypto) (bs : Array Bytes) (d o off : Nat) :
    (match decide (o % 2 = 1), some (nodeAt C bs d o) with
      | true, some p => off + ((nodeAt C bs (d + 1) (o / 2)).length - p.length)
      | _, _ => off) + psum bs (o / 2 * 2 ^ (d + 1)) = off + psum bs (o * 2 ^ d) := by
  by_cases ho : o % 2 = 1
  · have e1 : 2 * (o / 2) = o - 1 := by omega
    have e4 : o - 1 + 1 = o := by omega
    have hl := len_parent C bs d (o / 2)
    rw [e1, e4] at hl
    have e3 : o / 2 * 2 ^ (d + 1) = (o - 1) * 2 ^ d := by rw [pow_succ2, ← e1]; ring
    have hsz := nodeAt_len C bs d (o - 1)
    rw [e4] at hsz
    simp only [ho, decide_true]
    rw [e3, hl, Nat.add_sub_cancel, Nat.add_assoc, Nat.add_comm (nodeAt C bs d (o - 1)).length, hsz]
  · have e3 : o / 2 * 2 ^ (d + 1) = o * 2 ^ d := by
      rw [pow_succ2]
      have : o = 2 * (o / 2) := by omega
      calc o / 2 * (2 * 2 ^ d) = (2 * (o / 2)) * 2 ^ d := by ring
        _ = o * 2 ^ d := by rw [← this]
    simp only [ho, decide_false]
    rw [e3]

/-- **the scan follows the block's ancestors as far as they are in the list**: on an ordered list of reference nodes,
    after the ancestor at depth `j` the scan reaches the highest ancestor `T` such that all ancestors `j+1 … T` are in
    the rest of the list; the offset it has added is the distance between the starts of the two spans -/
theorem scan_chain (C : Crypto) (bs : Array Bytes) (i : Nat) (l : List Node) (href : ∀ x ∈ l, ∃ d o, x = nodeAt C bs d o)
    (hdist : ∀ a b x, l = a ++ x :: b → (∀ y ∈ a, y.index ≠ x.index) ∧ (∀ y ∈ b, y.index ≠ x.index))
    (hord : ∀ a b d o, l = a ++ nodeAt C bs (d + 1) o :: b → ∀ o', o' / 2 = o → nodeAt C bs d o' ∈ l → nodeAt C bs d o' ∈ a) :
    ∀ (r pre : List Node) (j off : Nat), l = pre ++ r → (∀ s, s ≤ j → anc C bs i s ∉ r) →
      ∃ T off', j ≤ T
        ∧ byteOffsetInChangeset.scan r (iat (j + 1) (i / 2 ^ (j + 1))) off (decide (i / 2 ^ j % 2 = 1)) (some (anc C bs i j)) = (off', some (anc C bs i T))
        ∧ off' + psum bs (i / 2 ^ T * 2 ^ T) = off + psum bs (i / 2 ^ j * 2 ^ j)
        ∧ (∀ s, j < s → s ≤ T → anc C bs i s ∈ r) ∧ anc C bs i (T + 1) ∉ r := by
  intro r
  induction r with
  | nil =>
    intro pre j off _ _
    exact ⟨j, off, Nat.le_refl _, by simp [byteOffsetInChangeset.scan], rfl, fun s h1 h2 => by omega, by simp⟩
  | cons n r' ih =>
    intro pre j off hl hno
    have hl' : l = (pre ++ [n]) ++ r' := by rw [hl]; simp
    have hnl : n ∈ l := by rw [hl]; simp
    by_cases hm : n.index = (iat (j + 1) (i / 2 ^ (j + 1))).index
    · -- the next ancestor
      obtain ⟨d, o, hn⟩ := href n hnl
      have hn' : n = anc C bs i (j + 1) := by
        rw [hn] at hm ⊢
        obtain ⟨e1, e2⟩ := index_inj _ _ _ _ (show Flat.index d o = Flat.index (j + 1) (i / 2 ^ (j + 1)) from hm)
        rw [e1, e2]; rfl
      have hno' : ∀ s, s ≤ j + 1 → anc C bs i s ∉ r' := by
        intro s hs hmem
        by_cases hsj : s ≤ j
        · exact hno s hsj (List.mem_cons_of_mem _ hmem)
        · have : s = j + 1 := by omega
          subst this
          rw [← hn'] at hmem
          exact (hdist pre r' n hl).2 n hmem rfl
      have hir : (iat (j + 1) (i / 2 ^ (j + 1))).isRight = decide (i / 2 ^ (j + 1) % 2 = 1) := rfl
      have hdiv : i / 2 ^ j / 2 = i / 2 ^ (j + 1) := div_pow_succ' i j
      have hdiv2 : i / 2 ^ (j + 1) / 2 = i / 2 ^ (j + 1 + 1) := div_pow_succ' i (j + 1)
      obtain ⟨T, off', hT, hscan, hoff, hmemT, hnot⟩ := ih (pre ++ [n]) (j + 1)
        (match decide (i / 2 ^ j % 2 = 1), some (anc C bs i j) with
          | true, some p => off + (n.length - p.length)
          | _, _ => off) hl' hno'
      refine ⟨T, off', by omega, ?_, ?_, ?_, ?_⟩
      · simp only [byteOffsetInChangeset.scan, hm, ite_true, iat_parent, hir, hdiv2]
        rw [hn'] at hscan ⊢
        exact hscan
      · rw [hoff, hn']
        have := step_offset C bs j (i / 2 ^ j) off
        rw [hdiv] at this
        exact this
      · intro s h1 h2
        by_cases hs : s = j + 1
        · subst hs; rw [← hn']; simp
        · exact List.mem_cons_of_mem _ (hmemT s (by omega) h2)
      · intro hmem
        rcases List.mem_cons.mp hmem with h | h
        · rw [hn'] at h
          exact anc_index_ne C bs i (T + 1) (j + 1) (by omega) (congrArg Node.index h)
        · exact hnot h
    · -- some other node: skipped
      obtain ⟨T, off', hT, hscan, hoff, hmemT, hnot⟩ := ih (pre ++ [n]) j off hl' (fun s hs hmem => hno s hs (List.mem_cons_of_mem _ hmem))
      refine ⟨T, off', hT, ?_, hoff, fun s h1 h2 => List.mem_cons_of_mem _ (hmemT s h1 h2), ?_⟩
      · simp only [byteOffsetInChangeset.scan, hm, ite_false]
        exact hscan
      · intro hmem
        rcases List.mem_cons.mp hmem with h | h
        · -- the skipped node cannot be the ancestor above the last one reached
          by_cases hTj : T = j
          · subst hTj
            apply hm
            rw [← h]; rfl
          · have hTin : anc C bs i T ∈ r' := hmemT T (by omega) (Nat.le_refl _)
            have hTl : anc C bs i T ∈ l := by rw [hl]; exact List.mem_append.mpr (Or.inr (List.mem_cons_of_mem _ hTin))
            have hl2 : l = pre ++ nodeAt C bs (T + 1) (i / 2 ^ (T + 1)) :: r' := by rw [hl, ← h]; rfl
            have hpre := hord pre r' T (i / 2 ^ (T + 1)) hl2 (i / 2 ^ T) (div_pow_succ' i T) hTl
            obtain ⟨a', b', hsplit⟩ := List.append_of_mem hTin
            have hl3 : l = (pre ++ n :: a') ++ anc C bs i T :: b' := by rw [hl, hsplit]; simp
            exact (hdist _ _ _ hl3).1 _ (List.mem_append.mpr (Or.inl hpre)) rfl
        · exact hnot h

/-- the order facts for the list oldest first (`Changeset.nodes`) -/
theorem ordered_oldest (C : Crypto) (bs : Array Bytes) (rn : List Node) (h : Ordered C bs rn) :
    (∀ a b x, rn.reverse = a ++ x :: b → (∀ y ∈ a, y.index ≠ x.index) ∧ (∀ y ∈ b, y.index ≠ x.index))
      ∧ (∀ a b d o, rn.reverse = a ++ nodeAt C bs (d + 1) o :: b → ∀ o', o' / 2 = o → nodeAt C bs d o' ∈ rn.reverse → nodeAt C bs d o' ∈ a) := by
  have hrev : ∀ a b (x : Node), rn.reverse = a ++ x :: b → rn = b.reverse ++ x :: a.reverse := by
    intro a b x e
    have := congrArg List.reverse e
    simpa using this
  constructor
  · intro a b x e
    have e' := hrev a b x e
    constructor
    · intro y hy ey
      obtain ⟨a1, a2, hsplit⟩ := List.append_of_mem (List.mem_reverse.mpr hy)
      have e2 : rn = (b.reverse ++ x :: a1) ++ y :: a2 := by rw [e', hsplit]; simp
      exact h.distinct _ _ y e2 x (by simp) ey.symm
    · intro y hy
      exact h.distinct b.reverse a.reverse x e' y (List.mem_reverse.mpr hy)
  · intro a b d o e o' ho' hmem
    have e' := hrev a b _ e
    have := h.parentsNewer b.reverse a.reverse d o e' o' ho' (List.mem_reverse.mp hmem)
    exact List.mem_reverse.mp this

theorem scan_skip (it : Iter) (off : Nat) (isRight : Bool) (par : Option Node) : ∀ (pre r : List Node), (∀ y ∈ pre, y.index ≠ it.index) →
    byteOffsetInChangeset.scan (pre ++ r) it off isRight par = byteOffsetInChangeset.scan r it off isRight par := by
  intro pre
  induction pre with
  | nil => intro r _; rfl
  | cons y pre ih =>
    intro r h
    have hy : y.index ≠ it.index := h y (by simp)
    simp only [List.cons_append, byteOffsetInChangeset.scan, hy, ite_false]
    exact ih r (fun z hz => h z (by simp [hz]))

/-- the scan from the start: it finds the leaf and then follows the ancestors as far as they are in the list -/
theorem scan_start (C : Crypto) (bs : Array Bytes) (i : Nat) (l : List Node) (href : ∀ x ∈ l, ∃ d o, x = nodeAt C bs d o)
    (hdist : ∀ a b x, l = a ++ x :: b → (∀ y ∈ a, y.index ≠ x.index) ∧ (∀ y ∈ b, y.index ≠ x.index))
    (hord : ∀ a b d o, l = a ++ nodeAt C bs (d + 1) o :: b → ∀ o', o' / 2 = o → nodeAt C bs d o' ∈ l → nodeAt C bs d o' ∈ a)
    (hleaf : nodeAt C bs 0 i ∈ l) :
    ∃ T off', byteOffsetInChangeset.scan l (iat 0 i) 0 false none = (off', some (anc C bs i T))
      ∧ off' + psum bs (i / 2 ^ T * 2 ^ T) = psum bs i
      ∧ (∀ s, s ≤ T → anc C bs i s ∈ l) ∧ anc C bs i (T + 1) ∉ l := by
  obtain ⟨pre, r', hl⟩ := List.append_of_mem hleaf
  have hl' : l = (pre ++ [nodeAt C bs 0 i]) ++ r' := by rw [hl]; simp
  obtain ⟨hd1, hd2⟩ := hdist pre r' _ hl
  obtain ⟨T, off', _, hscan, hoff, hmemT, hnot⟩ := scan_chain C bs i l href hdist hord r' (pre ++ [nodeAt C bs 0 i]) 0 0 hl'
    (fun s hs hmem => by
      have : s = 0 := by omega
      subst this
      exact hd2 _ hmem (by simp [anc]))
  have hmem_all : ∀ s, s ≤ T → anc C bs i s ∈ nodeAt C bs 0 i :: r' := by
    intro s hs
    by_cases h0 : s = 0
    · subst h0; simp [anc]
    · exact List.mem_cons_of_mem _ (hmemT s (by omega) hs)
  refine ⟨T, off', ?_, by simpa using hoff, ?_, ?_⟩
  · rw [hl, scan_skip _ _ _ _ pre _ (fun y hy => hd1 y hy)]
    have hir : (iat 0 i).isRight = decide (i % 2 = 1) := rfl
    have hidx : (nodeAt C bs 0 i).index = (iat 0 i).index := rfl
    simp only [byteOffsetInChangeset.scan, hidx, ite_true, iat_parent, hir]
    simpa [anc] using hscan
  · intro s hs
    rw [hl]; exact List.mem_append.mpr (Or.inr (hmem_all s hs))
  · intro hmem
    rw [hl] at hmem
    rcases List.mem_append.mp hmem with h | h
    · -- an ancestor in front of the leaf would be newer than its child, which sits at or behind the leaf
      obtain ⟨p1, p2, hsp⟩ := List.append_of_mem h
      have hl2 : l = p1 ++ nodeAt C bs (T + 1) (i / 2 ^ (T + 1)) :: (p2 ++ nodeAt C bs 0 i :: r') := by
        rw [hl, hsp]; simp [anc]
      have hTl : anc C bs i T ∈ l := by rw [hl]; exact List.mem_append.mpr (Or.inr (hmem_all T (Nat.le_refl _)))
      have hp1 := hord p1 _ T (i / 2 ^ (T + 1)) hl2 (i / 2 ^ T) (div_pow_succ' i T) hTl
      obtain ⟨a', b', hsplit⟩ := List.append_of_mem (hmem_all T (Nat.le_refl _))
      have hl3 : l = (pre ++ a') ++ anc C bs i T :: b' := by rw [hl, hsplit]; simp
      have hpre : anc C bs i T ∈ pre := by rw [hsp]; exact List.mem_append.mpr (Or.inl hp1)
      exact (hdist _ _ _ hl3).1 _ (List.mem_append.mpr (Or.inl hpre)) rfl
    · rcases List.mem_cons.mp h with h | h
      · exact anc_index_ne C bs i (T + 1) 0 (by omega) (by rw [h]; simp [anc])
      · exact hnot h

/-- an aligned node inside the first `n` blocks that is not a root of `n` has its parent inside too -/
theorem parent_inside (n d o : Nat) (hin : (o + 1) * 2 ^ d ≤ n) (hnr : (d, o) ∉ rootsStack n) : (o / 2 + 1) * 2 ^ (d + 1) ≤ n := by
  have hp := pow_pos' d
  have hq : o + 1 ≤ n / 2 ^ d := (Nat.le_div_iff_mul_le hp).mpr hin
  have hnr' : ¬ (o + 1 = n / 2 ^ d ∧ (n / 2 ^ d) % 2 = 1) := fun h => hnr ((mem_rootsStack n d o).mpr h)
  have hdd : n / 2 ^ (d + 1) = n / 2 ^ d / 2 := by rw [Nat.pow_succ, Nat.div_div_eq_div_mul]
  have hgoal : o / 2 + 1 ≤ n / 2 ^ (d + 1) := by
    rw [hdd]
    by_cases he : o + 1 = n / 2 ^ d
    · have : (n / 2 ^ d) % 2 = 0 := by
        by_contra hc
        exact hnr' ⟨he, by omega⟩
      omega
    · omega
  exact (Nat.le_div_iff_mul_le (pow_pos' (d + 1))).mp hgoal

/-- every ancestor inside the first `L` blocks of a stored node is stored (`ClosedAt` version of `Replica.anc_stored`) -/
theorem anc_stored_at (C : Crypto) (bs : Array Bytes) (L : Nat) (t : Tree) (f : File) (h : ClosedAt C bs L t f) (d o : Nat)
    (hst : t.node? f (Flat.index d o) = some (nodeAt C bs d o)) :
    ∀ j, (o / 2 ^ j + 1) * 2 ^ (d + j) ≤ L → t.node? f (Flat.index (d + j) (o / 2 ^ j)) = some (nodeAt C bs (d + j) (o / 2 ^ j)) := by
  intro j
  induction j with
  | zero => intro _; simpa using hst
  | succ j ih =>
    intro hin
    have hstep := span_le (o / 2 ^ j) (d + j) 1
    have e1 : o / 2 ^ j / 2 ^ 1 = o / 2 ^ (j + 1) := by rw [Nat.pow_one, Nat.div_div_eq_div_mul, ← Nat.pow_succ]
    have e2 : d + j + 1 = d + (j + 1) := by omega
    rw [e1, e2] at hstep
    have hprev := ih (by omega)
    have e3 : o / 2 ^ j / 2 = o / 2 ^ (j + 1) := by rw [Nat.div_div_eq_div_mul, ← Nat.pow_succ]
    have := (h.closed (d + j) (o / 2 ^ j) hprev (by rw [e3, e2]; exact hin)).2
    rw [e3, e2] at this
    exact this

/-- **the block lands at its offset**: for the changeset of an accepted block + upgrade proof (block below the replica's
    length) `byte_offset_in_changeset` returns the block's offset in the writer's log — whether the scan ends at the
    stored ancestor, at an old root that is still a root, or climbs through the merged parents to a new root -/
theorem offset_in_upgraded (C : Crypto) (hC : HashWF C) (bs : Array Bytes) (m n : Nat) (c : Core) (d : Disk) (held : Nat → Bool)
    (h : RepRAt C bs m c d held) (hn : n ≤ bs.size) (cs' : Changeset) (hinv : Inv C bs c.tree d.tree cs' n)
    (i k : Nat) (hi : i < m)
    (hstored : c.tree.node? d.tree (Flat.index k (i / 2 ^ k)) = some (nodeAt C bs k (i / 2 ^ k))) (hin : (i / 2 ^ k + 1) * 2 ^ k ≤ m)
    (hsuf : ∃ U, cs'.rnodes = U ++ (upPath C bs 0 i k ++ [nodeAt C bs 0 i])) :
    c.tree.byteOffsetInChangeset d.tree i cs' = .ok (psum bs i) := by
  have hN : n < 2 ^ 64 := by have := h.small.1; omega
  have hM : m < 2 ^ 64 := by have := h.le; have := h.small.1; omega
  have hlen : c.tree.length = m := h.closed.sparse.length
  have hne : ¬ (c.tree.length = i) := by omega
  have hnew : Iter.new (2 * i) = iat 0 i := new_even i
  obtain ⟨U, hU⟩ := hsuf
  -- the node list, oldest first
  have href : ∀ x ∈ cs'.nodes, ∃ dd o, x = nodeAt C bs dd o := by
    intro x hx
    obtain ⟨dd, o, e, _⟩ := hinv.nodesRef x (by simpa [Changeset.nodes] using hx)
    exact ⟨dd, o, e⟩
  obtain ⟨hdist, hord⟩ := ordered_oldest C bs cs'.rnodes hinv.order
  have hleaf : nodeAt C bs 0 i ∈ cs'.nodes := by
    simp only [Changeset.nodes, List.mem_reverse, hU]; simp
  obtain ⟨T, off', hscan, hoff, hmemT, hnot⟩ := scan_start C bs i cs'.nodes href hdist hord hleaf
  -- the ancestors up to the stored one are in the list, so the scan gets at least that far
  have hpath : ∀ s, s ≤ k → anc C bs i s ∈ cs'.nodes := by
    intro s hs
    simp only [Changeset.nodes, List.mem_reverse, hU]
    apply List.mem_append.mpr; right
    by_cases h0 : s = 0
    · subst h0; simp [anc]
    · apply List.mem_append.mpr; left
      apply (mem_upPath C bs _ k 0 i).mpr
      have hs1 : s - 1 + 1 = s := by omega
      exact ⟨s - 1, by omega, Or.inl (by simp only [anc, Nat.zero_add, hs1])⟩
  have hTk : k ≤ T := by
    by_contra hlt
    exact hnot (hpath (T + 1) (by omega))
  -- the view of the tree with the changeset's nodes
  have hview := insert_lookup C hC bs c.tree (vt c.tree cs') d.tree cs'.nodes href rfl
  obtain ⟨hvnew, hvold, hvonly⟩ := hview
  have hTin : anc C bs i T ∈ cs'.nodes := hmemT T (Nat.le_refl _)
  have hTend : (i / 2 ^ T + 1) * 2 ^ T ≤ n := by
    obtain ⟨dd, o, e, hb⟩ := hinv.nodesRef (anc C bs i T) (by simpa [Changeset.nodes] using hTin)
    obtain ⟨e1, e2⟩ := index_inj _ _ _ _ (show Flat.index T (i / 2 ^ T) = Flat.index dd o from congrArg Node.index e)
    rw [← e1, ← e2] at hb; exact hb
  have hroots := inv_roots C bs c.tree d.tree cs' n hinv
  unfold Tree.byteOffsetInChangeset
  simp only [hne, ite_false, hnew, hscan]
  cases hfi : cs'.roots.findIdx? (fun r => r.index = (anc C bs i T).index) with
  | some x =>
    simp only []
    rw [hroots] at hfi ⊢
    obtain ⟨hx, hpx, _⟩ := List.findIdx?_eq_some_iff_getElem.mp hfi
    have hx' : x < (rootsStack n).reverse.length := by simpa [rootsAt] using hx
    have hget : (rootsStack n).reverse[x]? = some ((rootsStack n).reverse[x]) := List.getElem?_eq_getElem hx'
    have hidx : Flat.index ((rootsStack n).reverse[x]).1 ((rootsStack n).reverse[x]).2 = Flat.index T (i / 2 ^ T) := by
      have : (rootsAt C bs n)[x] = nodeAt C bs ((rootsStack n).reverse[x]).1 ((rootsStack n).reverse[x]).2 := by
        simp [rootsAt]
      rw [this] at hpx
      simpa [nodeAt_index, anc] using hpx
    obtain ⟨e1, e2⟩ := index_inj _ _ _ _ hidx
    have hps := cover_prefix_sum C bs _ 0 n (cover_roots n) x _ hget
    rw [e1, e2] at hps
    simp only [psum, Nat.add_zero] at hps
    simp only [rootsAt]
    rw [hps]
    first | rw [hoff] | (congr 1; omega)
  | none =>
    simp only []
    -- not a root of `n`: its parent lies inside `n`, is stored in the view, and — not being in the list — in the old tree
    have hnotroot : (T, i / 2 ^ T) ∉ rootsStack n := by
      intro hmem
      have hall := List.findIdx?_eq_none_iff.mp hfi
      have : nodeAt C bs T (i / 2 ^ T) ∈ cs'.roots := by
        rw [hroots, rootsAt]
        exact List.mem_map.mpr ⟨(T, i / 2 ^ T), List.mem_reverse.mpr hmem, rfl⟩
      have := hall _ this
      simp [anc] at this
    have hpin := parent_inside n T (i / 2 ^ T) hTend hnotroot
    have hTview : (vt c.tree cs').node? d.tree (Flat.index T (i / 2 ^ T)) = some (nodeAt C bs T (i / 2 ^ T)) := hvnew T _ hTin
    have hpar := (hinv.closed.closed T (i / 2 ^ T) hTview hpin).2
    rw [div_pow_succ' i T] at hpar
    have hparold : c.tree.node? d.tree (Flat.index (T + 1) (i / 2 ^ (T + 1))) = some (nodeAt C bs (T + 1) (i / 2 ^ (T + 1))) := by
      rcases hvonly (T + 1) _ hpar with h1 | h1
      · exact absurd h1 hnot
      · exact h1
    -- so the parent, and with it the ancestor reached, lies inside the old tree and is stored there
    obtain ⟨dd, o, e0, e1, hbp⟩ := h.closed.sparse.sound _ _ hparold
    obtain ⟨ed, eo⟩ := index_inj _ _ _ _ e0
    have hparin : (i / 2 ^ (T + 1) + 1) * 2 ^ (T + 1) ≤ m := by rw [← ed, ← eo] at hbp; exact hbp
    have hTinm : (i / 2 ^ T + 1) * 2 ^ T ≤ m := by
      have := end_child_le T (i / 2 ^ (T + 1)) (i / 2 ^ T) (div_pow_succ' i T)
      omega
    have hTold : c.tree.node? d.tree (Flat.index T (i / 2 ^ T)) = some (nodeAt C bs T (i / 2 ^ T)) := by
      have := anc_stored_at C bs m c.tree d.tree h.closed k (i / 2 ^ k) hstored (T - k) (by
        have e1 : i / 2 ^ k / 2 ^ (T - k) = i / 2 ^ T := by
          rw [Nat.div_div_eq_div_mul, ← Nat.pow_add]; congr 2; omega
        have e2 : k + (T - k) = T := by omega
        rw [e1, e2]; exact hTinm)
      have e1 : i / 2 ^ k / 2 ^ (T - k) = i / 2 ^ T := by
        rw [Nat.div_div_eq_div_mul, ← Nat.pow_add]; congr 2; omega
      have e2 : k + (T - k) = T := by omega
      rw [e1, e2] at this
      exact this
    -- the old tree's own descent gives the start of that ancestor's span
    have hsz := size_extract bs m h.le
    have hcl := (closed_extract C bs m h.le c.tree d.tree).mpr h.closed
    have hT64 : T ≤ 64 := by
      have h4 : 2 ^ T ≤ (i / 2 ^ T + 1) * 2 ^ T := Nat.le_mul_of_pos_left _ (Nat.succ_pos _)
      have h5 : 2 ^ T < 2 ^ 64 := by omega
      have := (Nat.pow_lt_pow_iff_right (by decide : 1 < 2)).mp h5
      omega
    have hTold' : c.tree.node? d.tree (Flat.index T (i / 2 ^ T)) = some (nodeAt C (bs.extract 0 m) T (i / 2 ^ T)) := by
      rw [nodeAt_extract C bs m h.le T (i / 2 ^ T) hTinm]; exact hTold
    have hL := closed_left C (bs.extract 0 m) c.tree d.tree hcl T (i / 2 ^ T) hTold'
    have hbo := byteOffsetFromNodes_sparse C (bs.extract 0 m) c.tree d.tree (by rw [hsz]; exact hM)
      (by rw [h.roots, roots_extract C bs m h.le]) T (i / 2 ^ T) hT64 (by rw [hsz]; exact hTinm) hL
    have hspan := span_le i 0 T
    have hstart : i / 2 ^ T * 2 ^ T ≤ m := by
      have hp := pow_pos' T
      have : (i / 2 ^ T + 1) * 2 ^ T = i / 2 ^ T * 2 ^ T + 2 ^ T := by ring
      omega
    rw [psum_extract bs m h.le _ hstart] at hbo
    have hidx : (anc C bs i T).index = Flat.index T (i / 2 ^ T) := rfl
    rw [hidx, hbo]
    simp only []
    congr 1
    omega

end HC.BlockUpgrade
