import HC.Proofs.OplogBytes
/-!
Format limits: the headers and entries a live history writes are within the ranges of the codec
(64-bit numbers, 32-byte keys and digests, frames shorter than 2^30 bytes, headers that fit a slot).
-/
namespace HC.FormatLimits
open HC HC.Codec HC.Oplog HC.OplogBytes

theorem sizeUint_le (n : Nat) : sizeUint n ≤ 9 := by unfold sizeUint; split <;> (try split) <;> (try split) <;> omega

theorem encUint_le (n : Nat) : (encUint n).length ≤ 9 := by rw [encUint_length]; exact sizeUint_le n

theorem encBuf_le (b : Bytes) : (encBuf b).length ≤ 9 + b.length := by
  rw [encBuf_length]; unfold sizeBuf; have := sizeUint_le b.length; omega

/-- the shape of every header a writer core holds -/
structure HdrShape (h : Header) : Prop where
  key : h.key.length = 32
  ns : h.manifestNamespace.length = 32
  mkey : h.manifestKey.length = 32
  pk : h.publicKey.length = 32
  sk : ∀ s, h.secret = some s → s.length = 32
  ud : h.userData = []
  reorgs : h.reorgs = []
  fork : U64 h.tree.fork
  len : U64 h.tree.length
  rootHash : h.tree.rootHash.length ≤ 32
  sig : h.tree.signature.length ≤ 64
  contig : U64 h.contiguous

theorem encHeader_le (h : Header) (hs : HdrShape h) : (encHeader h).length ≤ 400 := by
  have e1 := encUint_le h.tree.fork
  have e2 := encUint_le h.tree.length
  have e3 := encBuf_le h.tree.rootHash
  have e4 := encBuf_le h.tree.signature
  have e5 := encUint_le h.contiguous
  have hkp : (encKeyPair h.publicKey h.secret).length ≤ 9 + 32 + 9 + 64 := by
    unfold encKeyPair
    have a1 := encBuf_le h.publicKey
    cases hsec : h.secret with
    | none => simp only [List.length_append, List.length_cons, List.length_nil]; rw [hs.pk] at a1; omega
    | some s =>
      have a2 := encBuf_le (s ++ h.publicKey)
      have := hs.sk s hsec
      simp only [List.length_append] at a2 ⊢
      rw [hs.pk] at a1 a2; omega
  have hvf : versionFlags.length = 2 := by decide
  have hstr : (encStrings ([] : List Bytes)).length = 1 := by decide
  simp only [encHeader, encManifest, encHeaderTree, List.length_append, hs.key, hs.ns, hs.mkey, hs.ud, hs.reorgs, hstr, hvf,
    List.length_cons, List.length_nil]
  have := hs.rootHash
  have := hs.sig
  omega

theorem headerOK_of_shape (h : Header) (hs : HdrShape h) : HeaderOK h := by
  refine ⟨⟨hs.key, hs.ns, hs.mkey, hs.pk, hs.sk, ?_, ⟨hs.fork, hs.len, ?_, ?_⟩, ?_, hs.contig⟩, ?_⟩
  · rw [hs.ud]; exact ⟨by decide, fun b hb => by cases hb⟩
  · have := hs.rootHash; unfold U64; omega
  · have := hs.sig; unfold U64; omega
  · rw [hs.reorgs]; exact ⟨by decide, fun b hb => by cases hb⟩
  · have := encHeader_le h hs
    simp only [Spec.leaderSize, Spec.headerSize]; omega

theorem hdrShape_set (h : Header) (hs : HdrShape h) (rh sg : Bytes) (len cc : Nat) (h1 : rh.length ≤ 32) (h2 : sg.length ≤ 64)
    (h3 : U64 len) (h4 : U64 cc) :
    HdrShape { h with tree := { h.tree with rootHash := rh, signature := sg, length := len }, contiguous := cc } :=
  ⟨hs.key, hs.ns, hs.mkey, hs.pk, hs.sk, hs.ud, hs.reorgs, hs.fork, h3, h1, h2, h4⟩

theorem hdrShape_contig (h : Header) (hs : HdrShape h) (cc : Nat) (h4 : U64 cc) : HdrShape { h with contiguous := cc } :=
  ⟨hs.key, hs.ns, hs.mkey, hs.pk, hs.sk, hs.ud, hs.reorgs, hs.fork, hs.len, hs.rootHash, hs.sig, h4⟩

theorem hdrShape_nosecret (h : Header) (hs : HdrShape h) : HdrShape { h with secret := none } :=
  ⟨hs.key, hs.ns, hs.mkey, hs.pk, (fun s hh => by cases hh), hs.ud, hs.reorgs, hs.fork, hs.len, hs.rootHash, hs.sig, hs.contig⟩

/-! ### entries -/

theorem encNodes_le (l : List Node) (h : NodesWF l) : (encNodes l).length ≤ 9 + 50 * l.length := by
  rw [encNodes_length l h]
  unfold sizeNodes
  have h1 := sizeUint_le l.length
  have h2 : (l.map sizeNode).sum ≤ 50 * l.length := by
    clear h h1
    induction l with
    | nil => simp
    | cons n ns ih =>
      simp only [List.map_cons, List.sum_cons, List.length_cons]
      have a := sizeUint_le n.index
      have b := sizeUint_le n.length
      have c : sizeNode n = sizeUint n.index + sizeUint n.length + 32 := rfl
      omega
  omega

/-- an append entry within the limits -/
theorem appendEntry_ok (nodes : List Node) (fork anc len : Nat) (sig : Bytes) (start k : Nat)
    (hn : NodesWF nodes) (hcount : nodes.length ≤ 2 ^ 22) (hf : U64 fork) (ha : U64 anc) (hl : U64 len)
    (hsig : sig.length = 64) (hs : U64 start) (hk : U64 k) :
    EntryOK { treeNodes := nodes, treeUpgrade := some ⟨fork, anc, len, sig⟩, bitfield := some ⟨false, start, k⟩ } := by
  have hu64 : U64 0 := by unfold U64; omega
  refine ⟨⟨⟨hu64, fun b hb => by cases hb⟩, hn, ?_, ?_⟩, ?_⟩
  · intro u hu; cases hu; exact ⟨hf, ha, hl, by rw [hsig]; unfold U64; omega⟩
  · intro b hb; cases hb; exact ⟨hs, hk⟩
  · have e1 := encNodes_le nodes hn
    have e2 := encUint_le fork
    have e3 := encUint_le anc
    have e4 := encUint_le len
    have e5 := encBuf_le sig
    have e6 := encUint_le start
    have e7 := encUint_le k
    simp only [encEntry, encTreeUpgrade, encBitfieldUpdate, List.length_append, List.length_cons, List.length_nil,
      List.isEmpty_nil, ite_true]
    by_cases hne : nodes.isEmpty = true
    · simp only [hne, ite_true, List.length_nil]; omega
    · simp only [hne, Bool.false_eq_true, ite_false]; omega

/-- a clear entry within the limits -/
theorem clearEntry_ok (start len : Nat) (hs : U64 start) (hl : U64 len) :
    EntryOK { bitfield := some ⟨true, start, len⟩ } := by
  have hu64 : U64 0 := by unfold U64; omega
  refine ⟨⟨⟨hu64, fun b hb => by cases hb⟩, ⟨hu64, fun n hn => by cases hn⟩, ?_, ?_⟩, ?_⟩
  · intro u hu; cases hu
  · intro b hb; cases hb; exact ⟨hs, hl⟩
  · have e6 := encUint_le start
    have e7 := encUint_le len
    simp only [encEntry, encBitfieldUpdate, List.length_append, List.length_cons, List.length_nil, List.isEmpty_nil, ite_true]
    omega

end HC.FormatLimits
