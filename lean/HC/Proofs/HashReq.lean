import HC.Proofs.Growth
/-!
Hash requests (C03: "block or hash index that exists"): the replica asks for the hash of tree node `(d₀, o₀)` with
the node count from its own `missing_nodes`; the writer answers with the node and the siblings up to the ancestor
the replica stores; `verify_and_apply_proof` accepts, stores the path (no data, no bitfield change) and the
replica's invariant holds again.  Everything is the block case started at `(d₀, o₀)` instead of a leaf.
-/
namespace HC.HashReq
open HC HC.Codec HC.Flat HC.Tree HC.RefTree HC.RefProof HC.Sound HC.Offsets HC.TreeStore HC.Complete HC.UpgradeSound HC.CreateTotal HC.Replica HC.Growth

theorem pathNodes_mem (C : Crypto) (bs : Array Bytes) (d0 o0 k : Nat) (n : Node) :
    n ∈ (nodeAt C bs d0 o0 :: downPath C bs d0 o0 k) ↔ n = nodeAt C bs d0 o0 ∨ n ∈ upPath C bs d0 o0 k := by
  rw [← upPath_reverse]
  simp

theorem pathNodes_bound (C : Crypto) (bs : Array Bytes) (d0 o0 k m : Nat) (hin : (o0 / 2 ^ k + 1) * 2 ^ (d0 + k) ≤ m) :
    ∀ n ∈ (nodeAt C bs d0 o0 :: downPath C bs d0 o0 k), ∃ d o, n = nodeAt C bs d o ∧ (o + 1) * 2 ^ d ≤ m := by
  intro n hn
  rcases (pathNodes_mem C bs d0 o0 k n).mp hn with rfl | hn
  · exact ⟨d0, o0, rfl, Nat.le_trans (span_le o0 d0 k) hin⟩
  · obtain ⟨j, hj, hc⟩ := (mem_upPath C bs n k d0 o0).mp hn
    have hk : o0 / 2 ^ (j + 1) / 2 ^ (k - (j + 1)) = o0 / 2 ^ k := by
      rw [Nat.div_div_eq_div_mul, ← Nat.pow_add]; congr 2; omega
    have hsp := span_le (o0 / 2 ^ (j + 1)) (d0 + j + 1) (k - (j + 1))
    rw [hk, show d0 + j + 1 + (k - (j + 1)) = d0 + k by omega] at hsp
    rcases hc with rfl | rfl
    · exact ⟨_, _, rfl, Nat.le_trans hsp hin⟩
    · refine ⟨_, _, rfl, ?_⟩
      have := sib_bound (o0 / 2 ^ j) (d0 + j)
      rw [div_pow_succ' o0 j] at this
      exact Nat.le_trans this (Nat.le_trans hsp hin)

/-- committing an accepted path (block or hash answer) keeps the replica closed and stores the start node -/
theorem path_commit_closed (C : Crypto) (hC : HashWF C) (bs : Array Bytes) (t : Tree) (f : File) (h : Closed C bs t f)
    (d0 o0 k : Nat) (hstored : t.node? f (Flat.index (d0 + k) (o0 / 2 ^ k)) = some (nodeAt C bs (d0 + k) (o0 / 2 ^ k)))
    (hin : (o0 / 2 ^ k + 1) * 2 ^ (d0 + k) ≤ bs.size) (t' : Tree)
    (hu : t'.unflushed = insertAll t.unflushed (nodeAt C bs d0 o0 :: downPath C bs d0 o0 k))
    (hlen : t'.length = t.length) :
    Closed C bs t' f ∧ t'.node? f (Flat.index d0 o0) = some (nodeAt C bs d0 o0)
      ∧ (∀ d o, t.node? f (Flat.index d o) = some (nodeAt C bs d o) → t'.node? f (Flat.index d o) = some (nodeAt C bs d o)) := by
  have hmem := pathNodes_mem C bs d0 o0 k
  have hbound := pathNodes_bound C bs d0 o0 k bs.size hin
  obtain ⟨hnew, hold, honly⟩ := insert_lookup C hC bs t t' f _ (fun n hn => by obtain ⟨d, o, e, _⟩ := hbound n hn; exact ⟨d, o, e⟩) hu
  have hS : Sparse C bs bs.size t' f := by
    refine Sync.sparse_insert C hC bs bs.size bs.size t t' f h.sparse (Nat.le_refl _) _ hbound hu (by rw [hlen]; exact h.sparse.length)
      (fun p hp => Or.inr (h.sparse.roots p hp))
  have hstart : t'.node? f (Flat.index d0 o0) = some (nodeAt C bs d0 o0) := hnew d0 o0 (by simp)
  refine ⟨⟨hS, ?_⟩, hstart, hold⟩
  intro d o hst hpar
  have hpathN : ∀ j, j ≤ k → t'.node? f (Flat.index (d0 + j) (o0 / 2 ^ j)) = some (nodeAt C bs (d0 + j) (o0 / 2 ^ j)) := by
    intro j hj
    by_cases hjk : j = k
    · rw [hjk]; exact hold _ _ hstored
    · cases j with
      | zero => simpa using hstart
      | succ j =>
        apply hnew
        apply (hmem _).mpr
        right
        exact (mem_upPath C bs _ k d0 o0).mpr ⟨j, by omega, Or.inl rfl⟩
  have hsibN : ∀ j, j < k → t'.node? f (Flat.index (d0 + j) (sib (o0 / 2 ^ j))) = some (nodeAt C bs (d0 + j) (sib (o0 / 2 ^ j))) := by
    intro j hj
    apply hnew
    apply (hmem _).mpr
    right
    exact (mem_upPath C bs _ k d0 o0).mpr ⟨j, hj, Or.inr rfl⟩
  rcases honly d o hst with hin' | hwas
  · rcases (hmem _).mp hin' with e | e
    · -- the start node
      obtain ⟨hd, ho⟩ := nodeAt_inj C bs _ _ _ _ e
      rw [hd, ho] at hpar ⊢
      by_cases hk0 : k = 0
      · subst hk0
        have := h.closed d0 o0 (by simpa using hstored) hpar
        exact ⟨hold _ _ this.1, hold _ _ this.2⟩
      · have h1 := hsibN 0 (by omega)
        have h2 := hpathN 1 (by omega)
        simp only [Nat.pow_zero, Nat.div_one, Nat.pow_one, Nat.add_zero] at h1 h2
        exact ⟨h1, h2⟩
    · obtain ⟨j, hj, hc⟩ := (mem_upPath C bs _ k d0 o0).mp e
      rcases hc with e | e
      · -- a parent on the path
        obtain ⟨hd, ho⟩ := nodeAt_inj C bs _ _ _ _ e
        rw [hd, ho] at hpar ⊢
        by_cases hjk : j + 1 = k
        · subst hjk
          have := h.closed (d0 + (j + 1)) (o0 / 2 ^ (j + 1)) hstored (by rw [show d0 + (j + 1) = d0 + j + 1 by omega]; exact hpar)
          rw [show d0 + (j + 1) = d0 + j + 1 by omega] at this
          exact ⟨hold _ _ this.1, hold _ _ this.2⟩
        · have h1 := hsibN (j + 1) (by omega)
          have h2 := hpathN (j + 1 + 1) (by omega)
          rw [← div_pow_succ' o0 (j + 1)] at h2
          rw [show d0 + (j + 1) = d0 + j + 1 by omega] at h1
          rw [show d0 + (j + 1 + 1) = d0 + j + 1 + 1 by omega] at h2
          exact ⟨h1, h2⟩
      · -- a sibling of the path
        obtain ⟨hd, ho⟩ := nodeAt_inj C bs _ _ _ _ e
        rw [hd, ho] at hpar ⊢
        have h1 := hpathN j (by omega)
        have h2 := hpathN (j + 1) (by omega)
        rw [Replica.sib_sib, sib_half, div_pow_succ' o0 j]
        rw [show d0 + (j + 1) = d0 + j + 1 by omega] at h2
        exact ⟨h1, h2⟩
  · have := h.closed d o hwas hpar
    exact ⟨hold _ _ this.1, hold _ _ this.2⟩

/-- the accepted hash changeset, exactly -/
theorem hash_changeset_exact (C : Crypto) (bs : Array Bytes) (t : Tree) (f : File) (pk : Bytes) (d0 o0 k fork : Nat) (hd0 : d0 ≤ 64)
    (hstored : t.node? f (Flat.index (d0 + k) (o0 / 2 ^ k)) = some (nodeAt C bs (d0 + k) (o0 / 2 ^ k))) :
    t.verifyProof C f ⟨fork, none, some ⟨Flat.index d0 o0, nodeAt C bs d0 o0 :: sibPath C bs d0 o0 k⟩, none, none⟩ pk
      = .ok { t.changeset with rnodes := upPath C bs d0 o0 k ++ [nodeAt C bs d0 o0] } := by
  have hnew : Iter.new (Flat.index d0 o0) = iat d0 o0 := new_index d0 o0 hd0
  have hc := climb_exact C bs k ((plainQueue (sibPath C bs d0 o0 k)).length + 1) d0 o0
    (nodeAt C bs d0 o0 :: t.changeset.rnodes) (by simp [plainQueue, sibPath_length])
  have hreq : t.requiredNode f (nodeAt C bs (d0 + k) (o0 / 2 ^ k)).index = .ok (nodeAt C bs (d0 + k) (o0 / 2 ^ k)) := by
    simp [Tree.requiredNode, nodeAt_index, hstored]
  have hshift : (NodeQueue.new (nodeAt C bs d0 o0 :: sibPath C bs d0 o0 k) none).shift (iat d0 o0).index
      = .ok (nodeAt C bs d0 o0, plainQueue (sibPath C bs d0 o0 k)) := by
    simp [NodeQueue.new, NodeQueue.shift, plainQueue, iat, nodeAt_index]
  unfold verifyProof
  simp only [verifyTree, untrustedOf, noSeekOf, Option.isNone_some, Bool.false_and, Bool.false_eq_true,
    ite_false, seekHalf, andThen, mainHalf, hnew, hshift, hc, hreq]
  simp [Tree.changeset]

/-- the node count a replica asks for, for any tree node inside its tree -/
theorem missingNodes_spec_node (C : Crypto) (bs : Array Bytes) (m : Nat) (t : Tree) (f : File) (hS : Sparse C bs m t f)
    (hm : m < 2 ^ 64) (d0 o0 : Nat) (hin : (o0 + 1) * 2 ^ d0 ≤ m) :
    t.node? f (Flat.index (d0 + t.missingNodes f (Flat.index d0 o0)) (o0 / 2 ^ t.missingNodes f (Flat.index d0 o0)))
        = some (nodeAt C bs (d0 + t.missingNodes f (Flat.index d0 o0)) (o0 / 2 ^ t.missingNodes f (Flat.index d0 o0)))
      ∧ (o0 / 2 ^ t.missingNodes f (Flat.index d0 o0) + 1) * 2 ^ (d0 + t.missingNodes f (Flat.index d0 o0)) ≤ m
      ∧ d0 ≤ 64 := by
  have hpd := pow_pos' d0
  have hd64 : d0 < 64 := by
    have h1 : 2 ^ d0 ≤ (o0 + 1) * 2 ^ d0 := Nat.le_mul_of_pos_left _ (Nat.succ_pos _)
    have h2 : 2 ^ d0 < 2 ^ 64 := by omega
    exact (Nat.pow_lt_pow_iff_right (by decide)).mp h2
  -- the first leaf of the node
  have hi : o0 * 2 ^ d0 < m := by
    have : (o0 + 1) * 2 ^ d0 = o0 * 2 ^ d0 + 2 ^ d0 := by ring
    omega
  have hio : o0 * 2 ^ d0 / 2 ^ d0 = o0 := Nat.mul_div_cancel _ hpd
  obtain ⟨p, hp, hp1, hp2⟩ := cover_find (cover_roots m) (o0 * 2 ^ d0) (Nat.zero_le _) hi
  have hmem : p ∈ rootsStack m := List.mem_reverse.mp hp
  have hbound := rootsStack_bound m p hmem
  have hdiv : o0 * 2 ^ d0 / 2 ^ p.1 = p.2 := div_eq_of_span _ p.1 p.2 hp1 hp2
  have hp64 : p.1 < 64 := by
    have h1 : 2 ^ p.1 ≤ (p.2 + 1) * 2 ^ p.1 := Nat.le_mul_of_pos_left _ (Nat.succ_pos _)
    have h2 : 2 ^ p.1 < 2 ^ 64 := Nat.lt_of_le_of_lt (Nat.le_trans h1 hbound) hm
    exact (Nat.pow_lt_pow_iff_right (by decide)).mp h2
  -- the node lies inside that root: its depth is at most the root's
  have hdp : d0 ≤ p.1 := by
    by_contra hlt
    -- the root would lie strictly inside the node, but the node is inside the tree and roots are maximal
    have hpar := Replica.root_parent_out m p hmem
    have h2 : 2 ^ (p.1 + 1) ∣ o0 * 2 ^ d0 := Nat.dvd_trans (Nat.pow_dvd_pow 2 (by omega : p.1 + 1 ≤ d0)) (Nat.dvd_mul_left _ _)
    have h3 : 2 ^ (p.1 + 1) ∣ (o0 + 1) * 2 ^ d0 := Nat.dvd_trans (Nat.pow_dvd_pow 2 (by omega : p.1 + 1 ≤ d0)) (Nat.dvd_mul_left _ _)
    -- the parent of the root covers [⌊p.2/2⌋·2^(p.1+1), …) and lies inside the node's span
    have hps : p.2 / 2 * 2 ^ (p.1 + 1) ≤ p.2 * 2 ^ p.1 := by
      rw [pow_succ2]
      have : p.2 / 2 * (2 * 2 ^ p.1) = (p.2 / 2 * 2) * 2 ^ p.1 := by ring
      rw [this]; exact Nat.mul_le_mul_right _ (Nat.div_mul_le_self _ _)
    have hlt2 : p.2 / 2 * 2 ^ (p.1 + 1) < (o0 + 1) * 2 ^ d0 := by
      have : (o0 + 1) * 2 ^ d0 = o0 * 2 ^ d0 + 2 ^ d0 := by ring
      omega
    have hgap := mult_gap (2 ^ (p.1 + 1)) _ _ (Nat.dvd_mul_left _ _) h3 hlt2
    have : (p.2 / 2 + 1) * 2 ^ (p.1 + 1) = p.2 / 2 * 2 ^ (p.1 + 1) + 2 ^ (p.1 + 1) := by ring
    omega
  have hroot : t.node? f (Flat.index p.1 (o0 * 2 ^ d0 / 2 ^ p.1)) = some (nodeAt C bs p.1 (o0 * 2 ^ d0 / 2 ^ p.1)) := by
    rw [hdiv]; exact hS.roots p hmem
  obtain ⟨k, h1, h2, h3⟩ := missingNodes_go C bs m t f hS (o0 * 2 ^ d0) p.1 hroot (by rw [hdiv]; exact hbound) (p.1 - d0) d0 70 0
    (by omega) (by omega)
  rw [hio] at h1
  have hnew : Iter.new (Flat.index d0 o0) = iat d0 o0 := new_index d0 o0 (by omega)
  have hfirst : ¬ ((iat d0 o0).index + (iat d0 o0).factor / 2 - 1 ≥ 2 * m) := by
    have hidx : (iat d0 o0).index = o0 * (2 * 2 ^ d0) + (2 ^ d0 - 1) := index_eq d0 o0
    have hfac : (iat d0 o0).factor / 2 = 2 ^ d0 := by simp only [iat, two_pow_succ]; omega
    have e : (o0 + 1) * 2 ^ d0 = o0 * 2 ^ d0 + 2 ^ d0 := by ring
    have e2 : o0 * (2 * 2 ^ d0) = 2 * (o0 * 2 ^ d0) := by ring
    omega
  have hmn : t.missingNodes f (Flat.index d0 o0) = k := by
    simp only [Tree.missingNodes, hS.length, hnew, hfirst, ite_false]
    simpa using h1
  rw [hmn]
  have hanc : o0 * 2 ^ d0 / 2 ^ (d0 + k) = o0 / 2 ^ k := by
    rw [Nat.pow_add, ← Nat.div_div_eq_div_mul, hio]
  rw [hanc] at h3
  refine ⟨h3, ?_, by omega⟩
  obtain ⟨d, o, hidx, _, hb⟩ := hS.sound _ _ h3
  obtain ⟨rfl, rfl⟩ := index_inj (d0 + k) (o0 / 2 ^ k) d o hidx
  exact hb

/-! ### the hash answer at core level -/

/-- the honest answer to "hash of tree node `(d₀, o₀)`, as many nodes as I am missing" -/
def honestHash (C : Crypto) (bs : Array Bytes) (c : Core) (d : Disk) (d0 o0 : Nat) : Proof :=
  ⟨c.tree.fork, none, some ⟨Flat.index d0 o0, nodeAt C bs d0 o0 :: sibPath C bs d0 o0 (c.tree.missingNodes d.tree (Flat.index d0 o0))⟩, none, none⟩

/-- the nodes a hash answer stores -/
def hashNodes (C : Crypto) (bs : Array Bytes) (c : Core) (d : Disk) (d0 o0 : Nat) : List Node :=
  nodeAt C bs d0 o0 :: downPath C bs d0 o0 (c.tree.missingNodes d.tree (Flat.index d0 o0))

/-- the core right after a hash answer has been logged and committed, before the periodic flush -/
def hashCore (C : Crypto) (bs : Array Bytes) (c : Core) (d : Disk) (d0 o0 : Nat) : Core :=
  { c with oplog := (Oplog.appendEntry c.oplog { treeNodes := hashNodes C bs c d d0 o0, treeUpgrade := none, bitfield := none }).1, tree := { c.tree with unflushed := insertAll c.tree.unflushed (hashNodes C bs c d d0 o0) } }

theorem hash_shape (C : Crypto) (hC : HashWF C) (bs : Array Bytes) (c : Core) (d : Disk) (held : Nat → Bool) (h : RepR C bs c d held)
    (d0 o0 : Nat) (hin0 : (o0 + 1) * 2 ^ d0 ≤ bs.size) :
    c.verifyAndApply C d (honestHash C bs c d d0 o0)
      = { core := (hashCore C bs c d d0 o0).maybeFlush.1, result := .ok true,
          journal := (Oplog.appendEntry c.oplog { treeNodes := hashNodes C bs c d d0 o0, treeUpgrade := none, bitfield := none }).2 ++ (hashCore C bs c d d0 o0).maybeFlush.2,
          events := Core.appliedEvents (honestHash C bs c d d0 o0) none } := by
  obtain ⟨hstored, hin, hd0⟩ := missingNodes_spec_node C bs bs.size c.tree d.tree h.closed.sparse h.small.1 d0 o0 hin0
  have hv := hash_changeset_exact C bs c.tree d.tree c.publicKey d0 o0 (c.tree.missingNodes d.tree (Flat.index d0 o0)) c.tree.fork hd0 hstored
  have hp0 : honestHash C bs c d d0 o0 = ⟨c.tree.fork, none, some ⟨Flat.index d0 o0, nodeAt C bs d0 o0 :: sibPath C bs d0 o0 (c.tree.missingNodes d.tree (Flat.index d0 o0))⟩, none, none⟩ := rfl
  generalize hk : c.tree.missingNodes d.tree (Flat.index d0 o0) = k at hstored hin hv hp0
  generalize hcs : ({ c.tree.changeset with rnodes := upPath C bs d0 o0 k ++ [nodeAt C bs d0 o0] } : Changeset) = cs at hv
  have hup : cs.upgraded = false := by rw [← hcs]; rfl
  have hnodes : cs.nodes = nodeAt C bs d0 o0 :: downPath C bs d0 o0 k := by rw [← hcs]; simp [Changeset.nodes, upPath_reverse]
  have hcmt : c.tree.commitable cs = true := by rw [← hcs]; simp [Tree.commitable, Tree.changeset]
  have henc : Core.encodable cs = true := encodable_of_ref C hC bs cs (fun x hx => by
    rw [hnodes] at hx
    obtain ⟨dd, o, e, _⟩ := pathNodes_bound C bs d0 o0 k _ hin x hx
    exact ⟨dd, o, e⟩)
  have hds : Core.dataStep c d (honestHash C bs c d d0 o0) cs = .ok ([], none) := by
    rw [hp0]; simp [Core.dataStep]
  generalize htr : ({ c.tree with unflushed := insertAll c.tree.unflushed (nodeAt C bs d0 o0 :: downPath C bs d0 o0 k) } : Tree) = tr
  have hcommit : c.tree.commit cs = .ok tr := by
    rw [← htr]
    simp only [Tree.commit, hcmt, hup, Bool.not_true, Bool.false_eq_true, ite_false, Bool.false_and, hnodes, insertAll]
  have hp : (honestHash C bs c d d0 o0).fork = c.tree.fork := rfl
  have hvv : verifyProof C c.tree d.tree (honestHash C bs c d d0 o0) c.publicKey = .ok cs := by rw [hp0]; exact hv
  generalize hc1 : ({ c with oplog := (Oplog.appendEntry c.oplog (Core.entryOf cs none c.header).1).1, header := (Core.entryOf cs none c.header).2, bitfield := c.bitfield, tree := tr } : Core) = c1
  have hshape : c.verifyAndApply C d (honestHash C bs c d d0 o0)
      = { core := c1.maybeFlush.1, result := .ok true,
          journal := (Oplog.appendEntry c.oplog (Core.entryOf cs none c.header).1).2 ++ c1.maybeFlush.2,
          events := Core.appliedEvents (honestHash C bs c d d0 o0) none } := by
    unfold Core.verifyAndApply
    simp only [hp, ne_eq, not_true_eq_false, ite_false, hvv, hcmt, Bool.not_true, Bool.false_eq_true, hds, henc, ite_true]
    unfold Core.applyVerified
    simp only [hcommit, Core.finishApply, List.nil_append, ← hc1]
  have hent : (Core.entryOf cs none c.header) = ({ treeNodes := nodeAt C bs d0 o0 :: downPath C bs d0 o0 k, treeUpgrade := none, bitfield := none }, c.header) := by
    simp only [Core.entryOf, hup, Bool.false_eq_true, ite_false, hnodes]
  rw [hshape, ← hc1, ← htr, hent]
  simp only [hashCore, hashNodes, hk]

theorem hashCore_repr (C : Crypto) (hC : HashWF C) (bs : Array Bytes) (c : Core) (d : Disk) (held : Nat → Bool) (h : RepR C bs c d held)
    (d0 o0 : Nat) (hin0 : (o0 + 1) * 2 ^ d0 ≤ bs.size) :
    RepR C bs (hashCore C bs c d d0 o0)
      (d.applyAll (Oplog.appendEntry c.oplog { treeNodes := hashNodes C bs c d d0 o0, treeUpgrade := none, bitfield := none }).2) held := by
  obtain ⟨hstored, hin, hd0⟩ := missingNodes_spec_node C bs bs.size c.tree d.tree h.closed.sparse h.small.1 d0 o0 hin0
  have hv := hash_changeset_exact C bs c.tree d.tree c.publicKey d0 o0 (c.tree.missingNodes d.tree (Flat.index d0 o0)) c.tree.fork hd0 hstored
  have hp0 : honestHash C bs c d d0 o0 = ⟨c.tree.fork, none, some ⟨Flat.index d0 o0, nodeAt C bs d0 o0 :: sibPath C bs d0 o0 (c.tree.missingNodes d.tree (Flat.index d0 o0))⟩, none, none⟩ := rfl
  generalize hk : c.tree.missingNodes d.tree (Flat.index d0 o0) = k at hstored hin hv hp0
  generalize hcs : ({ c.tree.changeset with rnodes := upPath C bs d0 o0 k ++ [nodeAt C bs d0 o0] } : Changeset) = cs at hv
  have hup : cs.upgraded = false := by rw [← hcs]; rfl
  have hnodes : cs.nodes = nodeAt C bs d0 o0 :: downPath C bs d0 o0 k := by rw [← hcs]; simp [Changeset.nodes, upPath_reverse]
  have hcmt : c.tree.commitable cs = true := by rw [← hcs]; simp [Tree.commitable, Tree.changeset]
  have henc : Core.encodable cs = true := encodable_of_ref C hC bs cs (fun x hx => by
    rw [hnodes] at hx
    obtain ⟨dd, o, e, _⟩ := pathNodes_bound C bs d0 o0 k _ hin x hx
    exact ⟨dd, o, e⟩)
  have hds : Core.dataStep c d (honestHash C bs c d d0 o0) cs = .ok ([], none) := by
    rw [hp0]; simp [Core.dataStep]
  generalize htr : ({ c.tree with unflushed := insertAll c.tree.unflushed (nodeAt C bs d0 o0 :: downPath C bs d0 o0 k) } : Tree) = tr
  have hcommit : c.tree.commit cs = .ok tr := by
    rw [← htr]
    simp only [Tree.commit, hcmt, hup, Bool.not_true, Bool.false_eq_true, ite_false, Bool.false_and, hnodes, insertAll]
  have hp : (honestHash C bs c d d0 o0).fork = c.tree.fork := rfl
  have hvv : verifyProof C c.tree d.tree (honestHash C bs c d d0 o0) c.publicKey = .ok cs := by rw [hp0]; exact hv
  generalize hc1 : ({ c with oplog := (Oplog.appendEntry c.oplog (Core.entryOf cs none c.header).1).1, header := (Core.entryOf cs none c.header).2, bitfield := c.bitfield, tree := tr } : Core) = c1
  have hshape : c.verifyAndApply C d (honestHash C bs c d d0 o0)
      = { core := c1.maybeFlush.1, result := .ok true,
          journal := (Oplog.appendEntry c.oplog (Core.entryOf cs none c.header).1).2 ++ c1.maybeFlush.2,
          events := Core.appliedEvents (honestHash C bs c d d0 o0) none } := by
    unfold Core.verifyAndApply
    simp only [hp, ne_eq, not_true_eq_false, ite_false, hvv, hcmt, Bool.not_true, Bool.false_eq_true, hds, henc, ite_true]
    unfold Core.applyVerified
    simp only [hcommit, Core.finishApply, List.nil_append, ← hc1]
  have hj1 : ∀ op ∈ (Oplog.appendEntry c.oplog (Core.entryOf cs none c.header).1).2, op.store = .oplog := Journal.appendEntry_store _ _
  have htree : (d.applyAll (Oplog.appendEntry c.oplog (Core.entryOf cs none c.header).1).2).tree = d.tree :=
    LiveRefine.tree_of_applyAll _ _ (fun op hop => by rw [hj1 op hop]; decide)
  have hdata : (d.applyAll (Oplog.appendEntry c.oplog (Core.entryOf cs none c.header).1).2).data = d.data :=
    LiveRefine.data_of_applyAll _ _ (fun op hop => by rw [hj1 op hop]; decide)
  have hc1t : c1.tree = tr := by rw [← hc1]
  have hc1b : c1.bitfield = c.bitfield := by rw [← hc1]
  have hc1h : c1.header = c.header := by rw [← hc1]; simp only [Core.entryOf, hup, Bool.false_eq_true, ite_false]
  obtain ⟨hcl, _, hold⟩ := path_commit_closed C hC bs c.tree d.tree h.closed d0 o0 k hstored hin tr (by rw [← htr]) (by rw [← htr])
  have hrep1 : RepR C bs c1 (d.applyAll (Oplog.appendEntry c.oplog (Core.entryOf cs none c.header).1).2) held := by
    refine ⟨(by rw [hc1t, htree]; exact hcl), (by rw [hc1t, ← htr]; exact h.roots), (by rw [hc1t, ← htr]; exact h.bytes), ?_,
      (by rw [htree]; exact h.aligned), (by intro i; rw [hc1b]; exact h.bits i), h.heldLt, ?_, ?_, (by rw [hc1b, hc1h]; exact h.contig), h.small⟩
    · rw [hc1t, ← htr]
      apply mapWF_insertAll _ _ h.mapwf
      intro n hn
      obtain ⟨dd, o, rfl, hb⟩ := pathNodes_bound C bs d0 o0 k bs.size hin n hn
      refine ⟨nodeAt_hash_len C hC bs dd o, ?_⟩
      have h1 := nodeAt_length_le C bs dd o
      have h2 := psum_mono bs hb
      have := h.small.2
      omega
    · intro i hi
      rw [hc1t, htree]
      exact hold _ _ (h.leaf i hi)
    · intro i hi k' hk'
      rw [hdata]; exact h.data i hi k' hk'
  have hent : (Core.entryOf cs none c.header) = ({ treeNodes := nodeAt C bs d0 o0 :: downPath C bs d0 o0 k, treeUpgrade := none, bitfield := none }, c.header) := by
    simp only [Core.entryOf, hup, Bool.false_eq_true, ite_false, hnodes]
  rw [← hc1, ← htr, hent] at hrep1
  simp only [hashCore, hashNodes, hk]
  exact hrep1

theorem apply_hash (C : Crypto) (hC : HashWF C) (bs : Array Bytes) (c : Core) (d : Disk) (held : Nat → Bool) (h : RepR C bs c d held)
    (d0 o0 : Nat) (hin0 : (o0 + 1) * 2 ^ d0 ≤ bs.size) :
    (c.verifyAndApply C d (honestHash C bs c d d0 o0)).result = .ok true
      ∧ RepR C bs (c.verifyAndApply C d (honestHash C bs c d d0 o0)).core
          (d.applyAll (c.verifyAndApply C d (honestHash C bs c d d0 o0)).journal) held
      ∧ (c.verifyAndApply C d (honestHash C bs c d d0 o0)).core.publicKey = c.publicKey
      ∧ (c.verifyAndApply C d (honestHash C bs c d d0 o0)).core.tree.fork = c.tree.fork := by
  obtain ⟨hstored, hin, hd0⟩ := missingNodes_spec_node C bs bs.size c.tree d.tree h.closed.sparse h.small.1 d0 o0 hin0
  have hv := hash_changeset_exact C bs c.tree d.tree c.publicKey d0 o0 (c.tree.missingNodes d.tree (Flat.index d0 o0)) c.tree.fork hd0 hstored
  have hp0 : honestHash C bs c d d0 o0 = ⟨c.tree.fork, none, some ⟨Flat.index d0 o0, nodeAt C bs d0 o0 :: sibPath C bs d0 o0 (c.tree.missingNodes d.tree (Flat.index d0 o0))⟩, none, none⟩ := rfl
  generalize hk : c.tree.missingNodes d.tree (Flat.index d0 o0) = k at hstored hin hv hp0
  generalize hcs : ({ c.tree.changeset with rnodes := upPath C bs d0 o0 k ++ [nodeAt C bs d0 o0] } : Changeset) = cs at hv
  have hup : cs.upgraded = false := by rw [← hcs]; rfl
  have hnodes : cs.nodes = nodeAt C bs d0 o0 :: downPath C bs d0 o0 k := by rw [← hcs]; simp [Changeset.nodes, upPath_reverse]
  have hcmt : c.tree.commitable cs = true := by rw [← hcs]; simp [Tree.commitable, Tree.changeset]
  have henc : Core.encodable cs = true := encodable_of_ref C hC bs cs (fun x hx => by
    rw [hnodes] at hx
    obtain ⟨dd, o, e, _⟩ := pathNodes_bound C bs d0 o0 k _ hin x hx
    exact ⟨dd, o, e⟩)
  have hds : Core.dataStep c d (honestHash C bs c d d0 o0) cs = .ok ([], none) := by
    rw [hp0]; simp [Core.dataStep]
  generalize htr : ({ c.tree with unflushed := insertAll c.tree.unflushed (nodeAt C bs d0 o0 :: downPath C bs d0 o0 k) } : Tree) = tr
  have hcommit : c.tree.commit cs = .ok tr := by
    rw [← htr]
    simp only [Tree.commit, hcmt, hup, Bool.not_true, Bool.false_eq_true, ite_false, Bool.false_and, hnodes, insertAll]
  have hp : (honestHash C bs c d d0 o0).fork = c.tree.fork := rfl
  have hvv : verifyProof C c.tree d.tree (honestHash C bs c d d0 o0) c.publicKey = .ok cs := by rw [hp0]; exact hv
  generalize hc1 : ({ c with oplog := (Oplog.appendEntry c.oplog (Core.entryOf cs none c.header).1).1, header := (Core.entryOf cs none c.header).2, bitfield := c.bitfield, tree := tr } : Core) = c1
  have hshape : c.verifyAndApply C d (honestHash C bs c d d0 o0)
      = { core := c1.maybeFlush.1, result := .ok true,
          journal := (Oplog.appendEntry c.oplog (Core.entryOf cs none c.header).1).2 ++ c1.maybeFlush.2,
          events := Core.appliedEvents (honestHash C bs c d d0 o0) none } := by
    unfold Core.verifyAndApply
    simp only [hp, ne_eq, not_true_eq_false, ite_false, hvv, hcmt, Bool.not_true, Bool.false_eq_true, hds, henc, ite_true]
    unfold Core.applyVerified
    simp only [hcommit, Core.finishApply, List.nil_append, ← hc1]
  have hj1 : ∀ op ∈ (Oplog.appendEntry c.oplog (Core.entryOf cs none c.header).1).2, op.store = .oplog := Journal.appendEntry_store _ _
  have htree : (d.applyAll (Oplog.appendEntry c.oplog (Core.entryOf cs none c.header).1).2).tree = d.tree :=
    LiveRefine.tree_of_applyAll _ _ (fun op hop => by rw [hj1 op hop]; decide)
  have hdata : (d.applyAll (Oplog.appendEntry c.oplog (Core.entryOf cs none c.header).1).2).data = d.data :=
    LiveRefine.data_of_applyAll _ _ (fun op hop => by rw [hj1 op hop]; decide)
  have hc1t : c1.tree = tr := by rw [← hc1]
  have hc1b : c1.bitfield = c.bitfield := by rw [← hc1]
  have hc1h : c1.header = c.header := by rw [← hc1]; simp only [Core.entryOf, hup, Bool.false_eq_true, ite_false]
  obtain ⟨hcl, _, hold⟩ := path_commit_closed C hC bs c.tree d.tree h.closed d0 o0 k hstored hin tr (by rw [← htr]) (by rw [← htr])
  have hrep1 : RepR C bs c1 (d.applyAll (Oplog.appendEntry c.oplog (Core.entryOf cs none c.header).1).2) held := by
    refine ⟨(by rw [hc1t, htree]; exact hcl), (by rw [hc1t, ← htr]; exact h.roots), (by rw [hc1t, ← htr]; exact h.bytes), ?_,
      (by rw [htree]; exact h.aligned), (by intro i; rw [hc1b]; exact h.bits i), h.heldLt, ?_, ?_, (by rw [hc1b, hc1h]; exact h.contig), h.small⟩
    · rw [hc1t, ← htr]
      apply mapWF_insertAll _ _ h.mapwf
      intro n hn
      obtain ⟨dd, o, rfl, hb⟩ := pathNodes_bound C bs d0 o0 k bs.size hin n hn
      refine ⟨nodeAt_hash_len C hC bs dd o, ?_⟩
      have h1 := nodeAt_length_le C bs dd o
      have h2 := psum_mono bs hb
      have := h.small.2
      omega
    · intro i hi
      rw [hc1t, htree]
      exact hold _ _ (h.leaf i hi)
    · intro i hi k' hk'
      rw [hdata]; exact h.data i hi k' hk'
  rw [hshape]
  refine ⟨rfl, ?_, ?_, ?_⟩
  · simp only []
    rw [Journal.applyAll_append]
    exact maybeFlush_repr C bs _ _ _ hrep1
  · simp only []
    rw [LiveRefine.maybeFlush_eq]
    split
    · simp only [Core.flushAll]; rw [← hc1]
    · show c1.publicKey = _; rw [← hc1]
  · simp only []
    rw [LiveRefine.maybeFlush_eq]
    split
    · simp only [Core.flushAll, Tree.flush]; rw [hc1t, ← htr]
    · show c1.tree.fork = _; rw [hc1t, ← htr]

theorem honestHash_extract (C : Crypto) (bs : Array Bytes) (m : Nat) (c : Core) (d : Disk) (held : Nat → Bool) (h : RepRAt C bs m c d held)
    (d0 o0 : Nat) (hin0 : (o0 + 1) * 2 ^ d0 ≤ m) : honestHash C (bs.extract 0 m) c d d0 o0 = honestHash C bs c d d0 o0 := by
  obtain ⟨_, hin, _⟩ := missingNodes_spec_node C bs m c.tree d.tree h.closed.sparse (by have := h.small.1; have := h.le; omega) d0 o0 hin0
  simp only [honestHash]
  rw [nodeAt_extract C bs m h.le d0 o0 hin0, sibPath_extract C bs m h.le _ d0 o0 hin]

theorem apply_hash_at (C : Crypto) (hC : HashWF C) (bs : Array Bytes) (m : Nat) (c : Core) (d : Disk) (held : Nat → Bool)
    (h : RepRAt C bs m c d held) (d0 o0 : Nat) (hin0 : (o0 + 1) * 2 ^ d0 ≤ m) :
    (c.verifyAndApply C d (honestHash C bs c d d0 o0)).result = .ok true
      ∧ RepRAt C bs m (c.verifyAndApply C d (honestHash C bs c d d0 o0)).core
          (d.applyAll (c.verifyAndApply C d (honestHash C bs c d d0 o0)).journal) held
      ∧ (c.verifyAndApply C d (honestHash C bs c d d0 o0)).core.publicKey = c.publicKey
      ∧ (c.verifyAndApply C d (honestHash C bs c d d0 o0)).core.tree.fork = c.tree.fork := by
  have hR := (repr_extract C bs m h.le h.small c d held).mpr h
  obtain ⟨r1, r2, r3, r4⟩ := apply_hash C hC (bs.extract 0 m) c d held hR d0 o0 (by rw [size_extract bs m h.le]; exact hin0)
  rw [honestHash_extract C bs m c d held h d0 o0 hin0] at r1 r2 r3 r4
  exact ⟨r1, (repr_extract C bs m h.le h.small _ _ _).mp r2, r3, r4⟩

/-! ### growth rounds, block requests and hash requests, in any order -/

/-- what the replica does next: upgrade to the writer's current length `n`, fetch block `i`, or ask for the hash of the
    tree node at depth `d`, offset `o` -/
inductive Act
  | grow (n : Nat) (us : List (Nat × Nat)) (sig : Bytes)
  | fetch (i : Nat)
  | hash (d o : Nat)

def actProof (C : Crypto) (bs : Array Bytes) (c : Core) (d : Disk) : Act → Proof
  | .grow n us sig => honestGrowth C bs c.tree.fork c.tree.length n us sig
  | .fetch i => honestBlock C bs c d i
  | .hash d0 o0 => honestHash C bs c d d0 o0

def play (C : Crypto) (bs : Array Bytes) : Core × Disk → List Act → Core × Disk
  | s, [] => s
  | (c, d), a :: r =>
    play C bs ((c.verifyAndApply C d (actProof C bs c d a)).core, d.applyAll (c.verifyAndApply C d (actProof C bs c d a)).journal) r

def playResults (C : Crypto) (bs : Array Bytes) : Core × Disk → List Act → List (R Bool)
  | _, [] => []
  | (c, d), a :: r =>
    (c.verifyAndApply C d (actProof C bs c d a)).result ::
      playResults C bs ((c.verifyAndApply C d (actProof C bs c d a)).core, d.applyAll (c.verifyAndApply C d (actProof C bs c d a)).journal) r

/-- the acts are honest: lengths only grow and stay inside the log, every upgrade carries an honest position list and
    a signature of the writer for that length, every block index and every tree node lies inside the replica's
    current length -/
def OkActs (C : Crypto) (bs : Array Bytes) (pk : Bytes) (fork : Nat) : Nat → List Act → Prop
  | _, [] => True
  | m, .grow n us sig :: r => m < n ∧ n ≤ bs.size ∧ Up m 0 (rootsStack n).reverse us ∧ sig.length = 64
      ∧ C.verify pk (signableAt C bs n fork) sig = true ∧ OkActs C bs pk fork n r
  | m, .fetch i :: r => i < m ∧ OkActs C bs pk fork m r
  | m, .hash d0 o0 :: r => (o0 + 1) * 2 ^ d0 ≤ m ∧ OkActs C bs pk fork m r

def lenAfter : Nat → List Act → Nat
  | m, [] => m
  | _, .grow n _ _ :: r => lenAfter n r
  | m, .fetch _ :: r => lenAfter m r
  | m, .hash _ _ :: r => lenAfter m r

def fetched : List Act → Nat → Bool
  | [], _ => false
  | .grow _ _ _ :: r, j => fetched r j
  | .fetch i :: r, j => j == i || fetched r j
  | .hash _ _ :: r, j => fetched r j

theorem play_repr (C : Crypto) (hC : HashWF C) (bs : Array Bytes) (pk : Bytes) (fork : Nat) :
    ∀ (acts : List Act) (m : Nat) (c : Core) (d : Disk) (held : Nat → Bool), RepRAt C bs m c d held → 0 < m →
      c.publicKey = pk → c.tree.fork = fork → OkActs C bs pk fork m acts →
      RepRAt C bs (lenAfter m acts) (play C bs (c, d) acts).1 (play C bs (c, d) acts).2 (fun j => held j || fetched acts j)
        ∧ playResults C bs (c, d) acts = acts.map (fun _ => .ok true) := by
  intro acts
  induction acts with
  | nil =>
    intro m c d held h _ _ _ _
    refine ⟨?_, rfl⟩
    have : (fun j => held j || fetched [] j) = held := by funext j; simp [fetched]
    rw [this]; exact h
  | cons a r ih =>
    intro m c d held h hm0 hpk hfk hok
    cases a with
    | grow n us sig =>
      obtain ⟨o1, o2, o3, o4, o5, o6⟩ := hok
      have hlen : c.tree.length = m := h.closed.sparse.length
      obtain ⟨r1, r2, r3, r4⟩ := apply_growth C hC bs m n c d held h hm0 o1 o2 us o3 sig o4 (by rw [hpk, hfk]; exact o5)
      have hact : actProof C bs c d (.grow n us sig) = honestGrowth C bs c.tree.fork m n us sig := by simp [actProof, hlen]
      rw [← hact] at r1 r2 r3 r4
      obtain ⟨q1, q2⟩ := ih n (c.verifyAndApply C d (actProof C bs c d (.grow n us sig))).core
        (d.applyAll (c.verifyAndApply C d (actProof C bs c d (.grow n us sig))).journal) held r2 (by omega) (by rw [r4, hpk]) (by rw [r3, hfk]) o6
      refine ⟨?_, by simp only [playResults, r1, List.map_cons]; rw [q2]⟩
      simpa [play, lenAfter, fetched] using q1
    | fetch i =>
      obtain ⟨o1, o2⟩ := hok
      obtain ⟨r1, r2⟩ := apply_block_at C hC bs m c d held h i o1
      have hshape := (repr_extract C bs m h.le h.small c d held).mpr h
      have hkeep : (c.verifyAndApply C d (honestBlock C bs c d i)).core.publicKey = c.publicKey
          ∧ (c.verifyAndApply C d (honestBlock C bs c d i)).core.tree.fork = c.tree.fork := by
        rw [← honestBlock_extract C bs m c d held h i o1,
          apply_block_shape C hC (bs.extract 0 m) c d held hshape i (by rw [size_extract bs m h.le]; exact o1)]
        simp only []
        rw [LiveRefine.maybeFlush_eq]
        split
        · exact ⟨rfl, rfl⟩
        · exact ⟨rfl, rfl⟩
      obtain ⟨q1, q2⟩ := ih m (c.verifyAndApply C d (honestBlock C bs c d i)).core
        (d.applyAll (c.verifyAndApply C d (honestBlock C bs c d i)).journal) _ r2 hm0 (by rw [hkeep.1, hpk]) (by rw [hkeep.2, hfk]) o2
      refine ⟨?_, by simp only [playResults, actProof, r1, List.map_cons]; rw [q2]⟩
      have : (fun j => held j || fetched (Act.fetch i :: r) j) = (fun j => (held j || j == i) || fetched r j) := by
        funext j; simp [fetched, Bool.or_assoc]
      rw [this]
      simpa [play, lenAfter, actProof] using q1
    | hash d0 o0 =>
      obtain ⟨o1, o2⟩ := hok
      obtain ⟨r1, r2, r3, r4⟩ := apply_hash_at C hC bs m c d held h d0 o0 o1
      obtain ⟨q1, q2⟩ := ih m (c.verifyAndApply C d (honestHash C bs c d d0 o0)).core
        (d.applyAll (c.verifyAndApply C d (honestHash C bs c d d0 o0)).journal) held r2 hm0 (by rw [r3, hpk]) (by rw [r4, hfk]) o2
      refine ⟨?_, by simp only [playResults, actProof, r1, List.map_cons]; rw [q2]⟩
      simpa [play, lenAfter, actProof, fetched] using q1

/-! ### the writer's answer to a hash request -/

theorem create_hash_proof (C : Crypto) (bs : Array Bytes) (t : Tree) (f : File) (hT : RootsOK C bs t.changeset)
    (hN : NodesOK C bs t f) (hs : bs.size < 2 ^ 64) (d0 o0 k : Nat) (hd0 : d0 ≤ 64)
    (hk : (o0 / 2 ^ k + 1) * 2 ^ (d0 + k) ≤ bs.size) :
    t.createValuelessProof f none (some ⟨Flat.index d0 o0, k⟩) none none
      = .ok ⟨t.fork, none, some ⟨Flat.index d0 o0, nodeAt C bs d0 o0 :: sibPath C bs d0 o0 k⟩, none, none⟩ := by
  have hlen : t.length = bs.size := hT.length
  have hpd := pow_pos' (d0 + k)
  have hpos : 0 < bs.size := by
    have : 0 < (o0 / 2 ^ k + 1) * 2 ^ (d0 + k) := Nat.mul_pos (Nat.succ_pos _) hpd
    omega
  have hk64 : d0 + k < 64 := by
    have h1 : 2 ^ (d0 + k) ≤ (o0 / 2 ^ k + 1) * 2 ^ (d0 + k) := Nat.le_mul_of_pos_left _ (Nat.succ_pos _)
    have h2 : 2 ^ (d0 + k) < 2 ^ 64 := by omega
    exact (Nat.pow_lt_pow_iff_right (by decide)).mp h2
  have hnew : Iter.new (Flat.index d0 o0) = iat d0 o0 := new_index d0 o0 hd0
  have hroot := nodesToRoot_go bs.size k 80 d0 o0 (by omega) hk
  have hnewroot : Iter.new (Flat.index (d0 + k) (o0 / 2 ^ k)) = iat (d0 + k) (o0 / 2 ^ k) := new_index _ _ (by omega)
  have hanc : Anc d0 o0 (d0 + k) (o0 / 2 ^ k) := ⟨by omega, by simp⟩
  have hcont : (iat (d0 + k) (o0 / 2 ^ k)).contains (Flat.index d0 o0) = true := by
    -- an ancestor contains the node
    rw [iat_contains]
    have hsp := span_le o0 d0 k
    have hidx := index_eq d0 o0
    have hp0 := pow_pos' d0
    have hlo : o0 / 2 ^ k * 2 ^ (d0 + k) ≤ o0 * 2 ^ d0 := by
      rw [Nat.pow_add]
      have : o0 / 2 ^ k * (2 ^ d0 * 2 ^ k) = (o0 / 2 ^ k * 2 ^ k) * 2 ^ d0 := by ring
      rw [this]; exact Nat.mul_le_mul_right _ (Nat.div_mul_le_self _ _)
    have e1 : o0 / 2 ^ k * 2 ^ (d0 + k + 1) = 2 * (o0 / 2 ^ k * 2 ^ (d0 + k)) := by rw [pow_succ2]; ring
    have e2 : (o0 / 2 ^ k + 1) * 2 ^ (d0 + k + 1) = 2 * ((o0 / 2 ^ k + 1) * 2 ^ (d0 + k)) := by rw [pow_succ2]; ring
    have e3 : o0 * (2 * 2 ^ d0) = 2 * (o0 * 2 ^ d0) := by ring
    have e4 : (o0 + 1) * 2 ^ d0 = o0 * 2 ^ d0 + 2 ^ d0 := by ring
    have h1 : o0 / 2 ^ k * 2 ^ (d0 + k + 1) ≤ Flat.index d0 o0 := by rw [e1, hidx, e3]; omega
    have h2 : Flat.index d0 o0 + 2 ≤ (o0 / 2 ^ k + 1) * 2 ^ (d0 + k + 1) := by rw [e2, hidx, e3]; omega
    simp [h1, h2]
  have hgo := blockProof_go C bs t f hN (2 * t.length) {} k 80 d0 o0 [nodeAt C bs d0 o0] (by omega) hk
  have h0 : ¬ (0 ≥ 2 * t.length ∨ 2 * t.length > 2 * t.length) := by omega
  have hntr : nodesToRoot (Flat.index d0 o0) k (2 * t.length) = .ok (Flat.index (d0 + k) (o0 / 2 ^ k)) := by
    simp only [nodesToRoot, hnew, hlen, hroot]
  have hself : t.requiredNode f (Flat.index d0 o0) = .ok (nodeAt C bs d0 o0) :=
    UpgradeComplete.requiredNode_ok C bs t f hN d0 o0 (Nat.le_trans (span_le o0 d0 k) hk)
  have hbsp : t.blockAndSeekProof f (some ⟨false, Flat.index d0 o0, k, rightSpan (Flat.index d0 o0) / 2⟩) false (2 * t.length)
      (Flat.index (d0 + k) (o0 / 2 ^ k)) {} = .ok { nodes := some (nodeAt C bs d0 o0 :: sibPath C bs d0 o0 k) } := by
    simp only [Tree.blockAndSeekProof, hnewroot, hcont, Bool.not_true, Bool.false_eq_true, ite_false, hnew, hself, Bool.not_false, ite_true, hgo]
    simp
  unfold Tree.createValuelessProof
  simp only [h0, ite_false, Option.isSome_none, Bool.false_and, Bool.false_eq_true, ite_true, hntr, hbsp, Bool.not_true]

end HC.HashReq
