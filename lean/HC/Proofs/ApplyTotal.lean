import HC.Proofs.CreateTotal
import HC.Proofs.Sync
/-!
The core-level calls a peer can trigger are total (C09): `create_proof` (the valueless proof plus the
block's bytes) and `verify_and_apply_proof` (verification, byte offset of the block under the new roots,
oplog entry, bitfield, tree commit, periodic flush) return a value or an error — never a panic.

For the application step two facts are needed beyond `verify_proof_total`:
* `byte_offset_in_changeset` walks the replica's *own* tree (`byteOffsetFromNodes_total`);
* the tree commit's only panic site is a truncating commit (`ancestors < original length`), and the
  changeset that `verify_proof` returns keeps both numbers of the tree's changeset (`verifyProof_keeps`).
-/
namespace HC.ApplyTotal
open HC HC.Codec HC.Flat HC.Tree HC.CreateTotal

/-- the two fields the commit's panic site looks at -/
def K (a b : Changeset) : Prop := b.ancestors = a.ancestors ∧ b.origLength = a.origLength

theorem K.refl (a : Changeset) : K a a := ⟨rfl, rfl⟩
theorem K.trans {a b c : Changeset} (h1 : K a b) (h2 : K b c) : K a c := ⟨h2.1.trans h1.1, h2.2.trans h1.2⟩

theorem appendRoot_K (C : Crypto) (cs : Changeset) (n : Node) (it : Iter) : K cs (appendRoot C cs n it).1 := ⟨rfl, rfl⟩

theorem growLoop_K (C : Crypto) (rootIndex : Nat) : ∀ (fuel : Nat) (cs : Changeset) (it : Iter) (q : NodeQueue) (r : Changeset × Iter × NodeQueue),
    growLoop C rootIndex fuel cs it q = .ok r → K cs r.1 := by
  intro fuel
  induction fuel with
  | zero => intro cs it q r h; simp [growLoop] at h
  | succ fuel ih =>
    intro cs it q r h
    simp only [growLoop] at h
    split at h
    · cases h; exact K.refl _
    · cases hs : q.shift it.sibling.index with
      | error e => rw [hs] at h; cases h
      | ok x =>
        rw [hs] at h
        simp only [] at h
        exact (appendRoot_K C cs x.1 it.sibling).trans (ih _ _ _ r h)

theorem upgradeRoots_K (C : Crypto) (upto : Nat) : ∀ (fuel : Nat) (st st' : UpState),
    upgradeRoots C upto fuel st = .ok st' → K st.cs st'.cs := by
  intro fuel
  induction fuel with
  | zero => intro st st' h; simp [upgradeRoots] at h
  | succ fuel ih =>
    intro st st' h
    simp only [upgradeRoots] at h
    split at h
    · cases h; exact K.refl _
    · split at h
      · have k := ih _ _ h
        exact k
      · split at h
        · cases hg : growLoop C (st.it.fullRoot upto).2.index (st.q.nodes.length + 3) st.cs
              (Iter.new (st.cs.roots.getLast?.getD default).index) st.q with
          | error e => rw [hg] at h; cases h
          | ok x =>
            rw [hg] at h
            simp only [] at h
            have k := ih _ _ h
            exact (growLoop_K C _ _ _ _ _ x hg).trans k
        · cases hs : st.q.shift (st.it.fullRoot upto).2.index with
          | error e => rw [hs] at h; cases h
          | ok x =>
            rw [hs] at h
            simp only [] at h
            have k := ih _ _ h
            exact (appendRoot_K C st.cs x.1 _).trans k

theorem extraSiblings_K (C : Crypto) : ∀ (fuel : Nat) (cs : Changeset) (it : Iter) (ex : List Node),
    K cs (extraSiblings C fuel cs it ex).1 := by
  intro fuel
  induction fuel with
  | zero => intro cs it ex; exact K.refl _
  | succ fuel ih =>
    intro cs it ex
    cases ex with
    | nil => exact K.refl _
    | cons n ex =>
      simp only [extraSiblings]
      split
      · exact (appendRoot_K C cs n it.sibling).trans (ih _ _ _)
      · exact K.refl _

theorem extraRest_K (C : Crypto) : ∀ (ex : List Node) (cs : Changeset) (it : Iter) (r : Changeset × Iter),
    extraRest C cs it ex = .ok r → K cs r.1 := by
  intro ex
  induction ex with
  | nil => intro cs it r h; simp only [extraRest] at h; cases h; exact K.refl _
  | cons n ex ih =>
    intro cs it r h
    simp only [extraRest] at h
    cases hd : descendTo n.index (it.factor + 1) it with
    | error e => rw [hd] at h; cases h
    | ok it1 =>
      rw [hd] at h
      simp only [] at h
      exact (appendRoot_K C cs n it1).trans (ih _ _ r h)

theorem checkSignature_K (C : Crypto) (fork : Nat) (u : DataUpgrade) (pk : Bytes) (consumed : Bool) (cs : Changeset)
    (r : Bool × Changeset) (h : checkSignature C fork u pk consumed cs = .ok r) : K cs r.2 := by
  unfold checkSignature at h
  simp only [] at h
  split at h
  · cases h
  · split at h
    · cases h
    · cases h; exact ⟨rfl, rfl⟩

theorem verifyUpgrade_K (C : Crypto) (fork : Nat) (u : DataUpgrade) (blockRoot : Option Node) (pk : Bytes) (cs : Changeset)
    (r : Bool × Changeset) (h : verifyUpgrade C fork u blockRoot pk cs = .ok r) : K cs r.2 := by
  unfold verifyUpgrade andThen at h
  simp only [] at h
  cases hu : upgradeRoots C (2 * (u.start + u.length)) (2 * (u.start + u.length) + 2)
      ⟨cs, Iter.new 0, NodeQueue.new u.nodes blockRoot, 0, !cs.roots.isEmpty⟩ with
  | error e => rw [hu] at h; cases h
  | ok st =>
    rw [hu] at h
    simp only [] at h
    have k1 : K cs st.cs := upgradeRoots_K C _ _ _ st hu
    cases hl : st.cs.roots.getLast? with
    | none => rw [hl] at h; cases h
    | some last =>
      rw [hl] at h
      simp only [] at h
      have k2 := extraSiblings_K C (u.additionalNodes.length + 1) st.cs (Iter.new last.index) u.additionalNodes
      generalize extraSiblings C (u.additionalNodes.length + 1) st.cs (Iter.new last.index) u.additionalNodes = es at h k2
      cases hr : extraRest C es.1 es.2.1 es.2.2 with
      | error e => rw [hr] at h; cases h
      | ok x =>
        rw [hr] at h
        simp only [] at h
        have k3 := extraRest_K C _ _ _ x hr
        have k4 := checkSignature_K C fork u pk _ x.1 r h
        exact k1.trans (k2.trans (k3.trans k4))

theorem verifyTree_K (C : Crypto) (block : Option DataBlock) (hash : Option DataHash) (seek : Option DataSeek) (cs : Changeset)
    (r : Option Node × Changeset) (h : verifyTree C block hash seek cs = .ok r) : K cs r.2 := by
  unfold verifyTree andThen at h
  simp only [] at h
  split at h
  · cases h; exact K.refl _
  · cases hs : seekHalf C seek cs.rnodes with
    | error e => rw [hs] at h; cases h
    | ok x =>
      rw [hs] at h
      simp only [] at h
      cases hun : untrustedOf block hash with
      | none => rw [hun] at h; simp only [] at h; cases h; exact ⟨rfl, rfl⟩
      | some v =>
        rw [hun] at h
        simp only [] at h
        cases hm : mainHalf C v.1 v.2.1 v.2.2 x.1 x.2 with
        | error e => rw [hm] at h; cases h
        | ok y => rw [hm] at h; simp only [] at h; cases h; exact ⟨rfl, rfl⟩

/-- the changeset `verify_proof` returns was made from the current tree: it keeps its `ancestors` and its
    original length -/
theorem verifyProof_keeps (C : Crypto) (t : Tree) (f : File) (p : Proof) (pk : Bytes) (cs : Changeset)
    (h : verifyProof C t f p pk = .ok cs) : cs.ancestors = t.length ∧ cs.origLength = t.length := by
  have key : K t.changeset cs := by
    unfold verifyProof at h
    cases hv : verifyTree C p.block p.hash p.seek t.changeset with
    | error e => rw [hv] at h; cases h
    | ok r =>
      rw [hv] at h
      obtain ⟨root, cs1⟩ := r
      simp only [] at h
      have k1 : K t.changeset cs1 := verifyTree_K C _ _ _ _ _ hv
      cases hu : p.upgrade with
      | none =>
        rw [hu] at h
        simp only [] at h
        cases root with
        | none => simp only [] at h; cases h; exact k1
        | some r =>
          simp only [] at h
          cases hreq : t.requiredNode f r.index with
          | error e => rw [hreq] at h; cases h
          | ok v =>
            rw [hreq] at h
            simp only [] at h
            split at h
            · cases h
            · cases h; exact k1
      | some u =>
        rw [hu] at h
        simp only [] at h
        cases hvu : verifyUpgrade C p.fork u root pk cs1 with
        | error e => rw [hvu] at h; cases h
        | ok r2 =>
          rw [hvu] at h
          obtain ⟨consumed, cs2⟩ := r2
          have k2 : K cs1 cs2 := verifyUpgrade_K C _ _ _ _ _ _ hvu
          simp only [] at h
          cases hun : (if consumed = true then none else root) with
          | none => rw [hun] at h; simp only [] at h; cases h; exact k1.trans k2
          | some r =>
            rw [hun] at h
            simp only [] at h
            cases hreq : t.requiredNode f r.index with
            | error e => rw [hreq] at h; cases h
            | ok v =>
              rw [hreq] at h
              simp only [] at h
              split at h
              · cases h
              · cases h; exact k1.trans k2
  exact ⟨key.1, key.2⟩

theorem commit_notPanic (t : Tree) (cs : Changeset) (h : cs.ancestors = t.length ∧ cs.origLength = t.length) :
    NotPanic (t.commit cs) := by
  unfold Tree.commit
  split
  · exact err_notPanic
  · split
    · rename_i hc
      simp only [Bool.and_eq_true, decide_eq_true_eq] at hc
      omega
    · exact ok_notPanic _

theorem byteOffsetInChangeset_total (t : Tree) (f : File) (hT : RootShape t) (i : Nat) (cs : Changeset) :
    NotPanic (t.byteOffsetInChangeset f i cs) := by
  unfold Tree.byteOffsetInChangeset
  split
  · exact ok_notPanic _
  · simp only []
    generalize byteOffsetInChangeset.scan cs.nodes (Iter.new (2 * i)) 0 false none = sc
    obtain ⟨treeOffset, par⟩ := sc
    simp only []
    cases par with
    | some p =>
      simp only []
      cases cs.roots.findIdx? (fun r => r.index = p.index) with
      | some r => exact ok_notPanic _
      | none =>
        simp only []
        have := byteOffsetFromNodes_total t f hT p.index
        cases hb : t.byteOffsetFromNodes f p.index with
        | error e => rw [hb] at this; exact notPanic_cast this
        | ok off => exact ok_notPanic _
    | none =>
      simp only []
      have := byteOffsetFromNodes_total t f hT (2 * i)
      cases hb : t.byteOffsetFromNodes f (2 * i) with
      | error e => rw [hb] at this; exact notPanic_cast this
      | ok off => exact ok_notPanic _

theorem byteRange_total (t : Tree) (f : File) (hT : RootShape t) (i : Nat) : NotPanic (t.byteRange f i) := by
  unfold Tree.byteRange Tree.validateIndex
  split
  · rename_i e hv
    simp only [] at hv
    split at hv
    · cases hv; exact err_notPanic
    · cases hv
  · rename_i index hv
    cases hreq : t.requiredNode f index with
    | error e =>
      have := requiredNode_notPanic t f index
      rw [hreq] at this
      exact notPanic_cast this
    | ok n =>
      simp only []
      have := byteOffsetFromNodes_total t f hT index
      cases hb : t.byteOffsetFromNodes f index with
      | error e => rw [hb] at this; exact notPanic_cast this
      | ok off => exact ok_notPanic _

theorem getBlock_total (c : Core) (d : Disk) (hT : RootShape c.tree) (i : Nat) : NotPanic (c.getBlock d i).result := by
  unfold Core.getBlock
  split
  · exact ok_notPanic _
  · have := byteRange_total c.tree d.tree hT i
    cases hb : c.tree.byteRange d.tree i with
    | error e => rw [hb] at this; exact notPanic_cast this
    | ok r =>
      obtain ⟨off, len⟩ := r
      simp only []
      split
      · exact ok_notPanic _
      · cases d.data.read off len with
        | none => exact err_notPanic
        | some bs => exact ok_notPanic _

/-- **`create_proof` is total.** -/
theorem createProof_total (c : Core) (d : Disk) (hT : RootShape c.tree) (block hash : Option RequestBlock) (seek : Option RequestSeek)
    (upgrade : Option RequestUpgrade)
    (hb : ∀ b, block = some b → b.index < 2 ^ 63) (hh : ∀ h, hash = some h → h.index < 2 ^ 65 - 1) :
    NotPanic (c.createProof d block hash seek upgrade).result := by
  unfold Core.createProof
  have h1 := create_total c.tree d.tree hT block hash seek upgrade hb hh
  cases hv : c.tree.createValuelessProof d.tree block hash seek upgrade with
  | error e => rw [hv] at h1; exact notPanic_cast h1
  | ok vp =>
    simp only []
    cases vp.block with
    | none => exact ok_notPanic _
    | some b =>
      simp only []
      have h2 := getBlock_total c d hT b.index
      cases hg : (c.getBlock d b.index).result with
      | error e => rw [hg] at h2; exact notPanic_cast h2
      | ok v =>
        cases v with
        | none => exact ok_notPanic _
        | some v => exact ok_notPanic _

/-- **`verify_and_apply_proof` is total**: for every proof whatsoever, on every core whose tree has its roots
    at the root positions of its length. -/
theorem verifyAndApply_total (C : Crypto) (c : Core) (d : Disk) (hT : RootShape c.tree) (p : Proof) :
    NotPanic (c.verifyAndApply C d p).result := by
  unfold Core.verifyAndApply
  split
  · exact ok_notPanic _
  · have h1 := verifyProof_notPanic C c.tree d.tree p c.publicKey
    cases hv : verifyProof C c.tree d.tree p c.publicKey with
    | error e => rw [hv] at h1; exact notPanic_cast h1
    | ok cs =>
      simp only []
      split
      · exact ok_notPanic _
      · have hk := verifyProof_keeps C c.tree d.tree p c.publicKey cs hv
        have hds : NotPanic (Core.dataStep c d p cs) := by
          unfold Core.dataStep
          cases p.block with
          | none => exact ok_notPanic _
          | some b =>
            simp only []
            have := byteOffsetInChangeset_total c.tree d.tree hT b.index cs
            cases hb : c.tree.byteOffsetInChangeset d.tree b.index cs with
            | error e => rw [hb] at this; exact notPanic_cast this
            | ok off => exact ok_notPanic _
        cases hd : Core.dataStep c d p cs with
        | error e => rw [hd] at hds; exact notPanic_cast hds
        | ok r =>
          obtain ⟨j0, bu⟩ := r
          simp only []
          by_cases henc : Core.encodable cs = true
          · rw [if_pos henc]
            unfold Core.applyVerified
            simp only []
            have hc := commit_notPanic c.tree cs hk
            cases hcm : c.tree.commit cs with
            | error e => rw [hcm] at hc; simp only [Core.finishApply]; exact notPanic_cast hc
            | ok tr => simp only [Core.finishApply]; exact ok_notPanic _
          · rw [if_neg henc]
            intro hpanic
            cases hpanic

/-! ### where `RootShape` holds -/

theorem rootShape_of_roots (t : Tree) (n : Nat) (hn : n < 2 ^ 64) (hl : t.length = n)
    (hr : t.roots.map (·.index) = (RefTree.rootsStack n).reverse.map (fun p => Flat.index p.1 p.2)) : RootShape t :=
  ⟨by omega, (RefTree.rootsStack n).reverse, by rw [hl]; exact Offsets.cover_roots n, hr⟩

theorem rootShape_of_rootsOK (C : Crypto) (bs : Array Bytes) (t : Tree) (h : RefProof.RootsOK C bs t.changeset) (hs : bs.size < 2 ^ 64) :
    RootShape t := by
  apply rootShape_of_roots t bs.size hs h.length
  have hr : t.roots.reverse = (RefTree.rootsStack bs.size).map (fun p => RefTree.nodeAt C bs p.1 p.2) := h.roots
  have : t.roots = ((RefTree.rootsStack bs.size).map (fun p => RefTree.nodeAt C bs p.1 p.2)).reverse := by
    rw [← hr, List.reverse_reverse]
  rw [this, ← List.map_reverse, List.map_map]
  rfl

theorem rootShape_empty : RootShape {} := ⟨by decide, [], Offsets.Cover.nil 0, rfl⟩

end HC.ApplyTotal
